import Sebuf.Schema
import Sebuf.Json
import Sebuf.Bytes
/-!
`Spec`: the documented JSON mapping — the standard proto3 JSON mapping modified only as the
sebuf annotations document, applied wherever an annotated field or type occurs (top level,
nested, list element, map value, oneof variant, flatten child, sibling of an unwrap map).

Values (`Val`) carry what a message holds, with the two textual leaves the model does not
compute supplied by the harness from the real library: the proto3 JSON text of a float and the
RFC 3339 / date renderings of a Timestamp.

`pj` (annotations ignored) is the model of plain protojson; `enc` is the documented mapping.
Both are the same function, `encWith`, run with annotations switched off or on.
-/
namespace Sebuf.Mapping
open Sebuf

inductive Val
  | int (i : Int)
  | bool (b : Bool)
  | str (s : Str)
  | float (tok : Str) (quoted : Bool)      -- protojson text; quoted for "NaN" / "Infinity" / "-Infinity"
  | bytes (b : Bytes)
  | enum (num : Int)
  | ts (secs : Int) (nanos : Nat) (rfc : Str) (date : Str)
  | msg (fields : List (Str × Val))        -- populated fields, by proto field name
  | list (l : List Val)
  | map (kvs : List (Str × Val))           -- keys as protojson renders them (object keys)
deriving Repr, Inhabited

def bytesToStr (b : Bytes) : Str := b.map Char.ofNat

def intJson (asNumber : Bool) (i : Int) : Json :=
  if asNumber then Json.num (JNum.int i) else Json.str (toString i).toList

def enumJson (rq : Request) (ann : Bool) (f : Field) (n : Int) : Json :=
  if ann && f.enumEnc == 2 then Json.num (JNum.int n)
  else match rq.findEnum f.typeName with
    | none => Json.num (JNum.int n)
    | some e =>
      match e.values.find? (·.1 == n) with
      | none => Json.num (JNum.int n)            -- unknown number: protojson prints the number
      | some (_, name, custom) =>
        match custom with
        | some c => if ann then Json.str c else Json.str name
        | none => Json.str name

def tsJson (ann : Bool) (f : Field) (secs : Int) (nanos : Nat) (rfc date : Str) : Json :=
  if !ann then Json.str rfc else
  match f.tsFormat with
  | 2 => Json.num (JNum.int secs)
  | 3 => Json.num (JNum.int (secs * 1000 + (nanos / 1000000 : Nat)))
  | 4 => Json.str date
  | _ => Json.str rfc

def bytesJson (ann : Bool) (f : Field) (b : Bytes) : Json :=
  Json.str (bytesToStr (sebufBytesEncode (if ann then f.bytesEnc else 0) b))

/-- a scalar (non-message) value of field `f`. (An empty message under `empty_behavior` is one with
no populated field — for a Timestamp: seconds = 0 and nanos = 0.) -/
def scalarJson (rq : Request) (ann : Bool) (f : Field) : Val → Json
  | .int i => intJson (!f.kind.isInt64 || (ann && f.int64Enc == 2)) i
  | .bool b => Json.bool b
  | .str s => Json.str s
  | .float tok q => if q then Json.str tok else Json.num (JNum.float tok)
  | .bytes b => bytesJson ann f b
  | .enum n => enumJson rq ann f n
  | .ts s n r d => tsJson ann f s n r d
  | _ => Json.null

/-- the repeated field of a message carrying `unwrap` (map-value unwrap wrapper / root list). -/
def unwrapField (m : Message) : Option Field := m.fields.find? (·.unwrap)

mutual
  /-- encode a message value of type `m`. -/
  def encMsg (rq : Request) (ann goNil : Bool) : Nat → Message → List (Str × Val) → Json
    | 0, _, _ => Json.null
    | fuel + 1, m, vs =>
      -- root unwrap: a single unwrap field serialises as the bare array / object
      if ann && m.fields.length == 1 && (m.fields.any (·.unwrap)) then
        match m.fields with
        | [f] => (match vs.lookup f.name with
            | some v => encFieldVal rq ann goNil fuel f v
            | none =>
              -- Go: `json.Marshal` of a nil slice / map of scalars prints null
              if goNil && f.kind != .message then Json.null
              else if f.card == .map then Json.obj [] else Json.arr [])
        | _ => Json.null
      else Json.obj (encFields rq ann goNil fuel m m.fields vs)

  /-- the members the fields of a message contribute to its JSON object. -/
  def encFields (rq : Request) (ann goNil : Bool) : Nat → Message → List Field → List (Str × Val) → List (Str × Json)
    | 0, _, _, _ => []
    | _, _, [], _ => []
    | fuel + 1, m, f :: rest, vs =>
      let tail := encFields rq ann goNil (fuel + 1) m rest vs
      match vs.lookup f.name with
      | none =>
        (if ann && f.nullable then [(f.json, Json.null)] else []) ++ tail
      | some v =>
        let own : List (Str × Json) :=
          -- a member of a discriminated oneof
          match (if ann then f.oneof.bind (fun o => m.oneofs.find? (fun d => d.name == o && d.hasConfig && d.discriminator != [])) else none) with
          | some d =>
            let tag := Json.str ((f.oneofValue).getD f.name)
            if d.flatten then
              (d.discriminator, tag) :: (match encFieldVal rq ann goNil fuel f v with | Json.obj kvs => kvs | _ => [])
            else [(d.discriminator, tag), (f.json, encFieldVal rq ann goNil fuel f v)]
          | none =>
            if ann && f.flatten && f.card == .singular && f.kind == .message then
              match encFieldVal rq ann goNil fuel f v with
              | Json.obj kvs => kvs.map fun p => (f.flattenPrefix ++ p.1, p.2)
              | _ => []
            else if ann && f.emptyBehavior != 0 && f.card == .singular && f.kind == .message &&
                    (match v with | .msg [] => true | .ts 0 0 _ _ => true | _ => false) then
              match f.emptyBehavior with
              | 2 => [(f.json, Json.null)]
              | 3 => []
              | _ => [(f.json, Json.obj [])]
            else [(f.json, encFieldVal rq ann goNil fuel f v)]
        own ++ tail

  /-- the JSON value of one field (any cardinality). -/
  def encFieldVal (rq : Request) (ann goNil : Bool) : Nat → Field → Val → Json
    | 0, _, _ => Json.null
    | fuel + 1, f, v =>
      match v with
      | .list l => Json.arr (encList rq ann goNil fuel f l)
      | .map kvs => Json.obj (encMap rq ann goNil fuel f kvs)
      | .msg vs =>
        (match rq.findMessage f.typeName with
         | some m => encMsg rq ann goNil fuel m vs
         | none => Json.null)
      | s => scalarJson rq ann f s

  def encList (rq : Request) (ann goNil : Bool) : Nat → Field → List Val → List Json
    | 0, _, _ => []
    | _, _, [] => []
    | fuel + 1, f, v :: rest => encFieldVal rq ann goNil fuel f v :: encList rq ann goNil (fuel + 1) f rest

  def encMap (rq : Request) (ann goNil : Bool) : Nat → Field → List (Str × Val) → List (Str × Json)
    | 0, _, _ => []
    | _, _, [] => []
    | fuel + 1, f, (k, v) :: rest =>
      -- map-value unwrap: a value whose type has a repeated unwrap field collapses to that array
      let one : Json :=
        match v with
        | .msg vs =>
          (match rq.findMessage f.typeName with
           | some m =>
             (match (if ann then m.fields.find? (fun u => u.unwrap && u.card == .repeated) else none) with
              | some uf => (match vs.lookup uf.name with
                  | some uv => encFieldVal rq ann goNil fuel uf uv
                  | none => if goNil && uf.kind != .message then Json.null else Json.arr [])
              | none => encMsg rq ann goNil fuel m vs)
           | none => Json.null)
        | s => encFieldVal rq ann goNil fuel f s
      (k, one) :: encMap rq ann goNil (fuel + 1) f rest
end

/-- the documented mapping. -/
def enc (rq : Request) (fuel : Nat) (m : Message) (vs : List (Str × Val)) : Json := encMsg rq true false fuel m vs
/-- plain proto3 JSON (annotations ignored). -/
def pj (rq : Request) (fuel : Nat) (m : Message) (vs : List (Str × Val)) : Json := encMsg rq false false fuel m vs

end Sebuf.Mapping
