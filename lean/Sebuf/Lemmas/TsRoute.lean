/-
Lemmas about `Sebuf/TsRoute.lean`: the emitted TypeScript client's string substitutions agree
with a segment-wise reading of the template, the index the TS server generator computes is the
position of the variable in that template, percent-encoding written by one side is undone by the
other (all four client/server pairings), and the URL parser leaves dot-free paths alone.
-/
import Sebuf.TsRoute
import Sebuf.Lemmas.Query

namespace Sebuf.TsRoute
open Sebuf

/-! ## Bytes an encoder never produces -/

/-- A byte above `'F'` that is not kept never occurs in the output of the percent-encoder
(for byte strings proper). -/
theorem not_mem_escapeWith_hi (keep : Nat → Bool) (sp : Bool) (c : Nat)
    (hk : keep c = false) (hc : 70 < c) (bs : Bytes) (h : ∀ b ∈ bs, b < 256) :
    c ∉ escapeWith keep sp bs := by
  induction bs with
  | nil => simp [escapeWith]
  | cons b bs ih =>
    have hb : b < 256 := h b (List.mem_cons_self ..)
    have ih' := ih (fun x hx => h x (List.mem_cons_of_mem _ hx))
    unfold escapeWith
    have hx : ∀ n, n < 16 → c ≠ hexUpper n := by
      intro n hn e
      unfold hexUpper at e
      split at e <;> omega
    by_cases hkb : keep b = true
    · rw [if_pos hkb]
      have : c ≠ b := by
        intro hcb; subst hcb; rw [hk] at hkb; exact Bool.noConfusion hkb
      simp [this, ih']
    · rw [if_neg hkb]
      by_cases hs : (sp && b == 32) = true
      · rw [if_pos hs]
        have : c ≠ 43 := by omega
        simp [this, ih']
      · rw [if_neg hs]
        have h37 : c ≠ 37 := by omega
        simp [h37, hx (b / 16) (by omega), hx (b % 16) (by omega), ih']

theorem encodeURIComponent_no_lbrace (v : Bytes) (h : ∀ b ∈ v, b < 256) : 123 ∉ encodeURIComponent v :=
  not_mem_escapeWith_hi uriComponentKeep false 123 (by decide) (by decide) v h

theorem encodeURIComponent_no_slash (v : Bytes) : 47 ∉ encodeURIComponent v :=
  not_mem_escapeWith uriComponentKeep false 47 (by decide) (by decide) (by decide) (fun h => Bool.noConfusion h) v

/-- the replacement never contains `$` (so `String.prototype.replace` inserts it literally). -/
theorem encodeURIComponent_no_dollar (v : Bytes) : 36 ∉ encodeURIComponent v :=
  not_mem_escapeWith uriComponentKeep false 36 (by decide) (by decide) (by decide) (fun h => Bool.noConfusion h) v

theorem formEncode_no_amp (v : Bytes) : 38 ∉ formEncode v :=
  not_mem_escapeWith formKeep true 38 (by decide) (by decide) (by decide) (fun _ => by decide) v

theorem formEncode_no_eq (v : Bytes) : 61 ∉ formEncode v :=
  not_mem_escapeWith formKeep true 61 (by decide) (by decide) (by decide) (fun _ => by decide) v

theorem formEncode_no_semicolon (v : Bytes) : 59 ∉ formEncode v :=
  not_mem_escapeWith formKeep true 59 (by decide) (by decide) (by decide) (fun _ => by decide) v

theorem formKeep_ne_pct (b : Nat) (h : formKeep b = true) : b ≠ 37 := by
  intro hb; subst hb; revert h; decide

theorem formKeep_ne_plus (b : Nat) (h : formKeep b = true) : b ≠ 43 := by
  intro hb; subst hb; revert h; decide

/-! ## `String.prototype.replace` -/

theorem replaceFirst_skip (q rep pre s : Bytes) (h : 123 ∉ pre) :
    replaceFirst (123 :: q) rep (pre ++ s) = pre ++ replaceFirst (123 :: q) rep s := by
  induction pre with
  | nil => rfl
  | cons b pre ih =>
    have hb : b ≠ 123 := fun e => h (e ▸ List.mem_cons_self ..)
    have hp : 123 ∉ pre := fun m => h (List.mem_cons_of_mem _ m)
    have hne : (123 == b) = false := by
      simp only [beq_eq_false_iff_ne, ne_eq]
      exact fun e => hb e.symm
    show replaceFirst (123 :: q) rep (b :: (pre ++ s)) = b :: (pre ++ replaceFirst (123 :: q) rep s)
    rw [replaceFirst]
    simp only [List.isPrefixOf, hne, Bool.false_and]
    rw [ih hp]
    rfl

theorem isPrefixOf_append_self (p s : Bytes) : p.isPrefixOf (p ++ s) = true := by
  induction p with
  | nil => simp [List.isPrefixOf]
  | cons a p ih => simp [ih]

theorem replaceFirst_here (c : Nat) (q rep s : Bytes) :
    replaceFirst (c :: q) rep ((c :: q) ++ s) = rep ++ s := by
  show replaceFirst (c :: q) rep (c :: (q ++ s)) = rep ++ s
  rw [replaceFirst]
  have h : (c :: q).isPrefixOf (c :: (q ++ s)) = true := isPrefixOf_append_self (c :: q) s
  rw [if_pos h]
  have : (c :: (q ++ s)).drop (c :: q).length = s := by
    show ((c :: q) ++ s).drop (c :: q).length = s
    exact List.drop_left
  rw [this]

/-- what a well-formed template is for the client's substitutions: literal segments do not
contain `{`. -/
def LitsBraceFree (tpl : List Seg) : Prop := ∀ s, Seg.lit s ∈ tpl → 123 ∉ s

/-- Boolean form of `LitsBraceFree`, for closed templates. -/
theorem litsBraceFree_of_all (tpl : List Seg)
    (h : (tpl.all fun s => match s with | .lit t => !t.contains 123 | .var _ => true) = true) : LitsBraceFree tpl := by
  intro t ht
  have := List.all_eq_true.1 h (Seg.lit t) ht
  simpa using this

theorem tsClientPath_aux (tpl : List Seg) (vals : Bytes → Bytes)
    (hl : LitsBraceFree tpl) (hv : ∀ n, Seg.var n ∈ tpl → ∀ b ∈ vals n, b < 256) :
    ∀ pre : Bytes, 123 ∉ pre →
      tsClientPath (pre ++ tplString tpl) (varsOf tpl) vals = pre ++ tsRenderPath tpl vals := by
  induction tpl with
  | nil =>
    intro pre _
    simp [tsClientPath, tplString, varsOf, tsRenderPath]
  | cons s tpl ih =>
    have ih' := ih (fun t ht => hl t (List.mem_cons_of_mem _ ht)) (fun n hn => hv n (List.mem_cons_of_mem _ hn))
    intro pre hpre
    cases s with
    | lit t =>
      have ht : 123 ∉ t := hl t (List.mem_cons_self ..)
      have hpre' : 123 ∉ pre ++ 47 :: t := by
        simp only [List.mem_append, List.mem_cons, not_or]
        exact ⟨hpre, by decide, ht⟩
      have e1 : pre ++ tplString (Seg.lit t :: tpl) = (pre ++ 47 :: t) ++ tplString tpl := by
        simp [tplString, segText]
      have e2 : pre ++ tsRenderPath (Seg.lit t :: tpl) vals = (pre ++ 47 :: t) ++ tsRenderPath tpl vals := by
        simp [tsRenderPath, tsRenderSeg]
      have e3 : varsOf (Seg.lit t :: tpl) = varsOf tpl := by simp [varsOf]
      rw [e1, e2, e3]
      exact ih' _ hpre'
    | var n =>
      have hn := hv n (List.mem_cons_self ..)
      have henc : 123 ∉ encodeURIComponent (vals n) := encodeURIComponent_no_lbrace _ hn
      have hpre1 : 123 ∉ pre ++ [47] := by
        simp only [List.mem_append, List.mem_cons, List.mem_nil_iff, or_false, not_or]
        exact ⟨hpre, by decide⟩
      have hpre' : 123 ∉ (pre ++ [47]) ++ encodeURIComponent (vals n) := by
        simp only [List.mem_append, not_or]
        exact ⟨by simpa using hpre1, henc⟩
      have e1 : pre ++ tplString (Seg.var n :: tpl) = (pre ++ [47]) ++ (brace n ++ tplString tpl) := by
        simp [tplString, segText]
      have e2 : pre ++ tsRenderPath (Seg.var n :: tpl) vals
          = ((pre ++ [47]) ++ encodeURIComponent (vals n)) ++ tsRenderPath tpl vals := by
        simp [tsRenderPath, tsRenderSeg]
      have e3 : varsOf (Seg.var n :: tpl) = n :: varsOf tpl := by simp [varsOf]
      rw [e1, e2, e3]
      show tsClientPath (replaceFirst (brace n) (encodeURIComponent (vals n)) ((pre ++ [47]) ++ (brace n ++ tplString tpl)))
          (varsOf tpl) vals = _
      have hb : brace n = 123 :: (n ++ [125]) := rfl
      rw [hb, replaceFirst_skip _ _ _ _ hpre1, replaceFirst_here]
      rw [← List.append_assoc]
      exact ih' _ hpre'

/-- **the client's substitutions are segment-wise**: replacing `{p}` by the encoded value, one
parameter after the other in template order, yields the template with every variable segment
replaced by its encoded value — for EVERY byte-string value. -/
theorem tsClientPath_eq_render (tpl : List Seg) (vals : Bytes → Bytes)
    (hl : LitsBraceFree tpl) (hv : ∀ n, Seg.var n ∈ tpl → ∀ b ∈ vals n, b < 256) :
    tsClientPath (tplString tpl) (varsOf tpl) vals = tsRenderPath tpl vals := by
  have := tsClientPath_aux tpl vals hl hv [] (by simp)
  simpa using this

/-! ## Splitting a printed template / path -/

theorem splitByte_flatten (f : Seg → Bytes) (tpl : List Seg) (hf : ∀ s ∈ tpl, 47 ∉ f s) :
    ∀ a : Bytes, 47 ∉ a →
      splitByte 47 (a ++ (tpl.map fun s => 47 :: f s).flatten) = a :: tpl.map f := by
  induction tpl with
  | nil =>
    intro a ha
    simpa using splitByte_no_sep 47 a ha
  | cons s tpl ih =>
    intro a ha
    have ih' := ih (fun t ht => hf t (List.mem_cons_of_mem _ ht))
    have e : a ++ ((s :: tpl).map fun s => 47 :: f s).flatten
        = a ++ 47 :: (f s ++ (tpl.map fun s => 47 :: f s).flatten) := by simp
    rw [e, splitByte_append_sep 47 a _ ha, ih' (f s) (hf s (List.mem_cons_self ..))]
    rfl

theorem splitSlash_flatten (f : Seg → Bytes) (tpl : List Seg) (hf : ∀ s ∈ tpl, 47 ∉ f s) :
    splitSlash ((tpl.map fun s => 47 :: f s).flatten) = [] :: tpl.map f := by
  have := splitByte_flatten f tpl hf [] (by simp)
  simpa [splitSlash] using this

/-- segments without `/`: literal segments and variable names. -/
def SegsSlashFree (tpl : List Seg) : Prop :=
  (∀ s, Seg.lit s ∈ tpl → 47 ∉ s) ∧ (∀ n, Seg.var n ∈ tpl → 47 ∉ n)

/-- Boolean form of `SegsSlashFree`, for closed templates. -/
theorem segsSlashFree_of_all (tpl : List Seg)
    (h : (tpl.all fun s => match s with | .lit t => !t.contains 47 | .var n => !n.contains 47) = true) : SegsSlashFree tpl := by
  constructor
  · intro t ht
    have := List.all_eq_true.1 h (Seg.lit t) ht
    simpa using this
  · intro n hn
    have := List.all_eq_true.1 h (Seg.var n) hn
    simpa using this

theorem splitSlash_tplString (tpl : List Seg) (h : SegsSlashFree tpl) :
    splitSlash (tplString tpl) = [] :: tpl.map segText := by
  apply splitSlash_flatten
  intro s hs
  cases s with
  | lit t => exact h.1 t hs
  | var n =>
    have := h.2 n hs
    simp [segText, brace, this]

theorem splitSlash_tsRenderPath (tpl : List Seg) (vals : Bytes → Bytes)
    (h : ∀ s, Seg.lit s ∈ tpl → 47 ∉ s) :
    splitSlash (tsRenderPath tpl vals) = [] :: tpl.map (tsRenderSeg vals) := by
  apply splitSlash_flatten
  intro s hs
  cases s with
  | lit t => exact h t hs
  | var n => exact encodeURIComponent_no_slash _

theorem brace_inj (n m : Bytes) (h : brace n = brace m) : n = m := by
  unfold brace at h
  have h' := List.cons.inj h
  exact List.append_cancel_right h'.2

/-- **index agreement**: the index the generator computes for `{n}` in the printed template is
the position of the first variable segment named `n`, and the segment of the client's path at
that index is the encoded value of `n`. -/
theorem index_and_segment (tpl : List Seg) (vals : Bytes → Bytes) (hl : LitsBraceFree tpl)
    (n : Bytes) (hn : Seg.var n ∈ tpl) :
    ∃ i, indexOfSeg (brace n) (tpl.map segText) = some i ∧
      (tpl.map (tsRenderSeg vals)).getD i [] = encodeURIComponent (vals n) := by
  induction tpl with
  | nil => cases hn
  | cons s tpl ih =>
    cases s with
    | lit t =>
      have ht : 123 ∉ t := hl t (List.mem_cons_self ..)
      have hne : t ≠ brace n := by
        intro e; apply ht; rw [e]; simp [brace]
      have hn' : Seg.var n ∈ tpl := by
        rcases List.mem_cons.1 hn with e | m
        · cases e
        · exact m
      obtain ⟨i, hi, hg⟩ := ih (fun t ht => hl t (List.mem_cons_of_mem _ ht)) hn'
      refine ⟨i + 1, ?_, ?_⟩
      · simp [indexOfSeg, segText, hne, hi]
      · simpa [tsRenderSeg] using hg
    | var m =>
      by_cases e : m = n
      · subst e
        exact ⟨0, by simp [indexOfSeg, segText], by simp [tsRenderSeg]⟩
      · have hne : brace m ≠ brace n := fun h => e (brace_inj _ _ h)
        have hn' : Seg.var n ∈ tpl := by
          rcases List.mem_cons.1 hn with h | m'
          · cases h; exact absurd rfl e
          · exact m'
        obtain ⟨i, hi, hg⟩ := ih (fun t ht => hl t (List.mem_cons_of_mem _ ht)) hn'
        refine ⟨i + 1, ?_, ?_⟩
        · simp [indexOfSeg, segText, hne, hi]
        · simpa [tsRenderSeg] using hg

/-- the same for a path written by the Go client (`url.PathEscape`). -/
theorem index_and_segment_go (tpl : List Seg) (vals : Bytes → Bytes) (hl : LitsBraceFree tpl)
    (n : Bytes) (hn : Seg.var n ∈ tpl) :
    ∃ i, indexOfSeg (brace n) (tpl.map segText) = some i ∧
      (tpl.map (renderSeg vals)).getD i [] = pathEscape (vals n) := by
  induction tpl with
  | nil => cases hn
  | cons s tpl ih =>
    cases s with
    | lit t =>
      have ht : 123 ∉ t := hl t (List.mem_cons_self ..)
      have hne : t ≠ brace n := by
        intro e; apply ht; rw [e]; simp [brace]
      have hn' : Seg.var n ∈ tpl := by
        rcases List.mem_cons.1 hn with e | m
        · cases e
        · exact m
      obtain ⟨i, hi, hg⟩ := ih (fun t ht => hl t (List.mem_cons_of_mem _ ht)) hn'
      refine ⟨i + 1, ?_, ?_⟩
      · simp [indexOfSeg, segText, hne, hi]
      · simpa [renderSeg] using hg
    | var m =>
      by_cases e : m = n
      · subst e
        exact ⟨0, by simp [indexOfSeg, segText], by simp [renderSeg]⟩
      · have hne : brace m ≠ brace n := fun h => e (brace_inj _ _ h)
        have hn' : Seg.var n ∈ tpl := by
          rcases List.mem_cons.1 hn with h | m'
          · cases h; exact absurd rfl e
          · exact m'
        obtain ⟨i, hi, hg⟩ := ih (fun t ht => hl t (List.mem_cons_of_mem _ ht)) hn'
        refine ⟨i + 1, ?_, ?_⟩
        · simp [indexOfSeg, segText, hne, hi]
        · simpa [renderSeg] using hg

/-! ## Form decoding -/

theorem formDecode_escapeWith (keep : Nat → Bool)
    (hpct : ∀ b, keep b = true → b ≠ 37) (hplus : ∀ b, keep b = true → b ≠ 43)
    (bs : Bytes) (h : ∀ b ∈ bs, b < 256) :
    formDecode (escapeWith keep true bs) = bs := by
  unfold formDecode
  induction bs with
  | nil => simp [escapeWith, formDecodeAux]
  | cons b bs ih =>
    have hb : b < 256 := h b (List.mem_cons_self ..)
    have ih' := ih (fun x hx => h x (List.mem_cons_of_mem _ hx))
    unfold escapeWith
    by_cases hk : keep b = true
    · rw [if_pos hk]
      have h37 := hpct b hk
      have h43 := hplus b hk
      simp [formDecodeAux, h37, h43, ih']
    · rw [if_neg hk]
      by_cases hs : (true && b == 32) = true
      · rw [if_pos hs]
        simp only [Bool.true_and, beq_iff_eq] at hs
        simp [formDecodeAux, ih', hs]
      · rw [if_neg hs]
        have hx := unhex_hexUpper (b / 16) (by omega)
        have hy := unhex_hexUpper (b % 16) (by omega)
        have : 16 * (b / 16) + b % 16 = b := by omega
        simp [formDecodeAux, hx, hy, ih', this]

theorem formDecode_formEncode (bs : Bytes) (h : ∀ b ∈ bs, b < 256) : formDecode (formEncode bs) = bs :=
  formDecode_escapeWith formKeep formKeep_ne_pct formKeep_ne_plus bs h

theorem formDecode_queryEscape (bs : Bytes) (h : ∀ b ∈ bs, b < 256) : formDecode (queryEscape bs) = bs :=
  formDecode_escapeWith queryKeep queryKeep_ne_pct queryKeep_ne_plus bs h

/-- parsing `k1=v1&k2=v2…` written with ANY encoder whose output has no `&` / `=` and that
`formDecode` undoes gives back the pairs, in order. -/
theorem formParse_join (enc : Bytes → Bytes) (h38 : ∀ x, 38 ∉ enc x) (h61 : ∀ x, 61 ∉ enc x)
    (kvs : List (Bytes × Bytes))
    (hdec : ∀ p ∈ kvs, formDecode (enc p.1) = p.1 ∧ formDecode (enc p.2) = p.2) :
    formParse (joinWith 38 (kvs.map fun p => enc p.1 ++ 61 :: enc p.2)) = kvs := by
  unfold formParse
  cases hkvs : kvs with
  | nil => simp [joinWith, splitByte]
  | cons p ps =>
    rw [← hkvs]
    have hne : (kvs.map fun p => enc p.1 ++ 61 :: enc p.2) ≠ [] := by simp [hkvs]
    rw [splitByte_joinWith 38 _ hne (by
      intro x hx
      obtain ⟨p, _, rfl⟩ := List.mem_map.1 hx
      simp [h38 p.1, h38 p.2])]
    have hf : ((kvs.map fun p => enc p.1 ++ 61 :: enc p.2).filter fun p => decide (p ≠ []))
        = kvs.map fun p => enc p.1 ++ 61 :: enc p.2 := by
      rw [List.filter_eq_self]
      intro x hx
      obtain ⟨p, _, rfl⟩ := List.mem_map.1 hx
      simp
    rw [hf]
    clear hne hf hkvs
    induction kvs with
    | nil => rfl
    | cons q qs ih =>
      have hq := hdec q (List.mem_cons_self ..)
      simp only [List.map_cons, cutByte_append_sep 61 _ _ (h61 q.1), hq.1, hq.2]
      rw [ih (fun r hr => hdec r (List.mem_cons_of_mem _ hr))]

/-- Go's `url.ParseQuery` on `k1=v1&k2=v2…` written with any encoder whose output has no `&`, `=`
or `;` and that `QueryUnescape` undoes. -/
theorem parseQuery_join (enc : Bytes → Bytes) (h38 : ∀ x, 38 ∉ enc x) (h61 : ∀ x, 61 ∉ enc x)
    (h59 : ∀ x, 59 ∉ enc x) (kvs : List (Bytes × Bytes))
    (hdec : ∀ p ∈ kvs, queryUnescape (enc p.1) = some p.1 ∧ queryUnescape (enc p.2) = some p.2) :
    parseQuery (joinWith 38 (kvs.map fun p => enc p.1 ++ 61 :: enc p.2)) = kvs := by
  unfold parseQuery
  cases hkvs : kvs with
  | nil => simp [joinWith, splitByte, pieceOK]
  | cons p ps =>
    rw [← hkvs]
    have hne : (kvs.map fun p => enc p.1 ++ 61 :: enc p.2) ≠ [] := by simp [hkvs]
    rw [splitByte_joinWith 38 _ hne (by
      intro x hx
      obtain ⟨p, _, rfl⟩ := List.mem_map.1 hx
      simp [h38 p.1, h38 p.2])]
    have hf : (kvs.map fun p => enc p.1 ++ 61 :: enc p.2).filter pieceOK
        = kvs.map fun p => enc p.1 ++ 61 :: enc p.2 := by
      rw [List.filter_eq_self]
      intro x hx
      obtain ⟨p, _, rfl⟩ := List.mem_map.1 hx
      simp [pieceOK, h59 p.1, h59 p.2]
    rw [hf]
    clear hne hf hkvs
    induction kvs with
    | nil => rfl
    | cons q qs ih =>
      have hq := hdec q (List.mem_cons_self ..)
      simp only [List.map_cons, List.filterMap_cons, parsePiece, cutByte_append_sep 61 _ _ (h61 q.1), hq.1, hq.2]
      rw [ih (fun r hr => hdec r (List.mem_cons_of_mem _ hr))]

theorem queryUnescape_formEncode (bs : Bytes) (h : ∀ b ∈ bs, b < 256) :
    queryUnescape (formEncode bs) = some bs :=
  unescapeWith_escapeWith formKeep true formKeep_ne_pct (fun _ => formKeep_ne_plus) bs h

/-! ## The URL parser leaves dot-free paths alone -/

theorem normSegs_no_dot (segs : List Bytes) (h : ∀ s ∈ segs, isDot s = false) :
    ∀ acc, normSegs acc segs = acc.reverse ++ segs := by
  induction segs with
  | nil => intro acc; simp [normSegs]
  | cons s t ih =>
    intro acc
    have hs := h s (List.mem_cons_self ..)
    unfold isDot at hs
    simp only [Bool.or_eq_false_iff] at hs
    rw [normSegs]
    simp only [hs.1, hs.2, Bool.false_eq_true, if_false]
    rw [ih (fun x hx => h x (List.mem_cons_of_mem _ hx))]
    simp

/-- a rooted path none of whose segments is a dot segment is its own `pathname`. -/
theorem urlNormPath_flatten (f : Seg → Bytes) (tpl : List Seg) (hne : tpl ≠ [])
    (hf : ∀ s ∈ tpl, 47 ∉ f s) (hd : ∀ s ∈ tpl, isDot (f s) = false) :
    urlNormPath ((tpl.map fun s => 47 :: f s).flatten) = (tpl.map fun s => 47 :: f s).flatten := by
  unfold urlNormPath
  have hsp := splitSlash_flatten f tpl hf
  rw [hsp]
  simp only
  rw [normSegs_no_dot _ (by
    intro s hs
    obtain ⟨sg, hsg, rfl⟩ := List.mem_map.1 hs
    exact hd sg hsg)]
  simp only [List.reverse_nil, List.nil_append]
  -- "/" ++ join "/" (map f tpl) = flatten (map ("/" ++ f ·) tpl) for a non-empty template
  clear hsp hf hd
  induction tpl with
  | nil => exact absurd rfl hne
  | cons s t ih =>
    cases t with
    | nil => simp [joinSlash, joinWith]
    | cons u r =>
      have ih' := ih (List.cons_ne_nil _ _)
      simp only [List.map_cons, joinSlash, joinWith, List.flatten_cons] at ih' ⊢
      rw [← ih']
      simp

/-! ## TS client → Go server: `ServeMux` matching of the TS client's path -/

theorem segUnescape_encodeURIComponent (v : Bytes) (h : ∀ b ∈ v, b < 256) :
    segUnescape (encodeURIComponent v) = v := by
  unfold segUnescape
  have : pathUnescape (encodeURIComponent v) = some v := decodeURIComponent_encodeURIComponent v h
  rw [this]
  rfl

theorem encodeURIComponent_nonempty (v : Bytes) (h : v ≠ []) : encodeURIComponent v ≠ [] := by
  cases v with
  | nil => exact absurd rfl h
  | cons b bs =>
    unfold encodeURIComponent escapeWith
    by_cases hk : uriComponentKeep b = true
    · rw [if_pos hk]; simp
    · rw [if_neg hk]; simp

theorem matchSegs_tsRender (tpl : List Seg) (vals : Bytes → Bytes)
    (hl : ∀ s, Seg.lit s ∈ tpl → LitOK s)
    (hv : ∀ n, Seg.var n ∈ tpl → vals n ≠ [] ∧ ∀ b ∈ vals n, b < 256) :
    matchSegs tpl (tpl.map (tsRenderSeg vals)) = some (pathBindings tpl vals) := by
  induction tpl with
  | nil => rfl
  | cons s tpl ih =>
    have ih' := ih (fun t ht => hl t (List.mem_cons_of_mem _ ht))
      (fun n hn => hv n (List.mem_cons_of_mem _ hn))
    cases s with
    | lit t =>
      have ht := hl t (List.mem_cons_self ..)
      simp only [List.map_cons, tsRenderSeg, matchSegs, segUnescape_lit t ht, if_true, ih']
      rfl
    | var n =>
      have hn := hv n (List.mem_cons_self ..)
      simp only [List.map_cons, tsRenderSeg, matchSegs, segUnescape_encodeURIComponent _ hn.2,
        if_neg hn.1, ih']
      rfl

end Sebuf.TsRoute
