import Sebuf.Route
import Sebuf.Query
import Sebuf.Dec
import Sebuf.Gen.Pipeline
/-!
`Impl`: a call through the generated Go client against the generated Go server, at the level
where the two sides can disagree: the body/response codec each side picks for a content type
(regenerated switch tables of the emitted client and server), what the client puts into the URL
(`fmt.Sprint`, `url.PathEscape`, zero-value elision, `url.Values.Encode`, query only for
GET/DELETE) and what the server reads back (ServeMux segments, `PathValue`, `URL.Query()`,
required-parameter check).
-/
namespace Sebuf.Call
open Sebuf

/-- `filterFlags`: cut at the first space or ';'. -/
def filterFlags (s : String) : String := String.ofList (s.toList.takeWhile fun c => c != ' ' && c != ';')

def lookupOr (t : List (String × String)) (d : String) (k : String) : String :=
  match t.find? (·.1 == k) with
  | some p => p.2
  | none => d

/-- codec the emitted client uses to marshal a request under a content type. -/
def clientReqCodec (ct : String) : String :=
  lookupOr Gen.Pipeline.clientMarshalRequestTable Gen.Pipeline.clientMarshalRequestDefault ct
/-- codec the emitted server uses to decode the body. -/
def serverReqCodec (ct : String) : String :=
  lookupOr Gen.Pipeline.bindDataBasedOnContentTypeTable Gen.Pipeline.bindDataBasedOnContentTypeDefault (filterFlags ct)
/-- codec the emitted server uses to encode the response. -/
def serverRespCodec (ct : String) : String :=
  lookupOr Gen.Pipeline.marshalResponseTable Gen.Pipeline.marshalResponseDefault (filterFlags (if ct = "" then "application/json" else ct))
/-- codec the emitted client uses to decode the response. -/
def clientRespCodec (ct : String) : String :=
  lookupOr Gen.Pipeline.clientUnmarshalResponseTable Gen.Pipeline.clientUnmarshalResponseDefault ct

structure CallCase where
  verb          : String
  ct            : String        -- content type the client is configured with
  pathDot       : Bool          -- some path-bound value prints as "." or ".."
  requiredZero  : List Bool     -- per REQUIRED query-annotated field: is its value the kind's zero value?
  negZeroQuery  : Bool := false -- some query-bound float field holds -0.0 (compares equal to the zero literal)
  respEmpty     : Bool := false -- the handler's response has no populated field: zero bytes in binary, and the emitted
                                -- client's `unmarshalResponse` returns before any codec on an empty body (`len(body) == 0`)
deriving Repr

/-- outcome class of the call: "ok" or the name of the reason it cannot round-trip. -/
def callOutcome (c : CallCase) : String :=
  let bodyVerb := Gen.Pipeline.bodyVerbs.contains c.verb
  if bodyVerb && clientReqCodec c.ct != serverReqCodec c.ct then "content_type_codec_mismatch"
  else if clientRespCodec c.ct != serverRespCodec c.ct && !(c.respEmpty && serverRespCodec c.ct == "binary") then "content_type_codec_mismatch"
  else if c.pathDot then "path_value_dot_segment"
  else if !bodyVerb && c.requiredZero.any id then "required_query_zero_value"
  else if bodyVerb && !c.requiredZero.isEmpty then "required_query_on_body_verb"
  else if !bodyVerb && c.negZeroQuery then "query_negative_zero_elided"
  else "ok"

def bytesOfStr (s : Str) : Bytes := s.map Char.toNat
def strOfBytes (b : Bytes) : Str := b.map Char.ofNat

end Sebuf.Call
