package ir

import (
	"strings"
	"unicode"
)

// GoCamelCase is protogen's strs.GoCamelCase (used for message, field, service, method names).
func GoCamelCase(s string) string {
	var b []byte
	for i := 0; i < len(s); i++ {
		c := s[i]
		switch {
		case c == '.' && i+1 < len(s) && isASCIILower(s[i+1]):
			// Skip over '.' in ".{{lowercase}}".
		case c == '.':
			b = append(b, '_') // convert '.' to '_'
		case c == '_' && (i == 0 || s[i-1] == '.'):
			// Convert initial '_' to ensure we start with a capital letter.
			b = append(b, 'X')
		case c == '_' && i+1 < len(s) && isASCIILower(s[i+1]):
			// Skip over '_' in "_{{lowercase}}".
		case isASCIIDigit(c):
			b = append(b, c)
		default:
			// Assume we have a letter now - if not, it's a bogus identifier.
			if isASCIILower(c) {
				c -= 'a' - 'A' // convert lowercase to uppercase
			}
			b = append(b, c)
			// Accept lower case sequence that follows.
			for ; i+1 < len(s) && isASCIILower(s[i+1]); i++ {
				b = append(b, s[i+1])
			}
		}
	}
	return string(b)
}

func isASCIILower(c byte) bool { return 'a' <= c && c <= 'z' }
func isASCIIDigit(c byte) bool { return '0' <= c && c <= '9' }

// GoSanitized is protogen's strs.GoSanitized (package names).
func GoSanitized(s string) string {
	s = strings.Map(func(r rune) rune {
		if unicode.IsLetter(r) || unicode.IsDigit(r) {
			return r
		}
		return '_'
	}, s)
	if s == "" || unicode.IsDigit(rune(s[0])) {
		s = "_" + s
	}
	return s
}

// GoTypeName is the Go identifier protoc-gen-go gives the message ".pkg.Outer.Inner".
func GoTypeName(pkg, full string) string {
	rest := strings.TrimPrefix(full, ".")
	if pkg != "" {
		rest = strings.TrimPrefix(rest, pkg+".")
	}
	return GoCamelCase(rest)
}
