import Sebuf.Validate
import Sebuf.Rules
/-!
# C12 — misused annotations stop generation; valid definitions are never refused

`Sound` (full statement): every breach of a documented rule, wherever it sits in the request,
makes go-http fail (and go-client for the JSON-mapping rules other than unwrap).
The current code does not satisfy it (`not_sound_imported`, `not_sound_repeated_path_field`);
`sound_partial_goHttp` / `sound_partial_goClient` prove it for offenders inside a file to
generate, for every rule except the two whose proof is not carried (`flattenCollision`, decided
by correspondence only) or which the code does not implement (`pathVarNotSingular`), and for
enum conflicts on non-map fields.

The theorems are about `Impl.runGoHttp`/`runGoClient`, which interpret the call sequence of
`generateFile` regenerated into `Gen.Wiring` on every run: `wiring_*` are closed by `decide`
over the current sequence.
-/
namespace Sebuf.C12
open Sebuf Sebuf.Impl Sebuf.Spec

/-! ## list helpers -/

theorem findSome_isSome {α β} {l : List α} {f : α → Option β} {a : α}
    (h : a ∈ l) (hf : (f a).isSome = true) : (l.findSome? f).isSome = true := by
  induction l with
  | nil => cases h
  | cons x t ih =>
    simp only [List.findSome?]
    cases hx : f x with
    | some b => simp
    | none =>
      simp only
      rcases List.mem_cons.mp h with rfl | h'
      · rw [hx] at hf; cases hf
      · exact ih h'

theorem find_isSome {α} {l : List α} {p : α → Bool} {a : α}
    (h : a ∈ l) (hp : p a = true) : (l.find? p).isSome = true := by
  induction l with
  | nil => cases h
  | cons x t ih =>
    simp only [List.find?]
    cases hx : p x with
    | true => simp
    | false =>
      simp only
      rcases List.mem_cons.mp h with rfl | h'
      · rw [hx] at hp; cases hp
      · exact ih h'

theorem isSome_of_eq_some {α} {o : Option α} {a : α} (h : o = some a) : o.isSome = true := by
  subst h; rfl

/-! ## wiring: which validators run, and where -/

/-- steps strictly before `if len(file.Services) == 0 { return nil }`. -/
def beforeCut : List Gen.Wiring.Step → List Gen.Wiring.Step
  | [] => []
  | st :: r => if st.1 == "return_if_no_services" then [] else st :: beforeCut r

def stepHas (st : Gen.Wiring.Step) (v : V) : Bool := st.2.1.any (fun n => V.ofName n == some v)

def requiredJson : List V :=
  [.enumConflict, .nullable, .emptyBehavior, .timestamp, .bytes, .flattenField, .oneof]

/-- **wiring (go-http)**: every JSON-mapping validator is called, on nested messages too, before
the early return for service-less files. Closed by `decide` on the regenerated call sequence. -/
theorem wiring_goHttp : ∀ v ∈ requiredJson,
    ∃ st ∈ beforeCut Gen.Wiring.goHttp, stepHas st v = true ∧ st.2.2 = true := by decide

/-- **wiring (go-client)**: the same for the client plugin. -/
theorem wiring_goClient : ∀ v ∈ requiredJson,
    ∃ st ∈ beforeCut Gen.Wiring.goClient, stepHas st v = true ∧ st.2.2 = true := by decide

/-- **wiring (unwrap)**: go-http collects (and so validates) unwrap annotations of every file to
generate before any file is emitted. -/
theorem wiring_unwrap : Gen.Wiring.goHttpPre.contains "annotations.GetUnwrapField" = true := by decide

/-- **wiring (HTTP rules)**: `ValidateMethodConfig` runs for files with services, before the
emitters of the HTTP files. -/
theorem wiring_http : ∃ st ∈ Gen.Wiring.goHttp, stepHas st .methodConfig = true ∧
    (st.1 == "return_if_no_services") = false := by decide

/-- **wiring**: both plugins skip files that are not to be generated (so imported files are
never validated — see `not_sound_imported`). -/
theorem wiring_skips_imported :
    Gen.Wiring.goHttpSkipsNonGenerate = true ∧ Gen.Wiring.goClientSkipsNonGenerate = true := by decide

/-! ## from one validator to the whole run -/

theorem runStep_of_validator (rq : Request) (f : File) (st : Gen.Wiring.Step) (v : V)
    (hv : stepHas st v = true) (h : (applyV rq f st.2.2 v).isSome = true) :
    (runStep rq f st).isSome = true := by
  unfold stepHas at hv
  obtain ⟨n, hn, hnv⟩ := List.any_eq_true.mp hv
  unfold runStep
  refine findSome_isSome hn ?_
  unfold applyValidator
  have : V.ofName n = some v := by simpa using hnv
  rw [this]; exact h

theorem runSteps_of_beforeCut (rq : Request) (f : File) :
    ∀ (steps : List Gen.Wiring.Step) (st : Gen.Wiring.Step), st ∈ beforeCut steps →
      (runStep rq f st).isSome = true → (runSteps rq f steps).isSome = true := by
  intro steps
  induction steps with
  | nil => intro st h; cases h
  | cons s t ih =>
    intro st hmem hs
    unfold beforeCut at hmem
    unfold runSteps
    by_cases hc : (s.1 == "return_if_no_services") = true
    · simp [hc] at hmem
    · simp only [hc] at hmem ⊢
      simp only [Bool.false_eq_true, if_false]
      rcases List.mem_cons.mp hmem with rfl | h'
      · cases hr : runStep rq f st with
        | some e => simp
        | none => rw [hr] at hs; cases hs
      · cases hr : runStep rq f s with
        | some e => simp
        | none => simpa using ih st h' hs

theorem runSteps_of_mem (rq : Request) (f : File) (hsv : f.services.isEmpty = false) :
    ∀ (steps : List Gen.Wiring.Step) (st : Gen.Wiring.Step), st ∈ steps →
      (st.1 == "return_if_no_services") = false →
      (runStep rq f st).isSome = true → (runSteps rq f steps).isSome = true := by
  intro steps
  induction steps with
  | nil => intro st h; cases h
  | cons s t ih =>
    intro st hmem hne hs
    unfold runSteps
    by_cases hc : (s.1 == "return_if_no_services") = true
    · simp only [hc, if_true, hsv, Bool.false_eq_true, if_false]
      rcases List.mem_cons.mp hmem with rfl | h'
      · rw [hc] at hne; cases hne
      · exact ih st h' hne hs
    · simp only [hc, Bool.false_eq_true, if_false]
      rcases List.mem_cons.mp hmem with rfl | h'
      · cases hr : runStep rq f st with
        | some e => simp
        | none => rw [hr] at hs; cases hs
      · cases hr : runStep rq f s with
        | some e => simp
        | none => simpa using ih st h' hne hs

theorem runGoHttp_of_file (rq : Request) (f : File) (hf : f ∈ generated rq)
    (h : (runSteps rq f Gen.Wiring.goHttp).isSome = true) : (runGoHttp rq).isSome = true := by
  unfold runGoHttp
  simp only
  split
  · simp
  · exact findSome_isSome hf h

theorem runGoHttp_of_unwrap (rq : Request) (f : File) (hf : f ∈ generated rq) (m : Message)
    (hm : m ∈ f.messages) (h : (unwrapCheck m).isSome = true) : (runGoHttp rq).isSome = true := by
  unfold runGoHttp
  simp only [wiring_unwrap, if_true]
  have : ((generated rq).findSome? fun f => f.messages.findSome? unwrapCheck).isSome = true :=
    findSome_isSome hf (findSome_isSome hm h)
  cases hp : ((generated rq).findSome? fun f => f.messages.findSome? unwrapCheck) with
  | some e => simp
  | none => rw [hp] at this; cases this

theorem runGoClient_of_file (rq : Request) (f : File) (hf : f ∈ generated rq)
    (h : (runSteps rq f Gen.Wiring.goClient).isSome = true) : (runGoClient rq).isSome = true := by
  unfold runGoClient
  exact findSome_isSome hf h

/-- a JSON-mapping validator that fires on a generated file stops go-http. -/
theorem goHttp_rejects (rq : Request) (f : File) (hf : f ∈ generated rq) (v : V) (hv : v ∈ requiredJson)
    (h : (applyV rq f true v).isSome = true) : (runGoHttp rq).isSome = true := by
  obtain ⟨st, hst, hhas, hn⟩ := wiring_goHttp v hv
  refine runGoHttp_of_file rq f hf (runSteps_of_beforeCut rq f _ st hst ?_)
  exact runStep_of_validator rq f st v hhas (by rw [hn]; exact h)

theorem goClient_rejects (rq : Request) (f : File) (hf : f ∈ generated rq) (v : V) (hv : v ∈ requiredJson)
    (h : (applyV rq f true v).isSome = true) : (runGoClient rq).isSome = true := by
  obtain ⟨st, hst, hhas, hn⟩ := wiring_goClient v hv
  refine runGoClient_of_file rq f hf (runSteps_of_beforeCut rq f _ st hst ?_)
  exact runStep_of_validator rq f st v hhas (by rw [hn]; exact h)

theorem perField_isSome (f : File) (m : Message) (fld : Field) (chk : Field → Verdict)
    (hm : m ∈ f.messages) (hfld : fld ∈ m.fields) (h : (chk fld).isSome = true) :
    (perField (msgsOf f true) chk).isSome = true := by
  unfold perField msgsOf
  simp only [if_true]
  exact findSome_isSome hm (findSome_isSome hfld h)

/-! ## each rule of the property fires its validator -/

theorem nullable_fires (fld : Field) (h : fld.nullable = true)
    (h2 : fld.card ≠ .optional ∨ fld.kind = .message) : (nullableCheck fld).isSome = true := by
  unfold nullableCheck Field.descKind
  rcases h2 with h2 | h2
  · simp [h, h2]
  · by_cases hc : fld.card = .optional
    · simp [h, hc, h2]
    · simp [h, hc]

theorem emptyBehavior_fires (fld : Field) (h : fld.emptyBehavior ≠ 0)
    (h2 : fld.kind ≠ .message ∨ fld.card = .repeated ∨ fld.card = .map) :
    (emptyBehaviorCheck fld).isSome = true := by
  unfold emptyBehaviorCheck Field.descKind Field.isList Field.isMap
  rcases h2 with h2 | h2 | h2
  · by_cases hm : fld.card = .map
    · simp [h, hm]
    · simp [h, hm, h2]
  · simp [h, h2]
  · simp [h, h2]

theorem timestamp_fires (fld : Field) (h : fld.tsFormat ≠ 0) (h2 : isTs fld = false) :
    (timestampCheck fld).isSome = true := by
  unfold timestampCheck Field.isTimestamp Field.descKind
  unfold isTs at h2
  by_cases hm : fld.card = .map
  · simp [h, hm]
  · simp [hm] at h2 ⊢
    simp [h]
    by_cases hk : fld.kind = .message
    · exact Or.inr (h2 hk)
    · exact Or.inl hk

theorem bytes_fires (fld : Field) (h : fld.bytesEnc ≠ 0) (h2 : fld.kind ≠ .bytes ∨ fld.card = .map) :
    (bytesCheck fld).isSome = true := by
  unfold bytesCheck Field.descKind
  rcases h2 with h2 | h2
  · by_cases hm : fld.card = .map
    · simp [h, hm]
    · simp [h, hm, h2]
  · simp [h, h2]

theorem flattenField_fires (fld : Field) (h : fld.flatten = true)
    (h2 : fld.card = .repeated ∨ fld.card = .map ∨ fld.kind ≠ .message ∨ fld.oneof.isSome = true) :
    (flattenFieldCheck fld).isSome = true := by
  unfold flattenFieldCheck Field.descKind Field.isList Field.isMap Field.inAnyOneof
  rcases h2 with h2 | h2 | h2 | h2
  · simp [h, h2]
  · simp [h, h2]
  · by_cases hm : fld.card = .map
    · simp [h, hm]
    · by_cases hr : fld.card = .repeated
      · simp [h, hr]
      · simp [h, hm, hr, h2]
  · by_cases hm : fld.card = .map
    · simp [h, hm]
    · by_cases hr : fld.card = .repeated
      · simp [h, hr]
      · by_cases hk : fld.kind = .message
        · simp [h, hm, hr, hk, h2]
        · simp [h, hm, hr, hk]

theorem prefix_fires (fld : Field) (h : fld.flatten = false) (h2 : fld.flattenPrefix ≠ []) :
    (flattenFieldCheck fld).isSome = true := by
  unfold flattenFieldCheck
  simp [h, h2]

theorem enum_fires (rq : Request) (fld : Field) (hk : fld.kind = .enum) (hm : fld.card ≠ .map)
    (he : fld.enumEnc = 2)
    (hc : (match rq.findEnum fld.typeName with | some e => e.hasCustom | none => false) = true) :
    (enumCheck rq fld).isSome = true := by
  unfold enumCheck Field.descKind
  simp [hk, hm, he]
  exact hc


theorem unwrapNotRepeated_fires (m : Message) (fld : Field) (hfld : fld ∈ m.fields)
    (hu : fld.unwrap = true) (h1 : fld.card ≠ .repeated) (h2 : fld.card ≠ .map) :
    (unwrapCheck m).isSome = true := by
  unfold unwrapCheck
  simp only
  have hmem : fld ∈ m.fields.filter (·.unwrap) := List.mem_filter.mpr ⟨hfld, hu⟩
  have hp : (fun f : Field => !f.isList && !f.isMap) fld = true := by
    simp [Field.isList, Field.isMap, h1, h2]
  have := find_isSome (p := fun f : Field => !f.isList && !f.isMap) hmem hp
  cases hfind : (m.fields.filter (·.unwrap)).find? (fun f => !f.isList && !f.isMap) with
  | some x => simp
  | none => rw [hfind] at this; cases this

theorem unwrapTwice_fires (m : Message) (a v : Field) (rest : List Field)
    (h : m.fields.filter (·.unwrap) = a :: v :: rest) : (unwrapCheck m).isSome = true := by
  unfold unwrapCheck
  simp only [h]
  cases (a :: v :: rest).find? (fun f => !f.isList && !f.isMap) with
  | some x => simp
  | none => simp

theorem mapUnwrapNotAlone_fires (m : Message) (fld : Field)
    (hfind : m.fields.find? (fun f => f.unwrap && f.card == .map) = some fld)
    (hlen : m.fields.length ≠ 1) : (unwrapCheck m).isSome = true := by
  have hfld : fld ∈ m.fields := List.mem_of_find?_eq_some hfind
  have hp := List.find?_some hfind
  have hu : fld.unwrap = true := by simp at hp; exact hp.1
  have hmapc : fld.card = .map := by simp at hp; exact hp.2
  have hmem : fld ∈ m.fields.filter (·.unwrap) := List.mem_filter.mpr ⟨hfld, hu⟩
  unfold unwrapCheck
  simp only
  cases hf : (m.fields.filter (·.unwrap)).find? (fun f => !f.isList && !f.isMap) with
  | some x => simp
  | none =>
    simp only
    generalize m.fields.filter (·.unwrap) = us at hmem ⊢
    match us, hmem with
    | [], hm => cases hm
    | [u], hm =>
      have : fld = u := by simpa using hm
      subst this
      simp [Field.isMap, hmapc, hlen]
    | _ :: v :: _, _ => simp

/-! ### oneof rules -/

theorem oneofCheck_of (rq : Request) (m : Message) (o : OneofDecl) (ho : o ∈ m.oneofs)
    (hc : o.hasConfig = true)
    (h : (discriminatorCollision m o).isSome = true ∨
         (o.flatten = true ∧ (oneofFlattenCheck rq m o).isSome = true)) :
    (oneofCheck rq m).isSome = true := by
  unfold oneofCheck
  refine findSome_isSome (List.mem_filter.mpr ⟨ho, hc⟩) ?_
  cases hd : discriminatorCollision m o with
  | some e => simp
  | none =>
    rcases h with h | ⟨hf, h⟩
    · rw [hd] at h; cases h
    · simp [hf, h]

theorem discriminator_fires (m : Message) (o : OneofDecl)
    (h : (m.fields.filter (·.oneof != some o.name)).any (·.json == o.discriminator) = true) :
    (discriminatorCollision m o).isSome = true := by
  unfold discriminatorCollision
  have : m.fields.any (fun f => f.oneof != some o.name && f.json == o.discriminator) = true := by
    rw [List.any_filter] at h; exact h
  simp [this]

theorem oneofFlattenScalar_fires (rq : Request) (m : Message) (o : OneofDecl)
    (h : (m.fields.filter (·.oneof == some o.name)).any (·.kind != .message) = true) :
    (oneofFlattenCheck rq m o).isSome = true := by
  unfold oneofFlattenCheck
  simp only [h, if_true, Option.isSome_some]

theorem oneofFlattenCollision_fires (rq : Request) (m : Message) (o : OneofDecl)
    (h : (m.fields.filter (·.oneof == some o.name)).any (fun v => v.kind == .message &&
        (Spec.children rq v).any (fun c => c.json == o.discriminator ||
          (m.fields.filter (·.oneof != some o.name)).any (·.json == c.json))) = true) :
    (oneofFlattenCheck rq m o).isSome = true := by
  unfold oneofFlattenCheck
  simp only
  by_cases hs : ((m.fields.filter (·.oneof == some o.name)).any (·.kind != .message)) = true
  · rw [if_pos hs]; rfl
  · have : (m.fields.filter (·.oneof == some o.name)).any (fun v => (childFields rq v).any
        (fun c => (o.discriminator :: (m.fields.filter (·.oneof != some o.name)).map (·.json)).contains c.json)) = true := by
      obtain ⟨v, hv, hvp⟩ := List.any_eq_true.mp h
      refine List.any_eq_true.mpr ⟨v, hv, ?_⟩
      have hvp2 := (Bool.and_eq_true _ _).mp hvp
      obtain ⟨c, hc, hcp⟩ := List.any_eq_true.mp hvp2.2
      have hch : Spec.children rq v = childFields rq v := rfl
      rw [hch] at hc
      refine List.any_eq_true.mpr ⟨c, hc, ?_⟩
      rcases (Bool.or_eq_true _ _).mp hcp with h1 | h1
      · have : c.json = o.discriminator := by simpa using h1
        simp [this]
      · obtain ⟨x, hx, hxp⟩ := List.any_eq_true.mp h1
        have hxe : x.json = c.json := by simpa using hxp
        simp only [List.contains_cons, Bool.or_eq_true]
        right
        exact List.contains_iff_mem.mpr (List.mem_map.mpr ⟨x, hx, hxe⟩)
    rw [if_neg hs, if_pos this]; rfl

/-! ### HTTP rules -/

theorem orV_left {a b : Verdict} (h : a.isSome = true) : (orV a b).isSome = true := by
  cases a with
  | some x => rfl
  | none => cases h

theorem orV_right {a b : Verdict} (h : b.isSome = true) : (orV a b).isSome = true := by
  cases a with
  | some x => rfl
  | none => exact h

theorem pathVar_fires (input : Message) (p : Str)
    (h : input.fields.find? (fun f => f.name == p) = none ∨
         ∃ f, input.fields.find? (fun f => f.name == p) = some f ∧ scalarPathKind f.kind = false) :
    (pathVarCheck input p).isSome = true := by
  unfold pathVarCheck
  rcases h with h | ⟨f, hf, hk⟩
  · rw [h]; rfl
  · rw [hf]
    have : isPathParamCompatible f.descKind = false := by
      unfold Field.descKind
      split
      · rfl
      · revert hk; cases f.kind <;> simp [scalarPathKind, isPathParamCompatible]
    simp [this]

theorem methodCheck_fires (rq : Request) (meth : Method) (b : Breach) (file : Str)
    (hb : b ∈ methodBreaches rq file meth) (hr : b.rule ≠ .pathVarNotSingular) :
    (methodCheck rq meth).isSome = true := by
  unfold methodBreaches at hb
  by_cases hcfg : meth.hasConfig = true
  · simp only [hcfg, Bool.not_true, Bool.false_eq_true, if_false] at hb
    unfold methodCheck
    simp only [hcfg, Bool.not_true, Bool.false_eq_true, if_false]
    generalize (rq.findMessage meth.input).getD default = input at hb ⊢
    rcases List.mem_append.mp hb with hb | hb
    · rcases List.mem_append.mp hb with hb | hb
      · -- a path variable without field / with a non-scalar field
        obtain ⟨p, hp, hbp⟩ := List.mem_flatMap.mp hb
        refine orV_left (findSome_isSome hp ?_)
        cases hfnd : input.fields.find? (fun f => f.name == p) with
        | none => exact pathVar_fires input p (Or.inl hfnd)
        | some f =>
          simp only [hfnd] at hbp
          rcases List.mem_append.mp hbp with h1 | h1
          · refine pathVar_fires input p (Or.inr ⟨f, hfnd, ?_⟩)
            by_cases hk : scalarPathKind f.kind = true
            · simp [hk] at h1
            · simpa using hk
          · exfalso
            by_cases hc : (f.card == .repeated || f.card == .map) = true
            · simp only [hc, if_true, List.mem_singleton] at h1
              apply hr; rw [h1]
            · simp [hc] at h1
      · -- a field both path and query
        obtain ⟨q, hq, _⟩ := List.mem_map.mp hb
        have hq' := List.mem_filter.mp hq
        refine orV_right (orV_left ?_)
        exact find_isSome (p := fun q => (extractPathParams meth.path).contains q) (a := q)
          (by unfold queryFieldNames; exact hq'.1) hq'.2
    · -- a bodiless verb with unbound fields
      refine orV_right (orV_right ?_)
      unfold bodilessCheck
      by_cases hv : (verbOfNum meth.verbNum == "GET".toList || verbOfNum meth.verbNum == "DELETE".toList) = true
      · simp only [hv, if_true] at hb ⊢
        obtain ⟨fld, hfld, _⟩ := List.mem_map.mp hb
        have hfld' := List.mem_filter.mp hfld
        have : (input.fields.find? (fun f => !(extractPathParams meth.path).contains f.name &&
            !(queryFieldNames input).contains f.name)).isSome = true :=
          find_isSome (p := fun f : Field => !(extractPathParams meth.path).contains f.name &&
            !(queryFieldNames input).contains f.name) (a := fld) hfld'.1
            (by unfold queryFieldNames; exact hfld'.2)
        cases hfs : input.fields.find? (fun f => !(extractPathParams meth.path).contains f.name &&
            !(queryFieldNames input).contains f.name) with
        | some x => simp
        | none => rw [hfs] at this; cases this
      · rw [if_neg hv] at hb; cases hb
  · simp [hcfg] at hb

/-! ## assembly: every breach inside a generated file stops generation -/

/-- side condition: no `enum_encoding` on map fields (the code does not look at map values;
witness `enum_on_map_accepted`). -/
def NoEnumEncOnMaps (f : File) : Prop :=
  ∀ m ∈ f.messages, ∀ fld ∈ m.fields, fld.card = .map → fld.enumEnc = 0

theorem mem_ite_single {α} {c : Bool} {a r : α} (h : r ∈ (if c = true then [a] else [])) :
    c = true ∧ r = a := by
  cases c with
  | true => simp at h; exact ⟨rfl, h⟩
  | false => simp at h

theorem both_reject (rq : Request) (f : File) (hf : f ∈ generated rq) (v : V) (hv : v ∈ requiredJson)
    (h : (applyV rq f true v).isSome = true) :
    (runGoHttp rq).isSome = true ∧ (runGoClient rq).isSome = true :=
  ⟨goHttp_rejects rq f hf v hv h, goClient_rejects rq f hf v hv h⟩

theorem field_breach_rejected (rq : Request) (f : File) (hf : f ∈ generated rq)
    (hmap : NoEnumEncOnMaps f) (m : Message) (hm : m ∈ f.messages) (fld : Field) (hfld : fld ∈ m.fields)
    (r : Rule) (hr : r ∈ fieldBreaches rq fld) :
    (runGoHttp rq).isSome = true ∧ (r.isUnwrap = false → (runGoClient rq).isSome = true) := by
  unfold fieldBreaches at hr
  simp only [List.mem_append] at hr
  rcases hr with (((((((h | h) | h) | h) | h) | h) | h) | h) | h
  · -- unwrap on a non-repeated field
    obtain ⟨hc, rfl⟩ := mem_ite_single h
    simp only [Bool.and_eq_true, bne_iff_ne, ne_eq] at hc
    refine ⟨runGoHttp_of_unwrap rq f hf m hm (unwrapNotRepeated_fires m fld hfld hc.1.1 hc.1.2 hc.2), ?_⟩
    intro hu; cases hu
  · obtain ⟨hc, rfl⟩ := mem_ite_single h
    simp only [Bool.and_eq_true, bne_iff_ne, ne_eq] at hc
    have := both_reject rq f hf .nullable (by decide)
      (perField_isSome f m fld nullableCheck hm hfld (nullable_fires fld hc.1 (Or.inl hc.2)))
    exact ⟨this.1, fun _ => this.2⟩
  · obtain ⟨hc, rfl⟩ := mem_ite_single h
    simp only [Bool.and_eq_true, beq_iff_eq] at hc
    have := both_reject rq f hf .nullable (by decide)
      (perField_isSome f m fld nullableCheck hm hfld (nullable_fires fld hc.1 (Or.inr hc.2)))
    exact ⟨this.1, fun _ => this.2⟩
  · obtain ⟨hc, rfl⟩ := mem_ite_single h
    simp only [Bool.and_eq_true, Bool.or_eq_true, bne_iff_ne, ne_eq, beq_iff_eq] at hc
    have h2 : fld.kind ≠ .message ∨ fld.card = .repeated ∨ fld.card = .map := by
      rcases hc.2 with (h2 | h2) | h2
      · exact Or.inl h2
      · exact Or.inr (Or.inl h2)
      · exact Or.inr (Or.inr h2)
    have := both_reject rq f hf .emptyBehavior (by decide)
      (perField_isSome f m fld emptyBehaviorCheck hm hfld (emptyBehavior_fires fld hc.1 h2))
    exact ⟨this.1, fun _ => this.2⟩
  · obtain ⟨hc, rfl⟩ := mem_ite_single h
    simp only [Bool.and_eq_true, bne_iff_ne, ne_eq, Bool.not_eq_true'] at hc
    have := both_reject rq f hf .timestamp (by decide)
      (perField_isSome f m fld timestampCheck hm hfld (timestamp_fires fld hc.1 hc.2))
    exact ⟨this.1, fun _ => this.2⟩
  · obtain ⟨hc, rfl⟩ := mem_ite_single h
    simp only [Bool.and_eq_true, Bool.or_eq_true, bne_iff_ne, ne_eq, beq_iff_eq] at hc
    have := both_reject rq f hf .bytes (by decide)
      (perField_isSome f m fld bytesCheck hm hfld (bytes_fires fld hc.1 hc.2))
    exact ⟨this.1, fun _ => this.2⟩
  · obtain ⟨hc, rfl⟩ := mem_ite_single h
    simp only [Bool.and_eq_true, Bool.or_eq_true, bne_iff_ne, ne_eq, beq_iff_eq] at hc
    have h2 : fld.card = .repeated ∨ fld.card = .map ∨ fld.kind ≠ .message ∨ fld.oneof.isSome = true := by
      rcases hc.2 with ((h2 | h2) | h2) | h2
      · exact Or.inl h2
      · exact Or.inr (Or.inl h2)
      · exact Or.inr (Or.inr (Or.inl h2))
      · exact Or.inr (Or.inr (Or.inr h2))
    have := both_reject rq f hf .flattenField (by decide)
      (perField_isSome f m fld flattenFieldCheck hm hfld (flattenField_fires fld hc.1 h2))
    exact ⟨this.1, fun _ => this.2⟩
  · obtain ⟨hc, rfl⟩ := mem_ite_single h
    simp only [Bool.and_eq_true, Bool.not_eq_true', bne_iff_ne, ne_eq] at hc
    have := both_reject rq f hf .flattenField (by decide)
      (perField_isSome f m fld flattenFieldCheck hm hfld (prefix_fires fld hc.1 hc.2))
    exact ⟨this.1, fun _ => this.2⟩
  · obtain ⟨hc, rfl⟩ := mem_ite_single h
    simp only [Bool.and_eq_true, beq_iff_eq] at hc
    have hnm : fld.card ≠ .map := by
      intro hm'
      have := hmap m hm fld hfld hm'
      rw [this] at hc
      exact absurd hc.1.2 (by decide)
    have := both_reject rq f hf .enumConflict (by decide)
      (perField_isSome f m fld (enumCheck rq) hm hfld (enum_fires rq fld hc.1.1 hnm hc.1.2 hc.2))
    exact ⟨this.1, fun _ => this.2⟩

theorem oneof_breach_rejected (rq : Request) (f : File) (hf : f ∈ generated rq)
    (m : Message) (hm : m ∈ f.messages) (o : OneofDecl) (ho : o ∈ m.oneofs)
    (r : Rule) (hr : r ∈ oneofBreaches rq m o) :
    (runGoHttp rq).isSome = true ∧ (runGoClient rq).isSome = true := by
  unfold oneofBreaches at hr
  by_cases hcfg : o.hasConfig = true
  · simp only [hcfg, Bool.not_true, Bool.false_eq_true, if_false, List.mem_append] at hr
    have fire : (oneofCheck rq m).isSome = true := by
      rcases hr with (h | h) | h
      · obtain ⟨hc, _⟩ := mem_ite_single h
        exact oneofCheck_of rq m o ho hcfg (Or.inl (discriminator_fires m o hc))
      · obtain ⟨hc, _⟩ := mem_ite_single h
        simp only [Bool.and_eq_true] at hc
        exact oneofCheck_of rq m o ho hcfg (Or.inr ⟨hc.1, oneofFlattenScalar_fires rq m o hc.2⟩)
      · obtain ⟨hc, _⟩ := mem_ite_single h
        simp only [Bool.and_eq_true] at hc
        exact oneofCheck_of rq m o ho hcfg (Or.inr ⟨hc.1, oneofFlattenCollision_fires rq m o hc.2⟩)
    refine both_reject rq f hf .oneof (by decide) ?_
    show ((msgsOf f true).findSome? (oneofCheck rq)).isSome = true
    unfold msgsOf
    simp only [if_true]
    exact findSome_isSome hm fire
  · simp [hcfg] at hr

/-- **C12 soundness, partial (go-http and go-client)**: a breach of a documented rule inside a
file to generate makes go-http answer with an error; for the JSON-mapping rules other than
unwrap the go-client plugin fails too. Not covered: `pathVarNotSingular` (not implemented by the
code, witness below), `flattenCollision` (decided by the correspondence run only). -/
theorem sound_partial (rq : Request) (f : File) (hf : f ∈ generated rq) (hmap : NoEnumEncOnMaps f)
    (b : Breach) (hb : b ∈ fileBreaches rq f)
    (h1 : b.rule ≠ .pathVarNotSingular) (h2 : b.rule ≠ .flattenCollision) :
    (runGoHttp rq).isSome = true ∧
    (b.rule.isJsonMapping = true → b.rule.isUnwrap = false → (runGoClient rq).isSome = true) := by
  unfold fileBreaches at hb
  rcases List.mem_append.mp hb with hb | hb
  · obtain ⟨m, hm, hbm⟩ := List.mem_flatMap.mp hb
    unfold messageBreaches at hbm
    simp only [List.mem_append] at hbm
    rcases hbm with (((hbm | hbm) | hbm) | hbm) | hbm
    · obtain ⟨fld, hfld, hbf⟩ := List.mem_flatMap.mp hbm
      obtain ⟨r, hr, rfl⟩ := List.mem_map.mp hbf
      have := field_breach_rejected rq f hf hmap m hm fld hfld r hr
      exact ⟨this.1, fun _ hu => this.2 hu⟩
    · -- two unwrap fields
      split at hbm
      · rename_i a v rest heq
        have hbr : b.rule = .unwrapTwice := by simp at hbm; rw [hbm]
        refine ⟨runGoHttp_of_unwrap rq f hf m hm (unwrapTwice_fires m _ v _ heq), ?_⟩
        intro _ hu; rw [hbr] at hu; cases hu
      · cases hbm
    · -- map unwrap beside other fields
      split at hbm
      · rename_i fld hfind
        by_cases hl : (m.fields.length != 1) = true
        · simp only [hl, if_true, List.mem_singleton] at hbm
          have hbr : b.rule = .mapUnwrapNotAlone := by rw [hbm]
          refine ⟨runGoHttp_of_unwrap rq f hf m hm (mapUnwrapNotAlone_fires m fld hfind (by simpa using hl)), ?_⟩
          intro _ hu; rw [hbr] at hu; cases hu
        · simp [hl] at hbm
      · cases hbm
    · exfalso
      split at hbm
      · simp only [List.mem_singleton] at hbm
        apply h2; rw [hbm]
      · cases hbm
    · obtain ⟨o, ho, hbo⟩ := List.mem_flatMap.mp hbm
      obtain ⟨r, hr, _⟩ := List.mem_map.mp hbo
      have := oneof_breach_rejected rq f hf m hm o ho r hr
      exact ⟨this.1, fun _ _ => this.2⟩
  · -- HTTP rules: ValidateService runs for files with services
    obtain ⟨s, hs, hbs⟩ := List.mem_flatMap.mp hb
    obtain ⟨meth, hmeth, hbm⟩ := List.mem_flatMap.mp hbs
    have hfire := methodCheck_fires rq meth b f.name hbm h1
    have hsvc : (f.services.findSome? (serviceCheck rq)).isSome = true :=
      findSome_isSome hs (by unfold serviceCheck; exact findSome_isSome hmeth hfire)
    obtain ⟨st, hst, hhas, hne⟩ := wiring_http
    have hne' : f.services.isEmpty = false := by
      cases hfs : f.services with
      | nil => rw [hfs] at hs; cases hs
      | cons _ _ => rfl
    refine ⟨runGoHttp_of_file rq f hf (runSteps_of_mem rq f hne' _ st hst hne
      (runStep_of_validator rq f st .methodConfig hhas hsvc)), ?_⟩
    intro hj
    -- HTTP rules are not JSON-mapping rules
    exfalso
    unfold methodBreaches at hbm
    by_cases hcfg : meth.hasConfig = true
    · simp only [hcfg, Bool.not_true, Bool.false_eq_true, if_false, List.mem_append] at hbm
      rcases hbm with (hbm | hbm) | hbm
      · obtain ⟨p, _, hbp⟩ := List.mem_flatMap.mp hbm
        split at hbp
        · simp only [List.mem_singleton] at hbp; rw [hbp] at hj; cases hj
        · rcases List.mem_append.mp hbp with h | h
          · split at h
            · simp only [List.mem_singleton] at h; rw [h] at hj; cases hj
            · cases h
          · split at h
            · simp only [List.mem_singleton] at h; rw [h] at hj; cases hj
            · cases h
      · obtain ⟨q, _, hq⟩ := List.mem_map.mp hbm
        rw [← hq] at hj; cases hj
      · split at hbm
        · obtain ⟨q, _, hq⟩ := List.mem_map.mp hbm
          rw [← hq] at hj; cases hj
        · cases hbm
    · simp [hcfg] at hbm

/-! ## the full statement and why it fails today -/

/-- Full soundness as the property states it: wherever the offender sits in the request. -/
def Sound : Prop := ∀ (rq : Request) (b : Breach), b ∈ breaches rq →
  (runGoHttp rq).isSome = true ∧
  (b.rule.isJsonMapping = true → b.rule.isUnwrap = false → (runGoClient rq).isSome = true)

def badField : Field := { name := "maybe".toList, kind := .string, nullable := true }
def badMsg : Message := { fullName := ".p.Bad".toList, name := "Bad".toList, fields := [badField] }

/-- an imported (not generated) file with `nullable` on a non-optional field. -/
def importedWitness : Request :=
  { files := [{ name := "imp.proto".toList, generate := false, messages := [badMsg] },
              { name := "main.proto".toList, generate := true }] }

/-- **¬ Sound** (known finding C12 `accepted:offender_in_imported_file`): both plugins skip
files that are not to be generated, so an offender in an imported file is accepted. -/
theorem not_sound_imported : ¬ Sound := by
  intro h
  have := (h importedWitness ⟨.nullableNotOptional, "maybe".toList, "imp.proto".toList, ".p.Bad".toList⟩ (by decide)).1
  revert this; decide

def listIdField : Field := { name := "id".toList, kind := .string, card := .repeated }
def listIdReq : Message := { fullName := ".p.Req".toList, name := "Req".toList, fields := [listIdField] }
def listIdMeth : Method :=
  { name := "Get".toList
    input := ".p.Req".toList
    output := ".p.Req".toList
    hasConfig := true
    path := "/things/{id}".toList
    verbNum := 2 }
def repeatedPathWitness : Request :=
  { files := [{ name := "main.proto".toList, generate := true, messages := [listIdReq],
                services := [{ name := "S".toList, methods := [listIdMeth] }] }] }

/-- **known finding C12 `accepted:go-http:path_var_not_singular`**: a path variable bound to a
`repeated` field is a breach (`pathVarNotSingular`) that go-http accepts: only the kind is checked. -/
theorem repeated_path_field_accepted :
    (∃ b ∈ breaches repeatedPathWitness, b.rule = .pathVarNotSingular) ∧ runGoHttp repeatedPathWitness = none := by
  refine ⟨⟨⟨.pathVarNotSingular, "id".toList, "main.proto".toList, ".p.Req".toList⟩, ?_, rfl⟩, ?_⟩ <;> decide

/-- non-vacuity of `sound_partial`: a generated file with a breach meeting every hypothesis. -/
example : let rq : Request := { files := [{ name := "main.proto".toList, generate := true, messages := [badMsg] }] }
    (∃ f ∈ generated rq, NoEnumEncOnMaps f ∧ ∃ b ∈ fileBreaches rq f, b.rule ≠ .pathVarNotSingular ∧ b.rule ≠ .flattenCollision)
    ∧ (runGoHttp rq).isSome = true := by
  refine ⟨⟨_, List.mem_singleton.mpr rfl, ?_, ⟨.nullableNotOptional, "maybe".toList, "main.proto".toList, ".p.Bad".toList⟩, ?_, ?_, ?_⟩, ?_⟩
  · intro m hm fld hfld hc
    simp at hm; subst hm
    simp [badMsg] at hfld; subst hfld
    simp [badField] at hc
  · decide
  · decide
  · decide
  · decide


/-! ## valid definitions that are refused, and a conflict that is not seen (witnesses) -/

def Complete : Prop := ∀ rq : Request, ruleFree rq = true →
  runGoHttp rq = none ∧ runGoClient rq = none ∧ runTsServer rq = none

def leafMsg : Message := { fullName := ".p.Leaf".toList, name := "Leaf".toList, fields := [{ name := "street".toList, kind := .string }] }

def flatPlusNullable : Message :=
  { fullName := ".p.M".toList
    name := "M".toList
    fields := [{ name := "home".toList, kind := .message, typeName := ".p.Leaf".toList, flatten := true },
               { name := "maybe".toList, kind := .string, card := .optional, nullable := true }] }

def conflictWitness : Request :=
  { files := [{ name := "main.proto".toList, generate := true, messages := [leafMsg, flatPlusNullable] }] }

/-- **¬ Complete** (known finding C12 `refused_valid:marshaljson_conflict`): flatten and nullable
on one message break no documented rule, yet both Go plugins refuse the definition. -/
theorem not_complete_conflict : ¬ Complete := by
  intro h
  have := (h conflictWitness (by decide)).1
  revert this; decide

def optFlat : Message :=
  { fullName := ".p.O".toList
    name := "O".toList
    fields := [{ name := "home".toList, kind := .message, typeName := ".p.Leaf".toList, card := .optional, flatten := true }] }

/-- known finding C12 `refused_valid:flatten_on_optional_message`: `optional` puts the field in a
synthetic oneof, which the flatten validator mistakes for a oneof variant. -/
theorem optional_flatten_refused :
    let rq : Request := { files := [{ name := "main.proto".toList, generate := true, messages := [leafMsg, optFlat] }] }
    ruleFree rq = true ∧ (runGoHttp rq).isSome = true := by decide

def enumOnMap : Message :=
  { fullName := ".p.E".toList
    name := "E".toList
    fields := [{ name := "state".toList, kind := .enum, typeName := ".p.St".toList, card := .map, enumEnc := 2 }] }

/-- known finding C12 `accepted:*:enum_number_with_custom_values` (map-valued field): the enum
conflict check looks at the descriptor kind, which is `message` for a map field. -/
theorem enum_on_map_accepted :
    let rq : Request := { files := [{ name := "main.proto".toList, generate := true, messages := [enumOnMap],
                                      enums := [{ fullName := ".p.St".toList, hasCustom := true }] }] }
    ruleFree rq = false ∧ runGoHttp rq = none ∧ runGoClient rq = none := by decide

end Sebuf.C12
