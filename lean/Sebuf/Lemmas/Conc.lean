/-
Theorems about the interleaving model of `Sebuf/Conc.lean`.

* `cell_invariant`, `isolation`, `isolation_partial_schedules`: under any schedule the `Once`
  cell is empty or holds `mk`; every published result is the result of issuing that call alone;
  under a complete schedule every call has published.
* `bad_model_not_isolated`: with one shared variable that calls write and `compute` reads, two
  complete schedules of the same two calls publish different results.
* `call_options_local`, `call_options_independent`: the headers of call `i` are
  `applyHeaders defaults opts[i]`, whatever other calls are issued on the same client and in
  whatever order; `call_options_leak_bad`: not so if an RPC writes `c.defaultHeaders`.
-/
import Sebuf.Conc

namespace Sebuf.Conc

variable {Input Output Val : Type}

/-! ## The invariant -/

/-- The cell is empty or holds the one validator. -/
def CellOk (mk : Val) (sh : Shared Val) : Prop :=
  sh.cell = none ∨ sh.cell = some mk

/-- What a call's locals must look like, as a function of its program counter. -/
def Good (mk : Val) (f : Input → Val → Output) (c : CallSt Input Output Val) : Prop :=
  (1 ≤ c.pc → c.v = some mk) ∧
  (2 ≤ c.pc → c.out = some (f c.input mk)) ∧
  (3 ≤ c.pc → c.result = some (f c.input mk)) ∧
  (c.pc < 3 → c.result = none) ∧
  c.pc ≤ 3

/-- Invariant of all reachable states. -/
def Inv (mk : Val) (f : Input → Val → Output) (s : State Input Output Val) : Prop :=
  CellOk mk s.shared ∧ ∀ c ∈ s.calls, Good mk f c

theorem stepOne_input (mk : Val) (f : Input → Val → Output) (sh : Shared Val)
    (c : CallSt Input Output Val) : (stepOne mk f sh c).2.input = c.input := by
  unfold stepOne
  split <;> rfl

theorem stepOne_pc (mk : Val) (f : Input → Val → Output) (sh : Shared Val)
    (c : CallSt Input Output Val) :
    (stepOne mk f sh c).2.pc = if c.pc < 3 then c.pc + 1 else c.pc := by
  obtain ⟨input, pc, v, out, result⟩ := c
  match pc with
  | 0 => simp [stepOne]
  | 1 => simp [stepOne]
  | 2 => simp [stepOne]
  | n + 3 => simp [stepOne]

theorem stepOne_inv (mk : Val) (f : Input → Val → Output) (sh : Shared Val)
    (c : CallSt Input Output Val) (hsh : CellOk mk sh) (hc : Good mk f c) :
    CellOk mk (stepOne mk f sh c).1 ∧ Good mk f (stepOne mk f sh c).2 := by
  obtain ⟨input, pc, v, out, result⟩ := c
  obtain ⟨h1, h2, h3, h4, h5⟩ := hc
  simp only at h1 h2 h3 h4 h5
  match pc, h1, h2, h3, h4, h5 with
  | 0, h1, h2, h3, h4, h5 =>
    have hcell : (stepOne mk f sh ⟨input, 0, v, out, result⟩).1.cell = some mk
        ∧ (stepOne mk f sh ⟨input, 0, v, out, result⟩).2
            = ⟨input, 1, some mk, out, result⟩ := by
      rcases hsh with h | h <;> simp [stepOne, h]
    rw [hcell.2]
    refine ⟨Or.inr hcell.1, ?_⟩
    refine ⟨fun _ => rfl, fun h => ?_, fun h => ?_, fun _ => ?_, ?_⟩
    · simp at h
    · simp at h
    · exact h4 (by omega)
    · simp
  | 1, h1, h2, h3, h4, h5 =>
    have hv : v = some mk := h1 (Nat.le_refl _)
    subst hv
    simp only [stepOne]
    refine ⟨hsh, ?_⟩
    refine ⟨fun _ => rfl, fun _ => rfl, fun h => ?_, fun _ => ?_, ?_⟩
    · simp at h
    · exact h4 (by omega)
    · simp
  | 2, h1, h2, h3, h4, h5 =>
    have hv : v = some mk := h1 (by omega)
    have ho : out = some (f input mk) := h2 (Nat.le_refl _)
    subst hv ho
    simp only [stepOne]
    refine ⟨hsh, ?_⟩
    refine ⟨fun _ => rfl, fun _ => rfl, fun _ => rfl, fun h => ?_, ?_⟩
    · simp at h
    · simp
  | n + 3, h1, h2, h3, h4, h5 =>
    simp only [stepOne]
    exact ⟨hsh, h1, h2, h3, h4, h5⟩

theorem stepCall_inv (mk : Val) (f : Input → Val → Output) (i : Nat)
    (s : State Input Output Val) (h : Inv mk f s) : Inv mk f (stepCall mk f i s) := by
  unfold stepCall
  split
  · exact h
  · next c hc =>
    have hmem : c ∈ s.calls := List.mem_iff_getElem?.mpr ⟨i, hc⟩
    have hstep := stepOne_inv mk f s.shared c h.1 (h.2 c hmem)
    refine ⟨hstep.1, ?_⟩
    intro c' hc'
    rcases List.mem_or_eq_of_mem_set hc' with h' | h'
    · exact h.2 c' h'
    · rw [h']; exact hstep.2

theorem run_nil (mk : Val) (f : Input → Val → Output) (s : State Input Output Val) :
    run mk f [] s = s := rfl

theorem run_cons (mk : Val) (f : Input → Val → Output) (i : Nat) (sched : List Nat)
    (s : State Input Output Val) :
    run mk f (i :: sched) s = run mk f sched (stepCall mk f i s) := rfl

theorem run_inv (mk : Val) (f : Input → Val → Output) (sched : List Nat)
    (s : State Input Output Val) (h : Inv mk f s) : Inv mk f (run mk f sched s) := by
  induction sched generalizing s with
  | nil => exact h
  | cons i sched ih => exact ih _ (stepCall_inv mk f i s h)

theorem init_inv (mk : Val) (f : Input → Val → Output) (inputs : List Input) :
    Inv mk f (init inputs : State Input Output Val) := by
  refine ⟨Or.inl rfl, ?_⟩
  intro c hc
  simp only [init, List.mem_map] at hc
  obtain ⟨x, _, rfl⟩ := hc
  simp [Good, initCall]

/-! ## Inputs and the number of calls never change -/

theorem stepCall_inputs (mk : Val) (f : Input → Val → Output) (i : Nat)
    (s : State Input Output Val) :
    (stepCall mk f i s).calls.map (·.input) = s.calls.map (·.input) := by
  unfold stepCall
  split
  · rfl
  · next c hc =>
    simp only [List.map_set, stepOne_input]
    apply List.ext_getElem?
    intro j
    rw [List.getElem?_set]
    by_cases hij : i = j
    · subst hij
      obtain ⟨hlt, hget⟩ := List.getElem?_eq_some_iff.mp hc
      simp [hlt, hget]
    · simp [hij]

theorem run_inputs (mk : Val) (f : Input → Val → Output) (sched : List Nat)
    (s : State Input Output Val) :
    (run mk f sched s).calls.map (·.input) = s.calls.map (·.input) := by
  induction sched generalizing s with
  | nil => rfl
  | cons i sched ih => rw [run_cons, ih, stepCall_inputs]

theorem run_length (mk : Val) (f : Input → Val → Output) (sched : List Nat)
    (s : State Input Output Val) : (run mk f sched s).calls.length = s.calls.length := by
  have h := congrArg List.length (run_inputs mk f sched s)
  simpa using h

theorem init_inputs (inputs : List Input) :
    (init inputs : State Input Output Val).calls.map (·.input) = inputs := by
  have hid : ((fun c => c.input) ∘ (initCall : Input → CallSt Input Output Val)) = id := rfl
  simp [init, hid]

/-! ## Counting: after the schedule, the pc of call `i` is `min 3 (occurrences of i)` -/

/-- The program counter of call `i` (`none` if there is no such call). -/
def pcOf (s : State Input Output Val) (i : Nat) : Option Nat := s.calls[i]?.map (·.pc)

theorem stepCall_pc_self (mk : Val) (f : Input → Val → Output) (i : Nat)
    (s : State Input Output Val) :
    pcOf (stepCall mk f i s) i = (pcOf s i).map (fun p => if p < 3 then p + 1 else p) := by
  unfold stepCall pcOf
  split
  · next h => simp [h]
  · next c hc =>
    obtain ⟨hlt, hget⟩ := List.getElem?_eq_some_iff.mp hc
    simp [hlt, hget, stepOne_pc]

theorem stepCall_pc_other (mk : Val) (f : Input → Val → Output) (i j : Nat) (hij : i ≠ j)
    (s : State Input Output Val) : pcOf (stepCall mk f i s) j = pcOf s j := by
  unfold stepCall pcOf
  split
  · rfl
  · simp [hij]

/-- `pcAfter`: starting from any state whose call `i` has `pc = p ≤ 3`, after `sched` the pc of
call `i` is `min 3 (p + number of occurrences of i in sched)`. -/
theorem pcAfter (mk : Val) (f : Input → Val → Output) (sched : List Nat) (i p : Nat)
    (s : State Input Output Val) (hp : pcOf s i = some p) (hle : p ≤ 3) :
    pcOf (run mk f sched s) i = some (min 3 (p + sched.count i)) := by
  induction sched generalizing s p with
  | nil => simp [run_nil, hp]; omega
  | cons j sched ih =>
    rw [run_cons]
    by_cases hji : j = i
    · subst hji
      have h1 := stepCall_pc_self mk f j s
      rw [hp] at h1
      simp only [Option.map_some] at h1
      by_cases hp3 : p < 3
      · simp only [hp3, if_true] at h1
        rw [ih (p + 1) _ h1 (by omega)]
        simp only [List.count_cons_self]
        congr 1; omega
      · simp only [hp3, if_false] at h1
        rw [ih p _ h1 hle]
        simp only [List.count_cons_self]
        congr 1; omega
    · have h1 := stepCall_pc_other mk f j i hji s
      rw [hp] at h1
      rw [ih p _ h1 hle]
      have : (j == i) = false := by simp [hji]
      simp [List.count_cons, this]

theorem init_pc (inputs : List Input) (i : Nat) (hi : i < inputs.length) :
    pcOf (init inputs : State Input Output Val) i = some 0 := by
  simp [pcOf, init, initCall, hi]

/-! ## Main theorems -/

/-- Under any schedule the `Once` cell is empty or holds `mk`. -/
theorem cell_invariant (mk : Val) (f : Input → Val → Output) (inputs : List Input)
    (sched : List Nat) :
    (run mk f sched (init inputs)).shared.cell = none ∨
    (run mk f sched (init inputs)).shared.cell = some mk :=
  (run_inv mk f sched _ (init_inv mk f inputs)).1

/-- Even for incomplete schedules, any published result is the isolated one. -/
theorem isolation_partial_schedules (mk : Val) (f : Input → Val → Output)
    (inputs : List Input) (sched : List Nat) :
    ∀ c ∈ (run mk f sched (init inputs)).calls, ∀ r, c.result = some r →
      r = alone mk f c.input := by
  intro c hc r hr
  obtain ⟨_, _, h3, h4, _⟩ := (run_inv mk f sched _ (init_inv mk f inputs)).2 c hc
  by_cases hpc : c.pc < 3
  · rw [h4 hpc] at hr; cases hr
  · rw [h3 (by omega)] at hr
    cases hr; rfl

/-- After a complete schedule every call has finished. -/
theorem complete_pc (mk : Val) (f : Input → Val → Output) (inputs : List Input)
    (sched : List Nat) (h : complete sched inputs.length) :
    ∀ c ∈ (run mk f sched (init inputs)).calls, c.pc = 3 := by
  intro c hc
  obtain ⟨i, hi⟩ := List.mem_iff_getElem?.mp hc
  have hlen : i < inputs.length := by
    have hl := run_length mk f sched (init inputs : State Input Output Val)
    have hl' : (init inputs : State Input Output Val).calls.length = inputs.length := by
      simp [init]
    rcases Nat.lt_or_ge i (run mk f sched (init inputs)).calls.length with h' | h'
    · omega
    · rw [List.getElem?_eq_none h'] at hi; cases hi
  have hpc := pcAfter mk f sched i 0 _ (init_pc inputs i hlen) (by omega)
  have hcount := h i hlen
  simp only [pcOf, hi, Option.map_some, Option.some.injEq] at hpc
  omega

/-- Under any complete schedule every call's result equals the result of issuing that call
alone. -/
theorem isolation (mk : Val) (f : Input → Val → Output) (inputs : List Input)
    (sched : List Nat) (h : complete sched inputs.length) :
    (run mk f sched (init inputs)).calls.map (·.result)
      = inputs.map (fun x => some (alone mk f x)) := by
  have hinv := (run_inv mk f sched _ (init_inv mk f inputs)).2
  have hpc := complete_pc mk f inputs sched h
  have hin : (run mk f sched (init inputs)).calls.map (·.input) = inputs := by
    rw [run_inputs, init_inputs]
  have hres : (run mk f sched (init inputs)).calls.map (·.result)
      = (run mk f sched (init inputs)).calls.map (fun c => some (alone mk f c.input)) := by
    apply List.map_congr_left
    intro c hc
    have h3 := (hinv c hc).2.2.1
    exact h3 (by rw [hpc c hc]; exact Nat.le_refl _)
  rw [hres]
  conv => rhs; rw [← hin]
  rw [List.map_map]
  rfl

/-- `isolation`, stated with `results`. -/
theorem isolation_results (mk : Val) (f : Input → Val → Output) (inputs : List Input)
    (sched₁ sched₂ : List Nat) (h₁ : complete sched₁ inputs.length)
    (h₂ : complete sched₂ inputs.length) :
    results mk f sched₁ inputs = results mk f sched₂ inputs := by
  unfold results
  rw [isolation mk f inputs sched₁ h₁, isolation mk f inputs sched₂ h₂]

/-! ## Non-vacuity: concrete runs -/

/-- Three calls with inputs 3, 5, 7, validator value 100, `f x v = x * v + 1`; an interleaved
complete schedule with repetitions and an out-of-range index. -/
example : complete [2, 0, 1, 1, 9, 0, 2, 2, 0, 1, 0] 3 := by decide

example :
    results (100 : Nat) (fun x v => x * v + 1) [2, 0, 1, 1, 9, 0, 2, 2, 0, 1, 0] [3, 5, 7]
      = [some 301, some 501, some 701] := by decide

example :
    results (100 : Nat) (fun x v => x * v + 1) [2, 0, 1, 1, 9, 0, 2, 2, 0, 1, 0] [3, 5, 7]
      = [3, 5, 7].map (fun x => some (alone 100 (fun x v => x * v + 1) x)) := by decide

/-- The sequential schedule gives the same. -/
example :
    results (100 : Nat) (fun x v => x * v + 1) [0, 0, 0, 1, 1, 1, 2, 2, 2] [3, 5, 7]
      = [some 301, some 501, some 701] := by decide

/-- An incomplete schedule: call 1 has computed but not responded, call 2 has not started. -/
example :
    run (100 : Nat) (fun x v => x * v + 1) [1, 0, 1, 0, 0] (init [3, 5, 7])
      = { shared := { cell := some 100 }
          calls := [ { input := 3, pc := 3, v := some 100, out := some 301, result := some 301 },
                     { input := 5, pc := 2, v := some 100, out := some 501, result := none },
                     { input := 7, pc := 0, v := none, out := none, result := none } ] } := by
  decide

/-- The hypothesis of `isolation` is not vacuous and not trivially true. -/
example : ¬ complete [1, 0, 1, 0, 0] 3 := by decide

/-! ## Contrast model -/

/-- If `compute` also reads a shared variable that other calls write, isolation fails: two
complete schedules of the same two calls publish different results. -/
theorem bad_model_not_isolated :
    ∃ (inputs : List Nat) (sched₁ sched₂ : List Nat),
      completeN sched₁ inputs.length ∧ completeN sched₂ inputs.length ∧
      resultsBad () (fun a b (_ : Unit) => a + b) sched₁ inputs
        ≠ resultsBad () (fun a b (_ : Unit) => a + b) sched₂ inputs :=
  ⟨[1, 2], [0, 0, 0, 1, 1, 1], [0, 1, 0, 0, 1, 1], by decide, by decide, by decide⟩

/-- The two result lists of the witness. -/
example : resultsBad () (fun a b (_ : Unit) => a + b) [0, 0, 0, 1, 1, 1] [1, 2]
    = [some 2, some 4] := by decide

example : resultsBad () (fun a b (_ : Unit) => a + b) [0, 1, 0, 0, 1, 1] [1, 2]
    = [some 3, some 4] := by decide

/-! ## Client: per-call options stay local -/

theorem hget_hset (k k' v : String) (h : Headers) :
    hget k (hset k' v h) = if k' = k then some v else hget k h := by
  induction h with
  | nil => simp [hset, hget]
  | cons kv rest ih =>
    obtain ⟨k₀, v₀⟩ := kv
    by_cases h0 : k₀ = k'
    · subst h0
      by_cases h1 : k₀ = k <;> simp [hset, hget, h1]
    · simp only [hset, h0, if_false, hget, ih]
      by_cases h2 : k₀ = k
      · subst h2
        have h3 : ¬ k' = k₀ := fun h => h0 h.symm
        simp [h3]
      · simp [h2]

/-- Reading the merged map: the last per-call binding of `k` if there is one, else the
default. -/
theorem hget_applyHeaders (k : String) (defaults perCall : Headers) :
    hget k (applyHeaders defaults perCall)
      = match lastBinding k perCall with
        | some v => some v
        | none => hget k defaults := by
  unfold applyHeaders
  induction perCall generalizing defaults with
  | nil => simp [lastBinding]
  | cons kv rest ih =>
    obtain ⟨k₀, v₀⟩ := kv
    simp only [List.foldl_cons, lastBinding]
    rw [ih]
    cases lastBinding k rest with
    | some v => rfl
    | none =>
      simp only [hget_hset]
      by_cases h : k₀ = k <;> simp [h]

/-- A reading RPC leaves the client as it found it. -/
theorem issue_rpc_client (opts : List Headers) (c : Client) (order : List Nat) :
    (issue rpc opts c order).1 = c := by
  induction order generalizing c with
  | nil => rfl
  | cons j order ih => simp only [issue, rpc]; exact ih c

/-- In any order of issue, on any client, the log entry of call `i` is built from the client's
defaults and call `i`'s own options only. -/
theorem issue_rpc_log (opts : List Headers) (c : Client) (order : List Nat) (i : Nat)
    (hi : i ∈ order) :
    logLookup i (issue rpc opts c order).2
      = some (applyHeaders c.defaultHeaders (opts.getD i [])) := by
  induction order generalizing c with
  | nil => cases hi
  | cons j order ih =>
    simp only [issue, logLookup]
    by_cases hji : j = i
    · subst hji; simp [rpc]
    · simp only [hji, if_false]
      have hi' : i ∈ order := by
        rcases List.mem_cons.mp hi with h | h
        · exact absurd h.symm hji
        · exact h
      have := ih (rpc c (opts.getD j [])).1 hi'
      simpa [rpc] using this

/-- The headers of call `i` are `applyHeaders defaults opts[i]` whatever the order in which the
calls are issued (with repetitions, with other calls before and after). -/
theorem call_options_local_ord (order : List Nat) (defaults : Headers) (opts : List Headers)
    (i : Nat) (hi : i ∈ order) :
    requestHeadersOrd rpc order defaults opts i
      = some (applyHeaders defaults (opts.getD i [])) := by
  unfold requestHeadersOrd
  exact issue_rpc_log opts _ order i hi

/-- The header list built for call `i` is `applyHeaders defaults opts[i]`. -/
theorem call_options_local (defaults : List (String × String))
    (opts : List (List (String × String))) (i : Nat) (hi : i < opts.length) :
    requestHeaders defaults opts i = applyHeaders defaults (opts.getD i []) := by
  unfold requestHeaders
  rw [call_options_local_ord _ _ _ _ (List.mem_range.mpr hi)]
  rfl

/-- ... and therefore does not depend on the options of any other call `j`. -/
theorem call_options_independent (defaults : List (String × String))
    (opts : List (List (String × String))) (i j : Nat) (hi : i < opts.length) (hij : i ≠ j)
    (o : List (String × String)) :
    requestHeaders defaults (opts.set j o) i = requestHeaders defaults opts i := by
  rw [call_options_local _ _ _ (by simpa using hi), call_options_local _ _ _ hi]
  congr 1
  simp [List.getD, Ne.symm hij]

/-- If an RPC writes `c.defaultHeaders`, call 0's option leaks into call 1 (which passed no
options at all). -/
theorem call_options_leak_bad :
    ∃ (defaults : Headers) (opts : List Headers) (i j : Nat),
      i < opts.length ∧ j < opts.length ∧ i ≠ j ∧
      requestHeadersBad defaults opts j ≠ applyHeaders defaults (opts.getD j []) ∧
      hget "X-Trace" (requestHeadersBad defaults opts j) = hget "X-Trace" (opts.getD i []) :=
  ⟨[("Accept", "application/json")], [[("X-Trace", "abc")], []], 0, 1,
    by decide, by decide, by decide, by decide, by decide⟩

/-- Non-vacuity of the good model on the same data: call 1 sends the defaults only, call 0 its
own option on top of them; a per-call option overrides a default of the same key. -/
example :
    requestHeaders [("Accept", "application/json")] [[("X-Trace", "abc")], []] 1
      = [("Accept", "application/json")] := by decide

example :
    requestHeaders [("Accept", "application/json")] [[("X-Trace", "abc")], []] 0
      = [("Accept", "application/json"), ("X-Trace", "abc")] := by decide

example :
    requestHeadersBad [("Accept", "application/json")] [[("X-Trace", "abc")], []] 1
      = [("Accept", "application/json"), ("X-Trace", "abc")] := by decide

example : applyHeaders [("A", "1"), ("B", "2")] [("B", "3"), ("C", "4"), ("B", "5")]
    = [("A", "1"), ("B", "5"), ("C", "4")] := by decide

end Sebuf.Conc
