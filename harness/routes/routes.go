// Package routes reads verb / path template / parameter placement of every RPC OUT OF WHAT THE
// PLUGINS EMITTED (Go source, TypeScript source, OpenAPI YAML). Nothing here looks at the
// generators' source.
package routes

import (
	"fmt"
	"regexp"
	"sort"
	"strconv"
	"strings"

	yaml "go.yaml.in/yaml/v4"

	"verif/harness/ir"
	"verif/harness/plug"
)

type Route struct {
	Verb       string   `json:"verb"`
	Template   string   `json:"template"`
	PathVars   []string `json:"path_vars"`
	QueryNames []string `json:"query_names"`
	HasBody    bool     `json:"has_body"`
	// QueryRequired: the query parameters the artefact marks required (go-http table, OpenAPI
	// document); the clients and the TS server carry no such flag.
	QueryRequired []string `json:"query_required"`
	// SegIndex (TS server only): the index into `url.pathname.split("/")` each path variable is read from.
	SegIndex map[string]int `json:"seg_index,omitempty"`
}

func (r Route) Canon() Route {
	if r.PathVars == nil {
		r.PathVars = []string{}
	}
	if r.QueryNames == nil {
		r.QueryNames = []string{}
	}
	if r.QueryRequired == nil {
		r.QueryRequired = []string{}
	}
	return r
}

func (r Route) Equal(o Route) bool {
	return r.Verb == o.Verb && r.Template == o.Template && r.HasBody == o.HasBody &&
		strings.Join(r.PathVars, "\x00") == strings.Join(o.PathVars, "\x00") &&
		strings.Join(r.QueryNames, "\x00") == strings.Join(o.QueryNames, "\x00") &&
		strings.Join(r.QueryRequired, "\x00") == strings.Join(o.QueryRequired, "\x00")
}

// key: "Service.Method" (proto names)
type Table map[string]Route

var (
	reHandle    = regexp.MustCompile(`config\.mux\.Handle\("([A-Z]+) ([^"]*)", (\w+)Handler\)`)
	reBind      = regexp.MustCompile(`(?s)(\w+)Handler := BindingMiddleware\[.*?\n\s*(\w+)PathParams, (\w+)QueryParams,\n\s*"([A-Z]*)", config\.errorHandler,`)
	rePathCfg   = regexp.MustCompile(`var (\w+)PathParams = \[\]PathParamConfig\{((?:\n\s*\{[^\n]*\},)*)\n?\}`)
	reQueryCfg  = regexp.MustCompile(`var (\w+)QueryParams = \[\]QueryParamConfig\{((?:\n\s*\{[^\n]*\},)*)\n?\}`)
	reURLParam  = regexp.MustCompile(`URLParam: "([^"]*)"`)
	reQName     = regexp.MustCompile(`QueryName: "([^"]*)"`)
	reQRequired = regexp.MustCompile(`Required: (true|false)`)
	reRegister  = regexp.MustCompile(`func Register(\w+)Server\(`)
)

func lowerFirst(s string) string {
	if s == "" {
		return s
	}
	return strings.ToLower(s[:1]) + s[1:]
}

func svcMethods(f *ir.File) (order []string) {
	for _, s := range f.Services {
		for _, m := range s.Methods {
			order = append(order, s.Name+"."+m.Name)
		}
	}
	return
}

// GoHTTP reads the routes registered by the emitted *_http.pb.go.
func GoHTTP(f *ir.File, res *plug.Result) (Table, error) {
	src := ""
	for n, c := range res.Files {
		if strings.HasSuffix(n, "_http.pb.go") && ownFile(f, n) {
			src = c
		}
	}
	if src == "" {
		return nil, fmt.Errorf("no _http.pb.go emitted")
	}
	handles := reHandle.FindAllStringSubmatch(src, -1)
	binds := reBind.FindAllStringSubmatch(src, -1)
	order := svcMethods(f)
	if len(handles) != len(order) || len(binds) != len(order) {
		return nil, fmt.Errorf("go-http: %d mux.Handle / %d BindingMiddleware for %d RPCs", len(handles), len(binds), len(order))
	}
	pcfg := map[string][]string{}
	for _, m := range rePathCfg.FindAllStringSubmatch(src, -1) {
		for _, u := range reURLParam.FindAllStringSubmatch(m[2], -1) {
			pcfg[m[1]] = append(pcfg[m[1]], u[1])
		}
	}
	qcfg := map[string][]string{}
	qreq := map[string][]string{}
	for _, m := range reQueryCfg.FindAllStringSubmatch(src, -1) {
		for _, row := range strings.Split(m[2], "\n") {
			u := reQName.FindStringSubmatch(row)
			if u == nil {
				continue
			}
			qcfg[m[1]] = append(qcfg[m[1]], u[1])
			rq := reQRequired.FindStringSubmatch(row)
			if rq == nil {
				return nil, fmt.Errorf("go-http: QueryParamConfig row without a Required flag: %s", row)
			}
			if rq[1] == "true" {
				qreq[m[1]] = append(qreq[m[1]], u[1])
			}
		}
	}
	t := Table{}
	for i, k := range order {
		h := handles[i]
		b := binds[i]
		if h[3] != b[1] {
			return nil, fmt.Errorf("go-http: handler order mismatch %s vs %s", h[3], b[1])
		}
		verb := h[1]
		// the verb handed to BindingMiddleware decides body binding
		t[k] = Route{Verb: verb, Template: h[2], PathVars: pcfg[b[2]], QueryNames: qcfg[b[3]], QueryRequired: qreq[b[3]],
			HasBody: b[4] == "POST" || b[4] == "PUT" || b[4] == "PATCH"}.Canon()
		if b[4] != verb {
			r := t[k]
			r.Verb = verb + "|bind:" + b[4]
			t[k] = r
		}
	}
	return t, nil
}

var (
	reGoClientFunc = regexp.MustCompile(`(?m)^func \(c \*(\w+)Client\) (\w+)\(ctx context\.Context, req `)
	reGoPath       = regexp.MustCompile(`path := "([^"]*)"`)
	reGoVerb       = regexp.MustCompile(`http\.NewRequestWithContext\(ctx, "([A-Z]*)"`)
	reGoReplace    = regexp.MustCompile(`strings\.Replace\(path, "\{([^"]*)\}"`)
	reGoQuery      = regexp.MustCompile(`queryParams\.Set\("([^"]*)"`)
)

// GoClient reads the request lines the emitted Go client builds.
func GoClient(f *ir.File, res *plug.Result) (Table, error) {
	src := ""
	for n, c := range res.Files {
		if strings.HasSuffix(n, "_client.pb.go") && ownFile(f, n) {
			src = c
		}
	}
	if src == "" {
		return nil, fmt.Errorf("no _client.pb.go emitted")
	}
	idx := reGoClientFunc.FindAllStringSubmatchIndex(src, -1)
	order := svcMethods(f)
	if len(idx) != len(order) {
		return nil, fmt.Errorf("go-client: %d RPC methods for %d RPCs", len(idx), len(order))
	}
	t := Table{}
	for i, k := range order {
		end := len(src)
		if i+1 < len(idx) {
			end = idx[i+1][0]
		}
		body := src[idx[i][0]:end]
		// stop at the helper methods that follow the last RPC of a service
		if j := strings.Index(body, ") marshalRequest("); j >= 0 {
			body = body[:j]
		}
		var r Route
		if m := reGoPath.FindStringSubmatch(body); m != nil {
			r.Template = m[1]
		}
		if m := reGoVerb.FindStringSubmatch(body); m != nil {
			r.Verb = m[1]
		}
		for _, m := range reGoReplace.FindAllStringSubmatch(body, -1) {
			r.PathVars = append(r.PathVars, m[1])
		}
		for _, m := range reGoQuery.FindAllStringSubmatch(body, -1) {
			r.QueryNames = append(r.QueryNames, m[1])
		}
		r.HasBody = strings.Contains(body, "c.marshalRequest(req")
		t[k] = r.Canon()
	}
	return t, nil
}

var (
	reTSMethod  = regexp.MustCompile(`(?m)^  async (\w+)\(req: `)
	reTSPath    = regexp.MustCompile(`let path = "([^"]*)";`)
	reTSVerb    = regexp.MustCompile(`method: "([A-Z]*)",`)
	reTSReplace = regexp.MustCompile(`path\.replace\("\{([^"]*)\}"`)
	reTSQuery   = regexp.MustCompile(`params\.set\("([^"]*)"`)
)

// TSClient reads the request lines the emitted TS client builds.
func TSClient(f *ir.File, res *plug.Result) (Table, error) {
	src := ""
	for n, c := range res.Files {
		if strings.HasSuffix(n, "_client.ts") && ownFile(f, n) {
			src = c
		}
	}
	if src == "" {
		return nil, fmt.Errorf("no _client.ts emitted")
	}
	idx := reTSMethod.FindAllStringSubmatchIndex(src, -1)
	order := svcMethods(f)
	if len(idx) != len(order) {
		return nil, fmt.Errorf("ts-client: %d RPC methods for %d RPCs", len(idx), len(order))
	}
	t := Table{}
	for i, k := range order {
		end := len(src)
		if i+1 < len(idx) {
			end = idx[i+1][0]
		}
		body := src[idx[i][0]:end]
		if j := strings.Index(body, "private async handleError"); j >= 0 {
			body = body[:j]
		}
		var r Route
		if m := reTSPath.FindStringSubmatch(body); m != nil {
			r.Template = m[1]
		}
		if m := reTSVerb.FindStringSubmatch(body); m != nil {
			r.Verb = m[1]
		}
		for _, m := range reTSReplace.FindAllStringSubmatch(body, -1) {
			r.PathVars = append(r.PathVars, m[1])
		}
		for _, m := range reTSQuery.FindAllStringSubmatch(body, -1) {
			r.QueryNames = append(r.QueryNames, m[1])
		}
		r.HasBody = strings.Contains(body, "body: JSON.stringify(req)")
		t[k] = r.Canon()
	}
	return t, nil
}

var (
	reTSRoute    = regexp.MustCompile(`(?m)^    \{\n      method: "([A-Z]*)",\n      path: "([^"]*)",`)
	reTSSrvParam = regexp.MustCompile(`pathParams\["([^"]*)"\] = `)
	reTSSrvSeg   = regexp.MustCompile(`pathParams\["([^"]*)"\] = decodeURIComponent\(pathSegments\[(\d+)\]`)
	reTSSrvQuery = regexp.MustCompile(`params\.(?:get|getAll)\("([^"]*)"\)`)
)

// TSServer reads the RouteDescriptors the emitted TS server publishes.
func TSServer(f *ir.File, res *plug.Result) (Table, error) {
	src := ""
	for n, c := range res.Files {
		if strings.HasSuffix(n, "_server.ts") && ownFile(f, n) {
			src = c
		}
	}
	if src == "" {
		return nil, fmt.Errorf("no _server.ts emitted")
	}
	idx := reTSRoute.FindAllStringSubmatchIndex(src, -1)
	order := svcMethods(f)
	if len(idx) != len(order) {
		return nil, fmt.Errorf("ts-server: %d routes for %d RPCs", len(idx), len(order))
	}
	t := Table{}
	for i, k := range order {
		end := len(src)
		if i+1 < len(idx) {
			end = idx[i+1][0]
		}
		body := src[idx[i][0]:end]
		m := reTSRoute.FindStringSubmatch(body)
		r := Route{Verb: m[1], Template: m[2]}
		for _, p := range reTSSrvParam.FindAllStringSubmatch(body, -1) {
			r.PathVars = append(r.PathVars, p[1])
		}
		for _, p := range reTSSrvSeg.FindAllStringSubmatch(body, -1) {
			if r.SegIndex == nil {
				r.SegIndex = map[string]int{}
			}
			n, _ := strconv.Atoi(p[2])
			r.SegIndex[p[1]] = n
		}
		seen := map[string]bool{}
		for _, q := range reTSSrvQuery.FindAllStringSubmatch(body, -1) {
			if !seen[q[1]] {
				seen[q[1]] = true
				r.QueryNames = append(r.QueryNames, q[1])
			}
		}
		r.HasBody = strings.Contains(body, "await req.json()")
		t[k] = r.Canon()
	}
	return t, nil
}

// OpenAPIDoc is one parsed document.
type OpenAPIDoc struct {
	Name string
	Doc  map[string]any
}

// ParseOpenAPI parses the YAML (or JSON, a YAML subset) documents a run emitted.
func ParseOpenAPI(res *plug.Result) ([]OpenAPIDoc, error) {
	var docs []OpenAPIDoc
	names := append([]string(nil), res.Order...)
	sort.Strings(names)
	for _, n := range names {
		var d map[string]any
		if err := yaml.Unmarshal([]byte(res.Files[n]), &d); err != nil {
			return nil, fmt.Errorf("%s: %v", n, err)
		}
		docs = append(docs, OpenAPIDoc{Name: n, Doc: d})
	}
	return docs, nil
}

// OpenAPI reads the operations of the documents: key Service.operationId. It also returns, per
// service, how many operations carry each operationId.
func OpenAPI(f *ir.File, res *plug.Result) (Table, map[string]int, error) {
	docs, err := ParseOpenAPI(res)
	if err != nil {
		return nil, nil, err
	}
	t := Table{}
	counts := map[string]int{}
	for _, d := range docs {
		svc := strings.SplitN(d.Name, ".openapi.", 2)[0]
		paths, _ := d.Doc["paths"].(map[string]any)
		for p, item := range paths {
			ops, _ := item.(map[string]any)
			for verb, opv := range ops {
				op, ok := opv.(map[string]any)
				if !ok {
					continue
				}
				id, _ := op["operationId"].(string)
				k := svc + "." + id
				counts[k]++
				r := Route{Verb: strings.ToUpper(verb), Template: p}
				if ps, ok := op["parameters"].([]any); ok {
					for _, pv := range ps {
						pm, _ := pv.(map[string]any)
						switch pm["in"] {
						case "path":
							r.PathVars = append(r.PathVars, fmt.Sprint(pm["name"]))
						case "query":
							r.QueryNames = append(r.QueryNames, fmt.Sprint(pm["name"]))
							if rq, _ := pm["required"].(bool); rq {
								r.QueryRequired = append(r.QueryRequired, fmt.Sprint(pm["name"]))
							}
						}
					}
				}
				_, r.HasBody = op["requestBody"]
				t[k] = r.Canon()
			}
		}
	}
	return t, counts, nil
}

// ownFile: was the emitted file n generated for proto file f (same base name)? Go plugins emit under
// the go_package import path, TS plugins next to the proto file: compare base names only.
func ownFile(f *ir.File, n string) bool {
	base := strings.TrimSuffix(f.Name[strings.LastIndex(f.Name, "/")+1:], ".proto")
	fn := n[strings.LastIndex(n, "/")+1:]
	return strings.HasPrefix(fn, base+"_") || strings.HasPrefix(fn, base+".")
}
