import Sebuf.Driver
import Sebuf.DriverC12
import Sebuf.DriverC16
import Sebuf.DriverC02
import Sebuf.DriverC01
import Sebuf.DriverC09
import Sebuf.DriverC10
import Sebuf.DriverC13
import Sebuf.DriverC05
import Sebuf.DriverOA
import Sebuf.DriverC11
import Sebuf.DriverC20
import Sebuf.DriverC07
import Sebuf.DriverC17
import Sebuf.DriverC19
import Sebuf.DriverC08
namespace Sebuf.DriverOps
def dispatch (op : String) (j : Lean.Json) : Lean.Json :=
  match op with
  | "route5" => Sebuf.Driver.opRoute5 j
  | "route_svc" => Sebuf.Driver.opRouteSvc j
  | "gen_outcome" => Sebuf.Driver.opGenOutcome j
  | "mock_graph" => Sebuf.Driver.opMockGraph j
  | "bind_case" => Sebuf.Driver.opBindCase j
  | "call_outcome" => Sebuf.Driver.opCallOutcome j
  | "client_url" => Sebuf.Driver.opClientUrl j
  | "header_check" => Sebuf.Driver.opHeaderCheck j
  | "published_headers" => Sebuf.Driver.opPublishedHeaders j
  | "error_case" => Sebuf.Driver.opErrorCase j
  | "ts_server_error" => Sebuf.Driver.opTsServerError j
  | "build_defects" => Sebuf.Driver.opBuildDefects j
  | "spec_enc" => Sebuf.Driver.opSpecEnc j
  | "resp_codec" => Sebuf.Driver.opRespCodec j
  | "oa_wf" => Sebuf.Driver.opOaWf j
  | "schema_valid" => Sebuf.Driver.opSchemaValid j
  | "oa_components" => Sebuf.Driver.opOaComponents j
  | "oa_names" => Sebuf.Driver.opOaNames j
  | "oa_format" => Sebuf.Driver.opOaFormat j
  | "yaml11" => Sebuf.Driver.opYaml11 j
  | "oa_schema" => Sebuf.Driver.opOaSchema j
  | "ts_decls" => Sebuf.Driver.opTsDecls j
  | "ts_inhabits" => Sebuf.Driver.opTsInhabits j
  | "ts_case" => Sebuf.Driver.opTsCase j
  | "ts_handler" => Sebuf.Driver.opTsHandler j
  | "mock_answer" => Sebuf.Driver.opMockAnswer j
  | "strfn" => Sebuf.Driver.opStrFn j
  | "dec_case" => Sebuf.Driver.opDecCase j
  | "serve_case" => Sebuf.Driver.opServeCase j
  | "child_key" => Sebuf.Driver.opChildKey j
  | "aux_case" => Sebuf.Driver.opAuxCase j
  | "client_case" => Sebuf.Driver.opClientCase j
  | "c17_calls" => Sebuf.Driver.opC17Calls j
  | "c19_case" => Sebuf.Driver.opC19Case j
  | "c19_required" => Sebuf.Driver.opC19Required j
  | "c19_yaml" => Sebuf.Driver.opC19Yaml j
  | "c08_case" => Sebuf.Driver.opC08Case j
  | "ts_header_check" => Sebuf.Driver.opTsHeaderCheck j
  | "ts_extract" => Sebuf.Driver.opTsExtract j
  | _ => Lean.Json.mkObj [("driver_err", Lean.Json.str ("unknown op " ++ op))]
end Sebuf.DriverOps
