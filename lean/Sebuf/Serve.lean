import Sebuf.Bind
import Sebuf.Call
/-!
The body step of the emitted middleware with decoding made explicit (`Impl`): which decoder
runs is the regenerated content-type table; a decode error becomes HTTP 400 with one violation
on field `body` and the handler is not invoked; an empty body is not decoded at all.
The decoders themselves (protojson, proto wire, the generated `UnmarshalJSON`s) are parameters.
-/
namespace Sebuf.Serve
open Sebuf Sebuf.Bind Sebuf.Call

variable {V : Type}

structure SReq where
  bodyVerb : Bool
  rawBody  : Bytes
  ct       : String

inductive Out (V : Type)
  | dispatch (m : Fields V)
  | bad400 (field : Str)
deriving Repr

/-- decoder chosen by `bindDataBasedOnContentType`. -/
def decodeBody (dj db : Bytes → Option (Fields V)) (ct : String) (raw : Bytes) : Option (Fields V) :=
  if serverReqCodec ct = "binary" then db raw else dj raw

/-- the body step, starting from the message `m0` the URL binders produced. -/
def serveBody (dj db : Bytes → Option (Fields V)) (r : SReq) (m0 : Fields V) : Out V :=
  if !r.bodyVerb then .dispatch m0
  else if Gen.Pipeline.emptyBodySkipsDecode && r.rawBody.isEmpty then .dispatch m0
  else match decodeBody dj db r.ct r.rawBody with
    | some fs => .dispatch fs
    | none => .bad400 "body".toList

end Sebuf.Serve
