package main

import (
	"bytes"
	"fmt"
	"go/ast"
	"go/printer"
	"go/token"
	"reflect"
	"sort"
	"strings"

	"verif/harness/gen"
	"verif/harness/plug"
)

// Decoders: the decode side of the emitted Go server as text facts. For the fixed decoder-zoo
// probe (gen.GenDecoderZoo(nil, 0)) it prints, normalised by go/printer without comments,
//   - the two body readers of *_http_binding.pb.go (statement order: read / empty check / error
//     check / decode, and which read errors are tolerated),
//   - every `if v, ok := raw["key"]; ok {...}` edit block of every generated UnmarshalJSON
//     (which Go type the member is unmarshalled into, which conversion runs, and whether a failed
//     conversion is returned or dropped),
//   - the key pairs the flatten / flattened-oneof decoders move into the child object, and the
//     json struct tags protoc-gen-go gave the child (what encoding/json will look the keys up by).
// lean/Sebuf/Decode.lean transcribes these blocks; Props/C11.lean proves the transcription is
// the current text (`rfl`), so any edit of a template breaks a proof obligation.
func init() { register("Decoders", extractDecoders) }

func nodeText(n any) string {
	var b bytes.Buffer
	fset := token.NewFileSet()
	if err := (&printer.Config{Mode: printer.RawFormat}).Fprint(&b, fset, n); err != nil {
		return "PRINT-ERROR " + err.Error()
	}
	// one line, single spaces
	return strings.Join(strings.Fields(b.String()), " ")
}

func methodsNamed(f *ast.File, name string) map[string]*ast.FuncDecl {
	out := map[string]*ast.FuncDecl{}
	for _, d := range f.Decls {
		fd, ok := d.(*ast.FuncDecl)
		if !ok || fd.Name.Name != name || fd.Recv == nil || len(fd.Recv.List) != 1 {
			continue
		}
		t := fd.Recv.List[0].Type
		if st, ok := t.(*ast.StarExpr); ok {
			t = st.X
		}
		if id, ok := t.(*ast.Ident); ok {
			out[id.Name] = fd
		}
	}
	return out
}

// rawKeyOf returns k when s is `if <x>, ok := raw["k"]; ok ... {`.
func rawKeyOf(s ast.Stmt) (string, bool) {
	is, ok := s.(*ast.IfStmt)
	if !ok || is.Init == nil {
		return "", false
	}
	as, ok := is.Init.(*ast.AssignStmt)
	if !ok || len(as.Rhs) != 1 {
		return "", false
	}
	ix, ok := as.Rhs[0].(*ast.IndexExpr)
	if !ok || exprString(ix.X) != "raw" {
		return "", false
	}
	k, ok := litOrConst(ix.Index, nil)
	return k, ok
}

func extractDecoders() (string, error) {
	req, _ := gen.GenDecoderZoo(nil, 0)
	res, err := plug.Run(plug.GoHTTP, req, nil)
	if err != nil {
		return "", err
	}
	if !res.OK() {
		e := res.Outcome()
		if res.Error != nil {
			e += ": " + *res.Error
		}
		return "", fmt.Errorf("go-http refused the decoder zoo: %s", e)
	}
	pg, err := plug.Run(plug.ProtocGo, req, nil)
	if err != nil || !pg.OK() {
		return "", fmt.Errorf("protoc-gen-go refused the decoder zoo: %v", err)
	}
	var b strings.Builder
	b.WriteString(header("Decoders", "the Go text protoc-gen-go-http EMITS for the decoder-zoo probe schema (gen.GenDecoderZoo), printed by go/printer without comments"))
	var names []string
	for n := range res.Files {
		names = append(names, n)
	}
	sort.Strings(names)
	// 1. body readers
	for _, n := range names {
		if !strings.HasSuffix(n, "_http_binding.pb.go") {
			continue
		}
		f, err := parseSrc(res.Files[n])
		if err != nil {
			return "", err
		}
		for _, fn := range []string{"bindDataFromJSONRequest", "bindDataFromBinaryRequest", "writeProtoMessageResponse"} {
			fd := findFunc(f, fn)
			if fd == nil {
				return "", fmt.Errorf("%s not emitted", fn)
			}
			var stmts []string
			for _, s := range fd.Body.List {
				stmts = append(stmts, nodeText(s))
			}
			fmt.Fprintf(&b, "/-- top-level statements of the emitted %s. -/\ndef %s : List String := [%s]\n", fn, fn, joinLean(stmts))
		}
	}
	// 2. edit blocks
	type row struct{ key, text string }
	var rows []row
	var moves []row
	var shapes []row
	for _, n := range names {
		if strings.HasSuffix(n, "_http.pb.go") || strings.HasSuffix(n, "_http_binding.pb.go") || strings.HasSuffix(n, "_http_config.pb.go") {
			continue
		}
		f, err := parseSrc(res.Files[n])
		if err != nil {
			return "", err
		}
		ms := methodsNamed(f, "UnmarshalJSON")
		var tys []string
		for t := range ms {
			tys = append(tys, t)
		}
		sort.Strings(tys)
		for _, t := range tys {
			fd := ms[t]
			var shape []string
			for _, s := range fd.Body.List {
				if k, ok := rawKeyOf(s); ok {
					rows = append(rows, row{t + "." + k, nodeText(s)})
					shape = append(shape, "EDIT "+k)
				} else if _, isBlock := s.(*ast.BlockStmt); isBlock {
					shape = append(shape, "BLOCK")
				} else {
					shape = append(shape, nodeText(s))
				}
			}
			shapes = append(shapes, row{t, joinLean(shape)})
			// key moves `child["a"] = v` guarded by `raw["b"]` lookups (flatten, flattened oneof)
			ast.Inspect(fd.Body, func(nd ast.Node) bool {
				is, ok := nd.(*ast.IfStmt)
				if !ok {
					return true
				}
				k, ok := rawKeyOf(is)
				if !ok || len(is.Body.List) == 0 {
					return true
				}
				as, ok := is.Body.List[0].(*ast.AssignStmt)
				if !ok || len(as.Lhs) != 1 {
					return true
				}
				ix, ok := as.Lhs[0].(*ast.IndexExpr)
				if !ok {
					return true
				}
				m := exprString(ix.X)
				if m != "childRaw" && m != "variantMap" {
					return true
				}
				ck, _ := litOrConst(ix.Index, nil)
				moves = append(moves, row{t + "." + k, ck})
				return true
			})
		}
	}
	if len(rows) == 0 {
		return "", fmt.Errorf("no raw[...] edit blocks found in the emitted UnmarshalJSON methods")
	}
	b.WriteString("/-- (Type.jsonKey, text) of every `if v, ok := raw[key]; ok {…}` block at the top level of an emitted UnmarshalJSON. -/\ndef editBlocks : List (String × String) := [\n")
	for i, r := range rows {
		sep := ","
		if i == len(rows)-1 {
			sep = ""
		}
		fmt.Fprintf(&b, "  (%s, %s)%s\n", leanStr(r.key), leanStr(r.text), sep)
	}
	b.WriteString("]\n")
	b.WriteString("/-- statement skeleton of every emitted UnmarshalJSON: edit blocks by key, everything else as text (what the decoder starts from and what it ends with). -/\ndef unmarshalShape : List (String × List String) := [\n")
	for i, r := range shapes {
		sep := ","
		if i == len(shapes)-1 {
			sep = ""
		}
		fmt.Fprintf(&b, "  (%s, [%s])%s\n", leanStr(r.key), r.text, sep)
	}
	b.WriteString("]\n")
	b.WriteString("/-- (Type.bodyKey, key under which the member is handed to encoding/json for the child struct). -/\ndef childKeyMoves : List (String × String) := [")
	for i, r := range moves {
		if i > 0 {
			b.WriteString(", ")
		}
		fmt.Fprintf(&b, "(%s, %s)", leanStr(r.key), leanStr(r.text))
	}
	b.WriteString("]\n")
	// 3. struct tags of the child types (protoc-gen-go output)
	var tags []row
	for n, src := range pg.Files {
		if !strings.HasSuffix(n, ".pb.go") {
			continue
		}
		f, err := parseSrc(src)
		if err != nil {
			return "", err
		}
		for _, d := range f.Decls {
			gd, ok := d.(*ast.GenDecl)
			if !ok || gd.Tok != token.TYPE {
				continue
			}
			for _, sp := range gd.Specs {
				ts := sp.(*ast.TypeSpec)
				st, ok := ts.Type.(*ast.StructType)
				if !ok || (ts.Name.Name != "Leaf" && ts.Name.Name != "TextVariant" && ts.Name.Name != "ImageVariant") {
					continue
				}
				for _, fl := range st.Fields.List {
					if fl.Tag == nil {
						continue
					}
					tv := reflect.StructTag(strings.Trim(fl.Tag.Value, "`")).Get("json")
					if tv == "" || tv == "-" {
						continue
					}
					tags = append(tags, row{ts.Name.Name, strings.Split(tv, ",")[0]})
				}
			}
		}
	}
	sort.Slice(tags, func(i, j int) bool { return tags[i].key+"\x00"+tags[i].text < tags[j].key+"\x00"+tags[j].text })
	b.WriteString("/-- (Go struct, json tag name) of the flatten / variant child types as protoc-gen-go emits them. -/\ndef childJsonTags : List (String × String) := [")
	for i, r := range tags {
		if i > 0 {
			b.WriteString(", ")
		}
		fmt.Fprintf(&b, "(%s, %s)", leanStr(r.key), leanStr(r.text))
	}
	b.WriteString("]\nend Sebuf.Gen.Decoders\n")
	return b.String(), nil
}

func joinLean(xs []string) string {
	var out []string
	for _, x := range xs {
		out = append(out, leanStr(x))
	}
	return strings.Join(out, ",\n  ")
}
