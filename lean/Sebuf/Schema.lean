import Sebuf.Str
/-!
The schema language of the model: what the generators read of a `CodeGeneratorRequest`
(DESIGN.md §3). Messages of a file are listed in pre-order (nested messages after their
parent) so that the type is not a nested inductive; fields refer to message and enum types by
full name.
-/
namespace Sebuf

inductive Kind
  | double | float | int64 | uint64 | int32 | fixed64 | fixed32 | bool | string | message | bytes
  | uint32 | enum | sfixed32 | sfixed64 | sint32 | sint64
deriving DecidableEq, Repr, Inhabited

def Kind.ofString : String → Kind
  | "double" => .double | "float" => .float | "int64" => .int64 | "uint64" => .uint64
  | "int32" => .int32 | "fixed64" => .fixed64 | "fixed32" => .fixed32 | "bool" => .bool
  | "string" => .string | "message" => .message | "bytes" => .bytes | "uint32" => .uint32
  | "enum" => .enum | "sfixed32" => .sfixed32 | "sfixed64" => .sfixed64 | "sint32" => .sint32
  | "sint64" => .sint64 | _ => .string

def Kind.name : Kind → String
  | .double => "double" | .float => "float" | .int64 => "int64" | .uint64 => "uint64"
  | .int32 => "int32" | .fixed64 => "fixed64" | .fixed32 => "fixed32" | .bool => "bool"
  | .string => "string" | .message => "message" | .bytes => "bytes" | .uint32 => "uint32"
  | .enum => "enum" | .sfixed32 => "sfixed32" | .sfixed64 => "sfixed64" | .sint32 => "sint32"
  | .sint64 => "sint64"

inductive Card | singular | optional | repeated | map
deriving DecidableEq, Repr, Inhabited

def Card.ofString : String → Card
  | "optional" => .optional | "repeated" => .repeated | "map" => .map | _ => .singular

/-- One field with every sebuf annotation (enum-valued annotations by their enum number,
0 = unspecified). -/
structure Field where
  name          : Str
  kind          : Kind
  card          : Card := .singular
  typeName      : Str := []            -- full name (leading dot) for message / enum kinds
  mapKey        : Kind := .string
  oneof         : Option Str := none   -- containing real oneof
  query         : Option (Str × Bool) := none  -- (configured name, required)
  unwrap        : Bool := false
  int64Enc      : Nat := 0             -- 1 STRING, 2 NUMBER
  enumEnc       : Nat := 0             -- 1 STRING, 2 NUMBER
  nullable      : Bool := false
  emptyBehavior : Nat := 0             -- 1 PRESERVE, 2 NULL, 3 OMIT
  tsFormat      : Nat := 0             -- 1 RFC3339, 2 UNIX_SECONDS, 3 UNIX_MILLIS, 4 DATE
  bytesEnc      : Nat := 0             -- 1..5
  oneofValue    : Option Str := none
  flatten       : Bool := false
  flattenPrefix : Str := []
  jsonOverride  : Option Str := none   -- explicit `json_name`; none = protoc's derivation
deriving Repr, Inhabited

/-- the field's JSON name: the explicit `json_name` when one is written, protoc's derivation
from the proto name otherwise (`protoreflect.FieldDescriptor.JSONName`). -/
def Field.json (f : Field) : Str := f.jsonOverride.getD (jsonName f.name)

structure OneofDecl where
  name          : Str
  hasConfig     : Bool := false
  discriminator : Str := []
  flatten       : Bool := false
deriving Repr, Inhabited

structure Message where
  fullName : Str                -- ".pkg.Outer.Inner"
  name     : Str                -- short name
  topLevel : Bool := true
  fields   : List Field := []
  oneofs   : List OneofDecl := []
deriving Repr, Inhabited

structure EnumT where
  fullName  : Str
  hasCustom : Bool := false     -- some value carries (sebuf.http.enum_value)
  values    : List (Int × Str × Option Str) := []   -- (number, proto name, custom JSON value)
deriving Repr, Inhabited

structure Method where
  name      : Str
  input     : Str               -- full name
  output    : Str
  hasConfig : Bool := false
  path      : Str := []
  verbNum   : Nat := 0
  headers   : List Str := []    -- names of the method-level header declarations
deriving Repr, Inhabited

structure Service where
  name    : Str
  base    : Str := []
  methods : List Method := []
  headers : List Str := []      -- names of the service-level header declarations
deriving Repr, Inhabited

structure File where
  name     : Str
  generate : Bool := true
  goPkg    : Str := []
  messages : List Message := []   -- pre-order, nested included
  enums    : List EnumT := []     -- every enum of the file, nested included
  services : List Service := []
deriving Repr, Inhabited

structure Request where
  files : List File := []
deriving Repr, Inhabited

def Request.allMessages (r : Request) : List Message := r.files.flatMap (·.messages)
def Request.allEnums (r : Request) : List EnumT := r.files.flatMap (·.enums)

def Request.findMessage (r : Request) (full : Str) : Option Message :=
  r.allMessages.find? (·.fullName == full)

def Request.findEnum (r : Request) (full : Str) : Option EnumT :=
  r.allEnums.find? (·.fullName == full)

def isTimestampName (t : Str) : Bool := t == ".google.protobuf.Timestamp".toList

def Field.isList (f : Field) : Bool := f.card == .repeated
def Field.isMap (f : Field) : Bool := f.card == .map
/-- `protogen`: a field is in a oneof when it is a member of a real oneof or is proto3 `optional`
(synthetic oneof). -/
def Field.inAnyOneof (f : Field) : Bool := f.oneof.isSome || f.card == .optional

/-- the kind the field DESCRIPTOR reports: a map field is a repeated message (its entry type). -/
def Field.descKind (f : Field) : Kind := if f.card == .map then .message else f.kind

def Kind.isInt64 : Kind → Bool
  | .int64 | .uint64 | .sint64 | .fixed64 | .sfixed64 => true
  | _ => false

end Sebuf
