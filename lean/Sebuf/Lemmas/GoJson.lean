import Sebuf.Lemmas.GoJsonWitness
import Sebuf.Lemmas.Mapping
/-!
Lemmas about the encoding/json model (`Sebuf.GoJson`, `Sebuf.GoDec`):

* the members `json.Marshal` writes for a protoc-gen-go struct are named by PROTO field names,
  those protojson writes by JSON names (for every schema, value and fuel);
* unfolding lemmas for the (well-founded) documented mapping `Mapping.enc` on a flatten field,
  and the documented JSON of the flatten witness;
* the flattened discriminated oneof as object surgery: the partial round-trip theorem.
-/
namespace Sebuf.GoJson
open Sebuf Sebuf.Mapping Sebuf.Json

theorem map_single_mem {α : Type} (k : Str) (x : Option α) (g : α → Json) (l : List (Str × Json))
    (h : x.map (fun j => [(k, g j)]) = some l) : ∀ p ∈ l, p.1 = k := by
  cases x with
  | none => simp at h
  | some a => simp at h; subst h; simp

theorem goField_keys (rq : Request) (n : Nat) (f : Field) (ov : Option Val) (l : List (Str × Json))
    (h : goField rq n f ov = some l) : ∀ p ∈ l, p.1 = f.name := by
  cases n with
  | zero => simp [goField] at h
  | succ n =>
    cases ov with
    | none => simp [goField] at h; subst h; simp
    | some v =>
      simp only [goField] at h
      split at h
      all_goals (repeat' (split at h))
      all_goals first
        | (simp at h; done)
        | (simp at h; subst h; simp; done)
        | exact map_single_mem _ _ (fun j => j) _ h
        | exact map_single_mem _ _ Json.obj _ h
        | exact map_single_mem _ _ Json.arr _ h

theorem optMapM_mem {α β : Type} (g : α → Option β) : ∀ (l : List α) (r : List β), optMapM g l = some r →
    ∀ b ∈ r, ∃ a ∈ l, g a = some b
  | [], r, h => by simp [optMapM] at h; subst h; simp
  | a :: t, r, h => by
    simp only [optMapM] at h
    split at h
    · rename_i b r' hb hr
      simp at h; subst h
      intro x hx
      rcases List.mem_cons.mp hx with rfl | hx'
      · exact ⟨a, List.mem_cons_self, hb⟩
      · obtain ⟨a', ha', e⟩ := optMapM_mem g t r' hr x hx'
        exact ⟨a', List.mem_cons_of_mem _ ha', e⟩
    · simp at h

theorem goMsg_keys_proto_names (rq : Request) (n : Nat) (m : Message) (vs : List (Str × Val)) (j : Json)
    (ho : m.oneofs = []) (h : goMsg rq n m vs = some j) :
    ∃ kvs, j = Json.obj kvs ∧ ∀ p ∈ kvs, ∃ f ∈ m.fields, p.1 = f.name := by
  cases n with
  | zero => simp [goMsg] at h
  | succ n =>
    simp only [goMsg, ho, optMapM] at h
    split at h
    · rename_i fs os hfs hos
      simp at hos; subst hos
      simp at h; subst h
      refine ⟨_, rfl, ?_⟩
      intro p hp
      simp only [List.mem_flatten] at hp
      obtain ⟨l, hl, hpl⟩ := hp
      obtain ⟨f, hf, e⟩ := optMapM_mem _ _ _ hfs l hl
      exact ⟨f, (List.mem_filter.mp hf).1, goField_keys rq n f _ l e p hpl⟩
    · simp at h

theorem pjMsg_keys_json_names (rq : Request) (n : Nat) (m : Message) (vs : List (Str × Val)) :
    ∃ kvs, pjMsg rq (n + 1) m vs = Json.obj kvs ∧ ∀ p ∈ kvs, ∃ f ∈ m.fields, p.1 = f.json := by
  refine ⟨_, by simp only [pjMsg]; rfl, ?_⟩
  intro p hp
  simp only [List.mem_filterMap] at hp
  obtain ⟨f, hf, e⟩ := hp
  cases hv : vs.lookup f.name with
  | none => simp [hv] at e
  | some v => simp [hv] at e; subst e; exact ⟨f, hf, rfl⟩

end Sebuf.GoJson


namespace Sebuf.Mapping
theorem encFields_cons_absent (rq : Request) (ann g : Bool) (fuel : Nat) (m : Message) (f : Field)
    (rest : List Field) (vs : List (Str × Val))
    (hl : vs.lookup f.name = none) (hn : f.nullable = false) :
    encFields rq ann g (fuel + 1) m (f :: rest) vs = encFields rq ann g (fuel + 1) m rest vs := by
  rw [encFields, hl]
  simp [hn]

theorem encFields_cons_flatten (rq : Request) (g : Bool) (fuel : Nat) (m : Message) (f : Field)
    (rest : List Field) (vs : List (Str × Val)) (v : Val)
    (hl : vs.lookup f.name = some v) (ho : f.oneof = none) (hf : f.flatten = true) (hc : f.card = .singular) (hk : f.kind = .message) :
    encFields rq true g (fuel + 1) m (f :: rest) vs =
      (match encFieldVal rq true g fuel f v with
       | Json.obj kvs => kvs.map fun p => (f.flattenPrefix ++ p.1, p.2)
       | _ => []) ++ encFields rq true g (fuel + 1) m rest vs := by
  rw [encFields, hl]
  simp [ho, hf, hc, hk]
  cases encFieldVal rq true g fuel f v <;> rfl

theorem encFieldVal_str (rq : Request) (ann g : Bool) (fuel : Nat) (f : Field) (x : Str) :
    encFieldVal rq ann g (fuel + 1) f (Val.str x) = scalarJson rq ann f (Val.str x) := by
  rw [encFieldVal] <;> (intros; contradiction)
end Sebuf.Mapping

namespace Sebuf.GoJson.W
open Sebuf Sebuf.Mapping Sebuf.Json
def vFlat : List (Str × Val) := [(s "title", Val.str (s "t")), (s "home", .msg [(s "zip_code", Val.str (s "z"))])]

theorem flat_spec (n : Nat) : enc rq (n + 6) flat vFlat = Json.obj [(s "title", str "t"), (s "home_zipCode", str "z")] := by
  unfold enc
  rw [encMsg_obj _ _ _ _ _ _ rfl]
  show Json.obj (encFields _ _ _ _ _ flat.fields vFlat) = _
  rw [show flat.fields = [_, _] from rfl]
  rw [encFields_cons_plain _ _ _ _ _ _ _ _ (Val.str (s "t")) rfl rfl rfl rfl, encFieldVal_str,
    encFields_cons_flatten _ _ _ _ _ _ _ (Val.msg [(s "zip_code", Val.str (s "z"))]) rfl rfl rfl rfl rfl, encFields_nil,
    encFieldVal_msg _ _ _ _ _ _ spot rfl, encMsg_obj _ _ _ _ _ _ rfl]
  rw [show spot.fields = [_, _, _, _] from rfl]
  rw [encFields_cons_absent _ _ _ _ _ _ _ _ rfl rfl,
    encFields_cons_plain _ _ _ _ _ _ _ _ (Val.str (s "z")) rfl rfl rfl rfl, encFieldVal_str,
    encFields_cons_absent _ _ _ _ _ _ _ _ rfl rfl, encFields_cons_absent _ _ _ _ _ _ _ _ rfl rfl, encFields_nil]
  rfl
end Sebuf.GoJson.W

namespace Sebuf.Surgery.OneofFlat
open Sebuf Sebuf.Json

def merge (vm : Obj) (raw : Obj) : Obj := vm.foldl (fun r p => oset p.1 p.2 r) raw
def encEdit (disc : Str) (tag : Json) (vk : Str) (vm : Obj) (p : Obj) : Obj := odel vk (merge vm (oset disc tag p))
def extract (names : List Str) (raw : Obj) : Obj := names.filterMap fun n => (oget n raw).map fun v => (n, v)
def strip (names : List Str) (raw : Obj) : Obj := names.foldl (fun r n => odel n r) raw
def decEdit (disc vk : Str) (names : List Str) (remarshal : Obj → Json) (raw : Obj) : Obj :=
  odel disc (oset vk (remarshal (extract names raw)) (strip names raw))

theorem oget_none_of_not_mem (k : Str) : ∀ (o : Obj), k ∉ keys o → oget k o = none
  | [], _ => rfl
  | (k', v) :: t, h => by
    have h1 : k' ≠ k := fun e => h (by simp [keys, e])
    have h2 : k ∉ keys t := fun e => h (by simp [keys] at e ⊢; exact Or.inr e)
    simp [oget, h1, oget_none_of_not_mem k t h2]

theorem oget_merge (k : Str) : ∀ (vm raw : Obj), (keys vm).Nodup →
    oget k (merge vm raw) = (match oget k vm with | some v => some v | none => oget k raw)
  | [], raw, _ => rfl
  | (k', v') :: t, raw, h => by
    have hnd : (keys t).Nodup := by simp [keys] at h ⊢; exact h.2
    have hk' : k' ∉ keys t := by simp [keys] at h ⊢; exact fun x hx => h.1 x hx
    show oget k (merge t (oset k' v' raw)) = _
    rw [oget_merge k t _ hnd]
    by_cases e : k' = k
    · subst e
      rw [oget_none_of_not_mem k' t hk', oget_oset_same]
      simp [oget]
    · have e' : k ≠ k' := fun x => e x.symm
      rw [oget_oset_other _ _ _ _ e']
      simp [oget, e]

theorem oget_strip (k : Str) : ∀ (names : List Str) (raw : Obj),
    oget k (strip names raw) = if k ∈ names then none else oget k raw
  | [], raw => by simp [strip]
  | n :: t, raw => by
    show oget k (strip t (odel n raw)) = _
    rw [oget_strip k t]
    by_cases e : k = n
    · subst e; simp [oget_odel_same]
    · by_cases ht : k ∈ t
      · simp [ht]
      · simp [ht, e, oget_odel_other _ _ _ e]

theorem oget_extract (k : Str) (raw : Obj) : ∀ (names : List Str),
    oget k (extract names raw) = if k ∈ names then oget k raw else none
  | [] => by simp [extract, oget]
  | n :: t => by
    have ih := oget_extract k raw t
    unfold extract at ih ⊢
    rw [List.filterMap_cons]
    cases hn : oget n raw with
    | none =>
      simp only [Option.map_none, ih]
      by_cases e : k = n
      · subst e; simp [hn]
      · simp [e]
    | some v =>
      simp only [Option.map_some]
      by_cases e : n = k
      · subst e; simp [oget, hn]
      · have e' : k ≠ n := fun x => e x.symm
        simp [oget, e, e', ih]

/-- **flattened oneof, partial round trip.** If every member encoding/json wrote for the variant
is one the decoder looks up (`hsingle`: the struct tag equals the JSON name — single-word field
names), then (1) the decoder extracts exactly the members the encoder merged, and (2) the object
handed to protojson is the parent's own protojson object with the variant member replaced by the
re-marshalled variant. -/
theorem roundtrip_partial (disc vk : Str) (tag : Json) (names : List Str) (remarshal : Obj → Json) (vm p : Obj)
    (hnd : (keys vm).Nodup) (hsingle : ∀ k ∈ keys vm, k ∈ names)
    (hdisjoint : ∀ n ∈ names, oget n p = none) (hdiscN : disc ∉ names) (hvkN : vk ∉ names)
    (hvd : vk ≠ disc) (hdp : oget disc p = none) :
    ObjEq (extract names (encEdit disc tag vk vm p)) vm ∧
    ObjEq (decEdit disc vk names remarshal (encEdit disc tag vk vm p))
      (oset vk (remarshal (extract names (encEdit disc tag vk vm p))) p) := by
  have hvm : ∀ k, k ∉ names → oget k vm = none := fun k hk =>
    oget_none_of_not_mem k vm (fun h => hk (hsingle k h))
  have hE : ∀ k, k ≠ vk → oget k (encEdit disc tag vk vm p) =
      (match oget k vm with | some v => some v | none => if k = disc then some tag else oget k p) := by
    intro k hk
    unfold encEdit
    rw [oget_odel_other _ _ _ hk, oget_merge k vm _ hnd]
    cases oget k vm with
    | some v => rfl
    | none =>
      by_cases e : k = disc
      · subst e; simp [oget_oset_same]
      · simp [e, oget_oset_other _ _ _ _ e]
  constructor
  · intro k
    rw [oget_extract]
    by_cases hk : k ∈ names
    · have hkv : k ≠ vk := fun e => hvkN (e ▸ hk)
      have hkd : k ≠ disc := fun e => hdiscN (e ▸ hk)
      simp only [hk, if_true]
      rw [hE k hkv]
      cases h : oget k vm with
      | some v => rfl
      | none => simp [hkd, hdisjoint k hk]
    · simp [hk, hvm k hk]
  · intro k
    unfold decEdit
    by_cases hkd : k = disc
    · subst hkd
      rw [oget_odel_same, oget_oset_other _ _ _ _ (fun e => hvd e.symm), hdp]
    · rw [oget_odel_other _ _ _ hkd]
      by_cases hkv : k = vk
      · subst hkv; rw [oget_oset_same, oget_oset_same]
      · rw [oget_oset_other _ _ _ _ hkv, oget_oset_other _ _ _ _ hkv, oget_strip]
        by_cases hk : k ∈ names
        · simp [hk, hdisjoint k hk]
        · simp only [hk, if_false]
          rw [hE k hkv, hvm k hk]
          simp [hkd]

end Sebuf.Surgery.OneofFlat

namespace Sebuf.GoJson
/-- the model's merge of a flattened variant's members IS the surgery-level merge. -/
theorem mergeInto_nil (kvs raw : List (Str × Json)) : mergeInto [] kvs raw = Surgery.OneofFlat.merge kvs raw := rfl
end Sebuf.GoJson
