import Sebuf.Json
import Sebuf.Dec
/-!
Small executable models of three generated codec templates (`int64_encoding=NUMBER`,
`nullable`, `timestamp_format=UNIX_SECONDS`) and of the flatten `UnmarshalJSON` statement order.

The generated Go code for a message with annotated fields is JSON-object surgery:

* `MarshalJSON`:   `raw := parseObject(protojson.Marshal(x))`; one edit of `raw` per annotated
  field; `json.Marshal(raw)`.
* `UnmarshalJSON`: `raw := parseObject(data)`; one edit per annotated field;
  `protojson.Unmarshal(json.Marshal(raw), x)`.

Objects are association lists (`Obj`) compared by lookup (`ObjEq`): `json.Marshal` of a Go map
re-sorts the keys, so list equality is not the observable notion.
The round-trip theorems live in `Sebuf.Lemmas.Surgery`.
-/
namespace Sebuf

/-! ### Decidable equality of `Json` (through the existing boolean `Json.beq`) -/
namespace Json

mutual
  theorem eq_of_beq : ∀ (a b : Json), beq a b = true → a = b
    | null, null, _ => rfl
    | bool a, bool b, h => by simp only [beq, beq_iff_eq] at h; rw [h]
    | num a, num b, h => by simp only [beq, beq_iff_eq] at h; rw [h]
    | str a, str b, h => by simp only [beq, beq_iff_eq] at h; rw [h]
    | arr a, arr b, h => by simp only [beq] at h; rw [eq_of_beqList a b h]
    | obj a, obj b, h => by simp only [beq] at h; rw [eq_of_beqObj a b h]
    | null, bool _, h | null, num _, h | null, str _, h | null, arr _, h | null, obj _, h
    | bool _, null, h | bool _, num _, h | bool _, str _, h | bool _, arr _, h | bool _, obj _, h
    | num _, null, h | num _, bool _, h | num _, str _, h | num _, arr _, h | num _, obj _, h
    | str _, null, h | str _, bool _, h | str _, num _, h | str _, arr _, h | str _, obj _, h
    | arr _, null, h | arr _, bool _, h | arr _, num _, h | arr _, str _, h | arr _, obj _, h
    | obj _, null, h | obj _, bool _, h | obj _, num _, h | obj _, str _, h | obj _, arr _, h => by
      simp [beq] at h
  theorem eq_of_beqList : ∀ (a b : List Json), beqList a b = true → a = b
    | [], [], _ => rfl
    | x :: xs, y :: ys, h => by
      simp only [beqList, Bool.and_eq_true] at h
      rw [eq_of_beq x y h.1, eq_of_beqList xs ys h.2]
    | [], _ :: _, h | _ :: _, [], h => by simp [beqList] at h
  theorem eq_of_beqObj : ∀ (a b : List (Str × Json)), beqObj a b = true → a = b
    | [], [], _ => rfl
    | (k, x) :: xs, (l, y) :: ys, h => by
      simp only [beqObj, Bool.and_eq_true, beq_iff_eq] at h
      rw [h.1.1, eq_of_beq x y h.1.2, eq_of_beqObj xs ys h.2]
    | [], _ :: _, h | _ :: _, [], h => by simp [beqObj] at h
end

mutual
  theorem beq_self : ∀ (a : Json), beq a a = true
    | null => rfl
    | bool a => by simp [beq]
    | num a => by simp [beq]
    | str a => by simp [beq]
    | arr a => by simp only [beq]; exact beqList_self a
    | obj a => by simp only [beq]; exact beqObj_self a
  theorem beqList_self : ∀ (a : List Json), beqList a a = true
    | [] => rfl
    | x :: xs => by simp only [beqList, Bool.and_eq_true]; exact ⟨beq_self x, beqList_self xs⟩
  theorem beqObj_self : ∀ (a : List (Str × Json)), beqObj a a = true
    | [] => rfl
    | (k, x) :: xs => by
      simp only [beqObj, beq_self x, beqObj_self xs]; simp
end

instance instDecidableEq : DecidableEq Json := fun a b =>
  decidable_of_iff (beq a b = true) ⟨eq_of_beq a b, fun h => h ▸ beq_self a⟩

end Json

namespace Surgery
open Json

/-- a parsed JSON object (`map[string]json.RawMessage`). -/
abbrev Obj := List (Str × Json)

/-- equality of objects as `json.Marshal` observes it: the same lookup at every key. -/
def ObjEq (a b : Obj) : Prop := ∀ k, Json.oget k a = Json.oget k b

/-! ### B1: `int64_encoding = NUMBER`, singular field with JSON key `k`

Go value `v : Int`, `0` = unset (proto3, no presence). -/
namespace Int64Number

/-- `MarshalJSON` edit: `if x.F != 0 { raw[k] = number } else { delete(raw, k) }`. -/
def encEdit (k : Str) (v : Int) (raw : Obj) : Obj :=
  if v ≠ 0 then oset k (num (JNum.int v)) raw else odel k raw

/-- `UnmarshalJSON` edit: a JSON number that decodes as int64 is replaced by its decimal string;
anything else is left for protojson. -/
def decEdit (k : Str) (raw : Obj) : Obj :=
  match oget k raw with
  | some (num (JNum.int n)) => oset k (str (intToDec n)) raw
  | _ => raw

/-- the protojson field contract: the key is omitted for 0, else the decimal string. -/
def Contract (k : Str) (v : Int) (p : Obj) : Prop :=
  oget k p = if v = 0 then none else some (str (intToDec v))

end Int64Number

/-! ### B2: `nullable` (proto3 `optional` scalar with key `k`; Go pointer nil or not) -/
namespace Nullable

/-- `MarshalJSON` edit: `if x.F == nil { raw[k] = null }`. -/
def encEdit (k : Str) (unset : Bool) (raw : Obj) : Obj :=
  if unset then oset k null raw else raw

/-- `UnmarshalJSON` edit: `if raw[k] is null { delete(raw, k) }`. -/
def decEdit (k : Str) (raw : Obj) : Obj :=
  match oget k raw with
  | some null => odel k raw
  | _ => raw

/-- the protojson field contract: the key is omitted when unset; a set scalar is never `null`. -/
def Contract (k : Str) (unset : Bool) (p : Obj) : Prop :=
  if unset then oget k p = none else ∃ j, oget k p = some j ∧ j ≠ null

end Nullable

/-! ### B3: `timestamp_format = UNIX_SECONDS` (key `k`; Go pointer nil or a timestamp)

`rfcOfSecs n` is the RFC 3339 rendering of `time.Unix(n, 0).UTC()` (uninterpreted; in UTC the rendering
names the instant exactly — in a local zone with a sub-minute mean-time offset it would not), `rfcFull s n` the
protojson rendering of the timestamp `(s, n)` (uninterpreted). -/
namespace UnixSeconds

/-- `MarshalJSON` edit: `if x.F != nil { raw[k] = x.F.Seconds }`. -/
def encEdit (k : Str) (ts : Option (Int × Nat)) (raw : Obj) : Obj :=
  match ts with
  | some (secs, _) => oset k (num (JNum.int secs)) raw
  | none => raw

/-- `UnmarshalJSON` edit: a JSON integer becomes the RFC 3339 string of `time.Unix(n, 0).UTC()`. -/
def decEdit (rfcOfSecs : Int → Str) (k : Str) (raw : Obj) : Obj :=
  match oget k raw with
  | some (num (JNum.int n)) => oset k (str (rfcOfSecs n)) raw
  | _ => raw

/-- `p` is a protojson object of a message whose timestamp field holds `(secs, nanos)`. -/
def Contract (rfcFull : Int → Nat → Str) (k : Str) (secs : Int) (nanos : Nat) (p : Obj) : Prop :=
  oget k p = some (str (rfcFull secs nanos))

end UnixSeconds

/-! ### B4: flatten decode order -/

/-- abstract state of the message being decoded: the flattened child (a pointer) and everything else. -/
structure FMsg where
  child : Option Obj
  rest  : Obj
deriving DecidableEq

/-- the keys of `raw` that belong to the flattened child. -/
def extractChild (childKeys : List Str) (raw : Obj) : Obj := raw.filter fun p => childKeys.contains p.1
/-- what is left of `raw` once the child's keys have been deleted. -/
def remaining (childKeys : List Str) (raw : Obj) : Obj := raw.filter fun p => !childKeys.contains p.1

/-- step 1 of the generated `UnmarshalJSON`: `x.Child = new(Child)` filled from `childRaw`, when non-empty. -/
def assignChild (childRaw : Obj) (x : FMsg) : FMsg :=
  if childRaw.isEmpty then x else { x with child := some childRaw }

/-- `protojson.Unmarshal(remaining, x)`: `proto.Reset(x)` and then the remaining fields are set. -/
def pjUnmarshal (rem : Obj) (_x : FMsg) : FMsg := { child := none, rest := rem }

/-- the generated order: child first, then `protojson.Unmarshal` (which resets `x`). -/
def flattenDecode (childKeys : List Str) (raw : Obj) : FMsg :=
  let x0 : FMsg := { child := none, rest := [] }
  let x1 := assignChild (extractChild childKeys raw) x0
  pjUnmarshal (remaining childKeys raw) x1

/-- the repaired order: `protojson.Unmarshal` first, then assign the child. -/
def flattenDecodeFixed (childKeys : List Str) (raw : Obj) : FMsg :=
  let x0 : FMsg := { child := none, rest := [] }
  let x1 := pjUnmarshal (remaining childKeys raw) x0
  assignChild (extractChild childKeys raw) x1

end Surgery
end Sebuf
