// Node 22 runner for the emitted TypeScript client / server modules (C08). JSON in, JSON lines out.
//
//   node --experimental-strip-types --no-warnings runner.mjs <spec.json>
//
// spec = { client: <path of the emitted *_client.ts or null>, server: <path of *_server.ts or null>,
//          ops: [ {op: "ts_call" | "ts_serve" | "ts_ts", ...}, ... ] }
//
// The first output line is the `load` report of both modules (class of the load error, exported
// names); then one line per op, in order. Nothing here touches the network: the client is given
// an injected `fetch` that builds the Fetch API `Request` a real fetch would send (so the URL goes
// through the WHATWG URL parser exactly as it would on the way to a socket), records it, and
// answers with a scripted `Response` (ts_call) or hands it to the emitted server's routes (ts_ts).
//
// The server side is driven the way the repository's own example wires it
// (examples/ts-fullstack-demo/server/main.ts): all `create<Service>Routes(handler, options)` of the
// module are concatenated, and a request goes to the FIRST route whose method equals the request's
// and whose pattern matches `matchPath(pathname, pattern)` (copied verbatim below).
import { readFileSync } from "node:fs";

const spec = JSON.parse(readFileSync(process.argv[2], "utf8"));

const rep = (_k, v) =>
  typeof v === "number" && !Number.isFinite(v) ? { $nonfinite: String(v) }
  : typeof v === "number" && Object.is(v, -0) ? { $negzero: true }
  : typeof v === "bigint" ? { $bigint: String(v) }
  : v;
const emit = (o) => process.stdout.write(JSON.stringify(o, rep) + "\n");

async function load(p) {
  if (!p) return { mod: null, res: { present: false } };
  try {
    const mod = await import("file://" + p);
    return { mod, res: { present: true, ok: true, exports: Object.keys(mod).sort() } };
  } catch (e) {
    return { mod: null, res: { present: true, ok: false, name: e?.name ?? "?", message: String(e?.message ?? e) } };
  }
}

// verbatim from /repo/examples/ts-fullstack-demo/server/main.ts
function matchPath(pathname, pattern) {
  const patternParts = pattern.split("/");
  const pathParts = pathname.split("/");
  if (patternParts.length !== pathParts.length) return false;
  return patternParts.every(
    (part, i) => (part.startsWith("{") && part.endsWith("}")) || part === pathParts[i],
  );
}

const c = await load(spec.client);
const s = await load(spec.server);
emit({ op: "load", client: c.res, server: s.res });

// ServerOptions for the emitted routes, from an op's `opts`:
//   hook: "catch_all" — an onError hook written against the documented contract (it is handed the errors
//         of the handler and always answers): status / header / body of its own;
//   validate: [violations] — a validateRequest hook that reports these violations for every request
function buildOptions(o) {
  if (!o) return undefined;
  const options = {};
  if (o.hook === "catch_all") {
    options.onError = (err, _req) =>
      new Response(JSON.stringify({ hook: "catch_all", message: err instanceof Error ? err.message : String(err) }), {
        status: o.hook_status ?? 503,
        headers: { "Content-Type": "application/json", "X-Hook": "1" },
      });
  }
  if (o.validate) options.validateRequest = (_m, _body) => o.validate;
  return options;
}

// all routes of the server module, with a recording scripted handler
function buildRoutes(script, calls, opts) {
  const routes = [];
  for (const name of Object.keys(s.mod)) {
    const m = /^create(\w+)Routes$/.exec(name);
    if (!m) continue;
    const svc = m[1];
    const handler = new Proxy({}, {
      get: (_t, rpc) => async (ctx, req) => {
        calls.push({ svc, rpc: String(rpc), arg: req, path_params: ctx?.pathParams, ctx_headers: ctx?.headers });
        if (script?.kind === "throw") throw new Error(script.message ?? "scripted failure");
        if (script?.kind === "throw_validation") throw new s.mod.ValidationError(script.violations ?? []);
        return script?.resp ?? {};
      },
    });
    for (const r of s.mod[name](handler, buildOptions(opts))) routes.push({ svc, route: r });
  }
  return routes;
}

async function dispatch(routes, request, rec) {
  const url = new URL(request.url);
  const matched = [];
  routes.forEach((r, i) => {
    if (request.method === r.route.method && matchPath(url.pathname, r.route.path)) matched.push(i);
  });
  rec.matched = matched.map((i) => ({ svc: routes[i].svc, method: routes[i].route.method, path: routes[i].route.path }));
  rec.pathname = url.pathname;
  rec.search = url.search;
  if (matched.length === 0) return new Response("Not Found", { status: 404 });
  return routes[matched[0]].route.handler(request);
}

async function respOut(resp) {
  const body = await resp.text();
  return { status: resp.status, headers: [...resp.headers.entries()], body };
}

const NULL_BODY = new Set([101, 103, 204, 205, 304]);
function cannedResponse(cn) {
  const status = cn?.status ?? 200;
  const headers = new Headers();
  for (const [k, v] of cn?.headers ?? []) headers.append(k, v);
  const body = NULL_BODY.has(status) ? null : (cn?.body ?? "");
  return new Response(body, { status, headers });
}

async function recordRequest(input, init) {
  const rq = new Request(input, init);
  const rec = {
    raw_url: String(input),
    init_headers: init?.headers && !(init.headers instanceof Headers) ? Object.entries(init.headers) : null,
    method: rq.method,
    url: rq.url,
    headers: [...rq.headers.entries()],
  };
  rec.body = init?.body == null ? null : await rq.clone().text();
  const u = new URL(rq.url);
  rec.target = u.pathname + u.search;
  return { rq, rec };
}

function clientError(e) {
  return {
    name: e?.name ?? "?", message: String(e?.message ?? e),
    statusCode: e?.statusCode, body: e?.body, violations: e?.violations,
    is_validation: !!(c.mod?.ValidationError && e instanceof c.mod.ValidationError),
    is_api: !!(c.mod?.ApiError && e instanceof c.mod.ApiError),
  };
}

async function tsCall(op, serverSide) {
  const out = { op: op.op, id: op.id };
  if (!c.mod) return { ...out, skipped: "client_not_loaded" };
  if (serverSide && !s.mod) return { ...out, skipped: "server_not_loaded" };
  const Client = c.mod[op.svc + "Client"];
  if (typeof Client !== "function") return { ...out, harness_err: "no export " + op.svc + "Client" };
  const fetches = [];
  const calls = [];
  const routes = serverSide ? buildRoutes(op.handler, calls) : null;
  const fetchFn = async (input, init) => {
    const { rq, rec } = await recordRequest(input, init);
    fetches.push(rec);
    if (!serverSide) return cannedResponse(op.canned);
    const resp = await dispatch(routes, rq, rec);
    const copy = resp.clone();
    rec.response = await respOut(copy);
    return resp;
  };
  const opts = { ...(op.client_opts ?? {}), fetch: fetchFn };
  const client = new Client(op.base, opts);
  // a SECOND client of the class, built afterwards from the caller's same `defaultHeaders` object with other
  // typed header values (two tenants of one application sharing a base header set): what one client is given
  // must not show in the calls of another. It makes no call itself.
  if (opts.defaultHeaders && op.decoy_opts) {
    try { new Client(op.base, { ...op.decoy_opts, defaultHeaders: opts.defaultHeaders, fetch: fetchFn }); } catch (_e) { /* not this client's business */ }
  }
  if (typeof client[op.rpc] !== "function") return { ...out, harness_err: "no method " + op.rpc };
  try {
    out.result = await client[op.rpc](op.req, op.call_opts ?? undefined);
    out.threw = false;
  } catch (e) {
    out.threw = true;
    out.error = clientError(e);
  }
  out.fetches = fetches;
  if (serverSide) out.calls = calls;
  // V8's String(x) of the URL-bound properties (library table for the model)
  out.strings = Object.fromEntries((op.url_props ?? []).map((p) => [p, op.req?.[p] == null ? null : String(op.req[p])]));
  return out;
}

async function tsServe(op) {
  const out = { op: op.op, id: op.id };
  if (!s.mod) return { ...out, skipped: "server_not_loaded" };
  const calls = [];
  const routes = buildRoutes(op.handler, calls, op.opts);
  const init = { method: op.method, headers: new Headers() };
  for (const [k, v] of op.headers ?? []) init.headers.append(k, v);
  if (op.body != null && op.body !== "" && op.method !== "GET" && op.method !== "HEAD") init.body = op.body;
  try {
    const rq = new Request("http://h.test" + op.url, init);
    const rec = {};
    const resp = await dispatch(routes, rq, rec);
    Object.assign(out, rec, await respOut(resp));
  } catch (e) {
    out.fault = String(e);
  }
  out.calls = calls;
  return out;
}

for (const op of spec.ops) {
  let out;
  try {
    if (op.op === "ts_call") out = await tsCall(op, false);
    else if (op.op === "ts_ts") out = await tsCall(op, true);
    else if (op.op === "ts_serve") out = await tsServe(op);
    else if (op.op === "js_lib") out = { op: op.op, id: op.id, number_ok: (op.values ?? []).map((v) => !isNaN(Number(v))) };
    else out = { op: op.op, id: op.id, harness_err: "unknown op" };
  } catch (e) {
    out = { op: op.op, id: op.id, fault: String(e?.stack ?? e) };
  }
  emit(out);
}
