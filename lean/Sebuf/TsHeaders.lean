import Sebuf.Headers
/-!
`Impl`: the header validation the emitted TypeScript server runs before anything else
(`/repo/internal/tsservergen/generator.go:141-239, 506-536`): the route's list is the service
headers followed by the method headers (no merging by name, optional declarations included);
for each entry `req.headers.get(name)`; absent: a violation iff `required`; present: the type
switch (`integer` → `/^-?\d+$/`, `number` → `isNaN(Number(v))`, `boolean` → one of `true false 1 0`)
and then — whatever the type — the format switch (five regular expressions, transcribed below
as deterministic matchers). `Number(v)` is a V8 leaf; its verdict comes with each value (`JsLib`).
-/
namespace Sebuf.TsHeaders
open Sebuf Sebuf.Headers

structure JsLib where
  /-- `!isNaN(Number(value))` -/
  numberOK : Bool := false
deriving Repr

def allDigits (s : Str) : Bool := s.all isDigitAscii

/-- `/^-?\d+$/` -/
def intRegex (v : Str) : Bool :=
  match v with
  | '-' :: r => r != [] && allDigits r
  | r => r != [] && allDigits r

/-- `/^[0-9a-f]{8}-[0-9a-f]{4}-[0-9a-f]{4}-[0-9a-f]{4}-[0-9a-f]{12}$/i` -/
def uuidRegex (v : Str) : Bool :=
  v.length == 36 &&
  (List.range 36).all fun i =>
    match v[i]? with
    | some c => if i == 8 || i == 13 || i == 18 || i == 23 then c == '-' else isHex c
    | none => false

/-- JavaScript `\s`. -/
def jsSpace (c : Char) : Bool :=
  let n := c.toNat
  n == 9 || n == 10 || n == 11 || n == 12 || n == 13 || n == 32 || n == 160 || n == 0x1680 ||
  (0x2000 ≤ n && n ≤ 0x200a) || n == 0x2028 || n == 0x2029 || n == 0x202f || n == 0x205f || n == 0x3000 || n == 0xfeff

/-- `/^[^\s@]+@[^\s@]+\.[^\s@]+$/`: exactly one `@`, no white space, a non-empty local part and a
domain with a `.` that is neither its first nor its last character. -/
def emailRegex (v : Str) : Bool :=
  match splitOnChar '@' v with
  | [a, b] => a != [] && !(v.any jsSpace) && ((b.drop 1).dropLast).contains '.'
  | _ => false

/-- exactly `n` digits, then the rest. -/
def digitsN : Nat → Str → Option Str
  | 0, s => some s
  | n + 1, c :: s => if isDigitAscii c then digitsN n s else none
  | _ + 1, [] => none

def eat (c : Char) : Str → Option Str
  | d :: s => if d = c then some s else none
  | [] => none

/-- `(\.[\d]+)?` followed by something that is not a digit and not `.`: greedy and deterministic. -/
def optFraction : Str → Option Str
  | '.' :: c :: s => if isDigitAscii c then some (s.dropWhile isDigitAscii) else none
  | '.' :: [] => none
  | s => some s

/-- `/^\d{4}-\d{2}-\d{2}$/` -/
def dateRegex (v : Str) : Bool :=
  ((digitsN 4 v).bind fun s => (eat '-' s).bind fun s => (digitsN 2 s).bind fun s => (eat '-' s).bind fun s =>
    digitsN 2 s) == some []

def hms (v : Str) : Option Str :=
  (digitsN 2 v).bind fun s => (eat ':' s).bind fun s => (digitsN 2 s).bind fun s => (eat ':' s).bind fun s => digitsN 2 s

/-- `/^\d{2}:\d{2}:\d{2}(\.[\d]+)?$/` -/
def timeRegex (v : Str) : Bool := ((hms v).bind optFraction) == some []

/-- `(Z|[+-]\d{2}:\d{2})$` -/
def zoneRegex : Str → Bool
  | ['Z'] => true
  | c :: s => (c == '+' || c == '-') && (((digitsN 2 s).bind fun s => (eat ':' s).bind fun s => digitsN 2 s) == some [])
  | [] => false

/-- `/^\d{4}-\d{2}-\d{2}T\d{2}:\d{2}:\d{2}(\.[\d]+)?(Z|[+-]\d{2}:\d{2})$/` -/
def dateTimeRegex (v : Str) : Bool :=
  match ((digitsN 4 v).bind fun s => (eat '-' s).bind fun s => (digitsN 2 s).bind fun s => (eat '-' s).bind fun s =>
    (digitsN 2 s).bind fun s => (eat 'T' s).bind fun s => (hms s).bind optFraction) with
  | some rest => zoneRegex rest
  | none => false

/-- `validateHeaderValue(value, config) !== undefined`. -/
def valueErr (js : JsLib) (h : HSpec) (v : Str) : Bool :=
  (match h.type with
   | "integer" => !(intRegex v)
   | "number" => !js.numberOK
   | "boolean" => !(v == "true".toList || v == "false".toList || v == "1".toList || v == "0".toList)
   | _ => false) ||
  (match h.format with
   | "uuid" => !(uuidRegex v)
   | "email" => !(emailRegex v)
   | "date-time" => !(dateTimeRegex v)
   | "date" => !(dateRegex v)
   | "time" => !(timeRegex v)
   | _ => false)

/-- a request's headers as the Fetch API shows them: lower-cased name ↦ value. -/
abbrev Hdrs := Str → Option (Str × JsLib)

/-- the `field`s of the violations `validateHeaders` reports, in order (a name declared at both
levels can be listed twice). -/
def violations (svc meth : List HSpec) (req : Hdrs) : List Str :=
  (svc ++ meth).filterMap fun h =>
    match req (lower h.name) with
    | none => if h.required then some h.name else none
    | some (v, js) => if valueErr js h v then some h.name else none

def dispatched (svc meth : List HSpec) (req : Hdrs) : Bool := (violations svc meth req).isEmpty

end Sebuf.TsHeaders
