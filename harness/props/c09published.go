package props

import (
	"fmt"
	"sort"
	"strings"

	"verif/harness/drv"
	"verif/harness/ir"
	"verif/harness/routes"
)

type pubHeader struct {
	Name     string
	Required bool
}

// c09DocHeaders reads, for every RPC of the item's file, the header parameters the REAL OpenAPI document of
// its service lists for the operation (document order). nil when the plugin gives no documents.
func c09DocHeaders(x *rtItem) (map[string][]pubHeader, string) {
	pr, err := oaRun(x.req, "")
	if err != nil || !pr.OK() {
		return nil, "protoc-gen-openapiv3 gives no documents for the schema"
	}
	docs, err := routes.ParseOpenAPI(pr)
	if err != nil {
		return nil, "the OpenAPI documents do not parse: " + err.Error()
	}
	out := map[string][]pubHeader{}
	for _, d := range docs {
		svc := strings.SplitN(d.Name[strings.LastIndex(d.Name, "/")+1:], ".openapi.", 2)[0]
		paths, _ := d.Doc["paths"].(map[string]any)
		for _, item := range paths {
			ops, _ := item.(map[string]any)
			for _, opv := range ops {
				op, ok := opv.(map[string]any)
				if !ok {
					continue
				}
				key := svc + "." + fmt.Sprint(op["operationId"])
				hs := []pubHeader{}
				for _, pv := range asList(op["parameters"]) {
					pm := mapOf(pv)
					if pm["in"] == "header" {
						rq, _ := pm["required"].(bool)
						hs = append(hs, pubHeader{fmt.Sprint(pm["name"]), rq})
					}
				}
				out[key] = hs
			}
		}
	}
	return out, ""
}

// c09Published: the header parameters each operation of the REAL OpenAPI document lists, against
// `Headers.combineHeaders` (the model of annotations.CombineHeaders) — per operation, in order.
// It returns the real lists (RPC "Service.Method" -> headers) for the "published contract" oracle.
func c09Published(c *Ctx, items []*rtItem) map[*rtItem]map[string][]pubHeader {
	res := c.Res
	all := map[*rtItem]map[string][]pubHeader{}
	type ref struct {
		x   *rtItem
		s   *ir.Service
		m   *ir.Method
		key string
	}
	var refs []ref
	var dops []map[string]any
	for _, x := range items {
		if !x.it.Built {
			continue
		}
		docs, why := c09DocHeaders(x)
		if docs == nil {
			res.Corr("published_headers", why, map[string]any{"schema": x.req})
			continue
		}
		all[x] = docs
		for _, s := range x.file.Services {
			for _, m := range s.Methods {
				refs = append(refs, ref{x, s, m, s.Name + "." + m.Name})
				dops = append(dops, map[string]any{"op": "published_headers", "service": hspecs(s.Headers), "method": hspecs(m.Headers)})
			}
		}
	}
	if len(dops) == 0 || !drv.Available() {
		return all
	}
	douts, err := drv.Run(dops)
	if err != nil {
		res.Corr("driver", "Lean driver failed: "+err.Error(), nil)
		return all
	}
	for i, rf := range refs {
		real, ok := all[rf.x][rf.key]
		replay := map[string]any{"schema": rf.x.req, "rpc": rf.key, "service_headers": rf.s.Headers, "method_headers": rf.m.Headers, "document_lists": real, "model": douts[i]}
		if !ok {
			res.Corr("published_headers", rf.key+": the service's OpenAPI document has no such operation", replay)
			continue
		}
		var model []pubHeader
		for _, p := range asList(douts[i]["published"]) {
			pm := mapOf(p)
			rq, _ := pm["required"].(bool)
			model = append(model, pubHeader{fmt.Sprint(pm["name"]), rq})
		}
		res.Count(fmt.Sprintf("published:service_headers_%d:method_headers_%d", len(rf.s.Headers), len(rf.m.Headers)))
		if fmt.Sprint(real) != fmt.Sprint(model) && !(len(real) == 0 && len(model) == 0) {
			res.Corr("published_headers", fmt.Sprintf("%s: the document lists the header parameters %v; Headers.combineHeaders of the operation's own declarations gives %v", rf.key, real, model), replay)
		} else {
			res.CorrAgree()
		}
		// every header the servers demand of this operation must be in its published list
		names := map[string]bool{}
		for _, p := range real {
			names[strings.ToLower(p.Name)] = true
		}
		var lost []string
		for _, h := range append(append([]ir.Header{}, rf.s.Headers...), rf.m.Headers...) {
			if h.Required && h.Name != "" && !names[strings.ToLower(h.Name)] {
				lost = append(lost, h.Name)
			}
		}
		sort.Strings(lost)
		if len(lost) > 0 {
			res.Violation("published_list_incomplete", fmt.Sprintf("%s: the servers demand the declared header(s) %v, which the operation's published parameter list %v does not mention: a request carrying exactly the published headers is answered 400", rf.key, lost, real), replay)
		}
	}
	return all
}
