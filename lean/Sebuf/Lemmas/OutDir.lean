import Sebuf.OutDir
/-! what a directory holds after a functional output was written into it. -/
namespace Sebuf.OutDir

theorem functional_tail {f : String × String} {r : List (String × String)} (hf : Functional (f :: r)) :
    Functional r :=
  fun p hp q hq h => hf p (List.mem_cons_of_mem _ hp) q (List.mem_cons_of_mem _ hq) h

theorem pair_eq {p : String × String} {k c : String} (h1 : p.1 = k) (h2 : p.2 = c) : p = (k, c) := by
  cases p; simp at h1 h2; simp [h1, h2]

/-- after writing a functional output, a name holds `c` iff the output says so, or the output does
not mention the name and the directory held `c` before. -/
theorem writeAll_spec (fs : List (String × String)) (hf : Functional fs) (d : Dir) (k c : String) :
    writeAll d fs k = some c ↔ ((k, c) ∈ fs ∨ ((∀ p ∈ fs, p.1 ≠ k) ∧ d k = some c)) := by
  induction fs generalizing d with
  | nil => simp [writeAll]
  | cons f r ih =>
    have hr : Functional r := functional_tail hf
    have : writeAll d (f :: r) = writeAll (write d f) r := rfl
    rw [this, ih hr]
    constructor
    · rintro (h | ⟨hn, hw⟩)
      · exact Or.inl (List.mem_cons_of_mem _ h)
      · unfold write at hw
        split at hw
        · next hk =>
          left
          have : f = (k, c) := pair_eq hk.symm (by simpa using hw)
          rw [← this]; exact List.mem_cons_self
        · next hk =>
          right
          refine ⟨?_, hw⟩
          intro p hp
          rcases List.mem_cons.1 hp with rfl | hp
          · exact fun h => hk h.symm
          · exact hn p hp
    · rintro (h | ⟨hn, hd⟩)
      · rcases List.mem_cons.1 h with rfl | h
        · by_cases hex : ∃ p ∈ r, p.1 = k
          · obtain ⟨p, hp, hpk⟩ := hex
            left
            have := hf (k, c) List.mem_cons_self p (List.mem_cons_of_mem _ hp) hpk.symm
            have hpe : p = (k, c) := pair_eq hpk this.symm
            rw [← hpe]; exact hp
          · right
            refine ⟨fun p hp h => hex ⟨p, hp, h⟩, ?_⟩
            simp [write]
        · exact Or.inl h
      · right
        refine ⟨fun p hp => hn p (List.mem_cons_of_mem _ hp), ?_⟩
        have := hn f List.mem_cons_self
        simp [write, hd]
        intro h; exact absurd h.symm this

theorem functional_perm {a b : List (String × String)} (h : a.Perm b) (hb : Functional b) : Functional a :=
  fun p hp q hq e => hb p (h.mem_iff.1 hp) q (h.mem_iff.1 hq) e

theorem option_ext {x y : Option String} (h : ∀ c, x = some c ↔ y = some c) : x = y := by
  cases x with
  | none =>
    cases y with
    | none => rfl
    | some c => exact absurd ((h c).2 rfl) (by simp)
  | some c => exact ((h c).1 rfl).symm

/-- a functional output lands the same way in whatever order it is written. -/
theorem writeAll_perm (a b : List (String × String)) (h : a.Perm b) (hb : Functional b) (d : Dir) (k : String) :
    writeAll d a k = writeAll d b k := by
  apply option_ext
  intro c
  rw [writeAll_spec a (functional_perm h hb), writeAll_spec b hb]
  constructor
  · rintro (hm | ⟨hn, hd⟩)
    · exact Or.inl (h.mem_iff.1 hm)
    · exact Or.inr ⟨fun p hp => hn p (h.mem_iff.2 hp), hd⟩
  · rintro (hm | ⟨hn, hd⟩)
    · exact Or.inl (h.mem_iff.2 hm)
    · exact Or.inr ⟨fun p hp => hn p (h.mem_iff.1 hp), hd⟩

/-- entries under other names leave a name's content alone, wherever they are written. -/
theorem writeAll_append_other (a x : List (String × String)) (d : Dir) (k : String) (hx : ∀ p ∈ x, p.1 ≠ k) :
    writeAll d (a ++ x) k = writeAll d a k ∧ writeAll d (x ++ a) k = writeAll d a k := by
  have skip : ∀ (x : List (String × String)) (d : Dir), (∀ p ∈ x, p.1 ≠ k) → writeAll d x k = d k := by
    intro x
    induction x with
    | nil => intro d _; rfl
    | cons f r ih =>
      intro d hx
      have : writeAll d (f :: r) = writeAll (write d f) r := rfl
      rw [this, ih _ (fun p hp => hx p (List.mem_cons_of_mem _ hp))]
      have := hx f List.mem_cons_self
      simp [write]
      intro h; exact absurd h.symm this
  have same : ∀ (a : List (String × String)) (d d' : Dir), d k = d' k → writeAll d a k = writeAll d' a k := by
    intro a
    induction a with
    | nil => intro d d' h; exact h
    | cons f r ih =>
      intro d d' h
      have e1 : writeAll d (f :: r) = writeAll (write d f) r := rfl
      have e2 : writeAll d' (f :: r) = writeAll (write d' f) r := rfl
      rw [e1, e2]
      apply ih
      simp [write, h]
  constructor
  · unfold writeAll
    rw [List.foldl_append]
    exact skip x _ hx
  · unfold writeAll
    rw [List.foldl_append]
    exact same a _ _ (skip x d hx)

end Sebuf.OutDir
