import Sebuf.Query
import Sebuf.Str
/-!
`Impl` model of the URL side of the emitted TypeScript client and server, at the byte level,
plus the `Spec` value the handler must see. Definitions only; lemmas are in
`Sebuf/Lemmas/TsRoute.lean`, the property theorems in `Sebuf/Props/C08.lean`.

Sources transcribed (`/repo/internal/tsclientgen/generator.go:301-338`,
`/repo/internal/tsservergen/generator.go:494-641`, `/repo/examples/ts-fullstack-demo/server/main.ts:356-363`):

* client, path: `let path = "<fullPath>"` followed, for every path parameter in the order of
  `httpConfig.PathParams`, by `path = path.replace("{p}", encodeURIComponent(String(req.p)))` —
  JavaScript `String.prototype.replace` with a string pattern replaces the FIRST occurrence
  (`replaceFirst`; the replacement never contains `$`, which `encodeURIComponent` escapes);
* client, query (GET / DELETE only): `new URLSearchParams()`, one `params.set(name, String(v))`
  per query field that passes the zero check of its TypeScript kind (`sendsQuery`), then
  `url = base + path + (params.toString() ? "?" + params.toString() : "")`;
  `URLSearchParams.toString()` is the application/x-www-form-urlencoded serializer (`formEncode`);
* what `fetch` does with the URL: the WHATWG URL parser removes dot segments (`urlNormPath`);
* server, path: `url.pathname.split("/")` and, for every path parameter, the index `i` of the
  FIRST segment of `strings.Split(fullPath, "/")` equal to `{p}` (computed by the generator,
  `tsServerIndex`): `pathParams[p] = decodeURIComponent(pathSegments[i] ?? "")`;
* server, query: `url.searchParams.get(name)` (`formParse`, `queryGet`) with
  `Number(v ?? "0")`, `v === "true"`, `v ?? ""` by TypeScript kind (`tsQueryField`);
* the example adapter's `matchPath(pathname, pattern)` (`demoMatch`).
-/
namespace Sebuf.TsRoute
open Sebuf

/-! ## Templates as strings -/

/-- `"{" + n + "}"`. -/
def brace (n : Bytes) : Bytes := 123 :: (n ++ [125])

/-- how a template segment is printed in `fullPath`. -/
def segText : Seg → Bytes
  | .lit s => s
  | .var n => brace n

/-- `fullPath` for a template: every segment preceded by `/` (`/a/{x}/b`; a trailing slash is a
final empty literal). -/
def tplString (tpl : List Seg) : Bytes := (tpl.map fun s => 47 :: segText s).flatten

/-- the path parameters in template order (`annotations.ExtractPathParams`). -/
def varsOf (tpl : List Seg) : List Bytes :=
  tpl.filterMap fun s => match s with
    | .var n => some n
    | .lit _ => none

/-! ## TS client: path -/

/-- JavaScript `s.replace(pat, rep)` for a string pattern and a replacement without `$`:
the first occurrence of `pat` is replaced. -/
def replaceFirst (pat rep : Bytes) : Bytes → Bytes
  | [] => if pat = [] then rep else []
  | c :: cs =>
    if pat.isPrefixOf (c :: cs) then rep ++ (c :: cs).drop pat.length
    else c :: replaceFirst pat rep cs

/-- the emitted client's `path` after all substitutions. -/
def tsClientPath (full : Bytes) (params : List Bytes) (vals : Bytes → Bytes) : Bytes :=
  params.foldl (fun p n => replaceFirst (brace n) (encodeURIComponent (vals n)) p) full

/-- segment-level reading of the same path. -/
def tsRenderSeg (vals : Bytes → Bytes) : Seg → Bytes
  | .lit s => s
  | .var n => encodeURIComponent (vals n)

def tsRenderPath (tpl : List Seg) (vals : Bytes → Bytes) : Bytes :=
  (tpl.map fun s => 47 :: tsRenderSeg vals s).flatten

/-! ## TS client: query -/

/-- TypeScript-visible kind of a URL-bound scalar field (`tscommon.TSScalarTypeForField` with the
default 64-bit encoding): `number`, `boolean`, `string`, and the 64-bit integers, which are
strings holding a decimal number. -/
inductive QKind
  | number | boolean | string | int64
  deriving DecidableEq, Repr

/-- `"0"`, `"true"`. -/
def txt0 : Bytes := [48]
def txtTrue : Bytes := [116, 114, 117, 101]

/-- the client's zero check (`tscommon.TSZeroCheckForField`), on `String(value)`; `none` is an
`undefined` / `null` property. -/
def sendsQuery : QKind → Option Bytes → Bool
  | _, none => false
  | .number, some t => t != txt0
  | .boolean, some t => t == txtTrue
  | .string, some t => t != []
  | .int64, some t => t != txt0

/-- bytes the application/x-www-form-urlencoded serializer copies: alphanumerics and `*-._`. -/
def formKeep (c : Nat) : Bool := isAlnum c || decide (c ∈ [42, 45, 46, 95])

/-- `URLSearchParams` serialisation of one name or value (space becomes `+`). -/
def formEncode (bs : Bytes) : Bytes := escapeWith formKeep true bs

/-- `URLSearchParams.set(k, v)`: replace the first pair named `k` and drop the others, or append. -/
def paramsSet (k v : Bytes) (l : List (Bytes × Bytes)) : List (Bytes × Bytes) :=
  if l.any (·.1 == k) then
    (l.foldl (fun (acc : List (Bytes × Bytes) × Bool) p =>
      if p.1 == k then (if acc.2 then acc else (acc.1 ++ [(k, v)], true)) else (acc.1 ++ [p], acc.2)) ([], false)).1
  else l ++ [(k, v)]

/-- one query-annotated field as the client sees it: parameter name, kind, `String(value)`. -/
structure QField where
  name : Bytes
  kind : QKind
  text : Option Bytes
  deriving Repr

/-- the `URLSearchParams` the client builds, in field order. -/
def tsQueryPairs (fs : List QField) : List (Bytes × Bytes) :=
  fs.foldl (fun acc f => if sendsQuery f.kind f.text then paramsSet f.name (f.text.getD []) acc else acc) []

/-- the client builds a query only for GET and DELETE (`generateURLBuilding`); for the other
verbs query-annotated fields travel in the JSON body. -/
def tsClientQuery (verb : String) (fs : List QField) : List (Bytes × Bytes) :=
  if verb == "GET" || verb == "DELETE" then tsQueryPairs fs else []

/-- `params.toString()`. -/
def formSerialize (kvs : List (Bytes × Bytes)) : Bytes :=
  joinWith 38 (kvs.map fun p => formEncode p.1 ++ 61 :: formEncode p.2)

/-- path + optional `?query`, as the client concatenates it (without the base URL). -/
def tsClientTarget (path : Bytes) (kvs : List (Bytes × Bytes)) : Bytes :=
  path ++ (if formSerialize kvs = [] then [] else 63 :: formSerialize kvs)

/-! ## What `fetch` sends: dot-segment removal of the WHATWG URL parser -/

def lit (s : String) : Bytes := s.toList.map Char.toNat

/-- single-dot path segment: `.` or `%2e` (ASCII case-insensitive). -/
def isSingleDot (s : Bytes) : Bool := s == [46] || s == [37, 50, 101] || s == [37, 50, 69]

/-- double-dot path segment: `..`, `.%2e`, `%2e.`, `%2e%2e` (ASCII case-insensitive). -/
def isDoubleDot (s : Bytes) : Bool :=
  s == [46, 46] ||
  s == [46, 37, 50, 101] || s == [46, 37, 50, 69] ||
  s == [37, 50, 101, 46] || s == [37, 50, 69, 46] ||
  s == [37, 50, 101, 37, 50, 101] || s == [37, 50, 69, 37, 50, 101] ||
  s == [37, 50, 101, 37, 50, 69] || s == [37, 50, 69, 37, 50, 69]

def isDot (s : Bytes) : Bool := isSingleDot s || isDoubleDot s

/-- path state of the URL parser over the segments after the leading slash; `acc` is the output
so far, reversed. A double-dot segment pops, a single-dot segment is dropped; either one in last
position leaves an empty final segment. -/
def normSegs : List Bytes → List Bytes → List Bytes
  | acc, [] => acc.reverse
  | acc, s :: t =>
    if isDoubleDot s then (if t = [] then ([] :: acc.drop 1).reverse else normSegs (acc.drop 1) t)
    else if isSingleDot s then (if t = [] then ([] :: acc).reverse else normSegs acc t)
    else normSegs (s :: acc) t

/-- `new URL(path, base).pathname` for a rooted, already percent-encoded path. -/
def urlNormPath (p : Bytes) : Bytes :=
  match splitSlash p with
  | [] :: segs => 47 :: joinSlash (normSegs [] segs)
  | _ => p

/-! ## TS server: path -/

/-- index of the first segment of `strings.Split(fullPath, "/")` equal to `{p}`; `none`: the
generator emits no extraction line for `p`. -/
def indexOfSeg (x : Bytes) : List Bytes → Option Nat
  | [] => none
  | s :: t => if s = x then some 0 else (indexOfSeg x t).map (· + 1)

def tsServerIndex (full p : Bytes) : Option Nat := indexOfSeg (brace p) (splitSlash full)

/-- `pathParams[p]`: `decodeURIComponent(pathSegments[i] ?? "")`; the outer `none` is "no
extraction emitted" or a `URIError`. -/
def tsPathParam (full p pathname : Bytes) : Option Bytes :=
  match tsServerIndex full p with
  | some i => decodeURIComponent ((splitSlash pathname).getD i [])
  | none => none

/-- the example adapter: `matchPath(pathname, pattern)`. -/
def isVarSeg (s : Bytes) : Bool := s.head? == some 123 && s.getLast? == some 125

def demoMatchSegs : List Bytes → List Bytes → Bool
  | [], [] => true
  | p :: ps, x :: xs => (isVarSeg p || p == x) && demoMatchSegs ps xs
  | _, _ => false

def demoMatch (pathname pattern : Bytes) : Bool := demoMatchSegs (splitSlash pattern) (splitSlash pathname)

/-! ## TS server: query -/

/-- WHATWG percent-decode after `+` → space: a `%` that is not followed by two hex digits is kept.
The first argument is the number of bytes still to skip (the two hex digits of an escape just
decoded), which keeps the recursion structural. -/
def formDecodeAux : Nat → Bytes → Bytes
  | _, [] => []
  | k + 1, _ :: rest => formDecodeAux k rest
  | 0, c :: rest =>
    if c = 37 then
      match rest with
      | a :: b :: _ =>
        match unhex a, unhex b with
        | some x, some y => (16 * x + y) :: formDecodeAux 2 rest
        | _, _ => 37 :: formDecodeAux 0 rest
      | _ => 37 :: formDecodeAux 0 rest
    else (if c = 43 then 32 else c) :: formDecodeAux 0 rest

def formDecode (s : Bytes) : Bytes := formDecodeAux 0 s

/-- the application/x-www-form-urlencoded parser on the text after `?`. -/
def formParse (s : Bytes) : List (Bytes × Bytes) :=
  ((splitByte 38 s).filter (fun p => decide (p ≠ []))).map fun p =>
    (formDecode (cutByte 61 p).1, formDecode (cutByte 61 p).2)

/-- `url.searchParams.get(name)`. -/
def tsQueryGet (name search : Bytes) : Option Bytes := queryGet name (formParse search)

/-- a JavaScript value as far as the route body produces one from URL text. -/
inductive JsVal
  | str (b : Bytes)          -- a string
  | numOf (text : Bytes)     -- `Number(text)`
  | bool (b : Bool)
  deriving DecidableEq, Repr

/-- the property the emitted route body builds for a query field from `params.get(name)`. -/
def tsQueryField : QKind → Option Bytes → JsVal
  | .number, v => .numOf (v.getD txt0)
  | .boolean, v => .bool (v == some txtTrue)
  | .string, v => .str (v.getD [])
  | .int64, v => .str (v.getD [])

/-- the property the route body assigns for a path parameter: always the decoded STRING. -/
def tsPathField (_ : QKind) (v : Bytes) : JsVal := .str v

/-! ## Spec: what the handler must see -/

/-- the value of a field of TypeScript kind `k` whose URL text is `v` (absent: the kind's
default), in the proto3 JSON form the emitted interfaces declare. -/
def specField : QKind → Option Bytes → JsVal
  | .number, v => .numOf (v.getD txt0)
  | .boolean, v => .bool (v == some txtTrue)
  | .string, v => .str (v.getD [])
  | .int64, v => .str (v.getD txt0)

/-- proto3 JSON reading: a decimal string is accepted where a number is declared (protojson), a
string is NOT a boolean. -/
def JsVal.sameProto : JsVal → JsVal → Bool
  | .str a, .str b => a == b
  | .numOf a, .numOf b => a == b
  | .str a, .numOf b => a == b
  | .numOf a, .str b => a == b
  | .bool a, .bool b => a == b
  | _, _ => false

/-! ## The route body: declarations and which URL parts it reads -/

/-- identifiers the emitted route handler declares with `const` directly in its `try` block
(`generateRouteEntry`): header validation, path extraction, body / query parsing, context, call.
With path parameters the URL is parsed once, by the path block; the query block re-uses it. -/
def routeConsts (hasHeaders hasPath hasQuery bodyVerb : Bool) : List String :=
  (if hasHeaders then ["headerConfigs", "headerViolations"] else []) ++
  ["pathParams"] ++ (if hasPath then ["url", "pathSegments"] else []) ++
  (if bodyVerb then ["body"]
   else if hasQuery then (if hasPath then [] else ["url"]) ++ ["params", "body"]
   else ["body"]) ++
  ["ctx", "result"]

/-- the same before `fix: ts-server: do not declare const url twice …` (41e5e05): the query block
declared `url` unconditionally. Kept as the regression model. -/
def routeConstsBeforeFix (hasHeaders hasPath hasQuery bodyVerb : Bool) : List String :=
  (if hasHeaders then ["headerConfigs", "headerViolations"] else []) ++
  ["pathParams"] ++ (if hasPath then ["url", "pathSegments"] else []) ++
  (if bodyVerb then ["body"]
   else if hasQuery then ["url", "params", "body"]
   else ["body"]) ++
  ["ctx", "result"]

/-- the emitted TS route reads query-annotated fields from the URL only for GET / DELETE; for
POST / PUT / PATCH it takes them from the JSON body and never looks at `url.searchParams`
(`generateRouteEntry`: `if cfg.hasBody { generateBodyParsing } else { generateQueryParamParsing }`). -/
def tsRouteQueryField (bodyVerb : Bool) (k : QKind) (name search : Bytes) (fromBody : Option JsVal) : Option JsVal :=
  if bodyVerb then fromBody else some (tsQueryField k (tsQueryGet name search))

/-- the emitted Go middleware binds query parameters for every verb, after the body: a parameter
present in the URL overwrites the body's value, an absent one leaves it. -/
def goRouteQueryField (k : QKind) (name search : Bytes) (fromBody : Option JsVal) : Option JsVal :=
  match queryGet name (parseQuery search) with
  | some v => some (specField k (some v))
  | none => fromBody

/-! ## Header option helpers (`tsclientgen.generateHeaderMerging`, `clientgen` typed options) -/

/-- header names a TS client option property writes: every declared header whose property name
(`tscommon.HeaderNameToPropertyName`) is that property. -/
def tsOptionWrites (declared : List Str) (prop : Str) : List Str :=
  declared.filter fun h => headerNameToPropertyName h == prop

/-- header names the Go client's typed option `With<Svc>[Call]<F>` writes, for `F` the function
name part (`clientgen.headerNameToFuncName`): the helper is emitted once, for the FIRST declared
header with that function name (since /repo 50d5457; before, two declared headers sharing `F`
made the emitted package not compile: C13 `header_helper_redeclared`). -/
def goHelperWrites (declared : List Str) (fn : Str) : List Str :=
  (declared.filter fun h => headerNameToFuncName h == fn).take 1

/-- JavaScript object assignment `o[k] = v` on an insertion-ordered record. -/
def recSet (k v : Str) : List (Str × Str) → List (Str × Str)
  | [] => [(k, v)]
  | p :: t => if p.1 = k then (k, v) :: t else p :: recSet k v t

/-- the `headers` record a call passes to `fetch`: `Content-Type`, the constructor's defaults
(`defaultHeaders`, then one assignment per SERVICE header whose client option is set), the call's
`headers`, then one assignment per service and per method header whose call option is truthy. -/
def tsCallHeaders (svc meth : List Str) (defaults : List (Str × Str)) (clientOpts : List (Str × Str))
    (callHeaders : List (Str × Str)) (callOpts : List (Str × Str)) : List (Str × Str) :=
  let truthy (opts : List (Str × Str)) (h : Str) : Option Str :=
    match opts.lookup (headerNameToPropertyName h) with
    | some v => if v = [] then none else some v
    | none => none
  let ctor := svc.foldl (fun acc h => match truthy clientOpts h with | some v => recSet h v acc | none => acc)
    (defaults.foldl (fun acc p => recSet p.1 p.2 acc) [])
  let base := callHeaders.foldl (fun acc p => recSet p.1 p.2 acc)
    (ctor.foldl (fun acc p => recSet p.1 p.2 acc) [("Content-Type".toList, "application/json".toList)])
  (svc ++ meth).foldl (fun acc h => match truthy callOpts h with | some v => recSet h v acc | none => acc) base

end Sebuf.TsRoute
