import Sebuf.Schema
import Sebuf.Validate
import Sebuf.Route
/-!
`Impl`: a typing discipline for the templates — which accepted definitions make the emitted Go
fail to compile or vet, and the emitted TypeScript fail to load. Each predicate names one
assumption a template makes about the Go type protoc-gen-go gives a field, or about identifier
spelling; the real toolchains are the oracle (`build` correspondence).
-/
namespace Sebuf.Build
open Sebuf Sebuf.Impl

def isInt64Num (f : Field) : Bool := f.descKind.isInt64 && f.int64Enc == 2
def isTsFmt (f : Field) : Bool := Field.isTimestamp f && f.tsFormat != 0 && f.tsFormat != 1
def isBytesEnc (f : Field) : Bool := f.descKind == .bytes && f.bytesEnc != 0 && f.bytesEnc != 1

/-- MarshalJSON-producing codec features of a message (those the two Go plugins emit a
`MarshalJSON` method for, without a conflict check between them). -/
def marshalFeatures (m : Message) (withUnwrap : Bool) : List String :=
  (if m.fields.any isInt64Num then ["int64"] else []) ++
  (if m.fields.any (·.nullable) then ["nullable"] else []) ++
  (if m.fields.any (·.emptyBehavior != 0) then ["empty_behavior"] else []) ++
  (if m.fields.any isTsFmt then ["timestamp_format"] else []) ++
  (if m.fields.any isBytesEnc then ["bytes_encoding"] else []) ++
  (if withUnwrap && m.fields.any (·.unwrap) then ["unwrap"] else [])

/-- defects both Go plugins share (codec templates). -/
def codecDefects (m : Message) (withUnwrap : Bool) : List String :=
  -- the int64 NUMBER template compares `x.F != 0`: a proto3 optional field is a pointer
  (if m.fields.any (fun f => isInt64Num f && f.card == .optional) then ["optional_int64_number"] else []) ++
  -- the timestamp template calls `x.F.AsTime()`: a repeated field is a slice
  (if m.fields.any (fun f => isTsFmt f && f.card == .repeated) then ["repeated_timestamp_format"] else []) ++
  -- the bytes template passes `x.F` to an encoder taking []byte: a repeated field is [][]byte
  (if m.fields.any (fun f => isBytesEnc f && f.card == .repeated) then ["repeated_bytes_encoding"] else []) ++
  -- one MarshalJSON per feature, no conflict check between these features
  (if (marshalFeatures m withUnwrap).length ≥ 2 then ["two_marshaljson_methods"] else []) ++
  -- `fmt.Errorf("… %%w", name, err)`: the printf vet check go test runs rejects it
  (if needsOneofMarshal m then ["oneof_errorf_vet"] else [])

/-- the unwrap field of a map's value message (map-value unwrap), if any. -/
def mapValueUnwrap (rq : Request) (fl : Field) : Option Field :=
  if fl.card == .map && fl.kind == .message then
    (match rq.findMessage fl.typeName with | some v => v.fields.find? (·.unwrap) | none => none)
  else none

/-- a message with a map whose value type carries an unwrap field gets MarshalJSON / UnmarshalJSON
from the map-value template (`generateUnwrapMarshalJSON`). -/
def isUnwrapContaining (rq : Request) (m : Message) : Bool := m.fields.any fun fl => (mapValueUnwrap rq fl).isSome

/-- does the map-value template call protojson for this containing message? Only for message
ELEMENTS of an unwrapped list and for the message-typed siblings it re-encodes (singular, optional
or repeated); scalar lists, scalar siblings and ordinary maps go through encoding/json. -/
def containingUsesProtojson (rq : Request) (m : Message) : Bool :=
  m.fields.any fun fl =>
    match mapValueUnwrap rq fl with
    | some u => u.card == .repeated && u.kind == .message
    | none => fl.card != .map && fl.kind == .message

/-- is the unwrap file's protojson import used? Only message-valued unwrap needs it. -/
def unwrapUsesProtojson (rq : Request) (f : File) : Bool :=
  f.messages.any fun m =>
    m.fields.any (fun fl => fl.unwrap && fl.kind == .message) ||
    (isUnwrapContaining rq m && containingUsesProtojson rq m)

/-- the map-value template assumes the value message's unwrap field is a LIST (`var items
[]interface{}` … `&V{F: items}`): when it is a map (root-map unwrap used as a map value) the
assignment does not type-check. -/
def mapValueUnwrapOfMap (rq : Request) (f : File) : Bool :=
  f.messages.any fun m => m.fields.any fun fl =>
    match mapValueUnwrap rq fl with | some u => u.card == .map | none => false

def hasUnwrapFile (rq : Request) (f : File) : Bool :=
  f.messages.any fun m => m.fields.any (·.unwrap) ||
    m.fields.any (fun fl => fl.card == .map && fl.kind == .message &&
      (match rq.findMessage fl.typeName with | some v => v.fields.any (·.unwrap) | none => false))

def dupIn : List Str → Bool
  | [] => false
  | x :: xs => xs.contains x || dupIn xs

/-- defects of the go-http output for one file. -/
def httpDefects (rq : Request) (f : File) : List String :=
  (f.messages.flatMap (codecDefects · true)) ++
  (if hasUnwrapFile rq f && !(unwrapUsesProtojson rq f) then ["unwrap_unused_import"] else []) ++
  (if mapValueUnwrapOfMap rq f then ["map_value_unwrap_of_map_field"] else []) ++
  -- package-level identifiers are derived from the method name alone
  (if dupIn (f.services.flatMap fun s => s.methods.map fun m => goCamelCase m.name) then ["method_name_in_two_services"] else [])

def queryKindCompiles (f : Field) : Bool :=
  f.card == .singular && f.oneof.isNone &&
  (match f.kind with | .bytes | .enum | .message => false | _ => true)

/-- defects of the go-client output for one file. -/
def clientDefects (rq : Request) (f : File) : List String :=
  (f.messages.flatMap (codecDefects · false)) ++
  (f.services.flatMap fun s =>
    -- typed header helpers are named from the header name and emitted once per name since /repo
    -- 50d5457 (`clientHelperNames`); before, once per declaration (`headerHelperDefectsBeforeFix`)
    (s.methods.flatMap fun m =>
      let input := (rq.findMessage m.input).getD default
      let v := if m.hasConfig then verbOfNum m.verbNum else "POST".toList
      -- a path variable is read through the bound field's own name / getter since /repo 9cb4f02
      -- (`clientPathAccessor`); before, `req.<snakeToUpperCamel(var)>` (`clientIdentDefectsBeforeFix`)
      -- `req.F != <zero literal>` per query field, for GET/DELETE
      (if isQueryVerb v && input.fields.any (fun fl => fl.query.isSome && !(queryKindCompiles fl)) then ["client_query_field_kind"] else [])))

/-- the call-option helper functions the Go client emits for a service (the `emitted` set of
`clientgen.generateHeaderHelperOptions`): one per distinct function name, in order of first declaration (service headers, then method headers in method order). -/
def clientHelperNames (s : Service) : List Str :=
  uniqueFirst ((s.headers ++ s.methods.flatMap (·.headers)).map headerNameToFuncName)

/-- before /repo 50d5457: one helper per DECLARATION. -/
def clientHelperNamesBeforeFix (s : Service) : List Str :=
  (s.headers ++ s.methods.flatMap (·.headers)).map headerNameToFuncName

/-- regression witness for the repaired finding `go:header_helper_redeclared`. -/
def headerHelperDefectsBeforeFix (rq : Request) : List String :=
  (generated rq).flatMap fun f => f.services.flatMap fun s =>
    if dupIn (clientHelperNamesBeforeFix s) then ["header_helper_redeclared"] else []

/-- the Go expression the emitted client reads a path variable from (`clientgen.pathParamAccessor`):
the field's protoc-gen-go name, through the getter when the field is proto3 `optional` (a pointer). -/
def clientPathAccessor (input : Message) (p : Str) : Str :=
  match input.fields.find? (fun f => f.name == p) with
  | some f => if f.card == .optional then "req.Get".toList ++ goCamelCase f.name ++ "()".toList else "req.".toList ++ goCamelCase f.name
  | none => "req.".toList ++ snakeToUpperCamel p

/-- before /repo 9cb4f02: `fmt.Sprint(req.<snakeToUpperCamel(var)>)`. -/
def clientPathAccessorBeforeFix (p : Str) : Str := "req.".toList ++ snakeToUpperCamel p

/-- regression witness for the repaired finding `go:client_path_field_identifier`: the RPCs whose
path variables the old derivation spelled differently from protoc-gen-go. -/
def clientIdentDefectsBeforeFix (rq : Request) : List String :=
  (generated rq).flatMap fun f => f.services.flatMap fun s => s.methods.flatMap fun m =>
    let vars := if m.hasConfig then extractPathParams m.path else []
    if vars.any (fun p => snakeToUpperCamel p != goCamelCase p) then ["client_path_field_identifier"] else []

def goDefects (rq : Request) (subset : String) : List String :=
  (generated rq).flatMap fun f =>
    (if subset == "go-http" || subset == "both" then httpDefects rq f else []) ++
    (if subset == "go-client" || subset == "both" then clientDefects rq f else [])

/-- routes of the ts-server template that parse the URL twice: a GET/DELETE route with both path
variables and query parameters. Before `fix: ts-server: do not declare const url twice …` each
parse declared `const url` and the module did not load. -/
def tsServerTwoUrlUses (rq : Request) : List Str :=
  (generated rq).flatMap fun f => f.services.flatMap fun s => s.methods.flatMap fun m =>
    let input := (rq.findMessage m.input).getD default
    let vars := if m.hasConfig then extractPathParams m.path else []
    let v := if m.hasConfig then verbOfNum m.verbNum else "POST".toList
    if isQueryVerb v && vars != [] && input.fields.any (·.query.isSome) then [m.name] else []

/-- the defect as it was (kept as the regression model: what returns if the second declaration does). -/
def tsServerDefectsBeforeFix (rq : Request) : List String :=
  (tsServerTwoUrlUses rq).map fun _ => "ts_server_duplicate_const_url"

/-- ts-server load defects predicted for the current template: none. -/
def tsServerDefects (_rq : Request) : List String := []

end Sebuf.Build
