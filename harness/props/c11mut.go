package props

import (
	"bytes"
	"fmt"
	"strings"
	"sync/atomic"

	"google.golang.org/protobuf/proto"

	"verif/harness/gen"
	"verif/harness/ir"
)

// c11LateBudget bounds the number of multi-megabyte bodies per run (set by C11).
var c11LateBudget atomic.Int64

// c11Body is one request body with the name of the way it was made.
type c11Body struct {
	mut  string
	data []byte
	bin  bool // meant as protobuf wire data
}

var wrongValues = []func() *jn{
	func() *jn { return jNull() },
	func() *jn { return jBool(true) },
	func() *jn { return jNum("0") },
	func() *jn { return jNum("-1") },
	func() *jn { return jNum("1.5") },
	func() *jn { return jNum("1e2") },
	func() *jn { return jNum("1e400") },
	func() *jn { return jNum("9223372036854775808") },
	func() *jn { return jNum("18446744073709551616") },
	func() *jn { return jNum("-9223372036854775809") },
	func() *jn { return jNum("253402300800") },
	func() *jn { return jNum("-62135596801") },
	func() *jn { return jNum(strings.Repeat("9", 400)) },
	func() *jn { return jStr("") },
	func() *jn { return jStr("str") },
	func() *jn { return jStr("12") },
	func() *jn { return jStr("zzzz") },
	func() *jn { return jStr("abc") },
	func() *jn { return jStr("deadbeeg") },
	func() *jn { return jStr("YQ==") },
	func() *jn { return jStr("-_-_") },
	func() *jn { return jStr("+/+/") },
	func() *jn { return jStr("2024-02-30") },
	func() *jn { return jStr("2024-01-15") },
	func() *jn { return jStr("0000-01-01") },
	func() *jn { return jStr("2024-01-15T10:00:00Z") },
	func() *jn { return jStr("1970-01-01T00:00:00+25:00") },
	func() *jn { return &jn{k: 'a', arr: []*jn{}} },
	func() *jn { return &jn{k: 'o', obj: []jmem{}} },
	func() *jn { return jArr(jNull()) },
	func() *jn { return jArr(jNum("1"), jNull()) },
	func() *jn { return jArr(jNum("1"), jStr("2")) },
	func() *jn { return jArr(jNum("1"), jNum("2.5")) },
	func() *jn { return jObj(jmem{"seconds", jNum("5")}) },
	func() *jn { return jRaw("NaN") },
	func() *jn { return jRaw("Infinity") },
	func() *jn { return jRaw("-") },
	func() *jn { return jRaw("01") },
	func() *jn { return jRaw("'single'") },
	func() *jn { return jRaw(`"\ud800"`) },
	func() *jn { return jRaw("\"\xff\xfe\"") },
	func() *jn { return jRaw(`"a` + "\x00" + `b"`) },
}

func deepValue(depth int, open, close string) *jn {
	return jRaw(strings.Repeat(open, depth) + strings.Repeat(close, depth))
}

// fieldKeys lists the member keys worth aiming at: the body's own keys plus every field's
// JSON and proto name.
func fieldKeys(in *ir.Message, body *jn) []string {
	seen := map[string]bool{}
	var out []string
	add := func(k string) {
		if !seen[k] {
			seen[k] = true
			out = append(out, k)
		}
	}
	if body != nil && body.k == 'o' {
		for _, m := range body.obj {
			add(m.key)
		}
	}
	for _, f := range in.Fields {
		add(f.JSON())
	}
	return out
}

// jsonMutants derives malformed and borderline bodies from one valid documented-form body.
func jsonMutants(r *gen.R, sh *c11Shape, in *ir.Message, valid *jn, n int) []c11Body {
	var out []c11Body
	raw := valid.bytes()
	emit := func(mut string, b []byte) { out = append(out, c11Body{mut: mut, data: b}) }
	emit("valid", raw)
	keys := fieldKeys(in, valid)
	for i := 0; i < n; i++ {
		switch r.Intn(16) {
		case 0: // truncate
			if len(raw) > 1 {
				emit("truncate", raw[:1+r.Intn(len(raw)-1)])
			}
		case 1: // flip / insert / delete one byte
			if len(raw) > 0 {
				b := append([]byte{}, raw...)
				p := r.Intn(len(b))
				switch r.Intn(3) {
				case 0:
					b[p] ^= byte(1 << r.Intn(8))
					emit("flip_bit", b)
				case 1:
					b = append(b[:p], append([]byte{byte(r.Intn(256))}, b[p:]...)...)
					emit("insert_byte", b)
				default:
					emit("delete_byte", append(b[:p], b[p+1:]...))
				}
			}
		case 2, 3, 4, 5: // wrong JSON type / borderline value for one member
			if valid.k == 'o' && len(keys) > 0 {
				t := valid.clone()
				k := gen.Pick(r, keys)
				t.set(k, gen.Pick(r, wrongValues)())
				emit("wrong_type", t.bytes())
			} else if valid.k == 'a' {
				t := valid.clone()
				t.arr = append(t.arr, gen.Pick(r, wrongValues)())
				emit("wrong_element", t.bytes())
			}
		case 6: // duplicate key: same value, invalid first, invalid last
			if valid.k == 'o' && len(valid.obj) > 0 {
				t := valid.clone()
				m := t.obj[r.Intn(len(t.obj))]
				bad := gen.Pick(r, wrongValues)()
				switch r.Intn(3) {
				case 0:
					t.obj = append(t.obj, jmem{m.key, m.val.clone()})
					emit("dup_same", t.bytes())
				case 1:
					t.obj = append([]jmem{{m.key, bad}}, t.obj...)
					emit("dup_bad_first", t.bytes())
				default:
					t.obj = append(t.obj, jmem{m.key, bad})
					emit("dup_bad_last", t.bytes())
				}
			}
		case 7: // unknown member, case variant, proto-name key
			if valid.k == 'o' {
				t := valid.clone()
				switch r.Intn(4) {
				case 3:
					// an unknown member whose NAME is long and not ASCII (valid UTF-8): whatever the server quotes of it in
					// its answer, the answer is still a validation error
					ch := gen.Pick(r, []string{"é", "日", "😀"})
					t.obj = append(t.obj, jmem{strings.Repeat("k", r.Intn(4)) + strings.Repeat(ch, 90+r.Intn(120)), gen.Pick(r, wrongValues)()})
					emit("unknown_member_long_unicode", t.bytes())
				case 0:
					t.obj = append(t.obj, jmem{"nope_" + fmt.Sprint(r.Intn(9)), gen.Pick(r, wrongValues)()})
					emit("unknown_member", t.bytes())
				case 1:
					if len(t.obj) > 0 {
						i := r.Intn(len(t.obj))
						t.obj[i].key = strings.ToUpper(t.obj[i].key)
						emit("key_case", t.bytes())
					}
				default:
					for i, m := range t.obj {
						for _, f := range in.Fields {
							if f.JSON() == m.key && f.Name != m.key {
								t.obj[i].key = f.Name
							}
						}
					}
					emit("proto_name_keys", t.bytes())
				}
			}
		case 8: // deep nesting
			d := gen.Pick(r, []int{100, 9999, 10001, 20000})
			if valid.k == 'o' && len(keys) > 0 {
				t := valid.clone()
				if r.Bool() {
					t.set(gen.Pick(r, keys), deepValue(d, "[", "]"))
				} else {
					t.set(gen.Pick(r, keys), deepValue(d, `{"a":`, "}"))
				}
				emit("deep_member", t.bytes())
			} else {
				emit("deep_root", deepValue(d, "[", "]").bytes())
			}
		case 9: // top level of another kind
			emit("top_level", []byte(gen.Pick(r, []string{"null", "[]", "[1]", "5", `"x"`, "true", "{}", "[{}]", "1e400", "-", `{"a"}`, "[null]"})))
		case 10: // garbage around
			sub := r.Intn(5)
			if c11LateBudget.Add(-1) >= 0 {
				sub = 5
			}
			switch sub {
			case 5:
				// a complete document, then white space up to a size where a reader could stop
				// (64 KiB .. 8 MiB), then garbage: malformed whatever the length
				n := gen.Pick(r, []int{1 << 16, 1 << 20, 4<<20 - len(raw), 4<<20 + 1, 8 << 20})
				if n < 0 {
					n = 4 << 20
				}
				b := append(append([]byte{}, raw...), bytes.Repeat([]byte(" "), n)...)
				emit("late_trailing_garbage", append(b, '}', '{'))
			case 0:
				emit("bom", append([]byte{0xEF, 0xBB, 0xBF}, raw...))
			case 1:
				emit("trailing_garbage", append(append([]byte{}, raw...), []byte(gen.Pick(r, []string{"x", "{}", ",", "]", "\x00"}))...))
			case 2:
				emit("surrounding_space", append(append([]byte(" \n\t"), raw...), []byte("\r\n ")...))
			case 3:
				emit("comment", append([]byte("/*c*/"), raw...))
			default:
				emit("utf16", []byte{0xFF, 0xFE, '{', 0, '}', 0})
			}
		case 11: // invalid UTF-8 / surrogates / NUL inside a string value or key
			if valid.k == 'o' {
				t := valid.clone()
				k := "note"
				if len(keys) > 0 {
					k = gen.Pick(r, keys)
				}
				switch r.Intn(3) {
				case 0:
					t.set(k, jRaw("\"\xc3\x28\""))
					emit("invalid_utf8_value", t.bytes())
				case 1:
					t.obj = append(t.obj, jmem{"k", jNull()})
					b := bytes.Replace(t.bytes(), []byte(`"k"`), []byte("\"\xff\""), 1)
					emit("invalid_utf8_key", b)
				default:
					t.set(k, jRaw(`"\udc00\ud800"`))
					emit("lone_surrogates", t.bytes())
				}
			}
		case 12: // whole body replaced
			emit("empty", nil)
		case 13:
			emit("whitespace_only", []byte(gen.Pick(r, []string{" ", "\n", "\t \r\n"})))
		case 14: // members removed / reordered
			if valid.k == 'o' && len(valid.obj) > 1 {
				t := valid.clone()
				i := r.Intn(len(t.obj))
				t.obj = append(t.obj[:i], t.obj[i+1:]...)
				emit("drop_member", t.bytes())
			}
		default: // number forms
			if valid.k == 'o' && len(keys) > 0 {
				t := valid.clone()
				t.set(gen.Pick(r, keys), jNum(gen.Pick(r, []string{"-0", "0.0", "1E2", "1e+2", "100e-2", "1.0", "12345678901234567890", "0.1e1", "9007199254740993", "-9223372036854775808", "18446744073709551615", "4294967296", "2147483648", "-2147483649"})))
				emit("number_form", t.bytes())
			}
		}
	}
	return out
}

func randomBytes(r *gen.R, n int) []byte {
	b := make([]byte, n)
	for i := range b {
		b[i] = byte(r.Intn(256))
	}
	return b
}

func randomJSONish(r *gen.R, n int) []byte {
	alphabet := `{}[]":,0123456789.eE+-truefalsn \\u` + "\n"
	b := make([]byte, n)
	for i := range b {
		b[i] = alphabet[r.Intn(len(alphabet))]
	}
	return b
}

// wireMutants derives protobuf wire bodies from one value.
func wireMutants(r *gen.R, v proto.Message, n int) []c11Body {
	var out []c11Body
	raw, _ := proto.MarshalOptions{Deterministic: true}.Marshal(v)
	out = append(out, c11Body{mut: "wire_valid", data: raw, bin: true})
	for i := 0; i < n; i++ {
		switch r.Intn(8) {
		case 0:
			if len(raw) > 1 {
				out = append(out, c11Body{mut: "wire_truncate", data: raw[:1+r.Intn(len(raw)-1)], bin: true})
			}
		case 1:
			if len(raw) > 0 {
				b := append([]byte{}, raw...)
				b[r.Intn(len(b))] ^= byte(1 << r.Intn(8))
				out = append(out, c11Body{mut: "wire_flip_bit", data: b, bin: true})
			}
		case 2:
			out = append(out, c11Body{mut: "wire_random", data: randomBytes(r, 1+r.Intn(40)), bin: true})
		case 3:
			out = append(out, c11Body{mut: "wire_bad_tag", data: gen.Pick(r, [][]byte{{0, 0}, {0x0c}, {0x0b}, {0xff, 0xff, 0xff, 0xff, 0xff, 0xff, 0xff, 0xff, 0xff, 0xff, 0x01}, {0x0a, 0xff, 0xff, 0xff, 0xff, 0x0f}, {0x0f}}), bin: true})
		case 4:
			out = append(out, c11Body{mut: "wire_unknown_fields", data: append(append([]byte{}, raw...), 0xf8, 0x3f, 0x05, 0xfa, 0x3f, 0x02, 'h', 'i'), bin: true})
		case 5:
			out = append(out, c11Body{mut: "wire_invalid_utf8_string", data: append(append([]byte{}, raw...), 0x0a, 0x02, 0xff, 0xfe), bin: true})
		case 6:
			out = append(out, c11Body{mut: "wire_overlong_varint", data: append(append([]byte{}, raw...), 0x10, 0xff, 0xff, 0xff, 0xff, 0xff, 0xff, 0xff, 0xff, 0xff, 0xff, 0x01), bin: true})
		default:
			out = append(out, c11Body{mut: "wire_repeated_self", data: append(append([]byte{}, raw...), raw...), bin: true})
		}
	}
	return out
}
