import Sebuf.Gen.OpenApiMain
/-! `Impl`: which OpenAPI documents the plugin emits and how they are named (cmd main), over the
facts regenerated from `cmd/protoc-gen-openapiv3/main.go`. -/
namespace Sebuf.OaEmit
open Sebuf.Gen

/-- output format constant for the value of the `format` parameter (absent ⇒ default). -/
def formatOf (param : Option String) : String :=
  match param with
  | none => OpenApiMain.defaultFormat
  | some p => match OpenApiMain.formatTable.find? (·.1 == p) with
    | some r => r.2
    | none => OpenApiMain.defaultFormat

def extOf (fmt : String) : String := if fmt == "FormatJSON" then OpenApiMain.jsonExt else OpenApiMain.defaultExt

def docName (param : Option String) (svc : String) : String := svc ++ ".openapi." ++ extOf (formatOf param)

def docNames (param : Option String) (services : List String) : List String := services.map (docName param)

end Sebuf.OaEmit

namespace Sebuf.OaEmit
/-! ### the JSON rendering re-reads the YAML text with a YAML 1.1 library

`Render` for `format=json` marshals the document to YAML (go.yaml.in/yaml/v4, which leaves
YAML-1.1-only booleans unquoted) and converts that text with `sigs.k8s.io/yaml`, a YAML 1.1
reader. The tables below are the YAML 1.1 plain scalars that a YAML 1.2 reader keeps as strings
(library behaviour, checked against the real renderings by the correspondence). -/

/-- YAML 1.1 booleans that are NOT YAML 1.2 core-schema booleans. -/
def yaml11OnlyBool : List (String × Bool) :=
  [("y", true), ("Y", true), ("yes", true), ("Yes", true), ("YES", true), ("on", true), ("On", true), ("ON", true),
   ("n", false), ("N", false), ("no", false), ("No", false), ("NO", false), ("off", false), ("Off", false), ("OFF", false)]

def yaml11Bool (s : String) : Option Bool := (yaml11OnlyBool.find? (·.1 == s)).map (·.2)

/-- the key a property named `k` has in the JSON rendering. -/
def jsonRenderKey (k : String) : String :=
  match yaml11Bool k with
  | some true => "true"
  | some false => "false"
  | none => k

/-- untagged plain scalars that are non-finite floats: `json.Marshal` fails on them, the plugin panics. -/
def yamlNonFinite : List String :=
  [".nan", ".NaN", ".NAN", ".inf", ".Inf", ".INF", "+.inf", "+.Inf", "+.INF", "-.inf", "-.Inf", "-.INF"]

def jsonRenderCrashes (untaggedScalars : List String) : Bool := untaggedScalars.any (yamlNonFinite.contains ·)

end Sebuf.OaEmit
