import Sebuf.Driver
import Sebuf.Call
namespace Sebuf.Driver
open Lean (Json)
open Sebuf.Call

def opCallOutcome (j : Json) : Json :=
  let c : CallCase :=
    { verb := String.ofList (getStr j "verb")
      ct := String.ofList (getStr j "ct")
      pathDot := getBool j "path_dot"
      negZeroQuery := getBool j "neg_zero_query"
      respEmpty := getBool j "resp_empty"
      requiredZero := (getArr j "required_zero").map fun x => match x with | Json.bool b => b | _ => false }
  Json.mkObj [("outcome", Json.str (callOutcome c)),
              ("client_req_codec", Json.str (clientReqCodec c.ct)), ("server_req_codec", Json.str (serverReqCodec c.ct)),
              ("client_resp_codec", Json.str (clientRespCodec c.ct)), ("server_resp_codec", Json.str (serverRespCodec c.ct))]

def getBytes (j : Json) (k : String) : Bytes :=
  match j.getObjValAs? (Array Nat) k with
  | .ok a => a.toList
  | .error _ => []

/-- what the model says the client writes on the wire for URL-bound scalar values. -/
def opClientUrl (j : Json) : Json :=
  let segs : List Seg := (getArr j "template").map fun s =>
    match s.getObjValAs? String "var" with
    | .ok v => Seg.var (bytesOfStr v.toList)
    | .error _ => Seg.lit (bytesOfStr (getStr s "lit"))
  let vals : List (Bytes × Bytes) := (getArr j "path_vals").map fun p => (bytesOfStr (getStr p "name"), getBytes p "bytes")
  let lookup (n : Bytes) : Bytes := (vals.lookup n).getD []
  let base := bytesOfStr (getStr j "base")
  let path := base ++ renderPath segs lookup
  let q : List (Bytes × Bytes) := (getArr j "query").map fun p => (bytesOfStr (getStr p "name"), getBytes p "bytes")
  let enc := encodeValues q
  let target := path ++ (if enc = [] then [] else 63 :: enc)
  Json.mkObj [("target", jstr (strOfBytes target)), ("needs_cleaning", Json.bool (needsCleaning path))]

end Sebuf.Driver
