package main

import (
	"bufio"
	"encoding/json"
	"flag"
	"fmt"
	"os"
	"time"

	"verif/harness/gen"
	"verif/harness/ir"
	"verif/harness/plug"
	"verif/harness/props"
	"verif/harness/report"
	"verif/harness/scratch"
)

// check <ID> -tier quick|thorough -seed N -out result.json
func cmdCheck(args []string) {
	fs := flag.NewFlagSet("check", flag.ExitOnError)
	tier := fs.String("tier", "quick", "")
	seed := fs.Int64("seed", 1, "")
	out := fs.String("out", "", "")
	id := args[0]
	fs.Parse(args[1:])
	f, ok := props.Registry[id]
	if !ok {
		fmt.Fprintln(os.Stderr, "no checker for", id)
		os.Exit(2)
	}
	res := report.New(id, *tier, *seed)
	if err := f(&props.Ctx{Res: res, Tier: *tier, Seed: *seed}); err != nil {
		fmt.Fprintln(os.Stderr, "HARNESS ERROR:", err)
		res.Note("harness error: " + err.Error())
		if *out != "" {
			res.Write(*out)
		}
		os.Exit(3)
	}
	if *out != "" {
		if err := res.Write(*out); err != nil {
			fmt.Fprintln(os.Stderr, err)
			os.Exit(3)
		}
	}
	fmt.Printf("%s: evaluations=%d distinct=%d corr_ok=%d corr_broken=%d violations=%d known=%d\n", id, res.Evaluations, res.Distinct, res.CorrOK, len(res.CorrBroken), len(res.Violations), len(res.Known))
}

func dispatch(cmd string, args []string) bool {
	switch cmd {
	case "try":
		cmdTry(args)
	case "check":
		cmdCheck(args)
	case "warm":
		cmdWarm()
	default:
		return false
	}
	return true
}

// try <ir.json> <ops.jsonl> [mock]: build the schema with both Go plugins and run ops.
func cmdTry(args []string) {
	b, err := os.ReadFile(args[0])
	if err != nil {
		panic(err)
	}
	var req ir.Request
	if err := json.Unmarshal(b, &req); err != nil {
		panic(err)
	}
	bt, err := scratch.NewBatch()
	if err != nil {
		panic(err)
	}
	defer bt.Close()
	it, err := bt.Add("s0001", &req, scratch.AddOpts{GoHTTP: true, GoClient: true, Mock: len(args) > 2})
	if err != nil {
		panic(err)
	}
	if it.GenErr != "" {
		fmt.Println("GENERR", it.GenErr)
		return
	}
	t0 := time.Now()
	if err := bt.Build(false); err != nil {
		panic(err)
	}
	fmt.Fprintln(os.Stderr, "build", time.Since(t0), "built", it.Built)
	if !it.Built {
		fmt.Println("BUILD FAILED\n" + it.BuildLog)
		return
	}
	var ops []any
	f, _ := os.Open(args[1])
	sc := bufio.NewScanner(f)
	sc.Buffer(make([]byte, 1<<20), 1<<26)
	for sc.Scan() {
		var o map[string]any
		if json.Unmarshal(sc.Bytes(), &o) == nil {
			ops = append(ops, o)
		}
	}
	outs, stderr, err := it.Run(ops, 30*time.Second)
	for _, o := range outs {
		j, _ := json.Marshal(o)
		fmt.Println(string(j))
	}
	if stderr != "" {
		fmt.Fprintln(os.Stderr, "STDERR:", stderr)
	}
	if err != nil {
		fmt.Fprintln(os.Stderr, "ERR:", err)
	}
}

// warm builds the plugin binaries, protoc-gen-go and one scratch package so that the Go build
// cache holds every dependency the checks compile against.
func cmdWarm() {
	if _, err := plug.BinDir(); err != nil {
		fmt.Fprintln(os.Stderr, err)
		os.Exit(1)
	}
	if _, err := plug.ToolDir(); err != nil {
		fmt.Fprintln(os.Stderr, err)
		os.Exit(1)
	}
	bt, err := scratch.NewBatch()
	if err != nil {
		fmt.Fprintln(os.Stderr, err)
		os.Exit(1)
	}
	defer bt.Close()
	req := gen.GenRuntimeFile(gen.New(1), 0, gen.RuntimeOpts{Headers: true})
	if _, err := bt.Add("s0000", req, scratch.AddOpts{GoHTTP: true, GoClient: true}); err != nil {
		fmt.Fprintln(os.Stderr, err)
		os.Exit(1)
	}
	if err := bt.Build(false); err != nil {
		fmt.Fprintln(os.Stderr, err)
		os.Exit(1)
	}
	fmt.Println("warm: ok")
}
