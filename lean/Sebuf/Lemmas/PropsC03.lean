import Sebuf.Route
/-!
Helper lemmas for `Sebuf.Props.C03` (lookup / slash / upsert plumbing), together with the
definitions their statements need (`knownVerbs`, `upsert`, `opKey`, `oaOps`). The property
theorems are in `Sebuf/Props/C03.lean`.
-/
namespace Sebuf.C03
open Sebuf

def knownVerbs : List Str := ["GET".toList, "POST".toList, "PUT".toList, "DELETE".toList, "PATCH".toList]

theorem lookup_mem {α β} [BEq α] [LawfulBEq α] (l : List (α × β)) (k : α) (v : β)
    (h : l.lookup k = some v) : (k, v) ∈ l := by
  induction l with
  | nil => simp [List.lookup] at h
  | cons p t ih =>
    obtain ⟨a, b⟩ := p
    simp only [List.lookup] at h
    split at h
    · rename_i heq
      have : k = a := by simpa using heq
      subst this
      cases h
      exact List.mem_cons_self
    · exact List.mem_cons_of_mem _ (ih h)

theorem verbOfNum_known (n : Nat) : verbOfNum n ∈ knownVerbs := by
  have table_known : ∀ p ∈ Gen.Verbs.table, p.2.toList ∈ knownVerbs := by decide
  have fallback_known : Gen.Verbs.fallback.toList ∈ knownVerbs := by decide
  unfold verbOfNum
  split
  · rename_i s h
    exact table_known (n, s) (lookup_mem _ _ _ h)
  · exact fallback_known

theorem verbOf_known (m : MethodIn) : verbOf m ∈ knownVerbs := by
  unfold verbOf
  split
  · simp only
    split
    · decide
    · exact verbOfNum_known _
  · decide

/-- On the five verbs, OpenAPI's lower-casing, filing and our upper-casing are the identity. -/
theorem upper_lower_known : ∀ v ∈ knownVerbs,
    toUpperStr (let w := toLowerStr v
                let w := if w = [] then "post".toList else w
                if w = "get".toList ∨ w = "post".toList ∨ w = "put".toList ∨ w = "delete".toList ∨ w = "patch".toList
                then w else "post".toList) = v ∧ v ≠ [] := by decide

theorem ensure_of_prefix {s : Str} (h : hasPrefixSlash s = true) : ensureLeadingSlash s = s := by
  match s with
  | [] => simp [hasPrefixSlash] at h
  | x :: r =>
    by_cases hx : x = '/'
    · subst hx; simp [ensureLeadingSlash]
    · have h1 : hasPrefixSlash (x :: r) = false := by
        unfold hasPrefixSlash; split <;> simp_all
      simp [h1] at h

theorem slash_trim (c : Str) : (if hasPrefixSlash c then c else '/' :: c) = '/' :: trimPrefixSlash c := by
  match c with
  | [] => simp [hasPrefixSlash, trimPrefixSlash]
  | x :: r =>
    by_cases hx : x = '/'
    · subst hx; simp [hasPrefixSlash, trimPrefixSlash]
    · have h1 : hasPrefixSlash (x :: r) = false := by
        unfold hasPrefixSlash; split <;> simp_all
      have h2 : trimPrefixSlash (x :: r) = x :: r := by
        unfold trimPrefixSlash; split <;> simp_all
      simp [h1, h2]

/-! ## One operation per RPC in the OpenAPI document -/

/-- `processMethod`: path items keyed by path, operation slot keyed by verb; a later RPC with
the same (path, verb) overwrites the earlier one. Modelled as an association list upsert. -/
def upsert (k : Str × Str) (v : Str) : List ((Str × Str) × Str) → List ((Str × Str) × Str)
  | [] => [(k, v)]
  | (k', v') :: t => if k' = k then (k, v) :: t else (k', v') :: upsert k v t

def opKey (m : MethodIn) : Str × Str := ((route .openapi m).template, openapiVerbLower m)

def oaOps (ms : List MethodIn) : List ((Str × Str) × Str) :=
  ms.foldl (fun acc m => upsert (opKey m) m.methName acc) []

theorem upsert_absent (k : Str × Str) (v : Str) (l : List ((Str × Str) × Str))
    (h : k ∉ l.map Prod.fst) : upsert k v l = l ++ [(k, v)] := by
  induction l with
  | nil => rfl
  | cons p t ih =>
    obtain ⟨k', v'⟩ := p
    simp only [List.map_cons, List.mem_cons, not_or] at h
    simp only [upsert]
    have : ¬ k' = k := fun e => h.1 e.symm
    simp [this, ih h.2]

theorem oaOps_aux (ms : List MethodIn) (acc : List ((Str × Str) × Str))
    (hnd : (acc.map Prod.fst ++ ms.map opKey).Nodup) :
    ms.foldl (fun acc m => upsert (opKey m) m.methName acc) acc
      = acc ++ ms.map (fun m => (opKey m, m.methName)) := by
  induction ms generalizing acc with
  | nil => simp
  | cons m t ih =>
    simp only [List.foldl_cons, List.map_cons]
    have hk : opKey m ∉ acc.map Prod.fst := by
      intro hmem
      have := List.nodup_append.mp hnd
      exact this.2.2 _ hmem _ (List.mem_cons_self) rfl
    rw [upsert_absent _ _ _ hk]
    have : ((acc ++ [(opKey m, m.methName)]).map Prod.fst ++ t.map opKey).Nodup := by
      simpa [List.append_assoc] using hnd
    rw [ih _ this]
    simp

end Sebuf.C03
