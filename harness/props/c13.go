package props

import (
	"fmt"
	"os"
	"os/exec"
	"path/filepath"
	"regexp"
	"sort"
	"strings"

	"verif/harness/drv"
	"verif/harness/gen"
	"verif/harness/ir"
	"verif/harness/plug"
	"verif/harness/scratch"
)

func init() { Registry["C13"] = C13 }

const node22 = "/root/.nvm/versions/node/v22.22.2/bin/node"

var errLine = regexp.MustCompile(`(?m)^[^\s#][^:]*\.go:\d+:\d+: (.*)$`)

// errorClass reduces a compiler log to a stable class.
func errorClass(log string) string {
	m := errLine.FindStringSubmatch(log)
	if m == nil {
		return firstLine(log)
	}
	e := m[1]
	e = regexp.MustCompile(`"[^"]*"`).ReplaceAllString(e, `"…"`)
	e = regexp.MustCompile(`\b[A-Z][A-Za-z0-9_]*\d+\b`).ReplaceAllString(e, "T")
	if len(e) > 110 {
		e = e[:110]
	}
	return e
}

// C13: everything the generators emit builds: Go compiles and vets, TypeScript loads.
func C13(c *Ctx) error {
	res := c.Res
	res.Rule = "accepted schemas (annotated files incl. each annotation on each cardinality the validators accept and two features per message; route files incl. identifier-hostile names; runtime files) x plugin subsets {go-http, go-client, both}: the emitted package is really compiled (go build) and vetted (the analyzers go test runs); emitted .ts modules are loaded with node 22; " +
		"a case is one (schema, subset) build or one module load; non-trivial = every case; distinct by (schema shape, subset)"
	r := gen.New(c.Seed)
	n := c.N(18, 200)
	type spec struct {
		req  *ir.Request
		kind string
	}
	specs := make([]spec, n)
	for i := 0; i < n; i++ {
		rr := r.Fork(fmt.Sprint("c13-", i))
		switch i % 6 {
		case 0:
			f := gen.GenAnnotFile(rr, i, gen.AnnotOpts{Safe: true})
			specs[i] = spec{&ir.Request{Files: []*ir.File{f}, Generate: []string{f.Name}}, "annot_safe"}
		case 1, 2:
			f := gen.GenAnnotFile(rr, i, gen.AnnotOpts{Combos: i%2 == 0})
			specs[i] = spec{&ir.Request{Files: []*ir.File{f}, Generate: []string{f.Name}}, "annot_any"}
		case 3:
			specs[i] = spec{gen.GenRouteFile(rr, i, gen.RouteOpts{SafeOnly: true}), "route_safe"}
		case 4:
			specs[i] = spec{gen.GenRouteFile(rr, i, gen.RouteOpts{HostileQuery: true, SameMethodNames: i%12 == 4}), "route_any"}
		default:
			specs[i] = spec{gen.GenRuntimeFile(rr, i, gen.RuntimeOpts{Headers: true}), "runtime"}
		}
	}
	// fixed shapes on every run: the shape zoo, several header-using services in one file, body-verb
	// routes whose only URL-bound fields are query parameters
	specs = append(specs,
		spec{gen.GenShapeZoo(n), "zoo"},
		spec{gen.GenMultiServiceFile(r.Fork("c13-multi"), n+1, gen.RuntimeOpts{Headers: true, ManyMethods: true}), "multi_service"},
		// the same without GET/DELETE routes that combine path and query parameters: the known duplicate
		// `const url` syntax error would otherwise be the only thing node reports for the module
		spec{splitPQ(gen.GenMultiServiceFile(r.Fork("c13-multi2"), n+3, gen.RuntimeOpts{Headers: true, ManyMethods: true})), "multi_service_loadable"},
		spec{gen.InteropCorpus(0), "ts_interop_corpus"},
		spec{gen.GenNestedAnnot(n+4, true), "nested_annotations"},
		spec{gen.GenFeaturePairs(n + 5), "feature_pairs"},
		spec{basePathVariable(n + 6), "base_path_variable"},
		spec{foreignResponse(n + 7), "foreign_response"},
		spec{streamingFirst(n + 8), "streaming_rpcs"},
		spec{marshalConflict(n+9, 0), "marshaljson_conflict"}, spec{marshalConflict(n+9, 1), "marshaljson_conflict"}, spec{marshalConflict(n+9, 2), "marshaljson_conflict"},
		spec{postQueryOnly(n + 2), "post_query_only"})
	// whatever the plugins accept must build: the rule-breaking fragments of C12 (refused today) at
	// every placement; a validator that stops refusing one of them must not let uncompilable code out
	placements := []string{"nested", "other_generated_file"}
	if c.Thorough() {
		placements = gen.Placements
	}
	pi := n + 10
	for _, rule := range gen.JSONRules {
		for _, pl := range placements {
			pi++
			req, _ := gen.Place(r.Fork(fmt.Sprint("c13-inv", pi)), pi, rule, pl)
			specs = append(specs, spec{req, "c12_fragment"})
		}
	}
	n = len(specs)
	var douts []map[string]any
	if drv.Available() {
		var dops []map[string]any
		for i := range specs {
			dops = append(dops, map[string]any{"op": "build_defects", "rq": specs[i].req.ToModel()})
		}
		var err error
		if douts, err = drv.Run(dops); err != nil {
			res.Corr("driver", "Lean driver failed: "+err.Error(), nil)
			douts = nil
		}
	} else {
		res.Corr("driver", "Lean driver binary missing (model did not build)", nil)
	}
	subsets := []struct {
		name string
		o    scratch.AddOpts
	}{{"go-http", scratch.AddOpts{GoHTTP: true, NoRunner: true}}, {"go-client", scratch.AddOpts{GoClient: true, NoRunner: true}}, {"both", scratch.AddOpts{GoHTTP: true, GoClient: true, NoRunner: true}}}
	for _, sub := range subsets {
		bt, items, err := buildBatch(n, func(i int) *ir.Request { return specs[i].req }, sub.o, false)
		if err != nil {
			return err
		}
		bt.Vet()
		for i, x := range items {
			res.Case(map[string]any{"shape": hashStr(specs[i].req.ShapeKey()), "subset": sub.name}, true)
			res.Count("kind:" + specs[i].kind)
			replay := map[string]any{"schema": x.req, "subset": sub.name}
			if x.it.GenErr != "" {
				res.Count("refused")
				continue // accept/refuse is C12's subject
			}
			var predicted []string
			if douts != nil {
				for _, v := range asList(douts[i][sub.name]) {
					predicted = append(predicted, fmt.Sprint(v))
				}
			}
			replay["predicted"] = predicted
			log := ""
			if !x.it.Built {
				log = x.it.BuildLog
			} else if !x.it.VetOK {
				log = x.it.VetLog
			}
			real := defectClasses(log)
			if log != "" && len(real) == 0 {
				real = []string{"unrecognised: " + errorClass(log)}
			}
			replay["log"] = firstLines(log, 14)
			// correspondence: builds <=> the model predicts no defect; every real class is predicted
			agree := (len(real) == 0) == (len(predicted) == 0 || onlyVet(predicted) && x.it.Built && x.it.VetOK)
			for _, rc := range real {
				if !contains(predicted, rc) {
					agree = false
				}
			}
			// a build error hides the vet diagnostics of the same package
			if douts != nil {
				if agree {
					res.CorrAgree()
				} else {
					res.Corr("build:"+sub.name, fmt.Sprintf("[%s, %s] real defects %v, the model predicts %v", specs[i].kind, sub.name, real, predicted), replay)
				}
			}
			for _, rc := range real {
				what := "does not compile"
				if x.it.Built {
					what = "fails go vet"
				}
				res.Divergence("go:"+rc, fmt.Sprintf("[%s, %s] emitted Go %s: %s", specs[i].kind, sub.name, what, rc), agree && douts != nil, replay)
			}
		}
		bt.Close()
	}
	// TypeScript modules
	if _, err := os.Stat(node22); err != nil {
		res.Note("node 22 not found at " + node22 + ": TypeScript load not exercised")
		return nil
	}
	tmp, err := os.MkdirTemp("", "sebuf-ts-")
	if err != nil {
		return err
	}
	defer os.RemoveAll(tmp)
	type tsjob struct {
		i      int
		plugin string
		file   string
		path   string
		out    string
		ok     bool
	}
	var tj []*tsjob
	for i := range specs {
		for _, p := range []string{plug.TSClient, plug.TSServer} {
			pr, err := plug.Run(p, specs[i].req, nil)
			if err != nil {
				return err
			}
			if !pr.OK() {
				continue
			}
			for name, content := range pr.Files {
				path := filepath.Join(tmp, fmt.Sprintf("m%d_%s_%s", i, strings.TrimPrefix(p, "protoc-gen-"), strings.ReplaceAll(name, "/", "_")))
				os.WriteFile(path, []byte(content), 0o644)
				tj = append(tj, &tsjob{i: i, plugin: p, file: name, path: path})
			}
		}
	}
	parallel(len(tj), func(k int) {
		j := tj[k]
		cmd := exec.Command(node22, "--experimental-strip-types", "--no-warnings", "-e", "import("+fmt.Sprintf("%q", "file://"+j.path)+").then(()=>console.log('LOADED')).catch(e=>{console.log('ERR '+e.name+': '+e.message);process.exit(1)})")
		out, _ := cmd.CombinedOutput()
		j.out = string(out)
		j.ok = strings.Contains(j.out, "LOADED")
	})
	for _, j := range tj {
		res.Case(map[string]any{"shape": hashStr(specs[j.i].req.ShapeKey()), "subset": strings.TrimPrefix(j.plugin, "protoc-gen-")}, true)
		if j.ok {
			if douts != nil && j.plugin == plug.TSServer && len(strList(douts[j.i]["ts-server"])) > 0 {
				res.Corr("ts_load", fmt.Sprintf("[%s] %s loads although the model predicts %v", specs[j.i].kind, j.file, douts[j.i]["ts-server"]), map[string]any{"schema": specs[j.i].req})
			} else {
				res.CorrAgree()
			}
			continue
		}
		cls := firstLine(strings.TrimSpace(j.out))
		key := "ts_load:" + strings.TrimPrefix(j.plugin, "protoc-gen-") + ":" + regexp.MustCompile(`'[^']*'`).ReplaceAllString(cls, "'…'")
		predicted := false
		if strings.Contains(cls, "Identifier 'url' has already been declared") && j.plugin == plug.TSServer {
			key = "ts:ts_server_duplicate_const_url"
			if douts != nil {
				predicted = contains(strList(douts[j.i]["ts-server"]), "ts_server_duplicate_const_url")
			}
		}
		res.Divergence(key, fmt.Sprintf("[%s] %s emitted by %s does not load: %s", specs[j.i].kind, j.file, j.plugin, cls), predicted, map[string]any{"schema": specs[j.i].req, "plugin": j.plugin, "node": j.out})
	}
	res.Programs = n
	_ = sort.Strings
	return nil
}

var goErrLine = regexp.MustCompile(`(?m)^\S*?([a-z_]+)\.pb\.go:\d+:\d+: (.*)$`)

// defectClasses maps compiler / vet diagnostics to the classes of the typing-discipline model
// (Sebuf.Build); anything it does not recognise is returned verbatim (and is then a violation).
func defectClasses(log string) []string {
	set := map[string]bool{}
	for _, m := range goErrLine.FindAllStringSubmatch(log, -1) {
		file, msg := m[1], m[2]
		cls := ""
		switch {
		case strings.Contains(msg, "too many errors"):
			continue
		case strings.Contains(msg, "Errorf call needs") || strings.Contains(msg, "Errorf format"):
			cls = "oneof_errorf_vet"
		case strings.Contains(msg, "imported and not used") && strings.HasSuffix(file, "_unwrap"):
			cls = "unwrap_unused_import"
		case strings.Contains(msg, "AsTime undefined"):
			cls = "repeated_timestamp_format"
		case strings.HasSuffix(file, "_bytes_encoding"):
			cls = "repeated_bytes_encoding"
		case strings.HasSuffix(file, "_encoding") && !strings.HasSuffix(file, "_enum_encoding") && (strings.Contains(msg, "mismatched types") || strings.Contains(msg, "cannot use") || strings.Contains(msg, "cannot convert")):
			cls = "optional_int64_number"
		case (strings.Contains(msg, "MarshalJSON") || strings.Contains(msg, "UnmarshalJSON")) && (strings.Contains(msg, "already declared") || strings.Contains(msg, "redeclared")):
			cls = "two_marshaljson_methods"
		case strings.HasSuffix(file, "_unwrap") && strings.Contains(msg, "cannot use items (variable of type []interface{}) as map["):
			cls = "map_value_unwrap_of_map_field"
		case strings.Contains(msg, "other declaration of"):
			continue
		case strings.HasSuffix(file, "_client") && strings.Contains(msg, "redeclared") && strings.HasPrefix(msg, "With"):
			cls = "header_helper_redeclared"
		case strings.HasSuffix(file, "_client") && strings.Contains(msg, "req.") && strings.Contains(msg, "undefined"):
			cls = "client_path_field_identifier"
		case strings.HasSuffix(file, "_client") && (strings.Contains(msg, "mismatched types") || strings.Contains(msg, "cannot convert") || strings.Contains(msg, "invalid operation")):
			cls = "client_query_field_kind"
		case strings.HasSuffix(file, "_http") && strings.Contains(msg, "redeclared"):
			cls = "method_name_in_two_services"
		default:
			cls = "unrecognised: " + file + ": " + msg
		}
		set[cls] = true
	}
	var out []string
	for c := range set {
		out = append(out, c)
	}
	sort.Strings(out)
	return out
}

func contains(l []string, s string) bool {
	for _, x := range l {
		if x == s {
			return true
		}
	}
	return false
}

func strList(v any) []string {
	var out []string
	for _, x := range asList(v) {
		out = append(out, fmt.Sprint(x))
	}
	return out
}

// onlyVet: the predicted defects are all vet-level (the package still compiles).
func onlyVet(p []string) bool {
	for _, x := range p {
		if x != "oneof_errorf_vet" {
			return false
		}
	}
	return true
}

// postQueryOnly: POST / PUT routes whose request messages carry query-annotated fields and no
// path variable, and no GET / DELETE route in the file.
func postQueryOnly(idx int) *ir.Request {
	pkg := "pq.v1"
	P := "." + pkg + "."
	f := &ir.File{Name: fmt.Sprintf("pq%d/api.proto", idx), Package: pkg, GoPackage: "example.com/gen/pq/v1;pqv1"}
	f.Messages = []*ir.Message{
		{Name: "CreateReq", Fields: []*ir.Field{{Name: "dry_run", Number: 1, Kind: "bool", Ann: ir.Ann{Query: &ir.Query{Name: "dry_run"}}}, {Name: "title", Number: 2, Kind: "string"}}},
		{Name: "UpdateReq", Fields: []*ir.Field{{Name: "mask", Number: 1, Kind: "string", Ann: ir.Ann{Query: &ir.Query{Name: "mask", Required: true}}}, {Name: "amount", Number: 2, Kind: "int64"}}},
		{Name: "Reply", Fields: []*ir.Field{{Name: "ok", Number: 1, Kind: "bool"}}},
	}
	f.Services = []*ir.Service{{Name: "Pq", BasePath: "/pq", Methods: []*ir.Method{
		{Name: "Create", Input: P + "CreateReq", Output: P + "Reply", Config: &ir.HTTPConfig{Path: "/items", Method: "POST"}},
		{Name: "Update", Input: P + "UpdateReq", Output: P + "Reply", Config: &ir.HTTPConfig{Path: "/items/update", Method: "PUT"}},
		{Name: "Default", Input: P + "CreateReq", Output: P + "Reply"},
	}}}
	return &ir.Request{Files: []*ir.File{f}, Generate: []string{f.Name}}
}

// basePathVariable: a service whose base path carries a variable, with bodiless routes that have no
// variable of their own and only query parameters, one with its own variable, and a body route.
func basePathVariable(idx int) *ir.Request {
	pkg := "bp.v1"
	P := "." + pkg + "."
	q := func(n string) ir.Ann { return ir.Ann{Query: &ir.Query{Name: n}} }
	f := &ir.File{Name: fmt.Sprintf("bp%d/api.proto", idx), Package: pkg, GoPackage: "example.com/gen/bp/v1;bpv1"}
	f.Messages = []*ir.Message{
		{Name: "ListReq", Fields: []*ir.Field{{Name: "page", Number: 1, Kind: "int32", Ann: q("page")}, {Name: "role", Number: 2, Kind: "string", Ann: q("role")}}},
		{Name: "DropReq", Fields: []*ir.Field{{Name: "force", Number: 1, Kind: "bool", Ann: q("force")}}},
		{Name: "GetReq", Fields: []*ir.Field{{Name: "member_id", Number: 1, Kind: "string"}, {Name: "verbose", Number: 2, Kind: "bool", Ann: q("verbose")}}},
		{Name: "AddReq", Fields: []*ir.Field{{Name: "name", Number: 1, Kind: "string"}}},
		{Name: "Reply", Fields: []*ir.Field{{Name: "ok", Number: 1, Kind: "bool"}}},
	}
	f.Services = []*ir.Service{{Name: "Members", BasePath: "/orgs/{org_id}", Methods: []*ir.Method{
		{Name: "List", Input: P + "ListReq", Output: P + "Reply", Config: &ir.HTTPConfig{Path: "/members", Method: "GET"}},
		{Name: "DropAll", Input: P + "DropReq", Output: P + "Reply", Config: &ir.HTTPConfig{Path: "/members", Method: "DELETE"}},
		{Name: "Get", Input: P + "GetReq", Output: P + "Reply", Config: &ir.HTTPConfig{Path: "/members/{member_id}", Method: "GET"}},
		{Name: "Add", Input: P + "AddReq", Output: P + "Reply", Config: &ir.HTTPConfig{Path: "/members", Method: "POST"}},
	}}}
	return &ir.Request{Files: []*ir.File{f}, Generate: []string{f.Name}}
}

// streamingFirst: services whose FIRST rpc is a streaming one, whose only rpcs are streaming ones, and one where a
// streaming rpc stands between unary ones (with service- and method-level headers, which is what the registration
// code declares per route): whatever a generator does with a streaming rpc, what it emits still compiles.
func streamingFirst(idx int) *ir.Request {
	pkg := "st.v1"
	P := "." + pkg + "."
	f := &ir.File{Name: fmt.Sprintf("st%d/api.proto", idx), Package: pkg, GoPackage: "example.com/gen/st/v1;stv1"}
	f.Messages = []*ir.Message{
		{Name: "Ask", Fields: []*ir.Field{{Name: "topic", Number: 1, Kind: "string"}}},
		{Name: "Tick", Fields: []*ir.Field{{Name: "seq", Number: 1, Kind: "int64"}}},
	}
	cfg := func(p string) *ir.HTTPConfig { return &ir.HTTPConfig{Path: p, Method: "POST"} }
	hdr := []ir.Header{{Name: "X-Trace", Type: "string", Required: true}}
	f.Services = []*ir.Service{
		{Name: "FeedFirst", BasePath: "/feed", Headers: hdr, Methods: []*ir.Method{
			{Name: "Watch", Input: P + "Ask", Output: P + "Tick", ServerStreaming: true, Config: cfg("/watch"), Headers: []ir.Header{{Name: "X-Cursor", Type: "string"}}},
			{Name: "Peek", Input: P + "Ask", Output: P + "Tick", Config: cfg("/peek")},
			{Name: "Poke", Input: P + "Ask", Output: P + "Tick", Config: cfg("/poke"), Headers: []ir.Header{{Name: "X-Why", Type: "string", Required: true}}},
		}},
		{Name: "UploadFirst", BasePath: "/up", Methods: []*ir.Method{
			{Name: "Push", Input: P + "Tick", Output: P + "Ask", ClientStreaming: true, Config: cfg("/push")},
			{Name: "Done", Input: P + "Ask", Output: P + "Tick", Config: cfg("/done")},
		}},
		{Name: "OnlyStreams", BasePath: "/only", Headers: hdr, Methods: []*ir.Method{
			{Name: "Both", Input: P + "Tick", Output: P + "Tick", ClientStreaming: true, ServerStreaming: true, Config: cfg("/both")},
			{Name: "Down", Input: P + "Ask", Output: P + "Tick", ServerStreaming: true},
		}},
		{Name: "Between", Methods: []*ir.Method{
			{Name: "First", Input: P + "Ask", Output: P + "Tick", Config: cfg("/first")},
			{Name: "Middle", Input: P + "Ask", Output: P + "Tick", ServerStreaming: true, Config: cfg("/middle")},
			{Name: "Last", Input: P + "Ask", Output: P + "Tick", Config: cfg("/last")},
		}},
	}
	return &ir.Request{Files: []*ir.File{f}, Generate: []string{f.Name}}
}

// marshalConflict: a discriminated oneof next to a SECOND annotation that needs its own MarshalJSON, where the second
// annotation sits on a field that is itself inside a oneof — a proto3 `optional` field (its synthetic oneof; `nullable`
// is only legal there) or a variant of the discriminated oneof. Refused today (one MarshalJSON-generating feature per
// message); whatever a plugin accepts of it must still build.
func marshalConflict(idx, variant int) *ir.Request {
	pkg := "mc.v1"
	P := "." + pkg + "."
	tr := true
	f := &ir.File{Name: fmt.Sprintf("mc%d_%d/api.proto", idx, variant), Package: pkg, GoPackage: "example.com/gen/mc/v1;mcv1"}
	ev := &ir.Message{Name: "Event",
		Oneofs: []*ir.Oneof{{Name: "content", HasConfig: true, Discriminator: strp("type"), Flatten: variant == 1}},
		Fields: []*ir.Field{
			{Name: "id", Number: 1, Kind: "string"},
			{Name: "text", Number: 2, Kind: "message", TypeName: P + "Text", Oneof: "content"},
			{Name: "image", Number: 3, Kind: "message", TypeName: P + "Image", Oneof: "content"},
		}}
	switch variant {
	case 0:
		ev.Fields = append(ev.Fields, &ir.Field{Name: "nick", Number: 4, Kind: "string", Card: "optional", Ann: ir.Ann{Nullable: &tr}})
	case 1:
		ev.Fields = append(ev.Fields, &ir.Field{Name: "big", Number: 4, Kind: "int64", Card: "optional", Ann: ir.Ann{Int64Enc: "NUMBER"}})
	default:
		ev.Fields = append(ev.Fields, &ir.Field{Name: "raw", Number: 4, Kind: "bytes", Oneof: "content", Ann: ir.Ann{BytesEnc: "HEX"}})
	}
	f.Messages = []*ir.Message{
		{Name: "Text", Fields: []*ir.Field{{Name: "body", Number: 1, Kind: "string"}}},
		{Name: "Image", Fields: []*ir.Field{{Name: "url", Number: 1, Kind: "string"}}},
		ev}
	f.Services = []*ir.Service{{Name: "Events", BasePath: "/ev", Methods: []*ir.Method{
		{Name: "Put", Input: P + "Event", Output: P + "Event", Config: &ir.HTTPConfig{Path: "/put", Method: "POST"}}}}}
	return &ir.Request{Files: []*ir.File{f}, Generate: []string{f.Name}}
}

func strp(s string) *string { return &s }

// foreignResponse: RPCs whose request or response message lives in ANOTHER Go package than the file being
// generated — a shared models package imported by the service file, and a well-known type: every
// mention of such a type in the emitted Go needs its package qualifier.
func foreignResponse(idx int) *ir.Request {
	models := &ir.File{Name: fmt.Sprintf("fr%d/models/models.proto", idx), Package: "fr.models.v1", GoPackage: "example.com/gen/fr/models/v1;modelsv1",
		Messages: []*ir.Message{{Name: "Account", Fields: []*ir.Field{{Name: "id", Number: 1, Kind: "string"}, {Name: "balance", Number: 2, Kind: "int64"}}},
			{Name: "AccountRef", Fields: []*ir.Field{{Name: "id", Number: 1, Kind: "string"}}}}}
	api := &ir.File{Name: fmt.Sprintf("fr%d/api/api.proto", idx), Package: "fr.api.v1", GoPackage: "example.com/gen/fr/api/v1;apiv1", Deps: []string{models.Name},
		Messages: []*ir.Message{{Name: "OpenReq", Fields: []*ir.Field{{Name: "owner", Number: 1, Kind: "string"}}},
			{Name: "Receipt", Fields: []*ir.Field{{Name: "account", Number: 1, Kind: "message", TypeName: ".fr.models.v1.Account"}}}}}
	api.Services = []*ir.Service{{Name: "Accounts", BasePath: "/accounts", Methods: []*ir.Method{
		{Name: "Open", Input: ".fr.api.v1.OpenReq", Output: ".fr.models.v1.Account", Config: &ir.HTTPConfig{Path: "/open", Method: "POST"}},
		{Name: "Get", Input: ".fr.models.v1.AccountRef", Output: ".fr.models.v1.Account", Config: &ir.HTTPConfig{Path: "/{id}", Method: "GET"}},
		{Name: "Close", Input: ".fr.models.v1.AccountRef", Output: ".fr.api.v1.Receipt", Config: &ir.HTTPConfig{Path: "/{id}", Method: "DELETE"}},
		{Name: "Touched", Input: ".fr.api.v1.OpenReq", Output: ".google.protobuf.Timestamp", Config: &ir.HTTPConfig{Path: "/touched", Method: "POST"}},
	}}}
	// RPC names that START with an initialism (two or more capitals): every identifier derived from the
	// name (handler variable, <rpc>PathParams, <rpc>QueryParams, header getters) must be derived the same way
	api.Messages = append(api.Messages, &ir.Message{Name: "PingReq", Fields: []*ir.Field{{Name: "verbose", Number: 1, Kind: "bool", Ann: ir.Ann{Query: &ir.Query{Name: "verbose"}}}}})
	api.Services = append(api.Services, &ir.Service{Name: "Tools", BasePath: "/tools", Methods: []*ir.Method{
		{Name: "IDLookup", Input: ".fr.models.v1.AccountRef", Output: ".fr.api.v1.Receipt", Config: &ir.HTTPConfig{Path: "/id/{id}", Method: "GET"}},
		{Name: "URLPreview", Input: ".fr.api.v1.OpenReq", Output: ".fr.api.v1.Receipt", Config: &ir.HTTPConfig{Path: "/preview", Method: "POST"}},
		{Name: "HTTPPing", Input: ".fr.api.v1.PingReq", Output: ".fr.api.v1.Receipt", Config: &ir.HTTPConfig{Path: "/ping", Method: "GET"},
			Headers: []ir.Header{{Name: "X-Probe", Type: "string", Required: true}}},
	}})
	// two DIFFERENT header names from which the Go client derives ONE helper name (a leading `X-` and the hyphens are
	// dropped): a deprecated `X-…` spelling next to the plain one, on the service and on a method
	api.Services[len(api.Services)-1].Headers = []ir.Header{{Name: "X-Request-ID", Type: "string", Required: true}, {Name: "Request-ID", Type: "string"},
		{Name: "X-Trace-Id", Type: "string"}}
	api.Services[len(api.Services)-1].Methods[1].Headers = []ir.Header{{Name: "Trace-Id", Type: "string"}, {Name: "X-Idempotency-Key", Type: "string"}, {Name: "Idempotency-Key", Type: "string"}}
	return &ir.Request{Files: []*ir.File{models, api}, Generate: []string{api.Name}}
}

func splitPQ(req *ir.Request) *ir.Request {
	out, _ := gen.SplitPathQuery(req)
	return out
}
