/-
Theorems for C15 (`Sebuf/Order.lean`): `sort.Strings` forgets the order in which a Go map
yields its keys, so `CombineHeaders` and the TypeScript enum ordering do not depend on it;
without the sort the result does depend on it.
-/
import Sebuf.Order

namespace Sebuf

/-! ## `strLt` is a strict total order -/

theorem strLt_irrefl (a : Str) : strLt a a = false := by
  induction a with
  | nil => rfl
  | cons c cs ih => simp [strLt, ih]

theorem strLt_trans : ∀ (a b c : Str), strLt a b = true → strLt b c = true → strLt a c = true
  | [], [], _, h, _ => by simp [strLt] at h
  | [], _ :: _, [], _, h => by simp [strLt] at h
  | [], _ :: _, _ :: _, _, _ => by simp [strLt]
  | _ :: _, [], _, h, _ => by simp [strLt] at h
  | _ :: _, _ :: _, [], _, h => by simp [strLt] at h
  | x :: xs, y :: ys, z :: zs, h1, h2 => by
    simp only [strLt] at h1 h2 ⊢
    by_cases hxy : x.toNat < y.toNat
    · by_cases hyz : y.toNat < z.toNat
      · have : x.toNat < z.toNat := by omega
        simp [this]
      · by_cases hzy : z.toNat < y.toNat
        · simp [hyz, hzy] at h2
        · have : x.toNat < z.toNat := by omega
          simp [this]
    · by_cases hyx : y.toNat < x.toNat
      · simp [hxy, hyx] at h1
      · simp only [hxy, hyx, if_false] at h1
        by_cases hyz : y.toNat < z.toNat
        · have : x.toNat < z.toNat := by omega
          simp [this]
        · by_cases hzy : z.toNat < y.toNat
          · simp [hyz, hzy] at h2
          · simp only [hyz, hzy, if_false] at h2
            have h3 : ¬ x.toNat < z.toNat := by omega
            have h4 : ¬ z.toNat < x.toNat := by omega
            simp only [h3, h4, if_false]
            exact strLt_trans xs ys zs h1 h2

theorem strLt_trichotomy : ∀ (a b : Str), strLt a b = true ∨ a = b ∨ strLt b a = true
  | [], [] => Or.inr (Or.inl rfl)
  | [], _ :: _ => Or.inl (by simp [strLt])
  | _ :: _, [] => Or.inr (Or.inr (by simp [strLt]))
  | x :: xs, y :: ys => by
    simp only [strLt]
    by_cases hxy : x.toNat < y.toNat
    · simp [hxy]
    · by_cases hyx : y.toNat < x.toNat
      · simp [hyx]
      · have hxe : x = y := Char.toNat_inj.mp (by omega)
        subst hxe
        simp only [hxy, if_false]
        rcases strLt_trichotomy xs ys with h | h | h
        · exact Or.inl h
        · exact Or.inr (Or.inl (by rw [h]))
        · exact Or.inr (Or.inr h)

theorem strLt_asymm (a b : Str) (h : strLt a b = true) : strLt b a = false := by
  cases hba : strLt b a with
  | false => rfl
  | true =>
    have := strLt_trans a b a h hba
    rw [strLt_irrefl] at this
    exact absurd this (by decide)

/-- `a ≤ b` as "not `b < a`": the relation the sorted output is `Pairwise` for. -/
def strLe (a b : Str) : Prop := strLt b a = false

theorem strLe_antisymm (a b : Str) (h1 : strLe a b) (h2 : strLe b a) : a = b := by
  unfold strLe at h1 h2
  rcases strLt_trichotomy a b with h | h | h
  · rw [h] at h2; exact absurd h2 (by decide)
  · exact h
  · rw [h] at h1; exact absurd h1 (by decide)

theorem strLe_trans (a b c : Str) (h1 : strLe a b) (h2 : strLe b c) : strLe a c := by
  unfold strLe at *
  cases hca : strLt c a with
  | false => rfl
  | true =>
    rcases strLt_trichotomy b a with h | h | h
    · rw [h] at h1; exact absurd h1 (by decide)
    · subst h; rw [hca] at h2; exact absurd h2 (by decide)
    · have := strLt_trans c a b hca h
      rw [this] at h2; exact absurd h2 (by decide)

theorem strLe_of_strLt (a b : Str) (h : strLt a b = true) : strLe a b :=
  strLt_asymm a b h

/-! ## Insertion sort: permutation, sorted -/

theorem insertSorted_perm (x : Str) (l : List Str) : (insertSorted x l).Perm (x :: l) := by
  induction l with
  | nil => exact List.Perm.refl _
  | cons y ys ih =>
    unfold insertSorted
    by_cases h : strLt y x = true
    · simp only [h, if_true]
      exact ((List.Perm.cons y ih).trans (List.Perm.swap x y ys))
    · simp only [h]
      exact List.Perm.refl _

theorem sortStrs_perm (l : List Str) : (sortStrs l).Perm l := by
  induction l with
  | nil => exact List.Perm.refl _
  | cons x xs ih =>
    unfold sortStrs
    exact (insertSorted_perm x (sortStrs xs)).trans (List.Perm.cons x ih)

theorem mem_sortStrs (l : List Str) (x : Str) : x ∈ sortStrs l ↔ x ∈ l :=
  (sortStrs_perm l).mem_iff

theorem insertSorted_sorted (x : Str) (l : List Str) (h : l.Pairwise strLe) :
    (insertSorted x l).Pairwise strLe := by
  induction l with
  | nil => simp [insertSorted]
  | cons y ys ih =>
    have hy : ∀ {z}, z ∈ ys → strLe y z := fun hz => List.rel_of_pairwise_cons h hz
    have hys := h.tail
    unfold insertSorted
    by_cases hyx : strLt y x = true
    · simp only [hyx, if_true]
      refine List.pairwise_cons.mpr ⟨?_, ih hys⟩
      intro z hz
      have := (insertSorted_perm x ys).mem_iff.mp hz
      rcases List.mem_cons.mp this with rfl | hz'
      · exact strLe_of_strLt _ _ hyx
      · exact hy hz'
    · simp only [hyx]
      have hxy : strLe x y := by
        unfold strLe
        cases hh : strLt y x with
        | false => rfl
        | true => exact absurd hh hyx
      refine List.pairwise_cons.mpr ⟨?_, h⟩
      intro z hz
      rcases List.mem_cons.mp hz with rfl | hz'
      · exact hxy
      · exact strLe_trans _ _ _ hxy (hy hz')

theorem sortStrs_sorted (l : List Str) : (sortStrs l).Pairwise strLe := by
  induction l with
  | nil => exact List.Pairwise.nil
  | cons x xs ih => unfold sortStrs; exact insertSorted_sorted x _ ih

/-- Sorting forgets the iteration order. -/
theorem sortStrs_perm_eq (a b : List Str) (h : a.Perm b) : sortStrs a = sortStrs b :=
  List.Perm.eq_of_pairwise (le := strLe)
    (fun x y _ _ h1 h2 => strLe_antisymm x y h1 h2)
    (sortStrs_sorted a) (sortStrs_sorted b)
    ((sortStrs_perm a).trans (h.trans (sortStrs_perm b).symm))

/-- On duplicate-free input the sorted output is strictly increasing. -/
theorem sortStrs_strict (l : List Str) (h : l.Nodup) :
    (sortStrs l).Pairwise (fun a b => strLt a b = true) := by
  have hnd : (sortStrs l).Nodup := (sortStrs_perm l).nodup_iff.mpr h
  refine (List.Pairwise.and (sortStrs_sorted l) hnd).imp ?_
  intro a b hab
  obtain ⟨hle, hne⟩ := hab
  rcases strLt_trichotomy a b with h | h | h
  · exact h
  · exact absurd h hne
  · unfold strLe at hle; rw [h] at hle; exact absurd hle (by decide)

/-! ## The map model -/

theorem mapKeys_mapInsert_mem (k : Str) (v : Header) (m : List (Str × Header)) (x : Str) :
    x ∈ mapKeys (mapInsert k v m) ↔ x = k ∨ x ∈ mapKeys m := by
  induction m with
  | nil => simp [mapInsert, mapKeys]
  | cons p r ih =>
    obtain ⟨k', v'⟩ := p
    unfold mapInsert
    by_cases hk : k' = k
    · subst hk; simp [mapKeys]
    · simp only [hk, if_false]
      simp only [mapKeys, List.map_cons, List.mem_cons] at ih ⊢
      rw [ih]
      constructor
      · rintro (h | h | h)
        · exact Or.inr (Or.inl h)
        · exact Or.inl h
        · exact Or.inr (Or.inr h)
      · rintro (h | h | h)
        · exact Or.inr (Or.inl h)
        · exact Or.inl h
        · exact Or.inr (Or.inr h)

theorem mapKeys_mapInsert_nodup (k : Str) (v : Header) (m : List (Str × Header))
    (h : (mapKeys m).Nodup) : (mapKeys (mapInsert k v m)).Nodup := by
  induction m with
  | nil => simp [mapInsert, mapKeys]
  | cons p r ih =>
    obtain ⟨k', v'⟩ := p
    have h' : k' ∉ mapKeys r ∧ (mapKeys r).Nodup := by
      simpa [mapKeys] using h
    unfold mapInsert
    by_cases hk : k' = k
    · subst hk; simpa [mapKeys] using h
    · simp only [hk, if_false]
      have : (mapKeys ((k', v') :: mapInsert k v r)) = k' :: mapKeys (mapInsert k v r) := rfl
      rw [this]
      refine List.nodup_cons.mpr ⟨?_, ih h'.2⟩
      intro hmem
      rcases (mapKeys_mapInsert_mem k v r k').mp hmem with h1 | h1
      · exact hk h1
      · exact h'.1 h1

theorem mapGet_mapInsert_same (k : Str) (v : Header) (m : List (Str × Header)) :
    mapGet k (mapInsert k v m) = some v := by
  induction m with
  | nil => simp [mapInsert, mapGet]
  | cons p r ih =>
    obtain ⟨k', v'⟩ := p
    unfold mapInsert
    by_cases hk : k' = k
    · simp [hk, mapGet]
    · simp [hk, mapGet, ih]

theorem mapGet_mapInsert_other (k k₂ : Str) (v : Header) (m : List (Str × Header))
    (hne : k ≠ k₂) : mapGet k₂ (mapInsert k v m) = mapGet k₂ m := by
  induction m with
  | nil => simp [mapInsert, mapGet, hne]
  | cons p r ih =>
    obtain ⟨k', v'⟩ := p
    unfold mapInsert
    by_cases hk : k' = k
    · subst hk; simp [mapGet, hne]
    · simp only [hk, if_false, mapGet, ih]

/-- Every binding's key is the name of the header it holds. -/
def KeysAreNames (m : List (Str × Header)) : Prop := ∀ k v, mapGet k m = some v → v.name = k

theorem keysAreNames_mapInsert (h : Header) (m : List (Str × Header)) (hm : KeysAreNames m) :
    KeysAreNames (mapInsert h.name h m) := by
  intro k v hg
  by_cases hk : h.name = k
  · subst hk
    rw [mapGet_mapInsert_same] at hg
    cases hg; rfl
  · rw [mapGet_mapInsert_other _ _ _ _ hk] at hg
    exact hm k v hg

theorem mapInsertAll_nodup (hs : List Header) (m : List (Str × Header)) (h : (mapKeys m).Nodup) :
    (mapKeys (mapInsertAll hs m)).Nodup := by
  induction hs generalizing m with
  | nil => exact h
  | cons x r ih =>
    unfold mapInsertAll
    apply ih
    by_cases hx : x.name = []
    · simp only [hx, if_true]; exact h
    · simp only [hx, if_false]; exact mapKeys_mapInsert_nodup _ _ _ h

theorem mapInsertAll_keysAreNames (hs : List Header) (m : List (Str × Header))
    (h : KeysAreNames m) : KeysAreNames (mapInsertAll hs m) := by
  induction hs generalizing m with
  | nil => exact h
  | cons x r ih =>
    unfold mapInsertAll
    apply ih
    by_cases hx : x.name = []
    · simp only [hx, if_true]; exact h
    · simp only [hx, if_false]; exact keysAreNames_mapInsert _ _ h

theorem buildMap_nodup (s m : List Header) : (mapKeys (buildMap s m)).Nodup :=
  mapInsertAll_nodup m _ (mapInsertAll_nodup s [] List.nodup_nil)

theorem buildMap_keysAreNames (s m : List Header) : KeysAreNames (buildMap s m) :=
  mapInsertAll_keysAreNames m _
    (mapInsertAll_keysAreNames s [] (fun _ _ h => by simp [mapGet] at h))

theorem mem_mapKeys_of_mapGet (k : Str) (v : Header) (m : List (Str × Header))
    (h : mapGet k m = some v) : k ∈ mapKeys m := by
  induction m with
  | nil => simp [mapGet] at h
  | cons p r ih =>
    obtain ⟨k', v'⟩ := p
    unfold mapGet at h
    by_cases hk : k' = k
    · simp [mapKeys, hk]
    · simp only [hk, if_false] at h
      have := ih h
      simp only [mapKeys, List.map_cons, List.mem_cons] at this ⊢
      exact Or.inr this

/-- The last writer wins: a header that is the only one of its name in `hs` (or is already
bound and not overridden) is what the map holds under its name after the loop. -/
theorem mapGet_mapInsertAll (hs : List Header) (m₀ : List (Str × Header)) (h : Header)
    (hn : h.name ≠ [])
    (hlast : ∀ h' ∈ hs, h'.name = h.name → h' = h)
    (hin : h ∈ hs ∨ mapGet h.name m₀ = some h) :
    mapGet h.name (mapInsertAll hs m₀) = some h := by
  induction hs generalizing m₀ with
  | nil =>
    rcases hin with hin | hin
    · cases hin
    · exact hin
  | cons x r ih =>
    unfold mapInsertAll
    have hlast' : ∀ h' ∈ r, h'.name = h.name → h' = h :=
      fun h' hh' => hlast h' (List.mem_cons_of_mem _ hh')
    by_cases hxn : x.name = h.name
    · have hx : x = h := hlast x List.mem_cons_self hxn
      subst hx
      simp only [hn, if_false]
      exact ih _ hlast' (Or.inr (mapGet_mapInsert_same _ _ _))
    · apply ih _ hlast'
      rcases hin with hin | hin
      · rcases List.mem_cons.mp hin with rfl | hin'
        · exact absurd rfl hxn
        · exact Or.inl hin'
      · right
        by_cases hx0 : x.name = []
        · simp only [hx0, if_true]; exact hin
        · simp only [hx0, if_false]
          rw [mapGet_mapInsert_other _ _ _ _ hxn]; exact hin

/-! ## `CombineHeaders` -/

/-- The result of `CombineHeaders` does not depend on the order in which Go's `range` yields
the map's keys. -/
theorem combineHeaders_iter_indep (iter : List Str → List Str) (hperm : ∀ l, (iter l).Perm l)
    (s m : List Header) : combineHeadersWith iter s m = combineHeaders s m := by
  unfold combineHeaders combineHeadersWith
  by_cases hs : s = []
  · simp [hs]
  · by_cases hm : m = []
    · simp [hm]
    · simp only [hs, hm, if_false, id]
      rw [sortStrs_perm_eq _ _ (hperm _)]

/-- A method header that is the only one of its (non-empty) name among the method headers is in
the combined result, whatever the service headers are. -/
theorem combineHeaders_method_overrides (s m : List Header) (h : Header) (hs : s ≠ [])
    (hm : h ∈ m) (hn : h.name ≠ []) (hlast : ∀ h' ∈ m, h'.name = h.name → h' = h) :
    h ∈ combineHeaders s m := by
  have hm0 : m ≠ [] := by intro e; rw [e] at hm; cases hm
  have hget : mapGet h.name (buildMap s m) = some h :=
    mapGet_mapInsertAll m _ h hn hlast (Or.inl hm)
  unfold combineHeaders combineHeadersWith
  simp only [hs, hm0, if_false, id]
  refine List.mem_filterMap.mpr ⟨h.name, ?_, hget⟩
  exact (mem_sortStrs _ _).mpr (mem_mapKeys_of_mapGet _ _ _ hget)

/-- The combined headers are strictly sorted by name (hence carry no duplicate names). -/
theorem combineHeaders_sorted (s m : List Header) (hs : s ≠ []) (hm : m ≠ []) :
    List.Pairwise (fun a b => strLt a.name b.name = true) (combineHeaders s m) := by
  unfold combineHeaders combineHeadersWith
  simp only [hs, hm, if_false, id]
  refine List.Pairwise.filterMap _ ?_ (sortStrs_strict _ (buildMap_nodup s m))
  intro k k' hkk' a ha b hb
  rw [buildMap_keysAreNames s m k a ha, buildMap_keysAreNames s m k' b hb]
  exact hkk'

/-- Without `sort.Strings` the result depends on the map's iteration order. -/
theorem unsorted_depends_on_iter :
    ∃ s m iter₁ iter₂, (∀ l, (iter₁ l).Perm l) ∧ (∀ l, (iter₂ l).Perm l) ∧
      combineHeadersUnsorted iter₁ s m ≠ combineHeadersUnsorted iter₂ s m :=
  ⟨[⟨['a'], 1⟩], [⟨['b'], 2⟩], id, List.reverse,
    fun _ => List.Perm.refl _, fun l => List.reverse_perm l, by decide⟩

/-! ## TypeScript enum ordering -/

theorem orderedEnums_iter_indep (iter : List Str → List Str) (hperm : ∀ l, (iter l).Perm l)
    (keys : List Str) : orderedEnums iter keys = orderedEnums id keys := by
  unfold orderedEnums
  exact sortStrs_perm_eq _ _ (hperm keys)

theorem orderedEnums_sorted (iter : List Str → List Str) (keys : List Str) :
    (orderedEnums iter keys).Pairwise strLe :=
  sortStrs_sorted _

end Sebuf
