package main

import (
	"bufio"
	"encoding/json"
	"fmt"
	"os"
	"time"

	"verif/harness/ir"
	"verif/harness/scratch"
)

func dispatch(cmd string, args []string) bool {
	switch cmd {
	case "try":
		cmdTry(args)
	default:
		return false
	}
	return true
}

// try <ir.json> <ops.jsonl> [mock]: build the schema with both Go plugins and run ops.
func cmdTry(args []string) {
	b, err := os.ReadFile(args[0])
	if err != nil {
		panic(err)
	}
	var req ir.Request
	if err := json.Unmarshal(b, &req); err != nil {
		panic(err)
	}
	bt, err := scratch.NewBatch()
	if err != nil {
		panic(err)
	}
	defer bt.Close()
	it, err := bt.Add("s0001", &req, scratch.AddOpts{GoHTTP: true, GoClient: true, Mock: len(args) > 2})
	if err != nil {
		panic(err)
	}
	if it.GenErr != "" {
		fmt.Println("GENERR", it.GenErr)
		return
	}
	t0 := time.Now()
	if err := bt.Build(false); err != nil {
		panic(err)
	}
	fmt.Fprintln(os.Stderr, "build", time.Since(t0), "built", it.Built)
	if !it.Built {
		fmt.Println("BUILD FAILED\n" + it.BuildLog)
		return
	}
	var ops []any
	f, _ := os.Open(args[1])
	sc := bufio.NewScanner(f)
	sc.Buffer(make([]byte, 1<<20), 1<<26)
	for sc.Scan() {
		var o map[string]any
		if json.Unmarshal(sc.Bytes(), &o) == nil {
			ops = append(ops, o)
		}
	}
	outs, stderr, err := it.Run(ops, 30*time.Second)
	for _, o := range outs {
		j, _ := json.Marshal(o)
		fmt.Println(string(j))
	}
	if stderr != "" {
		fmt.Fprintln(os.Stderr, "STDERR:", stderr)
	}
	if err != nil {
		fmt.Fprintln(os.Stderr, "ERR:", err)
	}
}
