package props

import (
	"fmt"
	"net/url"
	"sort"
	"strings"
	"time"

	"google.golang.org/protobuf/reflect/protoreflect"

	"verif/harness/drv"
	"verif/harness/gen"
	"verif/harness/ir"
	"verif/harness/plug"
	"verif/harness/scratch"
	"verif/harness/tsrun"
)

// Header validation of the emitted TS server, next to the Go server's, on the same raw requests
// (the TS half of "requests are dispatched only when every required header is present and valid",
// and the precondition of every cross-language call that carries a declared header).

type hprobe struct{ class, value string }

// exoticProbes: values between "clearly valid" and "indisputably invalid" on which two honest
// implementations of one declaration can differ.
func exoticProbes(h ir.Header) []hprobe {
	var ps []hprobe
	switch h.Type {
	case "integer":
		ps = append(ps, hprobe{"integer_plus_sign", "+5"}, hprobe{"integer_beyond_int64", "99999999999999999999"})
	case "number":
		ps = append(ps, hprobe{"number_inf", "inf"}, hprobe{"number_nan", "NaN"}, hprobe{"number_hex", "0x10"}, hprobe{"number_infinity", "Infinity"})
	case "boolean":
		ps = append(ps, hprobe{"boolean_single_letter", "T"}, hprobe{"boolean_upper", "TRUE"}, hprobe{"boolean_digit", "1"})
	}
	if h.Type == "" || h.Type == "string" {
		switch h.Format {
		case "uuid":
			ps = append(ps, hprobe{"uuid_non_hex", "zzzzzzzz-zzzz-zzzz-zzzz-zzzzzzzzzzzz"}, hprobe{"uuid_upper", "123E4567-E89B-42D3-A456-426614174000"},
				hprobe{"uuid_braces", "{123e4567-e89b-42d3-a456-426614174000}"}, hprobe{"uuid_version_nibble", "123e4567-e89b-92d3-f456-426614174000"},
				hprobe{"uuid_no_dashes", "123e4567e89b42d3a456426614174000"}, hprobe{"uuid_one_non_hex", "123e4567-e89b-42d3-a456-42661417400g"})
		case "email":
			ps = append(ps, hprobe{"email_dotless_domain", "a@b"}, hprobe{"email_with_space", "a b@c.de"})
		case "date-time":
			ps = append(ps, hprobe{"datetime_month_13", "2020-13-01T00:00:00Z"}, hprobe{"datetime_lower_case", "2020-01-02t03:04:05z"}, hprobe{"datetime_fraction_offset", "2020-01-02T03:04:05.5+02:00"})
		case "date":
			ps = append(ps, hprobe{"date_feb_30", "2020-02-30"})
		case "time":
			ps = append(ps, hprobe{"time_hour_25", "25:00:00"}, hprobe{"time_fraction", "03:04:05.123"})
		}
	}
	return ps
}

type c08hCase struct {
	sc      *c08hSchema
	mi      *methodInfo
	class   string // value class of the probe header
	probe   string // probe header name ("" for the baseline)
	target  string
	sent    [][2]string
	goOut   map[string]any
	tsOut   map[string]any
	model   map[string]any
	numbers map[string]bool
}

type c08hSchema struct {
	idx      int
	kind     string
	req      *ir.Request
	x        *rtItem
	serverTS string
	serverOK bool
	load     map[string]any
	cases    []*c08hCase
	jsNum    map[string]bool
}

func sampleTarget(mi *methodInfo, md protoreflect.MessageDescriptor, r *gen.R) string {
	pb := map[string]bool{}
	for _, v := range mi.pathVars {
		pb[v] = true
	}
	sample := gen.RandomMessage(r, md, &gen.ValOpts{PathBound: pb, SparseP: 0}, 0)
	target := strings.TrimSuffix(mi.svc.BasePath, "/")
	for _, seg := range strings.Split(mi.m.Config.Path, "/")[1:] {
		if strings.HasPrefix(seg, "{") {
			fd := md.Fields().ByName(protoreflect.Name(seg[1 : len(seg)-1]))
			target += "/" + url.PathEscape(sprintField(fd, sample.Get(fd)))
		} else {
			target += "/" + seg
		}
	}
	var qs []string
	for _, f := range mi.query {
		fd := md.Fields().ByName(protoreflect.Name(f.Name))
		qs = append(qs, url.QueryEscape(mi.queryName(f))+"="+url.QueryEscape(sprintField(fd, sample.Get(fd))))
	}
	if len(qs) > 0 {
		target += "?" + strings.Join(qs, "&")
	}
	return target
}

func c08Headers(c *Ctx, r *gen.R) error {
	res := c.Res
	n := c.N(4, 24)
	scs := make([]*c08hSchema, n)
	for i := range scs {
		if i == 0 {
			scs[i] = &c08hSchema{idx: i, kind: "header_zoo", req: gen.InteropHeaderZoo()}
			continue
		}
		q := gen.GenRuntimeFile(r.Fork(fmt.Sprint("c08h-", i)), i, gen.RuntimeOpts{Headers: true})
		kind := "runtime_headers"
		if i%2 == 0 {
			// the split shapes (no GET/DELETE route with both path variables and query parameters) stay covered
			q, _ = gen.SplitPathQuery(q)
			kind = "runtime_headers_split"
		}
		scs[i] = &c08hSchema{idx: i, kind: kind, req: q}
	}
	bt, items, err := buildBatch(n, func(i int) *ir.Request { return scs[i].req }, scratch.AddOpts{GoHTTP: true}, false)
	if err != nil {
		return err
	}
	defer bt.Close()
	td, err := tsrun.NewDir()
	if err != nil {
		return err
	}
	defer td.Close()
	perRoute := c.N(12, 40)
	for i, sc := range scs {
		sc.x = items[i]
		pr, err := plug.Run(plug.TSServer, sc.req, nil)
		if err != nil {
			return err
		}
		if !pr.OK() {
			res.Violation("ts_refused:server", fmt.Sprintf("[%s #%d] ts-server refused a schema the Go plugin accepts: %s", sc.kind, i, errText(pr)), map[string]any{"schema": sc.req})
			continue
		}
		for _, content := range pr.Files {
			sc.serverTS, _ = td.WriteModule(fmt.Sprintf("h%03d", i), "server", content)
		}
		if !sc.x.it.Built {
			res.Violation("build", "a schema generated to be valid does not build: "+sc.x.it.GenErr+firstLines(sc.x.it.BuildLog, 8), map[string]any{"schema": sc.req})
			continue
		}
		rr := r.Fork(fmt.Sprint("c08h-cases-", i))
		for _, mi := range sc.x.methods() {
			if len(mi.svc.Headers)+len(mi.m.Headers) == 0 {
				continue
			}
			md := sc.x.msgDesc(mi.m.Input)
			// merged view by lower-cased name: the method declaration shadows the service one
			type decl struct {
				h        ir.Header
				override bool
			}
			merged := map[string]*decl{}
			var order []string
			for _, h := range mi.svc.Headers {
				k := strings.ToLower(h.Name)
				if merged[k] == nil {
					order = append(order, k)
				}
				merged[k] = &decl{h: h}
			}
			for _, h := range mi.m.Headers {
				k := strings.ToLower(h.Name)
				if merged[k] != nil {
					merged[k] = &decl{h: h, override: true}
				} else {
					order = append(order, k)
					merged[k] = &decl{h: h}
				}
			}
			mk := func(probe, class, value string, has bool) {
				ks := &c08hCase{sc: sc, mi: mi, class: class, probe: probe, target: sampleTarget(mi, md, rr)}
				for _, k := range order {
					d := merged[k]
					if k == strings.ToLower(probe) {
						if has {
							ks.sent = append(ks.sent, [2]string{d.h.Name, value})
						}
						continue
					}
					if d.h.Required || rr.Bool() {
						ks.sent = append(ks.sent, [2]string{d.h.Name, clearlyValidHeader(rr, d.h)})
					}
				}
				sc.cases = append(sc.cases, ks)
			}
			var variants []func()
			variants = append(variants, func() { mk("", "clearly_valid", "", false) })
			for _, k := range order {
				d := merged[k]
				name := d.h.Name
				pre := ""
				switch {
				case d.override:
					pre = "method_overrides_service:"
				case d.h.Type != "" && d.h.Type != "string" && d.h.Format != "":
					pre = "format_on_non_string_type:"
				case !d.h.Required:
					pre = "optional:"
				}
				h := d.h
				variants = append(variants,
					func() { mk(name, pre+"clearly_valid", clearlyValidHeader(rr, h), true) },
					func() { mk(name, pre+"absent", "", false) },
					func() { mk(name, pre+"empty", "", true) })
				if v, ok := invalidFor(h); ok {
					variants = append(variants, func() { mk(name, pre+"invalid", v, true) })
				}
				for _, p := range exoticProbes(h) {
					p := p
					variants = append(variants, func() { mk(name, pre+p.class, p.value, true) })
				}
			}
			if sc.kind == "header_zoo" {
				for _, v := range variants {
					v()
				}
			} else {
				for k := 0; k < perRoute; k++ {
					variants[rr.Intn(len(variants))]()
				}
			}
		}
	}
	// run both servers
	var firstErr error
	parallel(len(scs), func(i int) {
		sc := scs[i]
		if sc.serverTS == "" || !sc.x.it.Built {
			return
		}
		var tops, gops []any
		seen := map[string]bool{}
		var vals []string
		for _, k := range sc.cases {
			hdrs := append([][2]string{{"Content-Type", "application/json"}}, k.sent...)
			tops = append(tops, map[string]any{"op": "ts_serve", "method": k.mi.verb, "url": k.target, "headers": hdrs, "body": "{}", "handler": map[string]any{"kind": "ok", "resp": map[string]any{}}})
			gops = append(gops, map[string]any{"op": "serve", "method": k.mi.verb, "url": k.target, "headers": hdrs, "body": b64s("{}"), "handler": map[string]any{"kind": "ok"}})
			for _, p := range k.sent {
				if !seen[p[1]] {
					seen[p[1]] = true
					vals = append(vals, p[1])
				}
			}
		}
		tops = append(tops, map[string]any{"op": "js_lib", "values": vals})
		load, touts, err := td.Run(fmt.Sprintf("h%03d", sc.idx), "", sc.serverTS, tops, 3*time.Minute)
		if err != nil {
			firstErr = err
			return
		}
		sc.load = load
		sc.serverOK = mapOf(load["server"])["ok"] == true
		sc.jsNum = map[string]bool{}
		for j, v := range asList(touts[len(touts)-1]["number_ok"]) {
			sc.jsNum[vals[j]] = v == true
		}
		gouts, err := runItem(sc.x, gops)
		if err != nil {
			firstErr = err
			return
		}
		for j, k := range sc.cases {
			k.tsOut, k.goOut = touts[j], gouts[j]
		}
	})
	if firstErr != nil {
		return firstErr
	}
	// model
	var all []*c08hCase
	for _, sc := range scs {
		if sc.serverOK {
			all = append(all, sc.cases...)
		} else if sc.serverTS != "" && sc.x.it.Built {
			res.Violation("ts_load:server", fmt.Sprintf("[%s #%d] an accepted schema does not load: %s", sc.kind, sc.idx, clip(canon(sc.load), 300)), map[string]any{"schema": sc.req})
		}
	}
	driver := drv.Available()
	if driver {
		var dops []map[string]any
		for _, k := range all {
			var ds []any
			for _, p := range k.sent {
				seenVal := strings.Trim(p[1], " \t")
				m := libVerdicts(seenVal)
				m["name"], m["value"], m["js_number"] = p[0], seenVal, k.sc.jsNum[p[1]]
				ds = append(ds, m)
			}
			dops = append(dops, map[string]any{"op": "ts_header_check", "service": hspecs(k.mi.svc.Headers), "method": hspecs(k.mi.m.Headers), "sent": orEmpty(ds)})
		}
		douts, err := drv.Run(dops)
		if err != nil {
			res.Corr("driver", "Lean driver failed: "+err.Error(), nil)
			driver = false
		} else {
			for i, k := range all {
				k.model = douts[i]
			}
		}
	}
	violFields := func(body any) []string {
		out := []string{}
		for _, v := range asList(mapOf(body)["violations"]) {
			out = append(out, fmt.Sprint(mapOf(v)["field"]))
		}
		return out
	}
	for _, k := range all {
		tag := fmt.Sprintf("[%s #%d] %s %s probe %s=%s", k.sc.kind, k.sc.idx, k.mi.verb, k.mi.template, k.probe, k.class)
		res.Case(map[string]any{"part": "header_parity", "schema": k.sc.idx, "rpc": k.mi.m.Name, "class": k.class, "sent": fmt.Sprint(k.sent)}, true)
		res.Count("header_class:" + k.class)
		replay := map[string]any{"schema": k.sc.req, "rpc": k.mi.svc.Name + "." + k.mi.m.Name, "target": k.target, "sent": k.sent, "ts_server": k.tsOut, "go_server": k.goOut, "impl": k.model}
		if f, _ := k.goOut["fault"].(string); f != "" {
			continue // net/http refused the header bytes before the generated code ran
		}
		tsStatus, goStatus := jsonInt(k.tsOut["status"]), jsonInt(k.goOut["status"])
		tsCalls, goCalls := len(asList(k.tsOut["calls"])), jsonInt(k.goOut["called"])
		tsDisp, goDisp := tsCalls == 1 && tsStatus == 200, goCalls == 1 && goStatus == 200
		tsViol := violFields(canonJSONBytes([]byte(fmt.Sprint(k.tsOut["body"]))))
		goViol := violFields(k.goOut["body_json"])
		sort.Strings(goViol)
		if !tsDisp && !(tsStatus == 400 && tsCalls == 0) || !goDisp && !(goStatus == 400 && goCalls == 0) {
			res.Violation("header_parity:unexpected_status", fmt.Sprintf("%s: TS status %d calls %d, Go status %d calls %d", tag, tsStatus, tsCalls, goStatus, goCalls), replay)
			continue
		}
		implAgrees := false
		if driver && k.model != nil {
			mv := strList(k.model["ts_violations"])
			gv := strList(k.model["go_violations"])
			sort.Strings(gv)
			tsOK := (k.model["ts_dispatched"] == true) == tsDisp && (tsDisp || fmt.Sprint(mv) == fmt.Sprint(tsViol))
			goOK := (k.model["go_dispatched"] == true) == goDisp && (goDisp || fmt.Sprint(gv) == fmt.Sprint(goViol))
			implAgrees = tsOK && goOK
			if !tsOK {
				res.Corr("ts_headers", fmt.Sprintf("%s: the TS server dispatched=%v violations %v; Sebuf.TsHeaders says dispatched=%v violations %v", tag, tsDisp, tsViol, k.model["ts_dispatched"], mv), replay)
			}
			if !goOK {
				res.Corr("go_headers", fmt.Sprintf("%s: the Go server dispatched=%v violations %v; Sebuf.Headers says dispatched=%v violations %v", tag, goDisp, goViol, k.model["go_dispatched"], gv), replay)
			}
			if implAgrees {
				res.CorrAgree()
			}
		}
		// ---- oracle: the two servers generated from one definition give one verdict per header ----
		low := func(l []string) map[string]bool {
			m := map[string]bool{}
			for _, x := range l {
				m[strings.ToLower(x)] = true
			}
			return m
		}
		tv, gv := low(tsViol), low(goViol)
		var culprits []string
		if tsDisp != goDisp {
			for n := range tv {
				if !gv[n] {
					culprits = append(culprits, n)
				}
			}
			for n := range gv {
				if !tv[n] {
					culprits = append(culprits, n)
				}
			}
			sort.Strings(culprits)
		}
		for _, name := range culprits {
			val, has := "", false
			for _, p := range k.sent {
				if strings.EqualFold(p[0], name) {
					val, has = p[1], true
				}
			}
			cause := headerRootCause(k.mi, name, val, has)
			base := k.class
			if i := strings.LastIndex(base, ":"); i >= 0 {
				base = base[i+1:]
			}
			if strings.HasSuffix(cause, "_syntax") && (!strings.EqualFold(name, k.probe) || base == "clearly_valid" || base == "absent" || base == "invalid") {
				cause = "unexpected:" + cause
			}
			who := "go_accepts_ts_rejects"
			if tv[name] == false {
				who = "ts_accepts_go_rejects"
			}
			key := "header_verdict_differs:" + cause
			res.Count("divergence:" + key + ":" + who)
			res.Divergence(key, fmt.Sprintf("%s: header %s = %q (%s): the Go server %s, the TS server %s", tag, name, val, who, verdictWord(goDisp, goViol), verdictWord(tsDisp, tsViol)), implAgrees, replay)
		}
		if len(culprits) > 0 || tsDisp != goDisp {
			continue
		}
		// ---- oracle: the TS server against the contract itself, where both servers agree ----
		plain := true
		for _, h := range append(append([]ir.Header{}, k.mi.svc.Headers...), k.mi.m.Headers...) {
			if c := headerRootCause(k.mi, h.Name, "x", true); c == "method_overrides_service" || c == "format_on_non_string_type" {
				plain = false
			}
		}
		if !plain {
			continue
		}
		switch k.class {
		case "clearly_valid", "optional:clearly_valid", "optional:absent":
			if !tsDisp {
				res.Divergence("ts_rejects_clearly_valid_headers", fmt.Sprintf("%s: both servers reject a request whose headers are all clearly valid: %v", tag, tsViol), implAgrees, replay)
			}
		case "absent", "invalid", "empty":
			if tsDisp {
				res.Divergence("ts_dispatches_without_valid_required_header", fmt.Sprintf("%s: both servers dispatch although the required header %s is %s", tag, k.probe, k.class), implAgrees, replay)
			}
		}
	}
	res.Programs += len(scs)
	return nil
}

func verdictWord(disp bool, viol []string) string {
	if disp {
		return "dispatches"
	}
	return fmt.Sprintf("answers 400 %v", viol)
}

// headerRootCause names the reason two servers can differ on one header of a route.
func headerRootCause(mi *methodInfo, name, value string, has bool) string {
	var decls []ir.Header
	for _, h := range mi.svc.Headers {
		if strings.EqualFold(h.Name, name) {
			decls = append(decls, h)
		}
	}
	for _, h := range mi.m.Headers {
		if strings.EqualFold(h.Name, name) {
			decls = append(decls, h)
		}
	}
	if len(decls) == 0 {
		return "undeclared"
	}
	if len(decls) > 1 {
		return "method_overrides_service"
	}
	d := decls[0]
	stringy := d.Type == "" || d.Type == "string"
	switch {
	case !stringy && d.Format != "":
		return "format_on_non_string_type"
	case has && value == "":
		return "empty_value"
	case !d.Required:
		return "optional_header"
	case d.Type == "integer" || d.Type == "number" || d.Type == "boolean":
		return d.Type + "_syntax"
	case stringy && d.Format != "":
		return d.Format + "_syntax"
	}
	return "other_syntax"
}
