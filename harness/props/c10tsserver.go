package props

import (
	"fmt"
	"sort"
	"strings"
	"time"

	"verif/harness/drv"
	"verif/harness/plug"
	"verif/harness/tsrun"
)

// c10TSServer: the error answers of the emitted TypeScript server. Every route of the error schema is
// driven with each error source a TS route knows — a missing required header (validateHeaders), violations
// reported by `options.validateRequest`, a ValidationError thrown by the handler, any other error thrown
// by the handler — under each hook configuration {no onError, an onError hook that answers every error it
// is handed}. The real answer is classified {400 + the violations, the hook's own response, 500 + message}
// and compared with the Lean model of the catch block (`Errors.tsServerAnswer`, over the regenerated order
// of its branches) and with what the property asks (`specTsServerAnswer`): a validation failure is a 400
// listing its violations whatever hook is configured.
func c10TSServer(c *Ctx, its []*rtItem) error {
	res := c.Res
	if !tsrun.Available() {
		res.Note("node 22 not found: the TS server's error answers are not exercised")
		return nil
	}
	td, err := tsrun.NewDir()
	if err != nil {
		return err
	}
	defer td.Close()
	type tcase struct {
		route, src, hook string
		op               map[string]any
		wantViol         []string
		wantMsg          string
	}
	for _, x := range its {
		pr, err := plug.Run(plug.TSServer, x.req, nil)
		if err != nil || !pr.OK() {
			res.Corr("ts_server", "ts-server gives no module for the error schema", map[string]any{"schema": x.req})
			continue
		}
		path, err := td.WriteModule(x.it.ID, "server", onlyFile(pr))
		if err != nil {
			return err
		}
		var cases []*tcase
		for _, route := range []string{"post", "get"} {
			for _, src := range []string{"header_violation", "request_violation", "handler_validation", "handler_error"} {
				for _, hook := range []string{"none", "catch_all"} {
					k := &tcase{route: route, src: src, hook: hook}
					op := map[string]any{"op": "ts_serve", "method": "POST", "url": "/e/p", "body": `{"name":"n","qty":1}`,
						"headers": [][2]string{{"Content-Type", "application/json"}, {"X-Req", "1"}}, "handler": map[string]any{"kind": "ok", "resp": map[string]any{"id": "r"}}}
					if route == "get" {
						op["method"], op["url"], op["body"] = "GET", "/e/g/5?must=x", nil
					}
					opts := map[string]any{}
					if hook == "catch_all" {
						opts["hook"] = "catch_all"
					}
					switch src {
					case "header_violation":
						op["headers"] = [][2]string{{"Content-Type", "application/json"}}
						k.wantViol = []string{"X-Req"}
					case "request_violation":
						opts["validate"] = []map[string]string{{"field": "name", "description": "too short"}, {"field": "home.street", "description": "required"}}
						k.wantViol = []string{"name", "home.street"}
					case "handler_validation":
						op["handler"] = map[string]any{"kind": "throw_validation", "violations": []map[string]string{{"field": "qty", "description": "must be positive"}}}
						k.wantViol = []string{"qty"}
					case "handler_error":
						op["handler"] = map[string]any{"kind": "throw", "message": "boom é"}
						k.wantMsg = "boom é"
					}
					op["opts"] = opts
					k.op = op
					cases = append(cases, k)
				}
			}
		}
		var ops []any
		var dops []map[string]any
		for _, k := range cases {
			ops = append(ops, k.op)
			dops = append(dops, map[string]any{"op": "ts_server_error", "src": k.src, "hook_answers": k.hook == "catch_all"})
		}
		load, touts, err := td.Run(x.it.ID, "", path, ops, 3*time.Minute)
		if err != nil {
			res.Corr("ts_server", "node runner failed: "+err.Error(), map[string]any{"schema": x.req})
			continue
		}
		if sv, _ := load["server"].(map[string]any); sv["ok"] != true {
			res.Violation("ts_server_load", fmt.Sprintf("the emitted TS server of the error schema does not load: %v", sv), map[string]any{"schema": x.req})
			continue
		}
		var douts []map[string]any
		if drv.Available() {
			if douts, err = drv.Run(dops); err != nil {
				res.Corr("driver", "Lean driver failed: "+err.Error(), nil)
				douts = nil
			}
		}
		for i, k := range cases {
			to := touts[i]
			label := fmt.Sprintf("ts-server %s %s [hook %s]", k.route, k.src, k.hook)
			replay := map[string]any{"schema": x.req, "case": map[string]any{"route": k.route, "src": k.src, "hook": k.hook}, "request": k.op, "real": to}
			res.Case(map[string]any{"src": k.src, "route": k.route, "hook": k.hook, "via": "ts-server", "schema": x.it.ID}, true)
			res.Count("ts_server:" + k.src + ":hook_" + k.hook)
			if f, _ := to["fault"].(string); f != "" {
				res.Violation("ts_server_fault", label+": the route threw: "+f, replay)
				continue
			}
			status := jsonInt(to["status"])
			body := canonJSONBytes([]byte(fmt.Sprint(to["body"])))
			bm := mapOf(body)
			hookHdr := false
			for _, h := range pairsOf(to["headers"]) {
				if strings.EqualFold(h[0], "x-hook") {
					hookHdr = true
				}
			}
			// classify the real answer
			var got []string
			for _, v := range asList(bm["violations"]) {
				got = append(got, fmt.Sprint(mapOf(v)["field"]))
			}
			want := append([]string{}, k.wantViol...)
			sort.Strings(got)
			sort.Strings(want)
			real := "other"
			switch {
			case status == 400 && bm["violations"] != nil && !hookHdr:
				real = "violations_400"
			case hookHdr && bm["hook"] == "catch_all":
				real = "hook_response"
			case status == 500 && bm["message"] != nil && !hookHdr:
				real = "message_500"
			}
			// the payload each class must carry
			payload := ""
			switch real {
			case "violations_400":
				if fmt.Sprint(got) != fmt.Sprint(want) {
					payload = fmt.Sprintf("lists the violations %v, thrown were %v", got, want)
				}
			case "message_500":
				if k.wantMsg != "" && fmt.Sprint(bm["message"]) != k.wantMsg {
					payload = fmt.Sprintf("carries the message %q, thrown was %q", bm["message"], k.wantMsg)
				}
			case "hook_response":
				if status != 503 {
					payload = fmt.Sprintf("has status %d, the hook answered 503", status)
				}
			}
			spec, impl := "", ""
			if douts != nil {
				spec, _ = douts[i]["spec"].(string)
				impl, _ = douts[i]["impl"].(string)
				replay["model"] = douts[i]
				if impl != real {
					res.Corr("ts_server_error", fmt.Sprintf("%s: the real route answered %s (status %d, body %.120s); Errors.tsServerAnswer says %s", label, real, status, fmt.Sprint(to["body"]), impl), replay)
				} else {
					res.CorrAgree()
				}
			} else {
				// without the driver the contract is still decidable here
				spec = "message_500"
				if k.src != "handler_error" {
					spec = "violations_400"
				} else if k.hook == "catch_all" {
					spec = "hook_response"
				}
			}
			if n := len(asList(to["calls"])); (k.src == "header_violation" || k.src == "request_violation") && n != 0 {
				res.Violation("ts_server_dispatched", fmt.Sprintf("%s: the handler was invoked %d times for a request that fails validation", label, n), replay)
			}
			if real != spec {
				res.Violation("ts_server_error", fmt.Sprintf("%s: the route answered %s (status %d, body %.160s); the contract says %s", label, real, status, fmt.Sprint(to["body"]), spec), replay)
			} else if payload != "" {
				res.Violation("ts_server_error_payload", fmt.Sprintf("%s: the %s answer %s", label, real, payload), replay)
			}
		}
	}
	return nil
}
