import Sebuf.Bind
import Sebuf.Lemmas.Dec
/-!
# C02 — URL-carried fields reach the handler with the URL's value, for every verb

`Holds order` is the full statement for a middleware that runs its steps in `order`.
`generic` proves it for every order in which the body step precedes the URL binders — whatever
else the order contains. The emitted middleware's order is the regenerated fact
`Gen.Pipeline.order`: today `order_today` shows the body step comes LAST, `not_full` is the
proved negation (known finding C02 `body_resets_url_fields`), and `bodiless_partial` is what
still holds (no body decoded). After the obvious repair `order_today` flips and `Holds` follows
from `generic` by `decide`.

Conversion of URL text uses the regenerated `convertStringToFieldValue` table: `convert_in_range`
and `convert_out_of_range` tie each integer kind to its protobuf range.
-/
namespace Sebuf.C02
open Sebuf Sebuf.Bind

variable {V : Type}

theorem fget_set_same (k : Str) (v : V) (m : Fields V) : fget k (fset k v m) = some v := by
  induction m with
  | nil => simp [fset, fget]
  | cons p t ih =>
    obtain ⟨k', v'⟩ := p
    by_cases h : k' = k
    · simp [fset, fget, h]
    · simp [fset, fget, h, ih]

theorem fget_set_other (k k2 : Str) (v : V) (m : Fields V) (h : k2 ≠ k) : fget k2 (fset k v m) = fget k2 m := by
  induction m with
  | nil => simp [fset, fget]; intro e; exact absurd e.symm h
  | cons p t ih =>
    obtain ⟨k', v'⟩ := p
    by_cases h1 : k' = k
    · subst h1
      have : ¬ k' = k2 := fun e => h e.symm
      simp [fset, fget, this]
    · by_cases h2 : k' = k2
      · subst h2; simp [fset, fget, h]
      · simp [fset, fget, h1, h2, ih]

theorem fget_setAll_notmem (kvs : Fields V) (k : Str) (h : k ∉ kvs.map Prod.fst) (m : Fields V) :
    fget k (fsetAll kvs m) = fget k m := by
  unfold fsetAll
  induction kvs generalizing m with
  | nil => rfl
  | cons p t ih =>
    simp only [List.map_cons, List.mem_cons, not_or] at h
    simp only [List.foldl_cons]
    rw [ih h.2]
    exact fget_set_other p.1 k p.2 m h.1

theorem fget_setAll_mem (kvs : Fields V) (hk : (kvs.map Prod.fst).Nodup) (k : Str) (v : V)
    (h : (k, v) ∈ kvs) (m : Fields V) : fget k (fsetAll kvs m) = some v := by
  unfold fsetAll
  induction kvs generalizing m with
  | nil => cases h
  | cons p t ih =>
    simp only [List.map_cons, List.nodup_cons] at hk
    simp only [List.foldl_cons]
    rcases List.mem_cons.mp h with h1 | h1
    · subst h1
      have := fget_setAll_notmem t k hk.1 (fset k v m)
      unfold fsetAll at this
      rw [this]
      exact fget_set_same k v m
    · exact ih hk.2 h1 _

/-- request well-formedness the generator guarantees: one value per field, and (validator rule)
no field bound to both path and query. -/
def WF (r : Req V) : Prop :=
  (r.pathVals.map Prod.fst).Nodup ∧ (r.queryVals.map Prod.fst).Nodup ∧
  ∀ k ∈ r.pathVals.map Prod.fst, k ∉ r.queryVals.map Prod.fst

def UrlBound (r : Req V) (f : Str) (u : V) : Prop := (f, u) ∈ r.pathVals ∨ (f, u) ∈ r.queryVals

/-- **Full statement** for a middleware running `order`: a URL-bound field the body does not
mention reaches the handler with the URL's value, whether or not a body is present. -/
def Holds (V : Type) (order : List Step) : Prop :=
  ∀ (r : Req V) (f : Str) (u : V), WF r → UrlBound r f u →
    (∀ fs, r.body = some fs → f ∉ fs.map Prod.fst) → fget f (bindMsg order r) = some u

theorem bind_relevant (order : List Step) (r : Req V) : bindMsg order r = bindMsg (relevant order) r := by
  unfold bindMsg relevant
  generalize ([] : Fields V) = m
  induction order generalizing m with
  | nil => rfl
  | cons s t ih =>
    by_cases hs : (s = .path || s = .query || s = .body) = true
    · simp only [List.filter_cons, hs, if_true, List.foldl_cons]
      exact ih _
    · simp only [List.filter_cons, hs, if_false, List.foldl_cons]
      have : applyStep r s m = m := by
        cases s <;> first | rfl | (exfalso; apply hs; decide)
      rw [this]
      exact ih _

theorem url_value_after (r : Req V) (f : Str) (u : V) (hwf : WF r) (hb : UrlBound r f u) (m : Fields V) :
    fget f (fsetAll r.queryVals (fsetAll r.pathVals m)) = some u ∧
    fget f (fsetAll r.pathVals (fsetAll r.queryVals m)) = some u := by
  obtain ⟨hp, hq, hpq⟩ := hwf
  rcases hb with hb | hb
  · have hk : f ∈ r.pathVals.map Prod.fst := List.mem_map.mpr ⟨(f, u), hb, rfl⟩
    constructor
    · rw [fget_setAll_notmem _ _ (hpq f hk)]; exact fget_setAll_mem _ hp f u hb _
    · exact fget_setAll_mem _ hp f u hb _
  · have hk : f ∈ r.queryVals.map Prod.fst := List.mem_map.mpr ⟨(f, u), hb, rfl⟩
    have hnp : f ∉ r.pathVals.map Prod.fst := fun h => hpq f h hk
    constructor
    · exact fget_setAll_mem _ hq f u hb _
    · rw [fget_setAll_notmem _ _ hnp]; exact fget_setAll_mem _ hq f u hb _

/-- **C02, generic**: for EVERY order in which the body step precedes both URL binders the full
statement holds (the hypothesis on the body is not even needed: the URL wins). -/
theorem generic (order : List Step)
    (h : relevant order = [.body, .path, .query] ∨ relevant order = [.body, .query, .path]) :
    Holds V order := by
  intro r f u hwf hb _
  rw [bind_relevant]
  rcases h with h | h <;> rw [h] <;> simp only [bindMsg, List.foldl_cons, List.foldl_nil, applyStep]
  · exact (url_value_after r f u hwf hb _).1
  · exact (url_value_after r f u hwf hb _).2

/-- the order the emitted middleware has NOW (regenerated from the emitted text). -/
theorem order_today : relevant currentOrder = [.path, .query, .body] := by decide

/-- **¬ Holds today** (known finding C02 `body_resets_url_fields`): POST /users/xyz with body
`{"note": …}`: the body decode resets the message after the URL binders ran. -/
theorem not_full : ¬ Holds Nat currentOrder := by
  intro h
  have := h { bodyVerb := true, pathVals := [("user_id".toList, 7)], queryVals := [], body := some [("note".toList, 1)] }
    "user_id".toList 7 (by refine ⟨?_, ?_, ?_⟩ <;> simp) (Or.inl (by simp)) (by intro fs hfs; simp at hfs; subst hfs; decide)
  revert this; decide

/-- **C02, partial (today's order)**: when no body is decoded (bodiless verb, or absent / empty
body) the URL value reaches the handler. -/
theorem bodiless_partial (r : Req V) (f : Str) (u : V) (hwf : WF r) (hb : UrlBound r f u)
    (hno : r.bodyVerb = false ∨ r.body = none) : fget f (bindMsg currentOrder r) = some u := by
  rw [bind_relevant, order_today]
  simp only [bindMsg, List.foldl_cons, List.foldl_nil, applyStep]
  have := (url_value_after r f u hwf hb []).1
  rcases hno with hno | hno
  · simp [hno, this]
  · simp [hno, this]

/-- non-vacuity: a well-formed request with a URL-bound field. -/
example : WF ({ bodyVerb := false, pathVals := [("id".toList, 1)], queryVals := [("page".toList, 2)], body := none } : Req Nat) ∧
    UrlBound ({ bodyVerb := false, pathVals := [("id".toList, 1)], queryVals := [("page".toList, 2)], body := none } : Req Nat) "page".toList 2 := by
  refine ⟨⟨?_, ?_, ?_⟩, Or.inr ?_⟩ <;> simp

/-! ## URL text conversion over the regenerated table -/

theorem table_int_kinds :
    lookupKind "int32" = some ("ParseInt", "32") ∧ lookupKind "sint32" = some ("ParseInt", "32") ∧
    lookupKind "sfixed32" = some ("ParseInt", "32") ∧ lookupKind "int64" = some ("ParseInt", "64") ∧
    lookupKind "sint64" = some ("ParseInt", "64") ∧ lookupKind "sfixed64" = some ("ParseInt", "64") ∧
    lookupKind "uint32" = some ("ParseUint", "32") ∧ lookupKind "fixed32" = some ("ParseUint", "32") ∧
    lookupKind "uint64" = some ("ParseUint", "64") ∧ lookupKind "fixed64" = some ("ParseUint", "64") := by decide

/-- kinds the table does not list make the emitted server answer 400 (`unsupported field type`). -/
theorem unlisted_kinds_rejected : Gen.Pipeline.convertDefaultIsError = true ∧
    lookupKind "bytes" = none ∧ lookupKind "enum" = none ∧ lookupKind "message" = none := by decide

def signedKinds : List String := ["int32", "sint32", "sfixed32", "int64", "sint64", "sfixed64"]

/-- **in range ⇒ exact**: the decimal text of any value in the kind's protobuf range converts back to it. -/
theorem convert_in_range_signed (kind : String) (hk : kind ∈ signedKinds) (lo hi v : Int)
    (hr : kindRange kind = some (lo, hi)) (h : lo ≤ v ∧ v ≤ hi) : convertInt kind (intToDec v) = some (some v) := by
  obtain ⟨h1, h2, h3, h4, h5, h6, _⟩ := table_int_kinds
  simp only [signedKinds, List.mem_cons, List.mem_nil_iff, or_false] at hk
  rcases hk with rfl | rfl | rfl | rfl | rfl | rfl <;>
    simp only [kindRange, Option.some.injEq, Prod.mk.injEq] at hr <;> obtain ⟨rfl, rfl⟩ := hr <;>
    simp only [convertInt, h1, h2, h3, h4, h5, h6, intParser, Option.map_some] <;>
    congr 1
  · exact parseInt_intToDec 32 (by decide) v (by simpa using h)
  · exact parseInt_intToDec 32 (by decide) v (by simpa using h)
  · exact parseInt_intToDec 32 (by decide) v (by simpa using h)
  · exact parseInt_intToDec 64 (by decide) v (by simpa using h)
  · exact parseInt_intToDec 64 (by decide) v (by simpa using h)
  · exact parseInt_intToDec 64 (by decide) v (by simpa using h)

/-- **out of range ⇒ 400**: the decimal text of a value outside the kind's range is a conversion
error (so the handler is not invoked with a truncated value). -/
theorem convert_out_of_range_signed (kind : String) (hk : kind ∈ signedKinds) (lo hi v : Int)
    (hr : kindRange kind = some (lo, hi)) (h : v < lo ∨ v > hi) : convertInt kind (intToDec v) = some none := by
  obtain ⟨h1, h2, h3, h4, h5, h6, _⟩ := table_int_kinds
  simp only [signedKinds, List.mem_cons, List.mem_nil_iff, or_false] at hk
  rcases hk with rfl | rfl | rfl | rfl | rfl | rfl <;>
    simp only [kindRange, Option.some.injEq, Prod.mk.injEq] at hr <;> obtain ⟨rfl, rfl⟩ := hr <;>
    simp only [convertInt, h1, h2, h3, h4, h5, h6, intParser, Option.map_some] <;>
    congr 1
  · exact parseInt_out_of_range 32 v (by rcases h with h | h; exact Or.inr (by simpa using h); exact Or.inl (by simpa using h))
  · exact parseInt_out_of_range 32 v (by rcases h with h | h; exact Or.inr (by simpa using h); exact Or.inl (by simpa using h))
  · exact parseInt_out_of_range 32 v (by rcases h with h | h; exact Or.inr (by simpa using h); exact Or.inl (by simpa using h))
  · exact parseInt_out_of_range 64 v (by rcases h with h | h; exact Or.inr (by simpa using h); exact Or.inl (by simpa using h))
  · exact parseInt_out_of_range 64 v (by rcases h with h | h; exact Or.inr (by simpa using h); exact Or.inl (by simpa using h))
  · exact parseInt_out_of_range 64 v (by rcases h with h | h; exact Or.inr (by simpa using h); exact Or.inl (by simpa using h))

/-- unsigned kinds: in-range values convert exactly. -/
theorem convert_in_range_unsigned (kind : String) (hk : kind ∈ ["uint32", "fixed32", "uint64", "fixed64"]) (n : Nat)
    (hi : Int) (hr : kindRange kind = some (0, hi)) (h : (n : Int) ≤ hi) :
    convertInt kind (natToDec n) = some (some (n : Int)) := by
  obtain ⟨_, _, _, _, _, _, h7, h8, h9, h10⟩ := table_int_kinds
  simp only [List.mem_cons, List.mem_nil_iff, or_false] at hk
  rcases hk with rfl | rfl | rfl | rfl <;>
    simp only [kindRange, Option.some.injEq, Prod.mk.injEq, true_and] at hr <;> subst hr <;>
    simp only [convertInt, h7, h8, h9, h10, intParser, Option.map_some]
  · rw [parseUint_natToDec 32 n (by omega)]; rfl
  · rw [parseUint_natToDec 32 n (by omega)]; rfl
  · rw [parseUint_natToDec 64 n (by omega)]; rfl
  · rw [parseUint_natToDec 64 n (by omega)]; rfl

/-- concrete boundary checks (these are tests, labelled as such). -/
example : convertInt "int32" "2147483648".toList = some none := by decide
example : convertInt "int32" "-2147483648".toList = some (some (-2147483648)) := by decide
example : convertInt "uint32" "-1".toList = some none := by decide
example : convertInt "int64" "abc".toList = some none := by decide
example : convertBool "yes".toList = some none := by decide

end Sebuf.C02
