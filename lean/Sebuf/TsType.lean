import Sebuf.Schema
import Sebuf.Json
import Sebuf.Order
import Sebuf.Dec
/-!
C07: TypeScript types of the emitted declarations and their JSON inhabitants.

* `Ts.Ty` — the type grammar `tscommon/types.go` can print: `string | number | boolean | null`,
  string literals, `T[]`, `Record<string, T>`, inline object types / interfaces, unions,
  intersections, references to declared names, and `unknown`.
* `Ts.inhabits env fuel T j` — **Spec**: structural typing of a JSON value against `T` with the
  excess-property requirement of the property text ("every property present on the wire declared
  by that type at that position"). Reading fixed in DESIGN.md: a declared, non-optional property
  may be ABSENT when its type admits the proto3 default (`admitsDefault`); a PRESENT property
  must be declared and its value must inhabit the declared type. `strict := true` is the stricter
  reading (every non-`?` property present), measured as a statistic only.
* `Ts.Impl.*` — **Impl**: what `tscommon.GenerateInterface / GenerateEnumType / TSFieldType /
  RootUnwrapTSType / CollectServiceMessages` declare for a schema (every annotation), and what the
  emitted TS server passes to a handler for URL-bound fields.

All functions are structurally recursive (fuel on `Nat`), so closed instances reduce in the kernel.
-/
namespace Sebuf.Ts
open Sebuf

inductive Ty
  | str | num | bool | null | unknown
  | lit (s : Str)
  | arr (t : Ty)
  | record (t : Ty)                              -- Record<string, T>
  | obj (props : List (Str × Bool × Ty))      -- (name, optional `?`, type); also interface bodies
  | union (ts : List Ty)
  | inter (ts : List Ty)
  | ref (n : Str)
deriving Repr, Inhabited

abbrev Props := List (Str × Bool × Ty)
/-- declared names: interfaces (`obj`) and type aliases. First declaration of a name wins. -/
abbrev Env := List (Str × Ty)

def envGet (env : Env) (n : Str) : Option Ty :=
  match env with
  | [] => none
  | (k, t) :: r => if k = n then some t else envGet r n

def lookupProp (k : Str) : Props → Option (Bool × Ty)
  | [] => none
  | (n, o, t) :: r => if n = k then some (o, t) else lookupProp k r

def Ty.isLit : Ty → Bool
  | .lit _ => true
  | _ => false

/-- does the type contain the value proto3 JSON leaves out (the field's default)?
`""`, `0`, `false`, `[]`, `{}`, `null`; for a string-literal union (an enum) the zero value's
name is one of the literals; an object type when all its required properties do. -/
def admitsDefault (env : Env) : Nat → Ty → Bool
  | 0, _ => false
  | n + 1, t =>
    match t with
    | .str | .num | .bool | .null | .unknown | .arr _ | .record _ => true
    | .lit _ => false
    | .obj ps => ps.all fun p => p.2.1 || admitsDefault env n p.2.2
    | .union ts => ts.any fun u => u.isLit || admitsDefault env n u
    | .inter ts => ts.all fun u => admitsDefault env n u
    | .ref x =>
      match envGet env x with
      | some (.lit _) => true          -- a named one-literal alias is an enum with one value
      | some u => admitsDefault env n u
      | none => false

/-- the property lists an object-like type can take (disjunctive normal form of unions and
intersections of object types). -/
def shapes (env : Env) : Nat → Ty → List Props
  | 0, _ => []
  | n + 1, t =>
    match t with
    | .obj ps => [ps]
    | .union ts => ts.flatMap (shapes env n)
    | .inter ts => ts.foldr (fun u acc => (shapes env n u).flatMap fun a => acc.map fun b => a ++ b) [[]]
    | .ref x => (match envGet env x with | some u => shapes env n u | none => [])
    | _ => []

/-- an object against one property list: every member present is declared with an inhabited
type; every declared member is optional, present, or (non-strict reading) admits the default. -/
def objOK (chk : Ty → Json → Bool) (dflt : Ty → Bool) (ps : Props) (kvs : List (Str × Json)) : Bool :=
  (kvs.all fun p => match lookupProp p.1 ps with | some (_, t) => chk t p.2 | none => false) &&
  (ps.all fun p => p.2.1 || (Json.oget p.1 kvs).isSome || dflt p.2.2)

/-- **Spec.** `j` is a value of `T` (with the excess-property requirement). -/
def inhabitsG (strict : Bool) (env : Env) : Nat → Ty → Json → Bool
  | 0, _, _ => false
  | n + 1, t, j =>
    match t with
    | .str => j.isStr
    | .num => j.isNum
    | .bool => j.isBool
    | .null => j.isNull
    | .unknown => true
    | .lit s => (match j with | .str x => x == s | _ => false)
    | .arr e => (match j with | .arr l => l.all (inhabitsG strict env n e) | _ => false)
    | .record e => (match j with | .obj kvs => kvs.all (fun p => inhabitsG strict env n e p.2) | _ => false)
    | .obj ps =>
      (match j with
       | .obj kvs => objOK (inhabitsG strict env n) (fun u => !strict && admitsDefault env n u) ps kvs
       | _ => false)
    | .union ts => ts.any fun u => inhabitsG strict env n u j
    | .inter ts =>
      (match j with
       | .obj kvs => (shapes env (n + 1) (.inter ts)).any fun ps =>
           objOK (inhabitsG strict env n) (fun u => !strict && admitsDefault env n u) ps kvs
       | _ => false)
    | .ref x => (match envGet env x with | some u => inhabitsG strict env n u j | none => false)

def inhabits (env : Env) (fuel : Nat) (t : Ty) (j : Json) : Bool := inhabitsG false env fuel t j

/-! ### explanation of a failure (driver only; `explain = []` iff `inhabits`, checked at run time) -/

def tyTag : Ty → Str
  | .str => "string".toList | .num => "number".toList | .bool => "boolean".toList | .null => "null".toList
  | .unknown => "unknown".toList | .lit s => '"' :: s ++ ['"'] | .arr _ => "array".toList
  | .record _ => "record".toList | .obj _ => "object".toList | .union _ => "union".toList
  | .inter _ => "intersection".toList | .ref n => n

def jsonTag : Json → Str
  | .null => "null".toList | .bool _ => "boolean".toList | .num _ => "number".toList
  | .str _ => "string".toList | .arr _ => "array".toList | .obj _ => "object".toList

def zipIdx {α : Type} (l : List α) : List (Nat × α) :=
  (l.foldl (fun (acc : Nat × List (Nat × α)) a => (acc.1 + 1, (acc.1, a) :: acc.2)) (0, [])).2.reverse

/-- first failure as (JSON path, declared type tag, what is wrong); `none` when `j` inhabits `T`. -/
def explain (env : Env) : Nat → Ty → Json → Str → Option (Str × Str × Str)
  | 0, _, _, path => some (path, "?".toList, "out of fuel".toList)
  | n + 1, t, j, path =>
    if inhabits env (n + 1) t j then none else
    let here : Option (Str × Str × Str) := some (path, tyTag t, "wire ".toList ++ jsonTag j)
    match t with
    | .arr e =>
      (match j with
       | .arr l => ((zipIdx l).findSome? fun p => explain env n e p.2 (path ++ '/' :: (toString p.1).toList)).orElse fun _ => here
       | _ => here)
    | .record e =>
      (match j with
       | .obj kvs => (kvs.findSome? fun p => explain env n e p.2 (path ++ '/' :: p.1)).orElse fun _ => here
       | _ => here)
    | .obj ps =>
      (match j with
       | .obj kvs =>
         ((kvs.findSome? fun p =>
            match lookupProp p.1 ps with
            | some (_, u) => explain env n u p.2 (path ++ '/' :: p.1)
            | none => some (path ++ '/' :: p.1, "-".toList, "undeclared property".toList)).orElse fun _ =>
          (ps.findSome? fun p =>
            if p.2.1 || (Json.oget p.1 kvs).isSome || admitsDefault env n p.2.2 then none
            else some (path ++ '/' :: p.1, tyTag p.2.2, "required property absent".toList))).orElse fun _ => here
       | _ => here)
    | .union ts =>
      -- point into the single object-like / array-like alternative when there is only one candidate
      (match ts.filter (fun u => match u, j with
                          | .null, _ => false | .lit _, .str _ => false | .lit _, _ => false
                          | _, _ => true) with
       | [u] => (explain env n u j path).orElse fun _ => here
       | _ => here)
    | .inter ts =>
      (match j with
       | .obj kvs =>
         -- undeclared in every shape?
         let shs := shapes env (n + 1) (.inter ts)
         ((kvs.findSome? fun p =>
            if shs.all (fun ps => (lookupProp p.1 ps).isNone) then
              some (path ++ '/' :: p.1, "-".toList, "undeclared property".toList) else none).orElse fun _ => here)
       | _ => here)
    | .ref x => (match envGet env x with | some u => (explain env n u j path).orElse (fun _ => here) | none => some (path, x, "undeclared type".toList))
    | _ => here

/-- how many declared non-optional properties are absent (stricter reading, statistic only). -/
def missingRequired (env : Env) : Nat → Ty → Json → Nat
  | 0, _, _ => 0
  | n + 1, t, j =>
    match t, j with
    | .arr e, .arr l => (l.map (missingRequired env n e)).sum
    | .record e, .obj kvs => (kvs.map fun p => missingRequired env n e p.2).sum
    | .obj ps, .obj kvs =>
      (ps.filter fun p => !p.2.1 && (Json.oget p.1 kvs).isNone).length +
      (kvs.map fun p => match lookupProp p.1 ps with | some (_, u) => missingRequired env n u p.2 | none => 0).sum
    | .union ts, j => (match ts.find? (fun u => inhabits env n u j) with | some u => missingRequired env n u j | none => 0)
    | .inter ts, .obj kvs =>
      (match (shapes env (n + 1) (.inter ts)).find? (fun ps => inhabits env (n + 1) (.obj ps) (.obj kvs)) with
       | some ps => missingRequired env n (.obj ps) (.obj kvs)
       | none => 0)
    | .ref x, j => (match envGet env x with | some u => missingRequired env n u j | none => 0)
    | _, _ => 0

/-! ## Impl: what `tscommon/types.go` declares -/
namespace Impl

/-- `msg.Desc.Name()` / `enum.Desc.Name()`: the last segment of the full name. -/
def shortName (full : Str) : Str := ((splitOnChar '.' full).getLast?).getD []

/-- `TSScalarType`. -/
def scalarTy : Kind → Ty
  | .string => .str
  | .bool => .bool
  | .int32 | .sint32 | .sfixed32 | .uint32 | .fixed32 | .float | .double => .num
  | .int64 | .sint64 | .sfixed64 | .uint64 | .fixed64 => .str
  | .bytes => .str
  | .enum => .str
  | .message => .unknown

/-- `TSScalarTypeForField`. -/
def scalarTyForField (f : Field) : Ty :=
  if f.kind.isInt64 then (if f.int64Enc == 2 then .num else .str) else scalarTy f.kind

/-- `annotations.IsTimestampField` on the element (map fields pass their synthetic value field). -/
def isTs (f : Field) : Bool := f.kind == .message && isTimestampName f.typeName

/-- `TSTimestampType`. -/
def timestampTy (f : Field) : Ty := if f.tsFormat == 2 || f.tsFormat == 3 then .num else .str

/-- `TSElementType` (and the non-map, non-repeated tail of `TSFieldType`, which is the same code). -/
def elemTy (f : Field) : Ty :=
  if isTs f then timestampTy f
  else if f.kind == .message then .ref (shortName f.typeName)
  else if f.kind == .enum then (if f.enumEnc == 2 then .num else .ref (shortName f.typeName))
  else scalarTyForField f

/-- the synthetic value field of a map entry: kind and type of the value, no annotation (field
options live on the map field, not on the entry's value field). -/
def mapValueField (f : Field) : Field := { name := "value".toList, kind := f.kind, typeName := f.typeName }

/-- `annotations.FindUnwrapField`. -/
def findUnwrapField (m : Message) : Option Field := m.fields.find? fun u => u.unwrap && u.card == .repeated

/-- `TSFieldType`. -/
def fieldTy (rq : Request) (f : Field) : Ty :=
  match f.card with
  | .map =>
    let plain := elemTy (mapValueField f)
    .record (if f.kind == .message then
        (match rq.findMessage f.typeName with
         | some vm => (match findUnwrapField vm with | some uf => .arr (elemTy uf) | none => plain)
         | none => plain)
      else plain)
  | .repeated => .arr (elemTy f)
  | _ => elemTy f

/-- `IsOptionalField`. -/
def isOptional (f : Field) : Bool :=
  f.card == .optional || (f.kind == .message && (f.card == .singular || f.card == .optional))

/-- `GenerateFieldDeclaration` / the body of `GenerateFlattenedFields`: one property. -/
def propOf (rq : Request) (pre : Str) (f : Field) : Str × Bool × Ty :=
  if f.nullable then (pre ++ f.json, false, .union [fieldTy rq f, .null])
  else if isOptional f then (pre ++ f.json, true, fieldTy rq f)
  else (pre ++ f.json, false, fieldTy rq f)

/-- oneofs with a non-empty discriminator (`GetOneofDiscriminatorInfo != nil`). -/
def discOneofs (m : Message) : List OneofDecl := m.oneofs.filter fun o => o.hasConfig && o.discriminator != []

def variantsOf (m : Message) (o : OneofDecl) : List Field := m.fields.filter fun f => f.oneof == some o.name

def unionName (m : Message) (o : OneofDecl) : Str := shortName m.fullName ++ snakeToUpperCamel o.name

/-- one branch of `GenerateOneofDiscriminatedUnionType`. -/
def branchOf (rq : Request) (o : OneofDecl) (v : Field) : Ty :=
  let tag : Str × Bool × Ty := (o.discriminator, false, .lit ((v.oneofValue.filter (· != [])).getD v.name))
  if o.flatten && v.descKind == .message then
    .obj (tag :: ((((rq.findMessage v.typeName).map (·.fields)).getD []).map fun c => (c.json, false, fieldTy rq c)))
  else if v.descKind == .message then
    .obj [tag, (v.json, true, .ref (shortName v.typeName))]
  else
    .obj [tag, (v.json, true, scalarTyForField v)]

/-- the loop of `GenerateStandardInterface` / `GenerateFlattenedOneofInterface` over `msg.Fields`:
plain fields, flatten children inlined, and (standard interface only) one `<oneof>?: Union`
property at the first member of each discriminated oneof (`emitted` = oneofs already printed). -/
def bodyGo (rq : Request) (m : Message) (ds : List OneofDecl) (standard : Bool) : List Field → List Str → Props
  | [], _ => []
  | f :: rest, emitted =>
    if ds.any (fun o => f.oneof == some o.name) then
      match f.oneof with
      | some on =>
        if standard && !emitted.contains on then
          (match ds.find? (·.name == on) with
           | some o => (on, true, .ref (unionName m o)) :: bodyGo rq m ds standard rest (on :: emitted)
           | none => bodyGo rq m ds standard rest emitted)
        else bodyGo rq m ds standard rest emitted
      | none => bodyGo rq m ds standard rest emitted
    else if f.flatten && f.descKind == .message then
      (((rq.findMessage f.typeName).map (·.fields)).getD []).map (propOf rq f.flattenPrefix) ++
        bodyGo rq m ds standard rest emitted
    else propOf rq [] f :: bodyGo rq m ds standard rest emitted

/-- the body of the interface of a message. -/
def bodyProps (rq : Request) (m : Message) (standard : Bool) : Props :=
  bodyGo rq m (discOneofs m) standard m.fields []

/-- a declaration: name, `true` for `export interface`, the type. -/
abbrev Decl := Str × Bool × Ty

/-- `GenerateInterface`. -/
def declsOfMessage (rq : Request) (m : Message) : List Decl :=
  let ds := discOneofs m
  let name := shortName m.fullName
  let unions : List Decl := ds.map fun o => (unionName m o, false, .union ((variantsOf m o).map (branchOf rq o)))
  if ds.any (·.flatten) then
    unions ++ [(name ++ "Base".toList, true, .obj (bodyProps rq m false)),
               (name, false, .inter (.ref (name ++ "Base".toList) :: ds.map fun o => .ref (unionName m o)))]
  else unions ++ [(name, true, .obj (bodyProps rq m true))]

/-- `GenerateEnumType`: custom `enum_value` strings when present, else the proto names. -/
def enumTy (e : EnumT) : Ty :=
  match e.values.map (fun v => Ty.lit ((v.2.2.filter (· != [])).getD v.2.1)) with
  | [] => .str
  | [x] => x
  | xs => .union xs

def declOfEnum (e : EnumT) : Decl := (shortName e.fullName, false, enumTy e)

/-- the message types a message's fields reach, in field order (`AddMessage`'s recursion). -/
def msgTargets (m : Message) : List Str := (m.fields.filter (·.kind == .message)).map (·.typeName)
def enumTargets (m : Message) : List Str := (m.fields.filter (·.kind == .enum)).map (·.typeName)

/-- `MessageSet.AddMessage` as a pre-order depth-first walk with a visited list. -/
def collect (rq : Request) : Nat → List Str → List Str → List Str
  | 0, _, vis => vis
  | _ + 1, [], vis => vis
  | n + 1, x :: stack, vis =>
    if vis.contains x || isTimestampName x then collect rq n stack vis
    else match rq.findMessage x with
      | none => collect rq n stack vis
      | some m => collect rq n (msgTargets m ++ stack) (vis ++ [x])

/-- `CollectServiceMessages`: inputs and outputs of every RPC, then top-level `*Error` messages. -/
def roots (f : File) : List Str :=
  (f.services.flatMap fun s => s.methods.flatMap fun m => [m.input, m.output]) ++
  ((f.messages.filter fun m => m.topLevel && ("Error".toList).isSuffixOf m.name).map (·.fullName))

def collectFuel (rq : Request) (f : File) : Nat :=
  (roots f).length + (rq.allMessages.map (·.fields.length)).sum + 1

def orderedMessages (rq : Request) (f : File) : List Message :=
  (collect rq (collectFuel rq f) (roots f) []).filterMap rq.findMessage

def orderedEnums (rq : Request) (f : File) : List EnumT :=
  (sortStrs ((orderedMessages rq f).flatMap enumTargets).eraseDups).filterMap rq.findEnum

/-- the shared error type both plugins print after the messages and enums. -/
def fieldViolation : Decl :=
  ("FieldViolation".toList, true, .obj [("field".toList, false, .str), ("description".toList, false, .str)])

/-- **Impl.** the declaration block of `*_client.ts` / `*_server.ts` for one file. -/
def tsDecls (rq : Request) (f : File) : List Decl :=
  (orderedMessages rq f).flatMap (declsOfMessage rq) ++ (orderedEnums rq f).map declOfEnum ++ [fieldViolation]

def envOf (ds : List Decl) : Env := ds.map fun d => (d.1, d.2.2)

/-- the message full names `CollectServiceMessages` visits for a file. -/
def visited (rq : Request) (fl : File) : List Str := collect rq (collectFuel rq fl) (roots fl) []

def sortedEnumNames (rq : Request) (fl : File) : List Str :=
  sortStrs ((orderedMessages rq fl).flatMap enumTargets).eraseDups

/-- declared names of the block, in order. -/
def declNames (rq : Request) (fl : File) : List Str :=
  (orderedMessages rq fl).map (fun m => shortName m.fullName) ++
    ((orderedEnums rq fl).map fun e => shortName e.fullName) ++ ["FieldViolation".toList]

/-- decidable side conditions under which the emitted block declares its messages the way
`Declares` asks: the visited set is closed under message-typed fields, every enum a visited
message uses is collected and resolves, no two declarations share a name, JSON names are distinct
inside each message. (Evaluated by the driver for every un-annotated schema of the C07 run.) -/
def declCheck (rq : Request) (fl : File) : Bool :=
  ((visited rq fl).all fun x =>
    match rq.findMessage x with
    | some m => m.fields.all fun f =>
        (!(f.kind == .message && !isTs f) || (visited rq fl).contains f.typeName) &&
        (!(f.kind == .enum) || ((sortedEnumNames rq fl).contains f.typeName && (rq.findEnum f.typeName).isSome)) 
    | none => true) &&
  decide (declNames rq fl).Nodup &&
  (orderedMessages rq fl).all fun m => decide (m.fields.map Field.json).Nodup


/-- declarations of EVERY message and enum of the request (what the generator functions print
for each of them), used by the theorems; `tsDecls` is the service-reachable part of it. -/
def tsEnvAll (rq : Request) : Env :=
  envOf (rq.allMessages.flatMap (declsOfMessage rq) ++ rq.allEnums.map declOfEnum)

/-- `annotations.IsRootUnwrap`. -/
def isRootUnwrap (m : Message) : Bool :=
  match m.fields with
  | [f] => f.unwrap
  | _ => false

/-- `RootUnwrapTSType`. -/
def rootUnwrapTy (rq : Request) (m : Message) : Ty :=
  match m.fields with
  | f :: _ =>
    (match f.card with
     | .map =>
       let plain := elemTy (mapValueField f)
       .record (if f.kind == .message then
           (match rq.findMessage f.typeName with
            | some vm => (match findUnwrapField vm with | some uf => .arr (elemTy uf) | none => plain)
            | none => plain)
         else plain)
     | .repeated => .arr (elemTy f)
     | _ => fieldTy rq f)
  | [] => .unknown

/-- `resolveOutputType` (identical in both TS generators). -/
def resultTy (rq : Request) (m : Message) : Ty :=
  if isRootUnwrap m then rootUnwrapTy rq m else .ref (shortName m.fullName)

/-- the type of the `req` parameter of the client method and of the handler. -/
def requestTy (m : Message) : Ty := .ref (shortName m.fullName)

/-! ### the object the emitted TS server passes to a handler (URL-bound part) -/

/-- the natural number nearest to `n` that an IEEE-754 double represents exactly (53-bit
significand, round half to even): what `Number("<decimal integer>")` evaluates to in V8. -/
def roundDoubleNat (n : Nat) : Nat :=
  if n < 2 ^ 53 then n else
  let e := Nat.log2 n + 1 - 53
  let q := n / 2 ^ e
  let r := n % 2 ^ e
  let half := 2 ^ (e - 1)
  let q' := if half < r || (r == half && q % 2 == 1) then q + 1 else q
  q' * 2 ^ e

def roundDouble : Int → Int
  | .ofNat n => .ofNat (roundDoubleNat n)
  | .negSucc n => -(Int.ofNat (roundDoubleNat (n + 1)))

/-- `Number(text)` on the texts the harness sends: a decimal integer becomes the nearest double
(exact below 2^53; above it the documented precision loss of `int64_encoding = NUMBER`), `""` is
`0`, anything else an opaque float token. -/
def jsNumber (s : Str) : Json :=
  if s = [] then .num (.int 0)
  else match parseSigned s with
    | some i => .num (.int (roundDouble i))
    | none => .num (.float s)

/-- `generateQueryParamField`: conversion chosen by `TSScalarTypeForField`. -/
def queryValue (f : Field) (v : Option Str) : Json :=
  match scalarTyForField f with
  | .num => jsNumber (v.getD ['0'])
  | .bool => .bool (v == some "true".toList)
  | _ => .str (v.getD [])

/-- `generatePathParamMerge`: the decoded path segment, as a string, whatever the field's type. -/
def pathValue (_f : Field) (seg : Str) : Json := .str seg

/-- handler argument for a GET/DELETE route: one property per query-annotated field, then the
path variables merged over it. -/
def handlerArgNoBody (m : Message) (pathVars : List (Str × Str)) (query : List (Str × Str)) : Json :=
  let q : List (Str × Json) := (m.fields.filter (·.query.isSome)).map fun f =>
    let qn := match f.query with | some (n, _) => (if n = [] then f.name else n) | none => f.name
    (f.json, queryValue f (query.lookup qn))
  .obj (pathVars.foldl (fun acc pv =>
    match m.fields.find? (·.name == pv.1) with
    | some f => Json.oset f.json (pathValue f pv.2) acc
    | none => acc) q)

/-- handler argument for a POST/PUT/PATCH route: the parsed body with the path variables merged. -/
def handlerArgBody (m : Message) (pathVars : List (Str × Str)) (body : Json) : Json :=
  match body with
  | .obj kvs => .obj (pathVars.foldl (fun acc pv =>
      match m.fields.find? (·.name == pv.1) with
      | some f => Json.oset f.json (pathValue f pv.2) acc
      | none => acc) kvs)
  | j => j

end Impl
end Sebuf.Ts
