import Sebuf.Schema
import Sebuf.Route
/-!
`Spec`: the annotation rules exactly as property C12 lists them, written independently of the
validators (`Sebuf.Validate`). A breach names the rule, the offender and where it sits.
-/
namespace Sebuf.Spec
open Sebuf

inductive Rule
  | unwrapNotRepeated | unwrapTwice | mapUnwrapNotAlone
  | nullableNotOptional | nullableOnMessage
  | emptyBehaviorWrongType | timestampWrongType | bytesWrongType
  | flattenWrongField | flattenCollision | prefixWithoutFlatten
  | discriminatorCollision | oneofFlattenScalar | oneofFlattenCollision
  | enumNumberWithCustom
  | pathVarNoField | pathVarNonScalarKind | pathVarNotSingular | pathAndQuery | bodilessUnbound
deriving DecidableEq, Repr

/-- rules the Go client plugin implements ("all but unwrap" of the JSON-mapping rules). -/
def Rule.isJsonMapping : Rule → Bool
  | .pathVarNoField | .pathVarNonScalarKind | .pathVarNotSingular | .pathAndQuery | .bodilessUnbound => false
  | _ => true

def Rule.isUnwrap : Rule → Bool
  | .unwrapNotRepeated | .unwrapTwice | .mapUnwrapNotAlone => true
  | _ => false

def Rule.name : Rule → String
  | .unwrapNotRepeated => "unwrap_not_repeated" | .unwrapTwice => "unwrap_twice"
  | .mapUnwrapNotAlone => "map_unwrap_not_alone" | .nullableNotOptional => "nullable_not_optional"
  | .nullableOnMessage => "nullable_on_message" | .emptyBehaviorWrongType => "empty_behavior_wrong_type"
  | .timestampWrongType => "timestamp_format_wrong_type" | .bytesWrongType => "bytes_encoding_wrong_type"
  | .flattenWrongField => "flatten_wrong_field" | .flattenCollision => "flatten_collision"
  | .prefixWithoutFlatten => "prefix_without_flatten" | .discriminatorCollision => "discriminator_collision"
  | .oneofFlattenScalar => "oneof_flatten_scalar_variant" | .oneofFlattenCollision => "oneof_flatten_collision"
  | .enumNumberWithCustom => "enum_number_with_custom_values" | .pathVarNoField => "path_var_no_field"
  | .pathVarNonScalarKind => "path_var_non_scalar_kind" | .pathVarNotSingular => "path_var_not_singular"
  | .pathAndQuery => "path_and_query" | .bodilessUnbound => "bodiless_unbound_fields"

structure Breach where
  rule     : Rule
  offender : Str        -- field / oneof / variable name the message must mention
  file     : Str
  message  : Str        -- full name of the message (or input message) concerned
deriving Repr, DecidableEq

def isTs (f : Field) : Bool := f.kind == .message && f.card != .map && isTimestampName f.typeName

def children (rq : Request) (f : Field) : List Field :=
  match rq.findMessage f.typeName with
  | some m => m.fields
  | none => []

/-- JSON property names a message produces at its own level once flatten is applied. -/
def levelNames (rq : Request) (m : Message) : List Str :=
  m.fields.flatMap fun f =>
    if f.flatten && f.kind == .message then (children rq f).map (fun c => f.flattenPrefix ++ c.json) else [f.json]

def hasDup : List Str → Bool
  | [] => false
  | x :: xs => xs.contains x || hasDup xs

def fieldBreaches (rq : Request) (f : Field) : List Rule :=
  (if f.unwrap && f.card != .repeated && f.card != .map then [Rule.unwrapNotRepeated] else []) ++
  (if f.nullable && f.card != .optional then [Rule.nullableNotOptional] else []) ++
  (if f.nullable && f.kind == .message then [Rule.nullableOnMessage] else []) ++
  (if f.emptyBehavior != 0 && (f.kind != .message || f.card == .repeated || f.card == .map) then [Rule.emptyBehaviorWrongType] else []) ++
  (if f.tsFormat != 0 && !(isTs f) then [Rule.timestampWrongType] else []) ++
  (if f.bytesEnc != 0 && (f.kind != .bytes || f.card == .map) then [Rule.bytesWrongType] else []) ++
  (if f.flatten && (f.card == .repeated || f.card == .map || f.kind != .message || f.oneof.isSome) then [Rule.flattenWrongField] else []) ++
  (if !f.flatten && f.flattenPrefix != [] then [Rule.prefixWithoutFlatten] else []) ++
  (if f.kind == .enum && f.enumEnc == 2 && (match rq.findEnum f.typeName with | some e => e.hasCustom | none => false)
    then [Rule.enumNumberWithCustom] else [])

def oneofBreaches (rq : Request) (m : Message) (o : OneofDecl) : List Rule :=
  if !o.hasConfig then [] else
  let outside := m.fields.filter (·.oneof != some o.name)
  let variants := m.fields.filter (·.oneof == some o.name)
  (if outside.any (·.json == o.discriminator) then [Rule.discriminatorCollision] else []) ++
  (if o.flatten && variants.any (·.kind != .message) then [Rule.oneofFlattenScalar] else []) ++
  (if o.flatten && variants.any (fun v => v.kind == .message &&
        (children rq v).any (fun c => c.json == o.discriminator || outside.any (·.json == c.json)))
    then [Rule.oneofFlattenCollision] else [])

def messageBreaches (rq : Request) (file : Str) (m : Message) : List Breach :=
  (m.fields.flatMap fun f => (fieldBreaches rq f).map fun r => ⟨r, f.name, file, m.fullName⟩) ++
  (match m.fields.filter (·.unwrap) with
   | _ :: v :: _ => [⟨Rule.unwrapTwice, v.name, file, m.fullName⟩]
   | _ => []) ++
  (match m.fields.find? (fun f => f.unwrap && f.card == .map) with
   | some f => if m.fields.length != 1 then [⟨Rule.mapUnwrapNotAlone, f.name, file, m.fullName⟩] else []
   | none => []) ++
  -- a collision among the names a *correctly placed* flatten produces
  (if m.fields.any (fun f => f.flatten && f.kind == .message && f.card == .singular) && hasDup (levelNames rq m)
    then [⟨Rule.flattenCollision, m.name, file, m.fullName⟩] else []) ++
  (m.oneofs.flatMap fun o => (oneofBreaches rq m o).map fun r => ⟨r, o.name, file, m.fullName⟩)

def scalarPathKind : Kind → Bool
  | .message | .enum | .bytes => false
  | _ => true

def methodBreaches (rq : Request) (file : Str) (meth : Method) : List Breach :=
  if !meth.hasConfig then [] else
  let input := (rq.findMessage meth.input).getD default
  let vars := extractPathParams meth.path
  let qs := (input.fields.filter (·.query.isSome)).map (·.name)
  let v := verbOfNum meth.verbNum
  (vars.flatMap fun p =>
    match input.fields.find? (·.name == p) with
    | none => [⟨Rule.pathVarNoField, p, file, meth.input⟩]
    | some f =>
      (if !scalarPathKind f.kind then [⟨Rule.pathVarNonScalarKind, p, file, meth.input⟩] else []) ++
      (if f.card == .repeated || f.card == .map then [⟨Rule.pathVarNotSingular, p, file, meth.input⟩] else [])) ++
  ((qs.filter (vars.contains ·)).map fun q => ⟨Rule.pathAndQuery, q, file, meth.input⟩) ++
  (if v == "GET".toList || v == "DELETE".toList then
    ((input.fields.filter fun f => !vars.contains f.name && !qs.contains f.name).map
      fun f => ⟨Rule.bodilessUnbound, f.name, file, meth.input⟩)
   else [])

def fileBreaches (rq : Request) (f : File) : List Breach :=
  (f.messages.flatMap (messageBreaches rq f.name)) ++
  (f.services.flatMap fun s => s.methods.flatMap (methodBreaches rq f.name))

/-- every breach of a documented rule anywhere in the request (generated or imported files). -/
def breaches (rq : Request) : List Breach := rq.files.flatMap (fileBreaches rq)

def ruleFree (rq : Request) : Bool := (breaches rq).isEmpty

end Sebuf.Spec
