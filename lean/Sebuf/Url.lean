import Sebuf.Bytes
/-
Percent-encoding model: Go `net/url` (`PathEscape`, `PathUnescape`, `QueryEscape`,
`QueryUnescape`) and JavaScript (`encodeURIComponent`, `decodeURIComponent`), at the byte
level.

Bytes are `Nat` values (`< 256` is an explicit hypothesis of the theorems that need it); a
byte string is a `List Nat`. Everything here is structurally recursive so that `decide`,
`rfl` and `simp` can evaluate closed terms. Definitions only; theorems are in
`Sebuf/Lemmas/Url.lean`.

Sources transcribed:
* Go `net/url.shouldEscape(c, mode)` for `mode = encodePathSegment` and
  `mode = encodeQueryComponent`, `net/url.escape` (upper-case hex digits; in query mode the
  space becomes `+`), `net/url.unescape` (`%` must be followed by two `ishex` bytes, else
  `EscapeError`; in query mode `+` becomes space), `net/url.ishex` / `unhex`.
* ECMA-262 `encodeURIComponent` (`Encode` with unescaped set = uriUnreserved: ASCII letters,
  digits and `-_.!~*'()`), which percent-encodes every octet of the UTF-8 encoding of each
  other code point; and `decodeURIComponent` (`Decode` with an empty reserved set).
-/
namespace Sebuf


/-! ## Hex digits -/

/-- `"0123456789ABCDEF"[n]` for a nibble `n < 16` (ASCII code of the digit). -/
def hexUpper (n : Nat) : Nat :=
  if n < 10 then 48 + n else 55 + n

/-- Go `unhex` guarded by `ishex`: ASCII code of a hex digit (either case) to its value. -/
def unhex (c : Nat) : Option Nat :=
  if 48 ≤ c ∧ c ≤ 57 then some (c - 48)
  else if 97 ≤ c ∧ c ≤ 102 then some (c - 97 + 10)
  else if 65 ≤ c ∧ c ≤ 70 then some (c - 65 + 10)
  else none

/-! ## Character classes -/

/-- ASCII letter or digit: `'0'..'9'`, `'A'..'Z'`, `'a'..'z'`. -/
def isAlnum (c : Nat) : Bool :=
  (decide (48 ≤ c) && decide (c ≤ 57)) ||
  (decide (65 ≤ c) && decide (c ≤ 90)) ||
  (decide (97 ≤ c) && decide (c ≤ 122))

/-- Bytes Go leaves as is in `encodePathSegment` mode:
alphanumerics and `-` `_` `.` `~` `$` `&` `+` `=` `:` `@`. -/
def pathKeep (c : Nat) : Bool :=
  isAlnum c || decide (c ∈ [45, 95, 46, 126, 36, 38, 43, 61, 58, 64])

/-- Bytes Go leaves as is in `encodeQueryComponent` mode: alphanumerics and `-` `_` `.` `~`. -/
def queryKeep (c : Nat) : Bool :=
  isAlnum c || decide (c ∈ [45, 95, 46, 126])

/-- Bytes JavaScript `encodeURIComponent` leaves as is:
alphanumerics and `-` `_` `.` `!` `~` `*` `'` `(` `)`. -/
def uriComponentKeep (c : Nat) : Bool :=
  isAlnum c || decide (c ∈ [45, 95, 46, 33, 126, 42, 39, 40, 41])

/-! ## Generic encoder / decoder -/

/-- Percent-encoder. `keep` is the set of bytes copied unchanged; when `spacePlus` is set, a
space (32) that is not kept is written as `+` (43); every other byte `b` becomes
`%`, `hexUpper (b / 16)`, `hexUpper (b % 16)`. -/
def escapeWith (keep : Nat → Bool) (spacePlus : Bool) : Bytes → Bytes
  | [] => []
  | b :: bs =>
    if keep b then b :: escapeWith keep spacePlus bs
    else if spacePlus && b == 32 then 43 :: escapeWith keep spacePlus bs
    else 37 :: hexUpper (b / 16) :: hexUpper (b % 16) :: escapeWith keep spacePlus bs

/-- Percent-decoder. `%XY` with two hex digits decodes to `16 * X + Y`; a `%` that is not
followed by two hex digits is an error (`none`); when `plusSpace` is set `+` (43) decodes to
a space (32); every other byte is copied. -/
def unescapeWith (plusSpace : Bool) : Bytes → Option Bytes
  | [] => some []
  | c :: rest =>
    if c = 37 then
      match rest with
      | a :: b :: r =>
        match unhex a, unhex b with
        | some x, some y => (unescapeWith plusSpace r).map (fun t => (16 * x + y) :: t)
        | _, _ => none
      | _ => none
    else
      (unescapeWith plusSpace rest).map
        (fun t => (if plusSpace && c == 43 then 32 else c) :: t)

/-! ## Go `net/url` -/

/-- Go `url.PathEscape`. -/
def pathEscape (bs : Bytes) : Bytes := escapeWith pathKeep false bs

/-- Go `url.PathUnescape`; `none` models the `EscapeError`. `+` is copied. -/
def pathUnescape (bs : Bytes) : Option Bytes := unescapeWith false bs

/-- Go `url.QueryEscape`. -/
def queryEscape (bs : Bytes) : Bytes := escapeWith queryKeep true bs

/-- Go `url.QueryUnescape`; `none` models the `EscapeError`. `+` decodes to a space. -/
def queryUnescape (bs : Bytes) : Option Bytes := unescapeWith true bs

/-! ## JavaScript -/

/-- JavaScript `encodeURIComponent`, applied to the UTF-8 bytes of the argument. (For a
string with a lone surrogate JavaScript throws `URIError`; such strings have no UTF-8 bytes
and are outside this model.) -/
def encodeURIComponent (bs : Bytes) : Bytes := escapeWith uriComponentKeep false bs

/-- JavaScript `decodeURIComponent`, producing the UTF-8 bytes of the result; `none` models
the `URIError` for a malformed escape. JavaScript additionally throws `URIError` when the
decoded octets are not well-formed UTF-8; that check is deliberately NOT modelled here, so
this function is defined (and `some`) on some inputs on which JavaScript throws. -/
def decodeURIComponent (bs : Bytes) : Option Bytes := unescapeWith false bs

end Sebuf
