package props

import (
	"fmt"
	"sort"
	"strings"
	"verif/harness/drv"

	"verif/harness/gen"
	"verif/harness/ir"
	"verif/harness/plug"
)

func init() { Registry["C15"] = C15 }

func filesEqual(a, b map[string]string) (string, bool) {
	var names []string
	for n := range a {
		names = append(names, n)
	}
	for n := range b {
		if _, ok := a[n]; !ok {
			names = append(names, n)
		}
	}
	sort.Strings(names)
	for _, n := range names {
		x, okx := a[n]
		y, oky := b[n]
		if okx != oky {
			return n + " (emitted in one run only)", false
		}
		if x != y {
			return n, false
		}
	}
	return "", true
}

// restrict keeps the emitted files that belong to the proto file `name` (by generated prefix).
func restrict(files map[string]string, req *ir.Request, name string, plugin string) map[string]string {
	out := map[string]string{}
	f := req.FileByName(name)
	if f == nil {
		return out
	}
	if plugin == plug.OpenAPI {
		for _, s := range f.Services {
			for n, c := range files {
				if strings.HasPrefix(n, s.Name+".openapi.") {
					out[n] = c
				}
			}
		}
		return out
	}
	base := strings.TrimSuffix(name[strings.LastIndex(name, "/")+1:], ".proto")
	// the directory a plugin writes the file's outputs to: the Go import path, or the proto file's
	// own directory (paths=source_relative); two proto files may share their base name
	dirs := map[string]bool{f.GoImportPath(): true, strings.TrimSuffix(name, name[strings.LastIndex(name, "/")+1:]): true}
	if i := strings.LastIndex(name, "/"); i >= 0 {
		dirs[name[:i]] = true
	} else {
		dirs[""] = true
	}
	for n, c := range files {
		dir, fn := "", n
		if i := strings.LastIndex(n, "/"); i >= 0 {
			dir, fn = n[:i], n[i+1:]
		}
		if !dirs[dir] {
			continue
		}
		if strings.HasPrefix(fn, base+"_") || strings.HasPrefix(fn, base+".") {
			out[n] = c
		}
	}
	return out
}

// crossFileUnwrap builds the one piece of cross-file state of go-http: file A holds a map whose
// value type (defined in file B of the same package) carries a repeated unwrap field.
func crossFileUnwrap(idx int) *ir.Request {
	gp := "example.com/gen/x/v1;xv1"
	b := &ir.File{Name: fmt.Sprintf("x%d/types.proto", idx), Package: "x.v1", GoPackage: gp, Messages: []*ir.Message{
		{Name: "Bar", Fields: []*ir.Field{{Name: "px", Number: 1, Kind: "double"}}},
		{Name: "BarList", Fields: []*ir.Field{{Name: "bars", Number: 1, Kind: "message", TypeName: ".x.v1.Bar", Card: "repeated", Ann: ir.Ann{Unwrap: true}}}},
	}}
	a := &ir.File{Name: fmt.Sprintf("x%d/svc.proto", idx), Package: "x.v1", GoPackage: gp, Deps: []string{b.Name}, Messages: []*ir.Message{
		{Name: "Req", Fields: []*ir.Field{{Name: "q", Number: 1, Kind: "string"}}},
		{Name: "Resp", Fields: []*ir.Field{{Name: "by_symbol", Number: 1, Kind: "message", TypeName: ".x.v1.BarList", Card: "map", MapKey: "string"}}},
	}, Services: []*ir.Service{{Name: "Quotes", Methods: []*ir.Method{{Name: "Get", Input: ".x.v1.Req", Output: ".x.v1.Resp", Config: &ir.HTTPConfig{Path: "/q", Method: "POST"}}}}}}
	return &ir.Request{Files: []*ir.File{b, a}, Generate: []string{b.Name, a.Name}}
}

// crossFileRootUnwrap: a root-map unwrap message whose map value type (with a repeated unwrap field of
// its own: combined unwrap) is defined in another file of the same package.
func crossFileRootUnwrap(idx int) *ir.Request {
	gp := "example.com/gen/y/v1;yv1"
	b := &ir.File{Name: fmt.Sprintf("y%d/types.proto", idx), Package: "y.v1", GoPackage: gp, Messages: []*ir.Message{
		{Name: "Bar", Fields: []*ir.Field{{Name: "px", Number: 1, Kind: "double"}}},
		{Name: "BarList", Fields: []*ir.Field{{Name: "bars", Number: 1, Kind: "message", TypeName: ".y.v1.Bar", Card: "repeated", Ann: ir.Ann{Unwrap: true}}}},
	}}
	a := &ir.File{Name: fmt.Sprintf("y%d/svc.proto", idx), Package: "y.v1", GoPackage: gp, Deps: []string{b.Name}, Messages: []*ir.Message{
		{Name: "Req", Fields: []*ir.Field{{Name: "q", Number: 1, Kind: "string"}}},
		{Name: "Resp", Fields: []*ir.Field{{Name: "by_symbol", Number: 1, Kind: "message", TypeName: ".y.v1.BarList", Card: "map", MapKey: "string", Ann: ir.Ann{Unwrap: true}}}},
	}, Services: []*ir.Service{{Name: "Quotes", Methods: []*ir.Method{{Name: "Get", Input: ".y.v1.Req", Output: ".y.v1.Resp", Config: &ir.HTTPConfig{Path: "/q", Method: "POST"}}}}}}
	return &ir.Request{Files: []*ir.File{b, a}, Generate: []string{b.Name, a.Name}}
}

// sharedAcrossServices: annotated messages (flattened / nested discriminated oneof, flatten with
// nullable children, empty_behavior, json_name, …) defined in one file and reached by the services
// of TWO files generated in one invocation: whatever a plugin remembers about a message while it
// handles the first file or service must not change what it emits for the second.
func sharedAcrossServices(idx int) *ir.Request {
	zoo := gen.GenShapeZoo(idx).Files[0]
	Z := "." + zoo.Package + "."
	feed := &ir.File{Name: fmt.Sprintf("feed%d/feed.proto", idx), Package: "feed.v1", GoPackage: "example.com/gen/feed/v1;feedv1", Deps: []string{zoo.Name},
		Messages: []*ir.Message{
			{Name: "FeedReq", Fields: []*ir.Field{{Name: "cursor", Number: 1, Kind: "string"}}},
			{Name: "Feed", Fields: []*ir.Field{
				{Name: "events", Number: 1, Kind: "message", TypeName: Z + "OneofFlatZ", Card: "repeated"},
				{Name: "nested", Number: 2, Kind: "message", TypeName: Z + "OneofNestedZ"},
				{Name: "places", Number: 3, Kind: "message", TypeName: Z + "FlatNullZ", Card: "map", MapKey: "string"},
				{Name: "stamps", Number: 4, Kind: "message", TypeName: Z + "EmptyStampZ"},
			}},
		},
		Services: []*ir.Service{
			{Name: "FeedSvc", BasePath: "/feed", Methods: []*ir.Method{
				{Name: "List", Input: ".feed.v1.FeedReq", Output: ".feed.v1.Feed", Config: &ir.HTTPConfig{Path: "/list", Method: "POST"}},
				{Name: "Latest", Input: ".feed.v1.FeedReq", Output: Z + "OneofFlatZ", Config: &ir.HTTPConfig{Path: "/latest", Method: "POST"}}}},
			{Name: "AuditSvc", BasePath: "/audit", Methods: []*ir.Method{
				{Name: "Last", Input: ".feed.v1.FeedReq", Output: Z + "OneofFlatZ", Config: &ir.HTTPConfig{Path: "/last", Method: "POST"}},
				{Name: "Put", Input: Z + "FlatNullZ", Output: Z + "PlainStamps", Config: &ir.HTTPConfig{Path: "/put", Method: "PUT"}}}},
		}}
	// comments on what the imported file declares (and on the importing one): a description comes from the file that
	// DECLARES the element, whether or not that file is generated in the same invocation
	zoo.Comments = map[string]string{
		"msg:OneofFlatZ": " An event, flattened.\n\n Second paragraph.\n", "field:OneofFlatZ.id": " Event identifier.\n",
		"msg:FlatNullZ": " A place with two addresses.\n", "field:FlatNullZ.id": " Place identifier.\n",
		"msg:PlainStamps": " Stamps of every shape.\n", "msg:EmptyStampZ": " May be empty.\n", "msg:OneofNestedZ": " An event, nested.\n",
	}
	feed.Comments = map[string]string{"svc:FeedSvc": " The feed.\n", "rpc:FeedSvc.List": " Lists events.\n", "msg:Feed": " One page.\n", "field:Feed.events": " The events.\n"}
	return &ir.Request{Files: []*ir.File{zoo, feed}, Generate: []string{zoo.Name, feed.Name}}
}

// sameServiceNameTwice: do two generated files declare a service with the same short name?
// shortServiceDocNames: is every emitted OpenAPI document named `<short service name>.openapi.<ext>` for a
// service of the request?
func shortServiceDocNames(req *ir.Request, r *plug.Result) bool {
	names := map[string]bool{}
	for _, f := range req.Files {
		for _, s := range f.Services {
			names[s.Name] = true
		}
	}
	for n := range r.Files {
		base := n[strings.LastIndex(n, "/")+1:]
		i := strings.Index(base, ".openapi.")
		if i < 0 || !names[base[:i]] {
			return false
		}
	}
	return true
}

func sameServiceNameTwice(req *ir.Request) bool {
	seen := map[string]string{}
	for _, g := range req.Generate {
		if f := req.FileByName(g); f != nil {
			for _, s := range f.Services {
				if o, ok := seen[s.Name]; ok && o != g {
					return true
				}
				seen[s.Name] = g
			}
		}
	}
	return false
}

// orderSensitive: shapes whose emission order depends on a sorted or discovery-ordered collection:
// service and method headers that differ only by case, several enums, several unreferenced
// messages named *Error (the TS plugins pick them up by naming convention).
func orderSensitive(idx int) *ir.Request {
	pkg := "ord.v1"
	P := "." + pkg + "."
	f := &ir.File{Name: fmt.Sprintf("ord%d/api.proto", idx), Package: pkg, GoPackage: "example.com/gen/ord;ordpb"}
	for _, n := range []string{"Zeta", "Alpha", "Mid"} {
		f.Enums = append(f.Enums, &ir.Enum{Name: n, Values: []ir.EnumValue{{Name: strings.ToUpper(n) + "_UNSPECIFIED", Number: 0}, {Name: strings.ToUpper(n) + "_ONE", Number: 1}}})
	}
	f.Messages = []*ir.Message{
		{Name: "Req", Fields: []*ir.Field{{Name: "q", Number: 1, Kind: "string"}, {Name: "z", Number: 2, Kind: "enum", TypeName: P + "Zeta"}, {Name: "a", Number: 3, Kind: "enum", TypeName: P + "Alpha"}, {Name: "m", Number: 4, Kind: "enum", TypeName: P + "Mid"}}},
		{Name: "Resp", Fields: []*ir.Field{{Name: "ok", Number: 1, Kind: "bool"}}},
		{Name: "RateLimitError", Fields: []*ir.Field{{Name: "retry_after", Number: 1, Kind: "int32"}}},
		{Name: "NotFoundError", Fields: []*ir.Field{{Name: "resource", Number: 1, Kind: "string"}}},
		{Name: "AuthError", Fields: []*ir.Field{{Name: "realm", Number: 1, Kind: "string"}}, Nested: []*ir.Message{{Name: "InnerError", Fields: []*ir.Field{{Name: "code", Number: 1, Kind: "int32"}}}}},
	}
	f.Services = []*ir.Service{{Name: "Ord", BasePath: "/o",
		Headers: []ir.Header{{Name: "X-Request-Id", Type: "string", Required: true}, {Name: "x-tenant", Type: "string"}, {Name: "Accept-Language", Type: "string"}},
		Methods: []*ir.Method{{Name: "Do", Input: P + "Req", Output: P + "Resp", Config: &ir.HTTPConfig{Path: "/do", Method: "POST"},
			Headers: []ir.Header{{Name: "X-Request-ID", Type: "string", Required: true}, {Name: "X-Tenant", Type: "integer"}, {Name: "accept-language", Type: "string"}}}}}}
	return &ir.Request{Files: []*ir.File{f}, Generate: []string{f.Name}}
}

// C15: generation is a pure, order-independent function of the definitions.
func C15(c *Ctx) error {
	res := c.Res
	res.Rule = "each base request (route files with merged headers, annotated files, two-file packages, a cross-file unwrap package) is run K times per plugin under varied GOMAXPROCS, then with an unrelated extra file, with file_to_generate permuted, and one file at a time; " +
		"a case is one (request variation, plugin) comparison of emitted bytes; non-trivial = the plugin emitted at least one file; distinct by (schema digest, variation, plugin)"
	r := gen.New(c.Seed)
	n := c.N(24, 300)
	k := c.N(3, 8)
	type base struct {
		req   *ir.Request
		multi bool
		reps  int // repetitions of the identical run (0 = the tier's default)
	}
	var bases []base
	for i := 0; i < n; i++ {
		rr := r.Fork(fmt.Sprint("c15-", i))
		switch i % 4 {
		case 0:
			req := gen.GenRouteFile(rr, i, gen.RouteOpts{})
			gen.AddHeaders(rr.Fork("h"), req.Files[0])
			bases = append(bases, base{req, false, 0})
		case 1:
			f := gen.GenAnnotFile(rr, i, gen.AnnotOpts{})
			gen.AddHeaders(rr.Fork("h"), f)
			bases = append(bases, base{&ir.Request{Files: []*ir.File{f}, Generate: []string{f.Name}}, false, 0})
		case 2:
			f := gen.GenAnnotFile(rr, i, gen.AnnotOpts{})
			f2 := gen.GenAnnotFile(rr.Fork("second"), i, gen.AnnotOpts{NoService: true, FileName: fmt.Sprintf("a%d/types.proto", i), MsgPrefix: "T"})
			bases = append(bases, base{&ir.Request{Files: []*ir.File{f, f2}, Generate: []string{f.Name, f2.Name}}, true, 0})
		default:
			if i%8 == 3 {
				bases = append(bases, base{crossFileUnwrap(i), true, 0})
			} else {
				bases = append(bases, base{crossFileRootUnwrap(i), true, 0})
			}
		}
	}
	// a 50/50 order flip survives r identical runs with probability 2^-(r-1): repeat these often
	bases = append(bases, base{orderSensitive(9000), false, c.N(14, 24)})
	bases = append(bases, base{sharedAcrossServices(9001), true, 0})
	// two versions of one API: every name coincides, every annotation differs (with and without the
	// mock option of go-http; the other plugins refuse that parameter the same way every time)
	for _, same := range []bool{true, false} {
		bases = append(bases, base{gen.VersionedPair(same), true, 0})
		vm := gen.VersionedPair(same)
		vm.Parameter = "generate_mock=true"
		bases = append(bases, base{vm, true, 0})
	}
	type cmpJob struct {
		b       base
		plugin  string
		variant string
		ref     *plug.Result
		alt     *plug.Result
		altReq  *ir.Request
		refReq  *ir.Request // when set: the reference is this request's output (not the base's)
		only    string      // compare only the files of this proto file
		err     error
	}
	var jobs []*cmpJob
	unrelated := &ir.File{Name: "zz/unrelated.proto", Package: "zz.unrelated", GoPackage: "example.com/gen/zz;zz",
		Messages: []*ir.Message{{Name: "Alien", Fields: []*ir.Field{{Name: "big", Number: 1, Kind: "int64", Ann: ir.Ann{Int64Enc: "NUMBER"}}}}},
		Services: []*ir.Service{{Name: "AlienSvc", BasePath: "/zz", Methods: []*ir.Method{{Name: "Ping", Input: ".zz.unrelated.Alien", Output: ".zz.unrelated.Alien"}}}}}
	for _, b := range bases {
		for _, p := range plug.All {
			reps := k
			if b.reps > 0 {
				reps = b.reps
			}
			for rep := 1; rep < reps; rep++ {
				jobs = append(jobs, &cmpJob{b: b, plugin: p, variant: fmt.Sprintf("repeat#%d", rep), altReq: b.req})
			}
			extra := b.req.Clone()
			extra.Files = append([]*ir.File{unrelated}, extra.Files...)
			jobs = append(jobs, &cmpJob{b: b, plugin: p, variant: "unrelated_file_added", altReq: extra})
			if b.multi {
				perm := b.req.Clone()
				perm.Generate[0], perm.Generate[1] = perm.Generate[1], perm.Generate[0]
				jobs = append(jobs, &cmpJob{b: b, plugin: p, variant: "file_to_generate_permuted", altReq: perm})
				for _, g := range b.req.Generate {
					single := b.req.Clone()
					single.Generate = []string{g}
					jobs = append(jobs, &cmpJob{b: b, plugin: p, variant: "generated_alone", altReq: single, only: g})
				}
			}
		}
	}
	// parameter spelling (openapiv3 parses its own parameter string): white space around a pair,
	// around the key and around the value, and other parameters next to it select the same format
	spellings := map[string][]string{
		"format=json": {" format=json ", "format = json", "format= json", "format =json", "format=json ,paths=source_relative", "paths=source_relative, format = json", "\tformat\t=\tjson"},
		"format=yaml": {"", "format = yaml", "format= yaml ", " format =yaml", "format=yml", "format = yml", "paths=source_relative"},
	}
	for bi, b := range bases {
		if bi%5 != 0 && bi < len(bases)-2 {
			continue
		}
		for _, canon := range []string{"format=json", "format=yaml"} {
			refReq := b.req.Clone()
			refReq.Parameter = canon
			for si, sp := range spellings[canon] {
				alt := b.req.Clone()
				alt.Parameter = sp
				jobs = append(jobs, &cmpJob{b: b, plugin: plug.OpenAPI, variant: fmt.Sprintf("parameter_spelling:%s#%d", canon, si), altReq: alt, refReq: refReq})
			}
		}
	}
	// go-http reads `generate_mock` as a boolean flag: every spelling of true selects the mock file,
	// every spelling of false (and no parameter at all) does not
	mockSpellings := map[string][]string{
		"generate_mock=true":  {"generate_mock=1", "generate_mock=t", "generate_mock=T", "generate_mock=TRUE", "generate_mock=True", "paths=source_relative,generate_mock=true,paths=import", "generate_mock=false,generate_mock=true"},
		"generate_mock=false": {"", "generate_mock=0", "generate_mock=f", "generate_mock=F", "generate_mock=FALSE", "generate_mock=False", "generate_mock=true,generate_mock=false"},
	}
	for bi, b := range bases {
		if bi%7 != 0 && bi < len(bases)-2 {
			continue
		}
		for canon, alts := range mockSpellings {
			refReq := b.req.Clone()
			refReq.Parameter = canon
			for si, sp := range alts {
				alt := b.req.Clone()
				alt.Parameter = sp
				jobs = append(jobs, &cmpJob{b: b, plugin: plug.GoHTTP, variant: fmt.Sprintf("parameter_spelling:%s#%d", canon, si), altReq: alt, refReq: refReq})
			}
		}
	}
	refs := map[string]*plug.Result{}
	type refKey struct {
		i int
		p string
	}
	refList := make([]*plug.Result, len(bases)*len(plug.All))
	var refErr error
	parallel(len(refList), func(i int) {
		b := bases[i/len(plug.All)]
		p := plug.All[i%len(plug.All)]
		r, err := plug.Run(p, b.req, &plug.RunOpts{Env: []string{"GOMAXPROCS=16"}})
		if err != nil {
			refErr = err
		}
		refList[i] = r
	})
	if refErr != nil {
		return refErr
	}
	for i, rr := range refList {
		refs[fmt.Sprintf("%p|%s", bases[i/len(plug.All)].req, plug.All[i%len(plug.All)])] = rr
	}
	parallel(len(jobs), func(i int) {
		j := jobs[i]
		j.ref = refs[fmt.Sprintf("%p|%s", j.b.req, j.plugin)]
		if j.refReq != nil {
			if j.ref, j.err = plug.Run(j.plugin, j.refReq, &plug.RunOpts{Env: []string{"GOMAXPROCS=16"}}); j.err != nil {
				return
			}
		}
		env := []string{fmt.Sprintf("GOMAXPROCS=%d", []int{1, 2, 4, 16}[i%4])}
		j.alt, j.err = plug.Run(j.plugin, j.altReq, &plug.RunOpts{Env: env})
	})
	// correspondence for parameter spellings: OaParams.formatOfParam == the format the real plugin chose
	{
		var ps []string
		var pj []*cmpJob
		for _, j := range jobs {
			if j.refReq != nil && j.plugin == plug.OpenAPI && j.err == nil && j.alt != nil && j.alt.OK() && len(j.alt.Files) > 0 {
				ps = append(ps, j.altReq.Parameter)
				pj = append(pj, j)
			}
		}
		if len(ps) > 0 && drv.Available() {
			outs, err := drv.Run([]map[string]any{{"op": "oa_format", "params": ps}})
			if err != nil {
				res.Corr("driver", "Lean driver failed: "+err.Error(), nil)
			} else {
				fm := asList(outs[0]["formats"])
				for i, j := range pj {
					real := "FormatYAML"
					for n := range j.alt.Files {
						if strings.HasSuffix(n, ".json") {
							real = "FormatJSON"
						}
					}
					if i < len(fm) && fmt.Sprint(fm[i]) == real {
						res.CorrAgree()
					} else {
						res.Corr("param_format", fmt.Sprintf("parameter %q: the plugin emitted %s, OaParams.formatOfParam = %v", ps[i], real, fm[i]),
							map[string]any{"schema": j.b.req, "parameter": ps[i], "real_format": real})
					}
				}
			}
		}
	}
	for _, j := range jobs {
		if j.err != nil {
			return j.err
		}
		nontrivial := len(j.ref.Files) > 0
		res.Case(map[string]any{"schema": hashStr(j.b.req.ShapeKey()), "variant": j.variant, "plugin": j.plugin}, nontrivial)
		res.Count("variant:" + strings.SplitN(j.variant, "#", 2)[0])
		replay := map[string]any{"schema": j.b.req, "variant": j.variant, "plugin": j.plugin, "variant_request": j.altReq}
		if j.refReq != nil {
			replay["reference_parameter"], replay["variant_parameter"] = j.refReq.Parameter, j.altReq.Parameter
		}
		if j.ref.Outcome() != j.alt.Outcome() {
			res.Violation("outcome:"+j.variant, fmt.Sprintf("%s: outcome %s vs %s under variation %s", j.plugin, j.ref.Outcome(), j.alt.Outcome(), j.variant), replay)
			continue
		}
		if !j.ref.OK() {
			continue
		}
		a, b := j.ref.Files, j.alt.Files
		if j.variant == "unrelated_file_added" {
			// the extra file is not generated: the outputs must be identical
		}
		if j.only != "" {
			a = restrict(a, j.b.req, j.only, j.plugin)
			b = restrict(b, j.altReq, j.only, j.plugin)
		}
		if diff, ok := filesEqual(a, b); !ok {
			key := strings.SplitN(j.variant, "#", 2)[0]
			cls := key + ":" + strings.TrimPrefix(j.plugin, "protoc-gen-")
			// the recorded class: go-http's unwrap table only sees files generated in the same invocation
			predicted := key == "generated_alone" && j.plugin == plug.GoHTTP && strings.Contains(diff, "_unwrap.pb.go")
			if predicted {
				cls = "generated_alone:go-http:cross_file_unwrap"
			}
			// the OpenAPI plugin names a document after the service's SHORT name: two generated files
			// that both declare a service of that name write the same output file
			if j.plugin == plug.OpenAPI && (key == "generated_alone" || key == "file_to_generate_permuted") && sameServiceNameTwice(j.b.req) {
				// … accepted only while the documents ARE named after the short service name (the recorded behaviour,
				// OaEmit's naming): any other naming scheme that depends on the co-generated files is a new violation
				cls, predicted = key+":openapiv3:service_name_in_two_files", shortServiceDocNames(j.b.req, j.ref) && shortServiceDocNames(j.b.req, j.alt)
			}
			res.Divergence(cls, fmt.Sprintf("%s: output for %s differs under variation %s", j.plugin, diff, j.variant), predicted, replay)
		} else {
			res.CorrAgree()
		}
		if strings.HasPrefix(j.variant, "repeat") && strings.Join(j.ref.Order, "|") != strings.Join(j.alt.Order, "|") {
			res.Violation("file_order", j.plugin+": files listed in a different order across identical runs", replay)
		}
	}
	res.Programs = len(bases)
	return nil
}
