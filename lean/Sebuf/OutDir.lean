/-!
# The output directory of a generation run

protoc hands every plugin's `CodeGeneratorResponse.file` list to the file system: each (name, content)
is written in turn, a later write of the same name replacing the earlier one. `Dir` is that file
system seen as a partial map; `writeAll` is one plugin's output landing in it.
-/
namespace Sebuf.OutDir

abbrev Dir := String → Option String

/-- one file written: the name now holds this content, every other name is untouched. -/
def write (d : Dir) (f : String × String) : Dir := fun k => if k = f.1 then some f.2 else d k

/-- a plugin's whole output written, in the order of its response. -/
def writeAll (d : Dir) (fs : List (String × String)) : Dir := fs.foldl write d

/-- an output that never gives two contents to one name (protoc refuses a response that names a
file twice, so every accepted response is functional). -/
def Functional (fs : List (String × String)) : Prop := ∀ p ∈ fs, ∀ q ∈ fs, p.1 = q.1 → p.2 = q.2

/-- two outputs that give the same content to every name they share. -/
def Agree (a b : List (String × String)) : Prop := ∀ p ∈ a, ∀ q ∈ b, p.1 = q.1 → p.2 = q.2

end Sebuf.OutDir
