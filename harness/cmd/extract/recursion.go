package main

import (
	"fmt"
	"go/ast"
	"sort"
	"strings"
)

func init() { register("Recursion", extractRecursion) }

// A recursion site is a function that (directly or through one other function of its package)
// calls itself. The argument of the recursive call tells what it walks:
//
//	nested     — `.Messages` of a message: the finite tree of nested declarations
//	fieldgraph — `.Message` of a field (or a map value): the TYPE graph, which may be cyclic
//
// A fieldgraph walk terminates only if it consults a visited set before recursing.
type recSite struct {
	fn       string
	kind     string
	guarded  bool
	releases bool // the function deletes entries of a map (a guard it consults is then a PATH guard, not a visited set)
}

// releasesMarks: does the function call the builtin delete on anything?
func releasesMarks(fd *ast.FuncDecl) bool {
	found := false
	ast.Inspect(fd.Body, func(n ast.Node) bool {
		if c, ok := n.(*ast.CallExpr); ok {
			if id, ok := c.Fun.(*ast.Ident); ok && id.Name == "delete" {
				found = true
			}
		}
		return true
	})
	return found
}

func usesVisitedGuard(fd *ast.FuncDecl) bool {
	guard := false
	ast.Inspect(fd.Body, func(n ast.Node) bool {
		is, ok := n.(*ast.IfStmt)
		if !ok {
			return true
		}
		// if _, exists := m[key]; exists { return }   |   if visited[key] { return }   |   if seen[...] { continue }
		cond := condString(is.Cond)
		early := false
		for _, st := range is.Body.List {
			switch st.(type) {
			case *ast.ReturnStmt:
				early = true
			case *ast.BranchStmt:
				early = true
			}
		}
		if !early {
			return true
		}
		hasIndex := false
		if is.Init != nil {
			ast.Inspect(is.Init, func(m ast.Node) bool {
				if _, ok := m.(*ast.IndexExpr); ok {
					hasIndex = true
				}
				return true
			})
		}
		ast.Inspect(is.Cond, func(m ast.Node) bool {
			if _, ok := m.(*ast.IndexExpr); ok {
				hasIndex = true
			}
			return true
		})
		if hasIndex || strings.Contains(cond, "visited") || strings.Contains(cond, "seen") || strings.Contains(cond, "exists") {
			guard = true
		}
		return true
	})
	return guard
}

func condString(e ast.Expr) string {
	var parts []string
	ast.Inspect(e, func(n ast.Node) bool {
		if id, ok := n.(*ast.Ident); ok {
			parts = append(parts, id.Name)
		}
		return true
	})
	return strings.Join(parts, " ")
}

func extractRecursion() (string, error) {
	var sites []recSite
	for _, d := range []string{"internal/annotations", "internal/httpgen", "internal/clientgen", "internal/tscommon", "internal/tsclientgen", "internal/tsservergen", "internal/openapiv3"} {
		p, err := loadPkg(d)
		if err != nil {
			return "", err
		}
		// direct callees per function
		calls := map[string]map[string][]*ast.CallExpr{}
		for name, fd := range p.funcs {
			calls[name] = map[string][]*ast.CallExpr{}
			ast.Inspect(fd.Body, func(n ast.Node) bool {
				if c, ok := n.(*ast.CallExpr); ok {
					cn := ""
					switch f := c.Fun.(type) {
					case *ast.Ident:
						cn = f.Name
					case *ast.SelectorExpr:
						cn = f.Sel.Name // method calls g.f / ms.f
					}
					if _, local := p.funcs[cn]; local && cn != "" {
						calls[name][cn] = append(calls[name][cn], c)
					}
				}
				return true
			})
		}
		for name, fd := range p.funcs {
			var recCalls []*ast.CallExpr
			recCalls = append(recCalls, calls[name][name]...)
			// mutual recursion through one intermediary
			for mid := range calls[name] {
				if mid == name {
					continue
				}
				if cs, ok := calls[mid][name]; ok {
					recCalls = append(recCalls, cs...)
				}
			}
			if len(recCalls) == 0 {
				continue
			}
			kind := "other"
			for _, c := range recCalls {
				for _, a := range c.Args {
					s := fullExprString(a)
					switch {
					case strings.Contains(s, ".Message") && !strings.Contains(s, ".Messages"):
						kind = "fieldgraph"
					case strings.Contains(s, ".Messages") || strings.Contains(s, "nested"):
						if kind != "fieldgraph" {
							kind = "nested"
						}
					case strings.Contains(s, "valueField") && !strings.Contains(s, "valueField.Message"):
						// recursion on a map entry's value FIELD: a map value cannot be a map, depth 1
						if kind == "other" {
							kind = "mapvalue"
						}
					}
				}
			}
			if kind == "other" {
				continue
			}
			guarded := usesVisitedGuard(fd)
			if !guarded {
				// the guard may live in the intermediary
				for mid := range calls[name] {
					if _, ok := calls[mid][name]; ok && mid != name && usesVisitedGuard(p.funcs[mid]) {
						guarded = true
					}
				}
			}
			sites = append(sites, recSite{fn: d + "." + name, kind: kind, guarded: guarded, releases: releasesMarks(fd)})
		}
	}
	sort.Slice(sites, func(a, b int) bool { return sites[a].fn < sites[b].fn })
	var b strings.Builder
	b.WriteString(header("Recursion", "internal/* (self- or mutually recursive traversals of messages)"))
	b.WriteString("/-- (function, what the recursive call walks: nested | fieldgraph, consults a guard set before recursing, deletes entries of a map: the guard is then path-scoped). -/\n")
	b.WriteString("def sites : List (String × String × Bool × Bool) := [\n")
	for i, s := range sites {
		sep := ","
		if i == len(sites)-1 {
			sep = ""
		}
		fmt.Fprintf(&b, "  (%s, %s, %v, %v)%s\n", leanStr(s.fn), leanStr(s.kind), s.guarded, s.releases, sep)
	}
	b.WriteString("]\nend Sebuf.Gen.Recursion\n")
	return b.String(), nil
}

func fullExprString(e ast.Expr) string {
	switch x := e.(type) {
	case *ast.Ident:
		return x.Name
	case *ast.SelectorExpr:
		return fullExprString(x.X) + "." + x.Sel.Name
	case *ast.CallExpr:
		s := fullExprString(x.Fun) + "("
		for _, a := range x.Args {
			s += fullExprString(a) + ","
		}
		return s + ")"
	case *ast.IndexExpr:
		return fullExprString(x.X) + "[]"
	case *ast.StarExpr:
		return fullExprString(x.X)
	case *ast.UnaryExpr:
		return fullExprString(x.X)
	}
	return "?"
}
