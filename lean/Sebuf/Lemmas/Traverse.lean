/-
Theorems for C16 (`Sebuf/Traverse.lean`).

The termination statements proper are the definitions `collect` and `mockAssignGuarded`
themselves (total functions without fuel, accepted through `termination_by`). Here: what the
guarded traversal computes (duplicate-free, contains the roots, closed under successors), that
the unguarded mock recursion exhausts every amount of fuel on a self-recursive message and
finishes on graphs with a rank function, and that the path-guarded variant always finishes.
-/
import Sebuf.Traverse

namespace Sebuf

/-! ## `collect` -/

theorem collect_nodup_aux (g : Graph) (visited todo : List Str) (h : visited.Nodup) :
    (collect g visited todo).Nodup := by
  fun_induction collect g visited todo with
  | case1 visited => exact h
  | case2 visited n rest hv ih => exact ih h
  | case3 visited n rest hv ih =>
    apply ih
    rw [List.nodup_append]
    refine ⟨h, by simp, ?_⟩
    intro a ha b hb
    rcases List.mem_singleton.mp hb with rfl
    intro e; subst e; exact hv ha

/-- Every message is emitted at most once. -/
theorem collect_nodup (g : Graph) (todo : List Str) : (collect g [] todo).Nodup :=
  collect_nodup_aux g [] todo List.nodup_nil

theorem collect_contains_aux (g : Graph) (visited todo : List Str) :
    ∀ r, r ∈ visited ∨ r ∈ todo → r ∈ collect g visited todo := by
  fun_induction collect g visited todo with
  | case1 visited =>
    intro r hr
    rcases hr with hr | hr
    · exact hr
    · cases hr
  | case2 visited n rest hv ih =>
    intro r hr
    apply ih
    rcases hr with hr | hr
    · exact Or.inl hr
    · rcases List.mem_cons.mp hr with rfl | hr'
      · exact Or.inl hv
      · exact Or.inr hr'
  | case3 visited n rest hv ih =>
    intro r hr
    apply ih
    rcases hr with hr | hr
    · exact Or.inl (List.mem_append_left _ hr)
    · rcases List.mem_cons.mp hr with rfl | hr'
      · exact Or.inl (List.mem_append_right _ List.mem_cons_self)
      · exact Or.inr (List.mem_append_right _ hr')

/-- Every root is in the result. -/
theorem collect_contains_roots (g : Graph) (todo : List Str) :
    ∀ r ∈ todo, r ∈ collect g [] todo :=
  fun r hr => collect_contains_aux g [] todo r (Or.inr hr)

/-- Invariant: every successor of a visited node is visited or pending. -/
theorem collect_closed_aux (g : Graph) (visited todo : List Str)
    (hinv : ∀ n ∈ visited, ∀ s ∈ succs g n, s ∈ visited ∨ s ∈ todo) :
    ∀ n ∈ collect g visited todo, ∀ s ∈ succs g n, s ∈ collect g visited todo := by
  fun_induction collect g visited todo with
  | case1 visited =>
    intro n hn s hs
    rcases hinv n hn s hs with h | h
    · exact h
    · cases h
  | case2 visited k rest hv ih =>
    apply ih
    intro n hn s hs
    rcases hinv n hn s hs with h | h
    · exact Or.inl h
    · rcases List.mem_cons.mp h with rfl | h'
      · exact Or.inl hv
      · exact Or.inr h'
  | case3 visited k rest hv ih =>
    apply ih
    intro n hn s hs
    rcases List.mem_append.mp hn with hn' | hn'
    · rcases hinv n hn' s hs with h | h
      · exact Or.inl (List.mem_append_left _ h)
      · rcases List.mem_cons.mp h with rfl | h'
        · exact Or.inl (List.mem_append_right _ List.mem_cons_self)
        · exact Or.inr (List.mem_append_right _ h')
    · rcases List.mem_singleton.mp hn' with rfl
      exact Or.inr (List.mem_append_left _ hs)

/-- The result is closed under successors: with `collect_contains_roots`, it contains everything
reachable from the roots. -/
theorem collect_closed (g : Graph) (todo : List Str) :
    ∀ n ∈ collect g [] todo, ∀ s ∈ succs g n, s ∈ collect g [] todo :=
  collect_closed_aux g [] todo (fun _ hn => by cases hn)

/-- reachability in the type graph from a list of roots. -/
inductive Reach (g : Graph) (roots : List Str) : Str → Prop where
  | root {r : Str} : r ∈ roots → Reach g roots r
  | step {n s : Str} : Reach g roots n → s ∈ succs g n → Reach g roots s

theorem collect_sound_aux (g : Graph) (roots visited todo : List Str)
    (hv : ∀ x ∈ visited, Reach g roots x) (ht : ∀ x ∈ todo, Reach g roots x) :
    ∀ n ∈ collect g visited todo, Reach g roots n := by
  fun_induction collect g visited todo with
  | case1 visited => exact hv
  | case2 visited k rest hk ih =>
    exact ih hv (fun x hx => ht x (List.mem_cons_of_mem _ hx))
  | case3 visited k rest hk ih =>
    apply ih
    · intro x hx
      rcases List.mem_append.mp hx with h | h
      · exact hv x h
      · rcases List.mem_singleton.mp h with rfl
        exact ht _ List.mem_cons_self
    · intro x hx
      rcases List.mem_append.mp hx with h | h
      · exact Reach.step (ht k List.mem_cons_self) h
      · exact ht x (List.mem_cons_of_mem _ h)

/-- Nothing is collected that the roots do not reach. -/
theorem collect_sound (g : Graph) (todo : List Str) : ∀ n ∈ collect g [] todo, Reach g todo n :=
  collect_sound_aux g todo [] todo (fun _ h => by cases h) (fun _ h => Reach.root h)

/-- Everything the roots reach is collected. -/
theorem collect_complete (g : Graph) (todo : List Str) (n : Str) (h : Reach g todo n) : n ∈ collect g [] todo := by
  induction h with
  | root hr => exact collect_contains_roots g todo _ hr
  | step _ hs ih => exact collect_closed g todo _ ih _ hs

/-- The collected SET is exactly the reachable set. -/
theorem mem_collect_iff (g : Graph) (todo : List Str) (n : Str) : n ∈ collect g [] todo ↔ Reach g todo n :=
  ⟨collect_sound g todo n, collect_complete g todo n⟩

theorem Reach.of_roots_subset {g : Graph} {a b : List Str} (hab : ∀ x ∈ a, x ∈ b) {n : Str} (h : Reach g a n) : Reach g b n := by
  induction h with
  | root hr => exact Reach.root (hab _ hr)
  | step _ hs ih => exact Reach.step ih hs

/-- Self-recursive message: visited once. -/
example : collect [("A".toList, ["A".toList])] [] ["A".toList] = ["A".toList] := by
  simp [collect, succs, glookup]

/-- Mutually recursive messages: each visited once, in discovery order. -/
example : collect [("A".toList, ["B".toList]), ("B".toList, ["A".toList])] [] ["A".toList]
    = ["A".toList, "B".toList] := by
  simp [collect, succs, glookup]

/-! ## The unguarded mock recursion -/

theorem Outcome.sumFrom_outOfFuel (os : List Outcome) :
    Outcome.sumFrom .outOfFuel os = .outOfFuel := by
  induction os with
  | nil => rfl
  | cons o os ih =>
    unfold Outcome.sumFrom
    have : Outcome.outOfFuel.add o = .outOfFuel := by cases o <;> rfl
    rw [this]; exact ih

theorem Outcome.sumFrom_done (os : List Outcome) (a : Nat)
    (h : ∀ o ∈ os, ∃ k, o = Outcome.done k) :
    ∃ k, Outcome.sumFrom (.done a) os = .done k := by
  induction os generalizing a with
  | nil => exact ⟨a, rfl⟩
  | cons o os ih =>
    obtain ⟨k, rfl⟩ := h o List.mem_cons_self
    unfold Outcome.sumFrom
    exact ih (a + k) (fun o' ho' => h o' (List.mem_cons_of_mem _ ho'))

/-- On a self-recursive message the unguarded recursion exhausts every amount of fuel: the real
generator does not terminate (stack overflow). -/
theorem mockAssign_diverges_on_self_loop :
    ∀ fuel, mockAssign [("A".toList, ["A".toList])] fuel "A".toList = Outcome.outOfFuel := by
  intro fuel
  induction fuel with
  | zero => rfl
  | succ f ih =>
    have hs : succs [("A".toList, ["A".toList])] "A".toList = ["A".toList] := by
      simp [succs, glookup]
    unfold mockAssign
    rw [hs]
    simp only [List.map_cons, List.map_nil, ih]
    rfl

theorem mockAssign_done_of_rank (g : Graph) (rank : Str → Nat)
    (hrank : ∀ n s, s ∈ succs g n → rank s < rank n) :
    ∀ fuel root, rank root < fuel → ∃ k, mockAssign g fuel root = Outcome.done k := by
  intro fuel
  induction fuel with
  | zero => intro root h; exact absurd h (Nat.not_lt_zero _)
  | succ f ih =>
    intro root h
    unfold mockAssign
    apply Outcome.sumFrom_done
    intro o ho
    obtain ⟨s, hs, rfl⟩ := List.mem_map.mp ho
    apply ih
    have := hrank root s hs
    omega

/-- On acyclic graphs (those with a rank function) the unguarded recursion finishes;
`rank root + 1` fuel suffices. -/
theorem mockAssign_terminates_on_acyclic (g : Graph) (root : Str)
    (h : ∃ rank : Str → Nat, ∀ n s, s ∈ succs g n → rank s < rank n) :
    ∃ fuel k, mockAssign g fuel root = Outcome.done k := by
  obtain ⟨rank, hrank⟩ := h
  obtain ⟨k, hk⟩ := mockAssign_done_of_rank g rank hrank (rank root + 1) root (Nat.lt_succ_self _)
  exact ⟨rank root + 1, k, hk⟩

/-! ## The path-guarded variant -/

/-- The guarded recursion finishes on every graph and every message. -/
theorem mockAssignGuarded_done (g : Graph) (path : List Str) (msg : Str) :
    ∃ k, mockAssignGuarded g path msg = Outcome.done k := by
  fun_induction mockAssignGuarded g path msg with
  | case1 path msg hp => exact ⟨0, rfl⟩
  | case2 path msg hp hl => exact ⟨1, rfl⟩
  | case3 path msg hp ss hl ih =>
    apply Outcome.sumFrom_done
    intro o ho
    obtain ⟨s, _, rfl⟩ := List.mem_map.mp ho
    exact ih s

theorem mockAssignGuarded_on_path (g : Graph) (path : List Str) (msg : Str) (hp : msg ∈ path) :
    mockAssignGuarded g path msg = Outcome.done 0 := by
  rw [mockAssignGuarded]; simp [hp]

theorem mockAssignGuarded_leaf (g : Graph) (path : List Str) (msg : Str) (hp : msg ∉ path)
    (hl : glookup msg g = none) : mockAssignGuarded g path msg = Outcome.done 1 := by
  rw [mockAssignGuarded]; simp only [hp, dif_neg, not_false_eq_true]; split <;> simp_all

theorem mockAssignGuarded_step (g : Graph) (path : List Str) (msg : Str) (ss : List Str)
    (hp : msg ∉ path) (hl : glookup msg g = some ss) :
    mockAssignGuarded g path msg =
      Outcome.sumFrom (.done 1) (ss.map (fun s => mockAssignGuarded g (msg :: path) s)) := by
  rw [mockAssignGuarded]; simp only [hp, dif_neg, not_false_eq_true]; split <;> simp_all

/-- Self-recursive message: the guarded recursion emits the message once and stops. -/
example : mockAssignGuarded [("A".toList, ["A".toList])] [] "A".toList = Outcome.done 1 := by
  rw [mockAssignGuarded_step _ _ _ ["A".toList] (by simp) (by simp [glookup])]
  rw [List.map_cons, List.map_nil, mockAssignGuarded_on_path _ _ _ (by simp)]
  rfl

/-- Mutually recursive messages: two blocks. -/
example : mockAssignGuarded [("A".toList, ["B".toList]), ("B".toList, ["A".toList])] []
    "A".toList = Outcome.done 2 := by
  rw [mockAssignGuarded_step _ _ _ ["B".toList] (by simp) (by simp [glookup])]
  rw [List.map_cons, List.map_nil,
    mockAssignGuarded_step _ _ _ ["A".toList] (by simp) (by simp [glookup])]
  rw [List.map_cons, List.map_nil, mockAssignGuarded_on_path _ _ _ (by simp)]
  rfl

end Sebuf
