package gen

import (
	"fmt"
	"sort"
	"strconv"
	"strings"
	"time"

	"google.golang.org/protobuf/encoding/protojson"
	"google.golang.org/protobuf/reflect/protoreflect"
	"google.golang.org/protobuf/types/dynamicpb"
)

// floatText is the text protojson prints for a float (the one library leaf the Lean mapping
// model takes as given).
func floatText(fd protoreflect.FieldDescriptor, v protoreflect.Value) (string, bool) {
	m := dynamicpb.NewMessage(fd.ContainingMessage())
	if fd.IsList() || fd.IsMap() {
		// render through a throw-away singular rendering: protojson formats floats by bit size only
		bits := 64
		if fd.Kind() == protoreflect.FloatKind {
			bits = 32
		}
		f := v.Float()
		switch {
		case f != f:
			return "NaN", true
		case f > 1.7976931348623157e308:
			return "Infinity", true
		case f < -1.7976931348623157e308:
			return "-Infinity", true
		}
		return protojsonFloat(f, bits), false
	}
	m.Set(fd, v)
	b, _ := protojson.Marshal(m)
	s := string(b)
	i := strings.Index(s, ":")
	if i < 0 {
		// default value (omitted): 0
		return "0", false
	}
	t := strings.TrimSpace(strings.TrimSuffix(strings.TrimSpace(s[i+1:]), "}"))
	if strings.HasPrefix(t, "\"") {
		return strings.Trim(t, "\""), true
	}
	return t, false
}

// protojsonFloat mirrors protobuf-go's json float formatting (strconv 'g'-like with exponent fix-ups).
func protojsonFloat(f float64, bits int) string {
	format := byte('f')
	abs := f
	if abs < 0 {
		abs = -abs
	}
	if abs != 0 {
		if bits == 64 && (abs < 1e-6 || abs >= 1e21) || bits == 32 && (float32(abs) < 1e-6 || float32(abs) >= 1e21) {
			format = 'e'
		}
	}
	s := strconv.FormatFloat(f, format, -1, bits)
	if format == 'e' {
		n := len(s)
		if n >= 4 && s[n-4] == 'e' && s[n-3] == '-' && s[n-2] == '0' {
			s = s[:n-2] + s[n-1:]
		}
	}
	return s
}

func mapKeyText(k protoreflect.MapKey) string {
	switch v := k.Interface().(type) {
	case string:
		return v
	case bool:
		return strconv.FormatBool(v)
	default:
		return fmt.Sprint(v)
	}
}

func scalarVal(fd protoreflect.FieldDescriptor, v protoreflect.Value) any {
	switch fd.Kind() {
	case protoreflect.BoolKind:
		return map[string]any{"b": v.Bool()}
	case protoreflect.StringKind:
		return map[string]any{"s": v.String()}
	case protoreflect.BytesKind:
		b := v.Bytes()
		arr := make([]int, len(b))
		for i := range b {
			arr[i] = int(b[i])
		}
		return map[string]any{"y": arr}
	case protoreflect.EnumKind:
		return map[string]any{"e": strconv.Itoa(int(v.Enum()))}
	case protoreflect.FloatKind, protoreflect.DoubleKind:
		t, q := floatText(fd, v)
		return map[string]any{"f": t, "q": q}
	case protoreflect.Int32Kind, protoreflect.Sint32Kind, protoreflect.Sfixed32Kind, protoreflect.Int64Kind, protoreflect.Sint64Kind, protoreflect.Sfixed64Kind:
		return map[string]any{"i": strconv.FormatInt(v.Int(), 10)}
	default:
		return map[string]any{"i": strconv.FormatUint(v.Uint(), 10)}
	}
}

func elemVal(fd protoreflect.FieldDescriptor, v protoreflect.Value) any {
	if fd.Kind() == protoreflect.MessageKind || fd.Kind() == protoreflect.GroupKind {
		return ValJSON(v.Message())
	}
	return scalarVal(fd, v)
}

// ValJSON renders a message in the form the Lean driver parses into Sebuf.Mapping.Val.
func ValJSON(m protoreflect.Message) any {
	md := m.Descriptor()
	if md.FullName() == "google.protobuf.Timestamp" {
		secs := m.Get(md.Fields().ByName("seconds")).Int()
		nanos := m.Get(md.Fields().ByName("nanos")).Int()
		t := time.Unix(secs, nanos).UTC()
		// protojson: RFC 3339 with 0, 3, 6 or 9 fractional digits
		rfc := t.Format("2006-01-02T15:04:05.000000000Z")
		rfc = strings.TrimSuffix(rfc, "Z")
		rfc = strings.TrimSuffix(rfc, "000")
		rfc = strings.TrimSuffix(rfc, "000")
		rfc = strings.TrimSuffix(rfc, ".000")
		rfc += "Z"
		return map[string]any{"ts": map[string]any{"s": strconv.FormatInt(secs, 10), "n": nanos, "rfc": rfc, "date": t.Format("2006-01-02")}}
	}
	var fields []any
	var fds []protoreflect.FieldDescriptor
	m.Range(func(fd protoreflect.FieldDescriptor, _ protoreflect.Value) bool { fds = append(fds, fd); return true })
	sort.Slice(fds, func(a, b int) bool { return fds[a].Index() < fds[b].Index() })
	for _, fd := range fds {
		v := m.Get(fd)
		var val any
		switch {
		case fd.IsMap():
			var kvs []any
			var keys []protoreflect.MapKey
			v.Map().Range(func(k protoreflect.MapKey, _ protoreflect.Value) bool { keys = append(keys, k); return true })
			sort.Slice(keys, func(a, b int) bool { return mapKeyText(keys[a]) < mapKeyText(keys[b]) })
			for _, k := range keys {
				kvs = append(kvs, map[string]any{"k": mapKeyText(k), "v": elemVal(fd.MapValue(), v.Map().Get(k))})
			}
			if kvs == nil {
				kvs = []any{}
			}
			val = map[string]any{"mp": kvs}
		case fd.IsList():
			l := []any{}
			for i := 0; i < v.List().Len(); i++ {
				l = append(l, elemVal(fd, v.List().Get(i)))
			}
			val = map[string]any{"l": l}
		default:
			val = elemVal(fd, v)
		}
		fields = append(fields, map[string]any{"n": string(fd.Name()), "v": val})
	}
	if fields == nil {
		fields = []any{}
	}
	return map[string]any{"m": fields}
}
