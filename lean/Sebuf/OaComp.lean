import Sebuf.Schema
import Sebuf.Str
/-!
`Impl`: which component schemas an OpenAPI document holds and which message each one describes
(`CollectReferencedMessages` / `processMessage` in `internal/openapiv3/generator.go`): schemas are
keyed by the SHORT message name, a later `Set` under the same name replaces the earlier schema.
`Spec.reach`: the messages reachable from a service's RPCs through message-typed fields.

Order convention: the nested types of a message are its map-entry types (field order) followed
by its declared nested messages — the order in which the harness builds descriptors.
-/
namespace Sebuf.OaComp
open Sebuf

def builtin : List Str := ["Error".toList, "FieldViolation".toList, "ValidationError".toList]

/-- protoc's name of a map field's entry type. -/
def entryName (field : Str) : Str := jsonNameAux true field ++ "Entry".toList

def tsMsg : Message :=
  { fullName := ".google.protobuf.Timestamp".toList, name := "Timestamp".toList,
    fields := [{ name := "seconds".toList, kind := .int64 }, { name := "nanos".toList, kind := .int32 }] }

def find (rq : Request) (full : Str) : Option Message :=
  if isTimestampName full then some tsMsg else rq.findMessage full

def directNested (rq : Request) (m : Message) : List Message :=
  rq.allMessages.filter fun x => x.fullName == m.fullName ++ ('.' :: x.name)

def isRootUnwrap (m : Message) : Bool :=
  match m.fields with
  | [f] => f.unwrap && (f.card == .repeated || f.card == .map)
  | _ => false

def variantValue (f : Field) : Str :=
  match f.oneofValue with
  | some v => if v == [] then f.name else v
  | none => f.name

/-- names of the per-variant schemas of flattened discriminated oneofs (`Msg_value`). -/
def variantNames (m : Message) : List Str :=
  if isRootUnwrap m || m.fields.any (·.flatten) then [] else
  (m.oneofs.filter fun o => o.hasConfig && o.flatten).flatMap fun o =>
    (m.fields.filter (·.oneof == some o.name)).map fun f => m.name ++ '_' :: variantValue f

def entryFull (m : Message) (f : Field) : Str := m.fullName ++ ('.' :: entryName f.name)

/-- an event `(schema name, owner)`: `Set(name, schema describing owner)`. -/
abbrev Ev := Str × Str

def entryEvents (m : Message) : List Ev :=
  (m.fields.filter (·.card == .map)).map fun f => (entryName f.name, entryFull m f)

/-- `processMessage`: variant schemas, the message itself, then every nested type, deep. -/
def processEvents (rq : Request) : Nat → Message → List Ev
  | 0, _ => []
  | fuel + 1, m =>
    (variantNames m).map (fun v => (v, m.fullName ++ "#".toList ++ v)) ++ [(m.name, m.fullName)] ++
    entryEvents m ++ (directNested rq m).flatMap (processEvents rq fuel)

abbrev St := List Str × List Ev

/-- `collectMessageRecursive` with its `processed` set. -/
def visit (rq : Request) : Nat → Message → St → St
  | 0, _, st => st
  | fuel + 1, m, st =>
    if st.1.contains m.fullName then st else
    let st0 : St := (m.fullName :: st.1, st.2 ++ processEvents rq (fuel + 1) m)
    let st1 := m.fields.foldl (fun (s : St) f =>
      if f.card == .map then
        let en := entryFull m f
        let s' : St := if s.1.contains en then s else (en :: s.1, s.2 ++ [(entryName f.name, en)])
        if f.kind == .message then (match find rq f.typeName with | some v => visit rq fuel v s' | none => s') else s'
      else if f.kind == .message then (match find rq f.typeName with | some v => visit rq fuel v s | none => s)
      else s) st0
    (directNested rq m).foldl (fun s n => visit rq fuel n s) st1

def collect (rq : Request) (fuel : Nat) (svc : Service) : List Ev :=
  (svc.methods.foldl (fun (s : St) mt =>
    let s1 := match find rq mt.input with | some m => visit rq fuel m s | none => s
    match find rq mt.output with | some m => visit rq fuel m s1 | none => s1) ([], [])).2

/-- `orderedmap.Set`: replace in place or append. -/
def setKV (k v : Str) : List Ev → List Ev
  | [] => [(k, v)]
  | (k', v') :: r => if k' == k then (k, v) :: r else (k', v') :: setKV k v r

def lookupKV (k : Str) : List Ev → Option Str
  | [] => none
  | (k', v) :: r => if k' == k then some v else lookupKV k r

def applyEvents (init : List Ev) (evs : List Ev) : List Ev := evs.foldl (fun acc e => setKV e.1 e.2 acc) init

def builtinEvents : List Ev := builtin.map fun b => (b, "#builtin".toList)

/-- the final `components.schemas` of the service's document: name ↦ what it describes. -/
def components (rq : Request) (fuel : Nat) (svc : Service) : List Ev :=
  applyEvents builtinEvents (collect rq fuel svc)

def defaultFuel (rq : Request) : Nat := rq.allMessages.length + 4

namespace Spec

/-- messages reachable from a message through message-typed fields (lists, maps, oneof variants). -/
def reachFrom (rq : Request) : Nat → Message → List Str → List Str
  | 0, _, seen => seen
  | fuel + 1, m, seen =>
    if seen.contains m.fullName then seen else
    m.fields.foldl (fun s f =>
      if f.kind == .message then (match find rq f.typeName with | some v => reachFrom rq fuel v s | none => s) else s)
      (m.fullName :: seen)

def reach (rq : Request) (fuel : Nat) (svc : Service) : List Str :=
  svc.methods.foldl (fun s mt =>
    let s1 := match find rq mt.input with | some m => reachFrom rq fuel m s | none => s
    match find rq mt.output with | some m => reachFrom rq fuel m s1 | none => s1) []

/-- **complete**: every reachable message has a component schema of its own. -/
def complete (rq : Request) (fuel : Nat) (svc : Service) (comps : List Ev) : Bool :=
  (reach rq fuel svc).all fun full =>
    match find rq full with
    | some m => lookupKV m.name comps == some full
    | none => true

end Spec

end Sebuf.OaComp
