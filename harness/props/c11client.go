package props

import (
	"encoding/base64"
	"fmt"
	"sort"
	"strings"
	"sync"
	"time"

	"google.golang.org/protobuf/encoding/protojson"
	"google.golang.org/protobuf/proto"
	"google.golang.org/protobuf/types/dynamicpb"

	sebufhttp "github.com/SebastienMelki/sebuf/http"

	"verif/harness/drv"
	"verif/harness/gen"
)

type c11ClientCase struct {
	x        *rtItem
	mi       *methodInfo
	label    string
	clientCT string
	status   int
	body     []byte
	repeat   int
	exchange string // response | read_error | do_error
	op       map[string]any
	out      map[string]any
	crash    string
	declLen  *int64 // the declared Content-Length, when it is set apart from the body
}

var c11Statuses = []int{200, 201, 204, 206, 100, 101, 199, 301, 304, 399, 400, 401, 404, 409, 422, 499, 500, 502, 503, 599, 600, 999, -1, 1000000}

// c11Client: arbitrary status / headers / body sequences against the real generated Go client.
func c11Client(c *Ctx, r *gen.R, items []*rtItem, _ int, driverOK bool) error {
	res := c.Res
	var all []*c11ClientCase
	per := c.N(90, 600)
	for xi, x := range items {
		if !x.it.Built || !strings.HasPrefix(x.file.Name, "zoo") && !strings.HasPrefix(x.file.Name, "rt") {
			continue
		}
		rr := r.Fork(fmt.Sprint("client-", xi))
		ms := x.methods()
		if len(ms) == 0 {
			continue
		}
		for i := 0; i < per; i++ {
			mi := gen.Pick(rr, ms)
			omd := x.msgDesc(mi.m.Output)
			if omd == nil {
				continue
			}
			val := gen.RandomMessage(rr, omd, &gen.ValOpts{SparseP: 3}, 0)
			k := &c11ClientCase{x: x, mi: mi, exchange: "response", status: gen.Pick(rr, c11Statuses), repeat: 1,
				clientCT: gen.Pick(rr, []string{"", "application/json", "application/x-protobuf", "application/octet-stream", "text/weird"})}
			if rr.P(1, 2) {
				k.status = gen.Pick(rr, []int{200, 200, 400, 500})
			}
			switch rr.Intn(16) {
			case 0:
				k.label, k.body = "valid_json", gen.PJ(val)
			case 1:
				k.label = "valid_wire"
				k.body, _ = proto.Marshal(val)
			case 2:
				b := gen.PJ(val)
				k.label, k.body = "truncated_json", b[:rr.Intn(len(b)+1)]
			case 3:
				b, _ := proto.Marshal(val)
				k.label, k.body = "truncated_wire", b[:rr.Intn(len(b)+1)]
			case 4:
				k.label, k.body = "empty", nil
			case 5:
				k.label, k.body = "random_bytes", randomBytes(rr, 1+rr.Intn(80))
			case 6:
				k.label, k.body = "invalid_utf8", []byte("{\"id\":\"\xff\xfe\"}")
			case 7:
				d := gen.Pick(rr, []int{9999, 10001, 50000})
				k.label, k.body = "deep", []byte(strings.Repeat("[", d)+strings.Repeat("]", d))
			case 8:
				k.label, k.body = "validation_error_json", []byte(`{"violations":[{"field":"a","description":"b"}]}`)
			case 9:
				k.label = "validation_error_wire"
				k.body, _ = proto.Marshal(&sebufhttp.ValidationError{Violations: []*sebufhttp.FieldViolation{{Field: "a", Description: "b"}}})
			case 10:
				k.label, k.body = "error_json", []byte(`{"message":"m"}`)
			case 11:
				k.label, k.body = "html", []byte("<html><body>502 Bad Gateway</body></html>")
			case 12:
				k.label, k.body, k.repeat = "huge", []byte(strings.Repeat(" ", 1024)), gen.Pick(rr, []int{1024, 16384})
			case 13:
				k.label, k.body, k.exchange = "reader_fails", gen.PJ(val), "read_error"
			case 14:
				k.label, k.exchange = "transport_error", "do_error"
			default:
				k.label, k.body = "top_level", []byte(gen.Pick(rr, []string{"null", "[]", "5", `"x"`, "{}", "{} x"}))
			}
			// the Content-Length the response DECLARES (independent of the bytes that follow): absent,
			// exact, too short, too long, zero, absurd — the outcome may depend on the body only
			if rr.P(1, 3) {
				n := int64(len(k.body)) * int64(max(k.repeat, 1))
				dl := gen.Pick(rr, []int64{n, n + 100, n - 1, 0, 1 << 31, 1 << 48, 1 << 62, 9223372036854775807})
				if dl >= 0 {
					k.declLen = &dl
					k.label += "+declared_length"
				}
			}
			all = append(all, k)
		}
	}
	for i, k := range all {
		op := map[string]any{"op": "call", "id": fmt.Sprint(i), "rpc": k.mi.svc.Name + "." + k.mi.m.Name, "req_type": strings.TrimPrefix(k.mi.m.Input, "."),
			"req": map[string]any{}, "canned_mode": "raw", "canned_status": k.status, "canned_body": b64(k.body), "canned_repeat": k.repeat,
			"canned_headers": [][2]string{{"Content-Type", gen.Pick(gen.New(int64(i)), []string{"application/json", "application/x-protobuf", "text/html", "", "json", "text", "; charset=utf-8", "garbage", "application/", "/", "*/*", "APPLICATION/JSON", "application/json; charset=utf-8", "application/problem+json", "\x7f\x00/\xff"})}},
			"handler": map[string]any{"kind": "ok"}}
		if k.clientCT != "" {
			op["client_ct"] = k.clientCT
		}
		if k.declLen != nil {
			op["canned_content_length"] = *k.declLen
		}
		switch k.exchange {
		case "read_error":
			op["canned_read_err"] = gen.Pick(gen.New(int64(i)), []string{"reset", "unexpected_eof"})
			op["canned_err_after"] = len(k.body) / 2
		case "do_error":
			op["canned_transport_err"] = "dial tcp 192.0.2.1:443: connect: connection refused"
		}
		k.op = op
	}
	byItem := map[*rtItem][]*c11ClientCase{}
	for _, k := range all {
		byItem[k.x] = append(byItem[k.x], k)
	}
	var its []*rtItem
	for x := range byItem {
		its = append(its, x)
	}
	sort.Slice(its, func(a, b int) bool { return its[a].it.ID < its[b].it.ID })
	var mu sync.Mutex
	var runErr error
	parallel(len(its), func(i int) {
		ks := byItem[its[i]]
		for len(ks) > 0 {
			ops := make([]any, len(ks))
			for j, k := range ks {
				ops[j] = k.op
			}
			outs, stderr, err := its[i].it.Run(ops, 10*time.Minute, "TZ=UTC")
			for j := 0; j < len(outs) && j < len(ks); j++ {
				ks[j].out = outs[j]
			}
			if len(outs) >= len(ks) {
				return
			}
			if len(outs) == 0 && err != nil && !strings.Contains(stderr, "goroutine") {
				mu.Lock()
				runErr = fmt.Errorf("runner for %s: %v %s", its[i].it.ID, err, firstLines(stderr, 6))
				mu.Unlock()
				return
			}
			ks[len(outs)].crash = firstLines(stderr, 12)
			ks = ks[len(outs)+1:]
		}
	})
	if runErr != nil {
		return runErr
	}
	// the model: outcome kind from the regenerated status tests and codec table, the decoders'
	// verdicts supplied from the real library
	var dops []map[string]any
	for _, k := range all {
		full := k.body
		if k.repeat > 1 {
			full = []byte(strings.Repeat(string(k.body), k.repeat))
		}
		omd := k.x.msgDesc(k.mi.m.Output)
		verd := func(binary bool) map[string]any {
			dec := func(m proto.Message) bool {
				if binary {
					return proto.Unmarshal(full, m) == nil
				}
				return protojson.Unmarshal(full, m) == nil
			}
			return map[string]any{"msg_ok": dec(dynamicpb.NewMessage(omd)), "verr_ok": dec(&sebufhttp.ValidationError{}), "gerr_ok": dec(&sebufhttp.Error{})}
		}
		dops = append(dops, map[string]any{"op": "client_case", "ct": ifs(k.clientCT == "", "application/json", k.clientCT), "status": k.status,
			"exchange": k.exchange, "body_len": len(full), "json": verd(false), "binary": verd(true)})
	}
	var douts []map[string]any
	if driverOK {
		var err error
		if douts, err = drv.Run(dops); err != nil {
			res.Corr("driver", "Lean driver failed: "+err.Error(), nil)
			douts = nil
		}
	}
	for i, k := range all {
		o := k.out
		res.Case(map[string]any{"schema": k.x.it.ID, "rpc": k.mi.m.Name, "client_ct": k.clientCT, "status": k.status, "exchange": k.exchange, "body": hashBytes(k.body), "repeat": k.repeat}, true)
		res.Count("client:" + k.label)
		replay := map[string]any{"schema": k.x.req, "rpc": k.mi.svc.Name + "." + k.mi.m.Name, "client_content_type": k.clientCT, "response_status": k.status,
			"response_body_base64": b64(k.body), "response_body_repeat": k.repeat, "exchange": k.exchange, "real": trimWire(o)}
		if k.crash != "" {
			res.Violation("crash", "the client PROCESS died on this response: "+firstLine(k.crash), replay)
			continue
		}
		if o == nil {
			res.Violation("no_answer", "the runner gave no answer for a client call", replay)
			continue
		}
		if he, _ := o["harness_err"].(string); he != "" {
			return fmt.Errorf("harness: client op: %s", he)
		}
		if fc, _ := o["fault_class"].(string); fc != "" {
			res.Violation("client_"+fc, fmt.Sprintf("%s: status %d body %s: client %v", k.mi.m.Name, k.status, k.label, o["fault"]), replay)
			continue
		}
		e, hasErr := o["err"].(map[string]any)
		_, hasGot := o["got"]
		// outcome ∈ {response, error}: exactly one
		if hasErr == hasGot {
			res.Violation("client_outcome", fmt.Sprintf("%s: status %d body %s: the client returned neither / both a response and an error", k.mi.m.Name, k.status, k.label), replay)
			continue
		}
		kind := "ok"
		if hasErr {
			text, _ := e["text"].(string)
			switch e["class"] {
			case "validation":
				kind = "validation"
			case "error":
				kind = "error"
			default:
				switch {
				case strings.HasPrefix(text, "failed to execute request"):
					kind = "execute"
				case strings.HasPrefix(text, "failed to read response body"):
					kind = "read"
				case strings.HasPrefix(text, "failed to unmarshal response"):
					kind = "decode"
				case strings.HasPrefix(text, "request failed with status"):
					kind = "status"
				default:
					kind = "other:" + firstLine(text)
				}
			}
		}
		res.Count("client_outcome:" + kind)
		// oracle: an error status never yields a response; a response is a decoding of the body
		if k.exchange == "response" && k.status >= 400 && !hasErr {
			res.Violation("client_response_on_error_status", fmt.Sprintf("%s: status %d was returned as a response", k.mi.m.Name, k.status), replay)
		}
		if k.exchange != "response" && !hasErr {
			res.Violation("client_response_without_exchange", fmt.Sprintf("%s: %s, yet the client returned a response", k.mi.m.Name, k.exchange), replay)
		}
		if douts != nil {
			want, _ := douts[i]["outcome"].(string)
			replay["model"] = douts[i]
			if want == kind {
				res.CorrAgree()
			} else {
				res.Corr("client_outcome", fmt.Sprintf("%s: status %d body %s (client content type %q): the model predicts %s, the client returned %s", k.mi.m.Name, k.status, k.label, k.clientCT, want, kind), replay)
			}
		}
	}
	return nil
}

func trimWire(o map[string]any) map[string]any {
	if o == nil {
		return nil
	}
	out := map[string]any{}
	for k, v := range o {
		if k == "wire" {
			continue
		}
		if s, ok := v.(string); ok && len(s) > 600 {
			v = s[:600] + "…"
		}
		if m, ok := v.(map[string]any); ok {
			if t, ok := m["text"].(string); ok && len(t) > 600 {
				c := map[string]any{}
				for a, b := range m {
					c[a] = b
				}
				c["text"] = t[:600] + "…"
				v = c
			}
		}
		out[k] = v
	}
	return out
}

var _ = base64.StdEncoding
