import Sebuf.Driver
import Sebuf.Traverse
namespace Sebuf.Driver
open Lean (Json)

/-- does the mock emitter's unguarded recursion finish on the type graph from each root?
fuel = number of messages + 1 is enough on acyclic graphs (`mockAssign_done_of_rank`). -/
def opMockGraph (j : Json) : Json :=
  let g : Graph := (getArr j "edges").map fun e => (getStr e "from", getStrList e "to")
  let roots := getStrList j "roots"
  let fuel := g.length + 2
  let div := roots.any fun r => mockAssign g fuel r == Outcome.outOfFuel
  Json.mkObj [("mock_diverges", Json.bool div),
              ("visited", Json.arr ((collect g [] roots).map jstr).toArray)]

end Sebuf.Driver
