import Sebuf.OaRules
/-!
`makeNullable` changes the `type` binding only: every other keyword of the schema object is read
unchanged, so for an instance that is not `null` the verdict of the nullable schema is the verdict
of the plain one (and `null` is accepted by the `type` keyword).
-/
namespace Sebuf.OaRules
open Sebuf Sebuf.Schema

/-- the rewritten bindings of `makeNullable`. -/
def retype (t : Str) (kvs : List (Str × Json)) : List (Str × Json) :=
  kvs.map fun p => if p.1 = K.type then (p.1, Json.arr [.str t, .str T.null]) else p

theorem kw_retype_other (t k : Str) (kvs : List (Str × Json)) (hk : k ≠ K.type) :
    kw k (retype t kvs) = kw k kvs := by
  unfold kw retype
  induction kvs with
  | nil => rfl
  | cons p ps ih =>
    obtain ⟨k', v⟩ := p
    by_cases h : k' = K.type
    · have hne : ¬ k' = k := fun e => hk (e ▸ h)
      simp only [List.map_cons, h, if_true, Json.oget]
      have hne' : ¬ K.type = k := fun e => hk e.symm
      simp only [hne', if_false]
      simpa [h] using ih
    · simp only [List.map_cons, h, if_false, Json.oget]
      by_cases h2 : k' = k
      · simp [h2]
      · simp only [h2, if_false]; exact ih

theorem kw_retype_type (t : Str) (kvs : List (Str × Json)) (v : Json) (h : kw K.type kvs = some v) :
    kw K.type (retype t kvs) = some (Json.arr [.str t, .str T.null]) := by
  unfold kw retype at *
  induction kvs with
  | nil => simp [Json.oget] at h
  | cons p ps ih =>
    obtain ⟨k', v'⟩ := p
    by_cases hk : k' = K.type
    · simp [List.map_cons, hk, Json.oget]
    · simp only [List.map_cons, hk, if_false, Json.oget] at h ⊢
      exact ih h

theorem makeNullable_eq (kvs : List (Str × Json)) (t : Str) (h : kw K.type kvs = some (.str t)) :
    Impl.makeNullable (.obj kvs) = .obj (retype t kvs) := by
  simp only [Impl.makeNullable, h, retype]

/-- a non-null instance: the type array `[t, "null"]` accepts what `t` accepts. -/
theorem typeOk_retype (t : Str) (kvs : List (Str × Json)) (j : Json) (h : kw K.type kvs = some (.str t))
    (hj : j.isNull = false) : typeOk (retype t kvs) j = typeOk kvs j := by
  unfold typeOk
  rw [kw_retype_type t kvs _ h, h]
  simp [typeEntryAccepts, typeAccepts, hj]

theorem typeOk_retype_null (t : Str) (kvs : List (Str × Json)) (h : kw K.type kvs = some (.str t)) :
    typeOk (retype t kvs) .null = true := by
  unfold typeOk
  rw [kw_retype_type t kvs _ h]
  simp [typeEntryAccepts, typeAccepts, Json.isNull]

/-! every other keyword is read through `kw` with a key different from `type` -/

theorem leaf_rest_retype (t : Str) (kvs : List (Str × Json)) (j : Json) :
    enumOk (retype t kvs) j = enumOk kvs j ∧ constOk (retype t kvs) j = constOk kvs j ∧
    numericOk (retype t kvs) j = numericOk kvs j ∧ stringOk (retype t kvs) j = stringOk kvs j ∧
    arrayCountsOk (retype t kvs) j = arrayCountsOk kvs j ∧ objectCountsOk (retype t kvs) j = objectCountsOk kvs j := by
  refine ⟨?_, ?_, ?_, ?_, ?_, ?_⟩
  · simp only [enumOk, kw_retype_other t K.enum kvs (by decide)]
  · simp only [constOk, kw_retype_other t K.const kvs (by decide)]
  · simp only [numericOk, numBoundOk, kw_retype_other t K.minimum kvs (by decide), kw_retype_other t K.maximum kvs (by decide),
      kw_retype_other t K.exclusiveMinimum kvs (by decide), kw_retype_other t K.exclusiveMaximum kvs (by decide)]
  · simp only [stringOk, countOk, kw_retype_other t K.minLength kvs (by decide), kw_retype_other t K.maxLength kvs (by decide)]
  · simp only [arrayCountsOk, countOk, uniqueOk, kw_retype_other t K.minItems kvs (by decide), kw_retype_other t K.maxItems kvs (by decide),
      kw_retype_other t K.uniqueItems kvs (by decide)]
  · simp only [objectCountsOk, countOk, requiredOk, kw_retype_other t K.minProperties kvs (by decide),
      kw_retype_other t K.maxProperties kvs (by decide), kw_retype_other t K.required kvs (by decide)]

theorem applicators_retype (rec : Json → Json → Bool) (comps : List (Str × Json)) (t : Str) (kvs : List (Str × Json)) (j : Json) :
    applicatorsOk rec comps (retype t kvs) j = applicatorsOk rec comps kvs j := by
  simp only [applicatorsOk, refOk, itemsOk, propertiesOk, propsOf, allOfOk, anyOfOk, oneOfOk, notOk,
    kw_retype_other t K.ref kvs (by decide), kw_retype_other t K.items kvs (by decide),
    kw_retype_other t K.properties kvs (by decide), kw_retype_other t K.additionalProperties kvs (by decide),
    kw_retype_other t K.allOf kvs (by decide), kw_retype_other t K.anyOf kvs (by decide),
    kw_retype_other t K.oneOf kvs (by decide), kw_retype_other t K.not kvs (by decide)]

theorem decBoundsOk_retype (t : Str) (kvs : List (Str × Json)) (j : Json) :
    decBoundsOk (retype t kvs) j = decBoundsOk kvs j := by
  simp only [decBoundsOk, decBound, kw_retype_other t K.minimum kvs (by decide), kw_retype_other t K.maximum kvs (by decide),
    kw_retype_other t K.exclusiveMinimum kvs (by decide), kw_retype_other t K.exclusiveMaximum kvs (by decide)]

/-- **a nullable schema keeps every rule**: for an instance that is not `null`, the nullable
variant of a schema object with a single `type` accepts exactly what the plain schema accepts. -/
theorem accepts_makeNullable (comps : List (Str × Json)) (fuel : Nat) (kvs : List (Str × Json)) (t : Str) (j : Json)
    (h : kw K.type kvs = some (.str t)) (hj : j.isNull = false) :
    accepts comps fuel (Impl.makeNullable (.obj kvs)) j = accepts comps fuel (.obj kvs) j := by
  rw [makeNullable_eq kvs t h]
  unfold accepts
  simp only [decBoundsOk_retype]
  cases fuel with
  | zero => rfl
  | succ n =>
    obtain ⟨h1, h2, h3, h4, h5, h6⟩ := leaf_rest_retype t kvs j
    simp only [valid, objValid, leafOk, typeOk_retype t kvs j h hj, h1, h2, h3, h4, h5, h6, applicators_retype]

/-! the schema object of a scalar field has exactly one `type`, a single name -/

theorem kw_append_skip (k : Str) (a b : List (Str × Json)) (h : ∀ p ∈ a, p.1 ≠ k) : kw k (a ++ b) = kw k b := by
  unfold kw
  induction a with
  | nil => rfl
  | cons p ps ih =>
    obtain ⟨k', v⟩ := p
    have hk : ¬ k' = k := h (k', v) (List.mem_cons_self ..)
    simp only [List.cons_append, Json.oget, hk, if_false]
    exact ih (fun q hq => h q (List.mem_cons_of_mem _ hq))

theorem mem_optKw {k : Str} {o : Option Json} {p : Str × Json} (h : p ∈ Impl.optKw k o) : p.1 = k := by
  cases o with
  | none => simp [Impl.optKw] at h
  | some v => simp [Impl.optKw] at h; rw [h]

theorem mem_countKw {k : Str} {o : Option Nat} {p : Str × Json} (h : p ∈ Impl.countKw k o) : p.1 = k := by
  cases o with
  | none => simp [Impl.countKw] at h
  | some n =>
    simp only [Impl.countKw] at h
    split at h
    · simp at h
    · simp at h; rw [h]

theorem no_type_numericKws (g : NKind) (r : FieldRules) : ∀ p ∈ Impl.numericKws g r, p.1 ≠ K.type := by
  intro p hp
  simp only [Impl.numericKws, List.mem_append] at hp
  rcases hp with ((((h | h) | h) | h) | h) | h
  · rw [mem_optKw h]; decide
  · rw [mem_optKw h]; decide
  · rw [mem_optKw h]; decide
  · rw [mem_optKw h]; decide
  · rw [mem_optKw h]; decide
  · split at h
    · simp at h
    · simp at h; rw [h]; show K.enum ≠ K.type; decide

theorem no_type_stringCore (r : FieldRules) : ∀ p ∈ Impl.stringCore r, p.1 ≠ K.type := by
  intro p hp
  simp only [Impl.stringCore, Impl.stringCoreWith, List.mem_append] at hp
  rcases hp with ((h | h) | h) | h
  · rw [mem_countKw h]; decide
  · rw [mem_countKw h]; decide
  · split at h
    · simp at h
    · simp at h; rw [h]; show K.enum ≠ K.type; decide
  · rw [mem_optKw h]; decide

theorem no_type_stringAnn (r : FieldRules) : ∀ p ∈ Impl.stringAnn r, p.1 ≠ K.type := by
  intro p hp
  simp only [Impl.stringAnn, List.mem_append] at hp
  rcases hp with h | h
  · split at h
    · simp at h; rw [h]; show K.pattern ≠ K.type; decide
    · simp at h
  · rw [mem_optKw h]; decide

theorem no_type_scalarCore (k : FKind) (c : FCard) (r : FieldRules) : ∀ p ∈ Impl.scalarCore k c r, p.1 ≠ K.type := by
  intro p hp
  unfold Impl.scalarCore at hp
  split at hp
  · cases k with
    | string => exact no_type_stringCore r p hp
    | num nk =>
      simp only at hp
      split at hp
      · exact no_type_numericKws _ r p hp
      · simp at hp
    | bool => simp at hp
  · simp at hp

theorem no_type_scalarAnn (k : FKind) (c : FCard) (r : FieldRules) : ∀ p ∈ Impl.scalarAnn k c r, p.1 ≠ K.type := by
  intro p hp
  unfold Impl.scalarAnn at hp
  split at hp
  · cases k with
    | string => exact no_type_stringAnn r p hp
    | num nk => simp at hp
    | bool => simp at hp
  · simp at hp

theorem no_type_baseAnn (k : FKind) (i : Bool) : ∀ p ∈ Impl.baseAnn k i, p.1 ≠ K.type := by
  intro p hp
  cases k with
  | string => simp [Impl.baseAnn] at hp
  | bool => simp [Impl.baseAnn] at hp
  | num nk =>
    cases nk <;> cases i <;> simp [Impl.baseAnn] at hp <;>
      (first | (rw [hp]; decide) | (rcases hp with h | h <;> rw [h] <;> decide))

/-- the `type` of a scalar field's base schema. -/
def baseType (k : FKind) (i : Bool) : Str :=
  match Impl.baseCore k i with
  | (_, .str t) :: _ => t
  | _ => []

theorem kw_type_baseCore (k : FKind) (i : Bool) : kw K.type (Impl.baseCore k i) = some (.str (baseType k i)) := by
  cases k with
  | string => rfl
  | bool => rfl
  | num nk => cases nk <;> cases i <;> rfl

/-- the schema object of a scalar field and its single `type`. -/
theorem fieldSchema_scalar_type (k : FKind) (c : FCard) (i : Bool) (r : FieldRules) (hc : c.isScalar = true) :
    ∃ kvs, Impl.fieldSchema k c i r = .obj kvs ∧ kw K.type kvs = some (.str (baseType k i)) := by
  refine ⟨(Impl.scalarAnn k c r ++ Impl.baseAnn k i) ++ (Impl.scalarCore k c r ++ Impl.baseCore k i), ?_, ?_⟩
  · simp [Impl.fieldSchema, hc]
  · rw [kw_append_skip, kw_append_skip, kw_type_baseCore]
    · exact no_type_scalarCore k c r
    · intro p hp
      rcases List.mem_append.1 hp with h | h
      · exact no_type_scalarAnn k c r p h
      · exact no_type_baseAnn k i p h

end Sebuf.OaRules
