import Sebuf.Driver
import Sebuf.Bind
namespace Sebuf.Driver
open Lean (Json)
open Sebuf.Bind

inductive UV
  | i (v : Int) | b (v : Bool) | s (v : Str) | f (tok : Str) | fromBody
  | l (vs : List UV)   -- a `repeated` field: one element per occurrence of the parameter
deriving Repr

partial def uvJson : UV → Json
  | .i v => Json.mkObj [("int", Json.str (toString v))]
  | .b v => Json.mkObj [("bool", Json.bool v)]
  | .s v => Json.mkObj [("str", jstr v)]
  | .f t => Json.mkObj [("float", jstr t)]
  | .fromBody => Json.mkObj [("from_body", Json.bool true)]
  | .l vs => Json.mkObj [("list", Json.arr (vs.map uvJson).toArray)]

/-- `convertStringToFieldValue` over the regenerated table; floats are a library leaf: the
harness tells whether strconv.ParseFloat accepts the text. -/
def convertUrl (kind : String) (text : Str) (floatOk : Bool) : Option UV :=
  match lookupKind kind with
  | none => none
  | some (p, _) =>
    if p == "identity" then some (.s text)
    else if p == "ParseBool" then (parseBool text).map .b
    else if p == "ParseFloat" then (if floatOk then some (.f text) else none)
    else match convertInt kind text with
      | some (some v) => some (.i v)
      | _ => none

structure UrlParam where
  field : Str
  kind : String
  text : Option Str      -- none: parameter absent from the URL
  required : Bool
  floatOk : Bool
  isList : Bool
  /-- every occurrence of the parameter, with the library's ParseFloat verdict per occurrence (lists) -/
  texts : List (Str × Bool) := []

def urlParamOf (j : Json) : UrlParam :=
  { field := getStr j "f", kind := String.ofList (getStr j "kind"),
    text := (match j.getObjValAs? String "text" with | .ok s => some s.toList | .error _ => none),
    required := getBool j "required", floatOk := getBool j "float_ok", isList := getBool j "is_list",
    texts := (getStrList j "texts").zip ((getArr j "floats_ok").map fun b => match b with | Json.bool x => x | _ => false) }

/-- bind a list of URL parameters in order; first failure wins (HTTP 400 naming the field). -/
def bindParams (isPath : Bool) : List UrlParam → Fields UV → Except Str (Fields UV)
  | [], m => .ok m
  | p :: ps, m =>
    match p.text with
    | none =>
      if isPath then .error p.field           -- PathValue "" → missing required path parameter
      else if p.required then .error p.field else bindParams isPath ps m
    | some t =>
      if isPath && t == [] then .error p.field
      else if !isPath && p.isList then
        -- `for _, value := range values`: every occurrence is converted and appended
        match bindList (fun tv => convertUrl p.kind tv.1 tv.2) p.texts with
        | none => .error p.field
        | some vs => bindParams isPath ps (fset p.field (.l vs) m)
      else match convertUrl p.kind t p.floatOk with
        | none => .error p.field
        | some v => bindParams isPath ps (fset p.field v m)

def runOrder (bodyVerb : Bool) (path query : List UrlParam) (body : Option (List Str)) :
    List Step → Fields UV → Except Str (Fields UV)
  | [], m => .ok m
  | st :: rest, m =>
    match st with
    | .path => (bindParams true path m).bind (runOrder bodyVerb path query body rest)
    | .query => (bindParams false query m).bind (runOrder bodyVerb path query body rest)
    | .body =>
      if bodyVerb then
        match body with
        | none => runOrder bodyVerb path query body rest m
        | some fs => runOrder bodyVerb path query body rest (fs.map fun f => (f, UV.fromBody))
      else runOrder bodyVerb path query body rest m
    | _ => runOrder bodyVerb path query body rest m

def opBindCase (j : Json) : Json :=
  let path := (getArr j "path").map urlParamOf
  let query := (getArr j "query").map urlParamOf
  let body : Option (List Str) := match j.getObjVal? "body" with
    | .ok (Json.arr a) => some (a.toList.filterMap fun x => match x with | Json.str s => some s.toList | _ => none)
    | _ => none
  match runOrder (getBool j "body_verb") path query body currentOrder [] with
  | .error f => Json.mkObj [("status", Json.num 400), ("bad_field", jstr f)]
  | .ok m => Json.mkObj [("status", Json.num 200),
      ("fields", Json.mkObj (m.map fun p => (String.ofList p.1, uvJson p.2)))]

end Sebuf.Driver
