// Package plug builds the five sebuf plugins from /repo's current working tree and runs
// them the way protoc would: a CodeGeneratorRequest on stdin, a CodeGeneratorResponse on
// stdout.
package plug

import (
	"bytes"
	"context"
	"crypto/sha256"
	"encoding/hex"
	"fmt"
	"io"
	"io/fs"
	"os"
	"os/exec"
	"path/filepath"
	"sort"
	"strings"
	"sync"
	"syscall"
	"time"

	"google.golang.org/protobuf/proto"
	"google.golang.org/protobuf/types/pluginpb"

	"verif/harness/ir"
)

const (
	GoHTTP   = "protoc-gen-go-http"
	GoClient = "protoc-gen-go-client"
	TSClient = "protoc-gen-ts-client"
	TSServer = "protoc-gen-ts-server"
	OpenAPI  = "protoc-gen-openapiv3"
	ProtocGo = "protoc-gen-go"
)

var All = []string{GoHTTP, GoClient, TSClient, TSServer, OpenAPI}

func RepoDir() string {
	if d := os.Getenv("VERIF_REPO"); d != "" {
		return d
	}
	return "/repo"
}

func VerifDir() string {
	if d := os.Getenv("VERIF_DIR"); d != "" {
		return d
	}
	return "/verif"
}

func CacheDir() string { return filepath.Join(VerifDir(), ".cache") }

// TreeHash digests every Go source, go.mod and go.sum under the repo (working tree, not HEAD).
func TreeHash() (string, error) {
	h := sha256.New()
	root := RepoDir()
	var files []string
	err := filepath.WalkDir(root, func(p string, d fs.DirEntry, err error) error {
		if err != nil {
			return err
		}
		if d.IsDir() {
			n := d.Name()
			if n == ".git" || n == "node_modules" || n == "examples" || n == "docs" || n == "coverage" {
				return filepath.SkipDir
			}
			return nil
		}
		if strings.HasSuffix(p, ".go") && !strings.HasSuffix(p, "_test.go") || d.Name() == "go.mod" || d.Name() == "go.sum" {
			files = append(files, p)
		}
		return nil
	})
	if err != nil {
		return "", err
	}
	sort.Strings(files)
	for _, f := range files {
		b, err := os.ReadFile(f)
		if err != nil {
			return "", err
		}
		fmt.Fprintf(h, "%s %d\n", strings.TrimPrefix(f, root), len(b))
		h.Write(b)
	}
	return hex.EncodeToString(h.Sum(nil))[:16], nil
}

func goEnv() []string {
	env := os.Environ()
	out := env[:0:0]
	for _, e := range env {
		if strings.HasPrefix(e, "GOFLAGS=") || strings.HasPrefix(e, "GOPROXY=") || strings.HasPrefix(e, "GOTOOLCHAIN=") || strings.HasPrefix(e, "GOSUMDB=") {
			continue
		}
		out = append(out, e)
	}
	return append(out, "GOFLAGS=-mod=mod", "GOPROXY=off")
}

// GoEnv is the environment every go command of the harness uses (offline, cached toolchain).
func GoEnv() []string { return goEnv() }

var buildOnce sync.Once
var binDir string
var buildErr error

// BinDir builds (or reuses) the plugin binaries for the current tree and returns their directory.
func BinDir() (string, error) {
	buildOnce.Do(func() {
		th, err := TreeHash()
		if err != nil {
			buildErr = err
			return
		}
		dir := filepath.Join(CacheDir(), "bin-"+th)
		lock, err := lockFile(filepath.Join(CacheDir(), "lock"))
		if err != nil {
			buildErr = err
			return
		}
		defer lock.Close()
		if _, err := os.Stat(filepath.Join(dir, ".ok")); err == nil {
			binDir = dir
			return
		}
		// evict older builds
		ents, _ := os.ReadDir(CacheDir())
		for _, e := range ents {
			if strings.HasPrefix(e.Name(), "bin-") && e.Name() != "bin-"+th {
				os.RemoveAll(filepath.Join(CacheDir(), e.Name()))
			}
		}
		if err := os.MkdirAll(dir, 0o755); err != nil {
			buildErr = err
			return
		}
		cmd := exec.Command("go", "build", "-o", dir+"/", "./cmd/...")
		cmd.Dir = RepoDir()
		cmd.Env = goEnv()
		if out, err := cmd.CombinedOutput(); err != nil {
			buildErr = fmt.Errorf("building plugins from %s failed: %v\n%s", RepoDir(), err, out)
			os.RemoveAll(dir)
			return
		}
		os.WriteFile(filepath.Join(dir, ".ok"), []byte(th), 0o644)
		binDir = dir
	})
	return binDir, buildErr
}

var toolOnce sync.Once
var toolDir string
var toolErr error

// ToolDir holds protoc-gen-go built from the module cache (independent of /repo).
func ToolDir() (string, error) {
	toolOnce.Do(func() {
		dir := filepath.Join(CacheDir(), "tools")
		lock, err := lockFile(filepath.Join(CacheDir(), "lock"))
		if err != nil {
			toolErr = err
			return
		}
		defer lock.Close()
		if _, err := os.Stat(filepath.Join(dir, ProtocGo)); err == nil {
			toolDir = dir
			return
		}
		os.MkdirAll(dir, 0o755)
		cmd := exec.Command("go", "build", "-o", filepath.Join(dir, ProtocGo), "google.golang.org/protobuf/cmd/protoc-gen-go")
		cmd.Dir = filepath.Join(VerifDir(), "harness")
		cmd.Env = goEnv()
		if out, err := cmd.CombinedOutput(); err != nil {
			toolErr = fmt.Errorf("building protoc-gen-go failed: %v\n%s", err, out)
			return
		}
		toolDir = dir
	})
	return toolDir, toolErr
}

func lockFile(path string) (*os.File, error) {
	os.MkdirAll(filepath.Dir(path), 0o755)
	f, err := os.OpenFile(path, os.O_CREATE|os.O_RDWR, 0o644)
	if err != nil {
		return nil, err
	}
	if err := syscall.Flock(int(f.Fd()), syscall.LOCK_EX); err != nil {
		f.Close()
		return nil, err
	}
	return f, nil
}

// Result is what one plugin run produced.
type Result struct {
	Plugin   string
	Crash    string // "", "timeout", "crash", "oom", "badoutput"
	ExitCode int
	Stderr   string
	Error    *string           // CodeGeneratorResponse.error
	Files    map[string]string // name -> content
	Order    []string          // file names in response order
	Raw      []byte
	Wall     time.Duration
}

func (r *Result) OK() bool { return r.Crash == "" && r.Error == nil }

// Outcome is the canonical class used in correspondence: ok | error | crash | timeout.
func (r *Result) Outcome() string {
	switch {
	case r.Crash != "":
		return r.Crash
	case r.Error != nil:
		return "error"
	default:
		return "ok"
	}
}

type RunOpts struct {
	Timeout  time.Duration
	MemLimit string // GOMEMLIMIT
	Env      []string
}

// Run executes one plugin on a request.
func Run(plugin string, req *ir.Request, opts *RunOpts) (*Result, error) {
	cgr, err := req.ToCodeGenRequest()
	if err != nil {
		return nil, err
	}
	return RunRaw(plugin, cgr, opts)
}

func RunRaw(plugin string, cgr *pluginpb.CodeGeneratorRequest, opts *RunOpts) (*Result, error) {
	var dir string
	var err error
	if plugin == ProtocGo {
		dir, err = ToolDir()
	} else {
		dir, err = BinDir()
	}
	if err != nil {
		return nil, err
	}
	in, err := proto.Marshal(cgr)
	if err != nil {
		return nil, err
	}
	to := 30 * time.Second
	if opts != nil && opts.Timeout > 0 {
		to = opts.Timeout
	}
	ctx, cancel := context.WithTimeout(context.Background(), to)
	defer cancel()
	cmd := exec.CommandContext(ctx, filepath.Join(dir, plugin))
	cmd.Stdin = bytes.NewReader(in)
	var stdout, stderr bytes.Buffer
	cmd.Stdout = &stdout
	cmd.Stderr = &limitWriter{w: &stderr, n: 1 << 16}
	mem := "2GiB"
	if opts != nil && opts.MemLimit != "" {
		mem = opts.MemLimit
	}
	cmd.Env = append(os.Environ(), "GOMEMLIMIT="+mem)
	if opts != nil {
		cmd.Env = append(cmd.Env, opts.Env...)
	}
	start := time.Now()
	runErr := cmd.Run()
	res := &Result{Plugin: plugin, Wall: time.Since(start), Stderr: stderr.String(), Files: map[string]string{}}
	if ctx.Err() == context.DeadlineExceeded {
		res.Crash = "timeout"
		return res, nil
	}
	if runErr != nil {
		if ee, ok := runErr.(*exec.ExitError); ok {
			res.ExitCode = ee.ExitCode()
		}
		// protogen.Options.Run exits 1 and prints to stderr only on malformed input; a plugin
		// that answers with an error still exits 0. Any non-zero exit is a crash.
		res.Crash = "crash"
		return res, nil
	}
	var resp pluginpb.CodeGeneratorResponse
	if err := proto.Unmarshal(stdout.Bytes(), &resp); err != nil {
		res.Crash = "badoutput"
		return res, nil
	}
	res.Raw = stdout.Bytes()
	if resp.Error != nil {
		e := resp.GetError()
		res.Error = &e
	}
	for _, f := range resp.File {
		res.Files[f.GetName()] = f.GetContent()
		res.Order = append(res.Order, f.GetName())
	}
	return res, nil
}

type limitWriter struct {
	w io.Writer
	n int
}

func (l *limitWriter) Write(p []byte) (int, error) {
	if l.n <= 0 {
		return len(p), nil
	}
	q := p
	if len(q) > l.n {
		q = q[:l.n]
	}
	l.n -= len(q)
	l.w.Write(q)
	return len(p), nil
}
