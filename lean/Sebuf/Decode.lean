import Sebuf.Surgery
import Sebuf.Bytes
import Sebuf.Gen.Decoders
import Sebuf.Gen.Pipeline
/-!
The DECODE side of the generated Go server, one body member at a time.

`Impl`: every generated `UnmarshalJSON` of the surgery family parses the body into a Go
`map[string]json.RawMessage` (last binding of a duplicate key wins), runs one edit per annotated
field and hands the re-marshalled map to `protojson.Unmarshal`. The edits are transcribed from
the emitted text (`Gen.Decoders.editBlocks`, tied in `Props/C11.lean`): each one converts the
member when the conversion succeeds and otherwise LEAVES THE MEMBER AS IT IS (`Edit.keep`) — the
conversion error is dropped, and whether the body is refused is left to protojson.

`Spec`: `reading` says what a member means under the documented mapping: the declared form with
its value, the standard proto3 JSON form (`canonical`: protojson, a library leaf, is the
reference; admitted only where the declared and the standard form cannot be confused), or
`invalid` — a body holding such a member must not be dispatched. `decodesFully` demands a
reading for EVERY binding of the body, shadowed duplicates included.

Library leaves (`PJ`): protojson's reading of a member, Go's `time.Format`. They enter
theorems through the contract `PJ.OK`; the correspondence check replays them on the real library.
-/
namespace Sebuf.Decode
open Sebuf Sebuf.Json Sebuf.Surgery

/-! ### what a member contributes to the message -/

inductive FV
  | unset
  | int (i : Int)
  | ints (l : List Int)
  | ts (secs : Int) (nanos : Nat)
  | bytes (b : Bytes)
  | emptyMsg
  | other (j : Json)      -- a member the model does not interpret, as protojson reads it
deriving DecidableEq, Repr

/-! ### encoding/json leaves (what `json.Unmarshal(raw, &x)` does for the Go types the edits use) -/

def inRange64 (unsigned : Bool) (n : Int) : Bool :=
  if unsigned then decide (0 ≤ n ∧ n < 2 ^ 64) else decide (-(2 ^ 63 : Int) ≤ n ∧ n < 2 ^ 63)

/-- `var n int64 / uint64; json.Unmarshal(raw, &n)`: a literal in integer form within range; JSON
`null` is a no-op that reports success (n stays 0). `JNum.int` is a literal of the form
`-?(0|[1-9][0-9]*)`; every other numeral is a `JNum.float` token and is refused. -/
def goInt (unsigned : Bool) : Json → Option Int
  | .null => some 0
  | .num (.int n) => if inRange64 unsigned n then some n else none
  | _ => none

def goIntElems (unsigned : Bool) : List Json → Option (List Int)
  | [] => some []
  | j :: t =>
    match goInt unsigned j, goIntElems unsigned t with
    | some n, some r => some (n :: r)
    | _, _ => none

/-- `var nums []int64; json.Unmarshal(raw, &nums)`: `null` gives the nil slice; a `null` ELEMENT
leaves the zero value in place. -/
def goIntList (unsigned : Bool) : Json → Option (List Int)
  | .null => some []
  | .arr l => goIntElems unsigned l
  | _ => none

/-- `var s string; json.Unmarshal(raw, &s)`. -/
def goStr : Json → Option Str
  | .null => some []
  | .str s => some s
  | _ => none

/-! ### dates (`time.Parse("2006-01-02", s)` and the civil calendar) -/

def isLeap (y : Int) : Bool := (y % 4 == 0 && y % 100 != 0) || y % 400 == 0

def daysIn (y : Int) (m : Nat) : Nat :=
  match m with
  | 1 | 3 | 5 | 7 | 8 | 10 | 12 => 31
  | 4 | 6 | 9 | 11 => 30
  | 2 => if isLeap y then 29 else 28
  | _ => 0

/-- days since 1970-01-01 of a proleptic Gregorian date (Hinnant's `days_from_civil`). -/
def daysFromCivil (y : Int) (m d : Nat) : Int :=
  let y' : Int := if m ≤ 2 then y - 1 else y
  let era : Int := y' / 400
  let yoe : Int := y' - era * 400
  let mp : Int := if m > 2 then (m : Int) - 3 else (m : Int) + 9
  let doy : Int := (153 * mp + 2) / 5 + (d : Int) - 1
  let doe : Int := yoe * 365 + yoe / 4 - yoe / 100 + doy
  era * 146097 + doe - 719468

def digits2 (a b : Char) : Option Nat :=
  match charDigit a, charDigit b with
  | some x, some y => some (x * 10 + y)
  | _, _ => none

/-- `time.Parse("2006-01-02", s)`: exactly `YYYY-MM-DD`, month 1..12, day valid for the month;
the result as days since the epoch. -/
def parseDate : Str → Option Int
  | [y1, y2, y3, y4, '-', m1, m2, '-', d1, d2] =>
    match digits2 y1 y2, digits2 y3 y4, digits2 m1 m2, digits2 d1 d2 with
    | some a, some b, some m, some d =>
      let y : Int := (a * 100 + b : Nat)
      if 1 ≤ m ∧ m ≤ 12 ∧ 1 ≤ d ∧ d ≤ daysIn y m then some (daysFromCivil y m d) else none
    | _, _, _, _ => none
  | _ => none

/-- the Timestamp range protojson (and the well-known type) admits: 0001-01-01 .. 9999-12-31. -/
def tsInRange (secs : Int) : Bool := decide (-62135596800 ≤ secs ∧ secs ≤ 253402300799)

/-! ### protojson readings (library leaf) -/

def toBytes (s : Str) : List Nat := s.map Char.toNat
def ofBytes (b : List Nat) : Str := b.map Char.ofNat

/-- protojson `unmarshalBytes`: URL alphabet when the text holds `-` or `_`, unpadded when the
length is not a multiple of 4. -/
def pjBytes (s : Str) : Option Bytes :=
  let t := toBytes s
  let url := t.any fun c => c == 45 || c == 95
  let pad := t.length % 4 == 0
  b64DecodeCore url pad (t.filter b64Keep)

structure PJ where
  /-- `time.Unix(secs, nanos).Format(time.RFC3339Nano)` -/
  rfc    : Int → Nat → Str
  /-- protojson on a 64-bit integer member (`unsigned`); `null` reads as 0 -/
  int64  : Bool → Json → Option Int
  int64s : Bool → Json → Option (List Int)
  /-- protojson on a Timestamp member; `some none`: `null`, the field stays unset -/
  ts     : Json → Option (Option (Int × Nat))
  /-- protojson on a bytes member given as a string -/
  bytes  : Str → Option Bytes
  /-- does protojson accept member `key : value` of a message (un-annotated member) -/
  plain  : Str → Json → Bool

/-- what the model assumes of the leaves (replayed on the real library by the harness). -/
structure PJ.OK (pj : PJ) : Prop where
  int64_str  : ∀ u n, inRange64 u n = true → pj.int64 u (.str (intToDec n)) = some n
  int64_num  : ∀ u n, inRange64 u n = true → pj.int64 u (.num (.int n)) = some n
  int64_null : ∀ u, pj.int64 u .null = some 0
  int64s_strs : ∀ u l, (∀ n ∈ l, inRange64 u n = true) → pj.int64s u (.arr (l.map fun n => .str (intToDec n))) = some l
  int64s_nums : ∀ u l, (∀ n ∈ l, inRange64 u n = true) → pj.int64s u (.arr (l.map fun n => .num (.int n))) = some l
  int64s_null : ∀ u, pj.int64s u .null = some []
  /-- protojson refuses `null` as an element of a repeated field -/
  int64s_null_elem : ∀ u l, Json.null ∈ l → pj.int64s u (.arr l) = none
  /-- protojson reads back what `time.Format(time.RFC3339Nano)` printed, within the Timestamp range only -/
  ts_rfc  : ∀ s n, n < 1000000000 → pj.ts (.str (pj.rfc s n)) = if tsInRange s then some (some (s, n)) else none
  ts_null : pj.ts .null = some none
  /-- a JSON number is not a Timestamp -/
  ts_num  : ∀ x, pj.ts (.num x) = none
  /-- protojson reads back the standard-base64 re-encoding of whatever Go's decoders produced -/
  bytes_std : ∀ e s b, sebufBytesDecode e (toBytes s) = some b → pj.bytes (ofBytes (b64Encode .std b)) = some b

/-! ### templates -/

inductive Tpl
  | plain
  | int64 (unsigned : Bool)
  | int64s (unsigned : Bool)
  | nullable
  | emptyNull
  | tsSecs | tsMillis | tsDate
  | bytes (enc : Nat)          -- sebuf BytesEncoding number: 2 BASE64_RAW, 3 BASE64URL, 4 BASE64URL_RAW, 5 HEX
deriving DecidableEq, Repr

inductive Edit
  | keep
  | replace (j : Json)
  | delete
deriving DecidableEq, Repr

namespace Impl

/-- the generated edit of one member (transcribed from `Gen.Decoders.editBlocks`). Every failing
conversion ends in `keep`: nothing is reported. -/
def editMember (pj : PJ) : Tpl → Json → Edit
  | .plain, _ => .keep
  | .int64 u, j =>
    match goInt u j with
    | some n => .replace (.str (intToDec n))
    | none => .keep
  | .int64s u, j =>
    match goIntList u j with
    | some l => .replace (.arr (l.map fun n => .str (intToDec n)))
    | none => .keep
  | .nullable, j => if j = .null then .delete else .keep
  | .emptyNull, j => if j = .null then .replace (.obj []) else .keep
  | .tsSecs, j =>
    match goInt false j with
    | some n => .replace (.str (pj.rfc n 0))
    | none => .keep
  | .tsMillis, j =>
    match goInt false j with
    | some n => .replace (.str (pj.rfc (n / 1000) ((n % 1000).toNat * 1000000)))
    | none => .keep
  | .tsDate, j =>
    match goStr j with
    | some s => (match parseDate s with
        | some d => .replace (.str (pj.rfc (d * 86400) 0))
        | none => .keep)
    | none => .keep
  | .bytes e, j =>
    match goStr j with
    | some s => (match sebufBytesDecode e (toBytes s) with
        | some b => .replace (.str (ofBytes (b64Encode .std b)))
        | none => .keep)
    | none => .keep

end Impl

/-- protojson's typed reading of a member of a field decoded by template `t`. -/
def pjRead (pj : PJ) (k : Str) : Tpl → Json → Option FV
  | .int64 u, j => (pj.int64 u j).map .int
  | .int64s u, j => (pj.int64s u j).map .ints
  | .tsSecs, j | .tsMillis, j | .tsDate, j =>
    (pj.ts j).map fun o => match o with | none => .unset | some (s, n) => .ts s n
  | .bytes _, j =>
    match j with
    | .null => some (.bytes [])        -- no presence: `null` is the default, the empty byte string
    | .str s => (pj.bytes s).map .bytes
    | _ => none
  | .emptyNull, j => if j = .obj [] then some .emptyMsg else if pj.plain k j then some (.other j) else none
  | _, j => if pj.plain k j then some (.other j) else none

namespace Impl

/-- what the server ends up with for one member: the edit, then protojson. `none`: HTTP 400. -/
def memberOutcome (pj : PJ) (k : Str) (t : Tpl) (j : Json) : Option FV :=
  match editMember pj t j with
  | .keep => pjRead pj k t j
  | .replace j' => pjRead pj k t j'
  | .delete => some .unset

/-- `map[string]json.RawMessage` of an object: the LAST binding of a key wins. -/
def goMap : Obj → Obj
  | [] => []
  | (k, v) :: t => if t.any (fun p => p.1 == k) then goMap t else (k, v) :: goMap t

def applyEdit (k : Str) (e : Edit) (raw : Obj) : Obj :=
  match e with
  | .keep => raw
  | .replace j => oset k j raw
  | .delete => odel k raw

def tplOf (tpls : List (Str × Tpl)) (k : Str) : Tpl := (tpls.lookup k).getD .plain

/-- the object handed to `protojson.Unmarshal`. -/
def surgery (pj : PJ) (tpls : List (Str × Tpl)) (raw : Obj) : Obj :=
  tpls.foldl (fun r p => match oget p.1 r with
    | some j => applyEdit p.1 (editMember pj p.2 j) r
    | none => r) (goMap raw)

def decodeMembers (pj : PJ) (tpls : List (Str × Tpl)) : Obj → Option (List (Str × FV))
  | [] => some []
  | (k, j) :: t =>
    match memberOutcome pj k (tplOf tpls k) j, decodeMembers pj tpls t with
    | some v, some r => some ((k, v) :: r)
    | _, _ => none

/-- the message the handler receives for a JSON object body (`none`: HTTP 400). Edits touch only
their own key, so the member-wise reading of the Go map is what protojson sees. -/
def decodeObj (pj : PJ) (tpls : List (Str × Tpl)) (raw : Obj) : Option (List (Str × FV)) :=
  decodeMembers pj tpls (goMap raw)

end Impl

namespace Spec

inductive Reading
  | value (v : FV)
  | canonical
  | invalid
deriving DecidableEq, Repr

/-- the documented mapping, one member: `value` for the declared form; `canonical` where the
standard proto3 JSON form of the field is admitted next to it (a decimal string or a number for a
64-bit integer; an RFC 3339 string for a Timestamp — another JSON type than a unix number, another
syntax than a date; any base64 variant for a base64 variant — all variants agree wherever two of
them accept the same text; `null` for "unset"); `invalid` otherwise. HEX admits hexadecimal text
only: hex and base64 overlap on texts they read differently (`hex_base64_conflict`). -/
def reading : Tpl → Json → Reading
  | .plain, _ => .canonical
  | .int64 _, _ => .canonical
  | .int64s _, _ => .canonical
  | .nullable, j => if j = .null then .value .unset else .canonical
  | .emptyNull, j => if j = .null then .value .emptyMsg else .canonical
  | .tsSecs, j =>
    match j with
    | .num (.int n) => if tsInRange n then .value (.ts n 0) else .invalid
    | _ => .canonical
  | .tsMillis, j =>
    match j with
    | .num (.int n) => if tsInRange (n / 1000) then .value (.ts (n / 1000) ((n % 1000).toNat * 1000000)) else .invalid
    | _ => .canonical
  | .tsDate, j =>
    match j with
    | .str s => (match parseDate s with
        | some d => if tsInRange (d * 86400) then .value (.ts (d * 86400) 0) else .invalid
        | none => .canonical)
    | _ => .canonical
  | .bytes e, j =>
    match j with
    | .str s => (match sebufBytesDecode e (toBytes s) with
        | some b => .value (.bytes b)
        | none => if e = 5 then .invalid else .canonical)
    | _ => .canonical

/-- the meaning of a member (`none`: it has none, the body is not decodable). -/
def memberMeaning (pj : PJ) (k : Str) (t : Tpl) (j : Json) : Option FV :=
  match reading t j with
  | .value v => some v
  | .canonical => pjRead pj k t j
  | .invalid => none

def decodeMembers (pj : PJ) (tpls : List (Str × Tpl)) : Obj → Option (List (Str × FV))
  | [] => some []
  | (k, j) :: t =>
    match memberMeaning pj k (Impl.tplOf tpls k) j, decodeMembers pj tpls t with
    | some v, some r => some ((k, v) :: r)
    | _, _ => none

/-- every binding of the body — shadowed duplicates included — has a meaning. -/
def decodesFully (pj : PJ) (tpls : List (Str × Tpl)) (raw : Obj) : Bool := (decodeMembers pj tpls raw).isSome

end Spec

/-- the members on which the dropped conversion error is harmless: outside these the generated
decoder builds a value the documented mapping does not give the member (witnesses in
`Props/C11.lean`). -/
def hasNull : List Json → Bool
  | [] => false
  | j :: t => j.isNull || hasNull t

def swallowSafe : Tpl → Json → Bool
  | .int64s _, .arr l => !hasNull l
  | .tsSecs, j | .tsMillis, j => !j.isNull
  | .bytes 5, .str s => (hexDecode (toBytes s)).isSome
  | _, _ => true

/-! ### members that are handed to encoding/json for a child struct (flatten, flattened oneof) -/

def lowerAscii (s : Str) : Str := s.map fun c => if 'A' ≤ c ∧ c ≤ 'Z' then Char.ofNat (c.toNat + 32) else c

/-- encoding/json finds the struct field of a key by its json tag, exactly or case-insensitively. -/
def goTagMatch (key tag : Str) : Bool := lowerAscii key == lowerAscii tag

/-- does encoding/json decode the member the generated code files under `key` into a field of
the Go struct (whose json tags are `tags`)? If not, the member is dropped without an error. -/
def childKeyDecoded (tags : List Str) (key : Str) : Bool := tags.any (goTagMatch key)

namespace Impl
/-- `none`: error (400); `some none`: member ignored, nothing decoded; `some (some v)`: decoded. -/
def childMember (tags : List Str) (key : Str) (goField : Json → Option FV) (j : Json) : Option (Option FV) :=
  if childKeyDecoded tags key then (goField j).map some else some none
end Impl
namespace Spec
def childMember (meaning : Json → Option FV) (j : Json) : Option (Option FV) := (meaning j).map some
end Spec

/-! ### root unwrap of scalars: `json.Unmarshal(data, &x.Items)` -/

namespace Impl
/-- `[]int32` and friends: like `goIntList` (a `null` element leaves a zero). -/
def unwrapInts (data : Json) : Option (List Int) := goIntList false data
end Impl
namespace Spec
/-- the documented form is an array of numbers; `null` at the root is the empty list (the
server's own encoder prints it for an empty list). -/
def unwrapInts : Json → Option (List Int)
  | .null => some []
  | .arr l => l.foldr (fun j acc => match j, acc with
      | .num (.int n), some r => some (n :: r)
      | _, _ => none) (some [])
  | _ => none
end Spec

/-! ### the other generated decoders, at the points where they lose track of a member -/

namespace Impl
/-- encoding/json (flatten child, flattened-oneof variant, map-value-unwrap container, root
unwrap of strings): a string holding invalid UTF-8 is ACCEPTED, every bad byte replaced by
U+FFFD. -/
def goStringAccepts (_validUtf8 : Bool) : Bool := true

/-- flattened oneof: once the hoisted members are decoded the generated code assigns
`raw[variantKey], _ = json.Marshal(variant)`; a member the body itself carries under that key is
overwritten before anything reads it. -/
def oneofFlatAssign (variantKey : Str) (variant : Json) (raw : Obj) : Obj := oset variantKey variant raw

/-- map-value-unwrap container: the decoder reads its known keys out of the Go map and returns;
there is no protojson pass over the object, so no other member is ever looked at. -/
def containerLooksAt (known : List Str) (k : Str) : Bool := known.contains k
/-- `json.Unmarshal(data, &raw)` into a map: `null` gives the nil map — no keys, no error. -/
def containerRoot : Json → Option Obj
  | .null => some []
  | .obj kvs => some (goMap kvs)
  | _ => none
end Impl
namespace Spec
def stringAccepts (validUtf8 : Bool) : Bool := validUtf8
/-- a message body is a JSON object. -/
def containerRoot : Json → Option Obj
  | .obj kvs => some kvs
  | _ => none
end Spec

/-! ### the body of a 400 -/

inductive ErrBody | validationError | plainText
deriving DecidableEq, Repr

namespace Impl
/-- `writeProtoMessageResponse`: the ValidationError is marshalled with protojson / proto; both
refuse a string field that is not UTF-8, and the description quotes the decoder's error text,
which quotes bytes of the body. On a marshal error `http.Error(w, fallbackMsg, status)` sends
`text/plain`. -/
def errorBody (descriptionIsUtf8 : Bool) : ErrBody := if descriptionIsUtf8 then .validationError else .plainText
end Impl
namespace Spec
def errorBody (_descriptionIsUtf8 : Bool) : ErrBody := .validationError
end Spec

/-! ### elements of a root unwrap of scalars, whatever the scalar kind -/
namespace Impl
/-- encoding/json into a Go slice: a `null` element is skipped over (the zero value stays). -/
def unwrapElems (ok : Json → Bool) : Json → Bool
  | .null => true
  | .arr l => l.all fun j => j.isNull || ok j
  | _ => false
end Impl
namespace Spec
def unwrapElems (ok : Json → Bool) : Json → Bool
  | .null => true
  | .arr l => l.all fun j => !j.isNull && ok j
  | _ => false
end Spec

/-! ### reading the request body -/

/-- what `io.ReadAll(r.Body)` returned. -/
inductive ReadResult
  | complete (b : Bytes)
  | failed (got : Bytes) (unexpectedEOF : Bool)   -- a read error after `got`; `io.ErrUnexpectedEOF` or another error
deriving DecidableEq, Repr

inductive BodyIn
  | decode (b : Bytes)     -- these bytes go to the decoder
  | skip                   -- no decoding: the URL-bound message is dispatched as it is
  | reject                 -- HTTP 400
deriving DecidableEq, Repr

namespace Impl
/-- `bindDataFromJSONRequest`: error check first, then the empty check. -/
def readJSON : ReadResult → BodyIn
  | .failed _ _ => .reject
  | .complete b => if b.isEmpty then .skip else .decode b
/-- `bindDataFromBinaryRequest`: the empty check comes BEFORE the error check, and
`io.ErrUnexpectedEOF` is tolerated. -/
def readBinary : ReadResult → BodyIn
  | .complete b => if b.isEmpty then .skip else .decode b
  | .failed got eof => if got.isEmpty then .skip else if eof then .decode got else .reject
end Impl
namespace Spec
/-- a body that could not be read completely is not decoded. -/
def read : ReadResult → BodyIn
  | .failed _ _ => .reject
  | .complete b => if b.isEmpty then .skip else .decode b
end Spec

end Sebuf.Decode
