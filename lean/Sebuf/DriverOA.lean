import Sebuf.DriverC05
import Sebuf.OpenApi
namespace Sebuf.Driver

instance : Inhabited Sebuf.Json := ⟨Sebuf.Json.null⟩

/-- Lean.Json → model Json: integers stay exact; other numbers become float tokens. -/
partial def ofLeanJson : Lean.Json → Sebuf.Json
  | .null => .null
  | .bool b => .bool b
  | .num n => if n.exponent == 0 then .num (.int n.mantissa) else .num (.float (toString n).toList)
  | .str s => .str s.toList
  | .arr a => .arr (a.toList.map ofLeanJson)
  | .obj kvs => .obj (kvs.toList.map fun p => (p.1.toList, ofLeanJson p.2))

def strArr (l : List Str) : Lean.Json := Lean.Json.arr (l.map jstr).toArray

def opOaWf (j : Lean.Json) : Lean.Json :=
  let doc := ofLeanJson (j.getObjValD "doc")
  let wf := OpenApi.check doc
  let comps := OpenApi.components doc
  Lean.Json.mkObj [("refs_resolve", Lean.Json.bool wf.refsResolve), ("path_vars_declared", Lean.Json.bool wf.pathVarsDeclared),
    ("param_names_unique", Lean.Json.bool wf.paramNamesUnique), ("op_ids_unique", Lean.Json.bool wf.opIdsUnique),
    ("unresolved", strArr wf.unresolved), ("components", strArr (comps.map Prod.fst)),
    ("unknown_keywords", strArr ((comps.flatMap fun c => Schema.unknownKeywords c.2).eraseDups))]

/-- validate instances against a component (or inline) schema of a document. -/
def opSchemaValid (j : Lean.Json) : Lean.Json :=
  let comps := OpenApi.objOf (ofLeanJson (j.getObjValD "components"))
  let schema := ofLeanJson (j.getObjValD "schema")
  let insts := (getArr j "instances").map ofLeanJson
  Lean.Json.mkObj [("results", Lean.Json.arr (insts.map fun i =>
    let fuel := Schema.defaultFuel comps schema i
    Lean.Json.mkObj [("valid", Lean.Json.bool (Schema.valid comps fuel schema i)),
      ("undeclared", strArr (Schema.undeclared comps fuel schema i))]).toArray)]

end Sebuf.Driver
