/-!
Helper lemma for `Sebuf.Props.C13` (list plumbing). The property theorems are in
`Sebuf/Props/C13.lean`.
-/
namespace Sebuf.C13

theorem any_false_of {α} (l : List α) (p : α → Bool) (h : ∀ x ∈ l, p x = false) : l.any p = false := by
  induction l with
  | nil => rfl
  | cons a t ih =>
    simp only [List.any_cons, Bool.or_eq_false_iff]
    exact ⟨h a List.mem_cons_self, ih fun x hx => h x (List.mem_cons_of_mem _ hx)⟩

end Sebuf.C13
