package props

import (
	"google.golang.org/protobuf/encoding/protowire"
	"encoding/base64"
	"encoding/hex"
	"fmt"
	"strconv"
	"strings"
	"time"

	"google.golang.org/protobuf/encoding/protojson"
	"google.golang.org/protobuf/proto"
	"google.golang.org/protobuf/reflect/protoreflect"
	"google.golang.org/protobuf/types/dynamicpb"

	"verif/harness/gen"
	"verif/harness/ir"
)

// c11Shape is one request type on one route: which generated decoder reads its JSON body.
type c11Shape struct {
	x       *rtItem
	mi      *methodInfo
	kind    string // plain surgery flatten oneofflat oneofnest ulist umap mapval
	md      protoreflect.MessageDescriptor
	tpls    []map[string]any // driver form (surgery kind)
	tplOf   map[string]string // json key -> template name
	url     string
	urlOK   bool
	bound   []string // URL-bound field names
	feature string
}

func (sh *c11Shape) tplKeys() map[string]bool {
	out := map[string]bool{}
	for _, t := range sh.tpls {
		out[fmt.Sprint(t["key"])] = true
		if a, ok := t["alt"]; ok {
			out[fmt.Sprint(a)] = true
		}
	}
	return out
}

// tplOfAny: the template of a member key, JSON or proto spelling.
func (sh *c11Shape) tplOfAny(key string) string {
	for _, t := range sh.tpls {
		if t["key"] == key || t["alt"] == key {
			return fmt.Sprint(t["tpl"])
		}
	}
	return ""
}

func msgHasCodecAnn(m *ir.Message) bool {
	for _, f := range m.Fields {
		a := f.Ann
		if (a.Int64Enc == "NUMBER") || a.Nullable != nil || a.EmptyBehavior != "" ||
			(a.TsFormat != "" && a.TsFormat != "RFC3339") || (a.BytesEnc != "" && a.BytesEnc != "BASE64") {
			return true
		}
	}
	return false
}

func is64(k string) bool {
	return k == "int64" || k == "uint64" || k == "sint64" || k == "fixed64" || k == "sfixed64"
}

func decoderKind(req *ir.Request, m *ir.Message) string {
	for _, f := range m.Fields {
		if f.Ann.Flatten != nil && *f.Ann.Flatten {
			return "flatten"
		}
	}
	for _, o := range m.Oneofs {
		if o.HasConfig && o.Discriminator != nil && *o.Discriminator != "" {
			if o.Flatten {
				return "oneofflat"
			}
			return "oneofnest"
		}
	}
	if len(m.Fields) == 1 && m.Fields[0].Ann.Unwrap {
		if m.Fields[0].Card == "map" {
			return "umap"
		}
		return "ulist"
	}
	for _, f := range m.Fields {
		if f.Card == "map" && f.Kind == "message" {
			if vm, _ := req.FindMessage(f.TypeName); vm != nil {
				for _, vf := range vm.Fields {
					if vf.Ann.Unwrap {
						return "mapval"
					}
				}
			}
		}
	}
	if msgHasCodecAnn(m) {
		return "surgery"
	}
	return "plain"
}

var bytesEncNum = map[string]int{"BASE64_RAW": 2, "BASE64URL": 3, "BASE64URL_RAW": 4, "HEX": 5}

// surgeryTpls lists the per-field decode templates of a surgery message, in the driver's form.
func surgeryTpls(m *ir.Message) ([]map[string]any, map[string]string) {
	var out []map[string]any
	byKey := map[string]string{}
	add := func(f *ir.Field, t map[string]any) {
		t["key"] = f.JSON()
		if f.Name != f.JSON() {
			t["alt"] = f.Name
		}
		out = append(out, t)
		byKey[f.JSON()] = fmt.Sprint(t["tpl"])
	}
	for _, f := range m.Fields {
		a := f.Ann
		switch {
		case a.Int64Enc == "NUMBER" && is64(f.Kind) && f.Card == "":
			add(f, map[string]any{"tpl": "int64", "unsigned": f.Kind == "uint64" || f.Kind == "fixed64"})
		case a.Int64Enc == "NUMBER" && is64(f.Kind) && f.Card == "repeated":
			add(f, map[string]any{"tpl": "int64s", "unsigned": f.Kind == "uint64" || f.Kind == "fixed64"})
		case a.Nullable != nil && *a.Nullable:
			add(f, map[string]any{"tpl": "nullable"})
		case a.EmptyBehavior == "NULL" && f.Card == "":
			add(f, map[string]any{"tpl": "empty_null"})
		case a.TsFormat == "UNIX_SECONDS" && f.Card == "":
			add(f, map[string]any{"tpl": "ts_secs"})
		case a.TsFormat == "UNIX_MILLIS" && f.Card == "":
			add(f, map[string]any{"tpl": "ts_millis"})
		case a.TsFormat == "DATE" && f.Card == "":
			add(f, map[string]any{"tpl": "ts_date"})
		case bytesEncNum[a.BytesEnc] != 0 && f.Card == "":
			add(f, map[string]any{"tpl": "bytes", "enc": bytesEncNum[a.BytesEnc]})
		}
	}
	return out, byKey
}

// ---- the documented form of a value (body GENERATOR, not oracle) ----

func encodeBytesAs(enc string, b []byte) string {
	switch enc {
	case "HEX":
		return hex.EncodeToString(b)
	case "BASE64_RAW":
		return base64.RawStdEncoding.EncodeToString(b)
	case "BASE64URL":
		return base64.URLEncoding.EncodeToString(b)
	case "BASE64URL_RAW":
		return base64.RawURLEncoding.EncodeToString(b)
	}
	return base64.StdEncoding.EncodeToString(b)
}

// docForm rewrites the protojson form of a message into the documented wire form of its
// top-level annotations.
func docForm(req *ir.Request, m *ir.Message, kind string, pj *jn, r *gen.R) *jn {
	out := pj.clone()
	switch kind {
	case "surgery":
		for _, f := range m.Fields {
			k := f.JSON()
			v := out.get(k)
			a := f.Ann
			switch {
			case a.Int64Enc == "NUMBER" && is64(f.Kind):
				if v != nil && v.k == 's' {
					out.set(k, jNum(v.s))
				} else if v != nil && v.k == 'a' {
					for i, e := range v.arr {
						if e.k == 's' {
							v.arr[i] = jNum(e.s)
						}
					}
				}
			case a.Nullable != nil && *a.Nullable:
				if v == nil && r.Bool() {
					out.set(k, jNull())
				}
			case a.EmptyBehavior == "NULL":
				if v != nil && v.k == 'o' && len(v.obj) == 0 {
					out.set(k, jNull())
				}
			case a.TsFormat == "UNIX_SECONDS" || a.TsFormat == "UNIX_MILLIS" || a.TsFormat == "DATE":
				if v != nil && v.k == 's' {
					if t, err := time.Parse(time.RFC3339Nano, v.s); err == nil {
						switch a.TsFormat {
						case "UNIX_SECONDS":
							out.set(k, jNum(strconv.FormatInt(t.Unix(), 10)))
						case "UNIX_MILLIS":
							out.set(k, jNum(strconv.FormatInt(t.UnixMilli(), 10)))
						default:
							out.set(k, jStr(t.UTC().Format("2006-01-02")))
						}
					}
				}
			case bytesEncNum[a.BytesEnc] != 0:
				if v != nil && v.k == 's' {
					if b, err := base64.StdEncoding.DecodeString(v.s); err == nil {
						out.set(k, jStr(encodeBytesAs(a.BytesEnc, b)))
					}
				}
			}
		}
	case "flatten":
		for _, f := range m.Fields {
			if f.Ann.Flatten == nil || !*f.Ann.Flatten {
				continue
			}
			k := f.JSON()
			v := out.get(k)
			out.del(k)
			pfx := ""
			if f.Ann.FlattenPrefix != nil {
				pfx = *f.Ann.FlattenPrefix
			}
			if v != nil && v.k == 'o' {
				for _, cm := range v.obj {
					out.obj = append(out.obj, jmem{pfx + cm.key, cm.val})
				}
			}
		}
	case "oneofflat", "oneofnest":
		for _, o := range m.Oneofs {
			if !o.HasConfig || o.Discriminator == nil {
				continue
			}
			for _, f := range m.Fields {
				if f.Oneof != o.Name {
					continue
				}
				k := f.JSON()
				v := out.get(k)
				if v == nil {
					continue
				}
				tag := f.Name
				if f.Ann.OneofValue != nil {
					tag = *f.Ann.OneofValue
				}
				if o.Flatten && v.k == 'o' {
					out.del(k)
					out.obj = append(out.obj, jmem{*o.Discriminator, jStr(tag)})
					out.obj = append(out.obj, v.obj...)
				} else {
					out.obj = append([]jmem{{*o.Discriminator, jStr(tag)}}, out.obj...)
				}
			}
		}
	case "ulist", "umap":
		k := m.Fields[0].JSON()
		if v := out.get(k); v != nil {
			return v
		}
		if kind == "umap" {
			return &jn{k: 'o', obj: []jmem{}}
		}
		return &jn{k: 'a', arr: []*jn{}}
	case "mapval":
		for _, f := range m.Fields {
			if f.Card != "map" || f.Kind != "message" {
				continue
			}
			vm, _ := req.FindMessage(f.TypeName)
			uf := unwrapFieldOf(vm)
			if uf == nil {
				continue
			}
			if v := out.get(f.JSON()); v != nil && v.k == 'o' {
				for i, e := range v.obj {
					if inner := e.val.get(uf.JSON()); inner != nil {
						v.obj[i].val = inner
					} else {
						v.obj[i].val = &jn{k: 'a', arr: []*jn{}}
					}
				}
			}
		}
	}
	return out
}

func unwrapFieldOf(m *ir.Message) *ir.Field {
	if m == nil {
		return nil
	}
	for _, f := range m.Fields {
		if f.Ann.Unwrap {
			return f
		}
	}
	return nil
}

// ---- the reference decoder ----

// refVerdict is what the independent decoder says a body means.
type refVerdict struct {
	state string // ok | reject | unspecified
	msg   *dynamicpb.Message
	why   string
}

func pjDecode(md protoreflect.MessageDescriptor, b []byte) (*dynamicpb.Message, error) {
	m := dynamicpb.NewMessage(md)
	err := protojson.Unmarshal(b, m)
	return m, err
}

const tsMarker = "\x01TS:"

// materialiseTS replaces the driver's time.Format markers by the real rendering
// (`time.Unix(s, n).UTC().Format(time.RFC3339Nano)`, a library leaf).
func materialiseTS(n *jn) {
	n.walkStrings(func(s string) string {
		if !strings.HasPrefix(s, tsMarker) {
			return s
		}
		p := strings.Split(strings.TrimPrefix(s, tsMarker), ":")
		if len(p) != 2 {
			return s
		}
		secs, e1 := strconv.ParseInt(p[0], 10, 64)
		nanos, e2 := strconv.ParseInt(p[1], 10, 64)
		if e1 != nil || e2 != nil {
			// beyond int64: the real code never gets here (json.Unmarshal into int64 failed before)
			return "OUT-OF-RANGE"
		}
		return time.Unix(secs, nanos).UTC().Format(time.RFC3339Nano)
	})
}

// canonicalise turns the documented form of the structural templates (flatten, discriminated
// oneof, unwrap) into the proto3 JSON object protojson reads; transcribes Mapping.enc backwards,
// one level. why != "" : the body has no documented reading.
func canonicalise(sh *c11Shape, in *ir.Message, body *jn) (*jn, string) {
	req := sh.x.req
	switch sh.kind {
	case "ulist":
		if body.k == 'n' {
			return jObj(), "" // the server's own encoding of the empty list
		}
		if body.k != 'a' {
			return nil, "root unwrap of a list: the body is not an array"
		}
		return jObj(jmem{in.Fields[0].JSON(), body}), ""
	case "umap":
		if body.k == 'n' {
			return jObj(), ""
		}
		if body.k != 'o' {
			return nil, "root unwrap of a map: the body is not an object"
		}
		return jObj(jmem{in.Fields[0].JSON(), body}), ""
	}
	if body.k != 'o' {
		return nil, "the body is not a JSON object"
	}
	out := body.clone()
	switch sh.kind {
	case "flatten":
		for _, f := range in.Fields {
			if f.Ann.Flatten == nil || !*f.Ann.Flatten {
				continue
			}
			cm, _ := req.FindMessage(f.TypeName)
			if cm == nil {
				continue
			}
			pfx := ""
			if f.Ann.FlattenPrefix != nil {
				pfx = *f.Ann.FlattenPrefix
			}
			child := jObj()
			for _, cf := range cm.Fields {
				k := pfx + cf.JSON()
				for _, mem := range body.obj {
					if mem.key == k {
						child.obj = append(child.obj, jmem{cf.JSON(), mem.val})
					}
				}
				out.del(k)
			}
			if len(child.obj) > 0 {
				out.obj = append(out.obj, jmem{f.JSON(), child})
			}
		}
	case "oneofflat", "oneofnest":
		for _, o := range in.Oneofs {
			if !o.HasConfig || o.Discriminator == nil {
				continue
			}
			dv := body.get(*o.Discriminator)
			out.del(*o.Discriminator)
			if dv == nil || dv.k == 'n' {
				continue
			}
			if dv.k != 's' {
				return nil, "the discriminator is not a string"
			}
			if !o.Flatten {
				continue
			}
			for _, f := range in.Fields {
				if f.Oneof != o.Name {
					continue
				}
				tag := f.Name
				if f.Ann.OneofValue != nil {
					tag = *f.Ann.OneofValue
				}
				if tag != dv.s || f.Kind != "message" {
					continue
				}
				vm, _ := req.FindMessage(f.TypeName)
				if vm == nil {
					continue
				}
				variant := jObj()
				variant.obj = []jmem{}
				for _, vf := range vm.Fields {
					k := vf.JSON()
					for _, mem := range body.obj {
						if mem.key == k {
							variant.obj = append(variant.obj, jmem{k, mem.val})
						}
					}
					out.del(k)
				}
				out.obj = append(out.obj, jmem{f.JSON(), variant})
			}
		}
	case "mapval":
		for _, f := range in.Fields {
			if f.Card != "map" || f.Kind != "message" {
				continue
			}
			vm, _ := req.FindMessage(f.TypeName)
			uf := unwrapFieldOf(vm)
			if uf == nil {
				continue
			}
			v := out.get(f.JSON())
			if v == nil || v.k != 'o' {
				continue
			}
			for i, e := range v.obj {
				switch e.val.k {
				case 'a':
					v.obj[i].val = jObj(jmem{uf.JSON(), e.val})
				case 'n':
					v.obj[i].val = jObj() // an absent list
				default:
					return nil, "a map value of the unwrap container is not an array"
				}
			}
		}
	}
	return out, ""
}

// equalModuloBound compares two messages after clearing the URL-bound fields (their fate when a
// body is present is C02's subject).
func equalModuloBound(a, b proto.Message, bound []string) bool {
	x, y := proto.Clone(a), proto.Clone(b)
	for _, m := range []proto.Message{x, y} {
		r := m.ProtoReflect()
		for _, n := range bound {
			if fd := r.Descriptor().Fields().ByName(protoreflect.Name(n)); fd != nil {
				r.Clear(fd)
			}
		}
	}
	// unknown fields are compared as FIELDS, not as the bytes that carried them: the table-driven decoder of a
	// generated type keeps an unknown field under a re-encoded (minimal) tag, the reflective decoder behind the
	// reference keeps the sender's bytes, so a non-minimal tag varint would make two equal readings look different
	canonUnknown(x.ProtoReflect())
	canonUnknown(y.ProtoReflect())
	return proto.Equal(x, y)
}

func canonUnknown(r protoreflect.Message) {
	if raw := r.GetUnknown(); len(raw) > 0 {
		var out []byte
		b := []byte(raw)
		ok := true
		for len(b) > 0 {
			num, typ, n := protowire.ConsumeTag(b)
			if n < 0 {
				ok = false
				break
			}
			m := protowire.ConsumeFieldValue(num, typ, b[n:])
			if m < 0 {
				ok = false
				break
			}
			out = protowire.AppendTag(out, num, typ)
			out = append(out, b[n:n+m]...)
			b = b[n+m:]
		}
		if ok {
			r.SetUnknown(out)
		}
	}
	r.Range(func(fd protoreflect.FieldDescriptor, v protoreflect.Value) bool {
		switch {
		case fd.IsMap():
			if fd.MapValue().Message() != nil {
				v.Map().Range(func(_ protoreflect.MapKey, mv protoreflect.Value) bool {
					canonUnknown(mv.Message())
					return true
				})
			}
		case fd.IsList():
			if fd.Message() != nil {
				l := v.List()
				for i := 0; i < l.Len(); i++ {
					canonUnknown(l.Get(i).Message())
				}
			}
		case fd.Message() != nil:
			canonUnknown(v.Message())
		}
		return true
	})
}

func sampleURLValue(kind string) string {
	switch kind {
	case "string":
		return "x"
	case "bool":
		return "true"
	case "float", "double":
		return "1.5"
	}
	return "7"
}
