import Sebuf.Lemmas.Surgery
import Sebuf.Lemmas.Bytes
import Sebuf.Props.C14
/-!
# C04 — generated Go JSON codecs round-trip every message value

Every generated codec has the shape `protojson → raw map → per-field edit → json.Marshal`, and
the inverse edit before `protojson.Unmarshal`. protojson's own round trip is a library leaf
(trusted, and exercised by the harness); what sebuf adds are the EDITS. Proved here, for every
object, key and value: decode-edit ∘ encode-edit restores the protojson object the library
round-trips (int64 NUMBER, nullable, UNIX_SECONDS up to the documented sub-second loss, every
bytes encoding), and the go-http / go-client templates are the same program. The flatten template
resets the child it has just assigned (`flatten_child_lost`, known finding), the corrected order
would keep it. The harness runs real encode→decode on the emitted code for every generated
schema × value, and decodes `Spec` JSON (the canonical form another party produces).
-/
namespace Sebuf.C04
open Sebuf Sebuf.Surgery Sebuf.Json

/-- `int64_encoding = NUMBER`: encode-edit then decode-edit gives back the protojson object. -/
theorem int64_number_roundtrip (k : Str) (v : Int) (p : Obj) (hp : Int64Number.Contract k v p) :
    ObjEq (Int64Number.decEdit k (Int64Number.encEdit k v p)) p :=
  Int64Number.int64_number_roundtrip k v p hp

/-- and the string handed to protojson parses to the original integer (no precision loss in the
codec itself, any magnitude). -/
theorem int64_number_value (k : Str) (v : Int) (p : Obj) (hv : v ≠ 0) :
    (oget k (Int64Number.decEdit k (Int64Number.encEdit k v p))).map
      (fun j => match j with | str s => parseSigned s | _ => none) = some (some v) :=
  Int64Number.int64_number_reparse k v p hv

/-- `nullable`: explicit `null` on the wire, absent after decoding, set values untouched. -/
theorem nullable_roundtrip (k : Str) (unset : Bool) (p : Obj) (hp : Nullable.Contract k unset p) :
    ObjEq (Nullable.decEdit k (Nullable.encEdit k unset p)) p :=
  Nullable.nullable_roundtrip k unset p hp

/-- `timestamp_format = UNIX_SECONDS`: round trip up to the documented truncation — the decoded
object is the protojson object of the same message with `nanos = 0`. -/
theorem unix_seconds_roundtrip (rfcOfSecs : Int → Str) (rfcFull : Int → Nat → Str)
    (hrfc : ∀ s, rfcFull s 0 = rfcOfSecs s) (k : Str) (secs : Int) (nanos : Nat) (p₁ p₀ : Obj)
    (h₁ : UnixSeconds.Contract rfcFull k secs nanos p₁) (h₀ : UnixSeconds.Contract rfcFull k secs 0 p₀)
    (hother : ∀ k', k' ≠ k → oget k' p₁ = oget k' p₀) :
    ObjEq (UnixSeconds.decEdit rfcOfSecs k (UnixSeconds.encEdit k (some (secs, nanos)) p₁)) p₀ :=
  UnixSeconds.unix_seconds_roundtrip_lossy rfcOfSecs rfcFull hrfc k secs nanos p₁ p₀ h₁ h₀ hother

/-- every `bytes_encoding` (default, BASE64, BASE64_RAW, BASE64URL, BASE64URL_RAW, HEX and any
unknown enum number) decodes what it encodes, for every byte string. -/
theorem bytes_roundtrip (e : Nat) (bs : Bytes) (h : ∀ b ∈ bs, b < 256) :
    sebufBytesDecode e (sebufBytesEncode e bs) = some bs := sebufBytes_roundtrip e bs h

/-- go-http and go-client emit their codecs from byte-identical generator functions
(regenerated digests), so both outputs behave identically. -/
theorem http_client_templates_identical : Gen.Templates.httpgen = Gen.Templates.clientgen :=
  C14.templates_identical

/-- **flatten does not round-trip** (known finding): the template assigns the child and then lets
`protojson.Unmarshal` reset the message, whatever the JSON. -/
theorem flatten_loses_child (childKeys : List Str) (raw : Obj) :
    (flattenDecode childKeys raw).child = none := flatten_child_lost childKeys raw

/-- with the two steps in the other order the child would survive. -/
theorem flatten_other_order_keeps_child (childKeys : List Str) (raw : Obj)
    (h : extractChild childKeys raw ≠ []) :
    (flattenDecodeFixed childKeys raw).child = some (extractChild childKeys raw) :=
  flatten_fixed_keeps_child childKeys raw h

/-- non-vacuity: a protojson object meeting the int64 contract. -/
example : Int64Number.Contract "big".toList 5 [("a".toList, Json.bool true), ("big".toList, str (intToDec 5))] := by
  unfold Int64Number.Contract; decide

end Sebuf.C04
