/-
Decimal / boolean text conversions used by the emitted URL-binding code, over `List Char`.

Executable model of Go's `fmt.Sprint` / `strconv.FormatUint` / `strconv.FormatInt` (base 10),
`strconv.ParseUint(s, 10, bits)`, `strconv.ParseInt(s, 10, bits)`, `strconv.ParseBool` and
`strconv.FormatBool`. Everything is structurally recursive (fuel for `natToDec`) so that
`decide` evaluates closed instances. Theorems live in `Sebuf.Lemmas.Dec`.
-/
import Sebuf.Str

namespace Sebuf

/-- The ASCII digit for `d < 10` (`'9'` for anything larger; never reached by `natToDec`). -/
def digitChar : Nat → Char
  | 0 => '0'
  | 1 => '1'
  | 2 => '2'
  | 3 => '3'
  | 4 => '4'
  | 5 => '5'
  | 6 => '6'
  | 7 => '7'
  | 8 => '8'
  | _ => '9'

/-- Value of an ASCII digit `'0'..'9'`; `none` for every other character. -/
def charDigit (c : Char) : Option Nat :=
  if '0' ≤ c ∧ c ≤ '9' then some (c.toNat - 48) else none

/-- Most-significant-first decimal digits of `n` prepended to `acc`. `fuel` only has to
exceed the number of digits; `natToDec` passes `n + 1`. -/
def natToDecAux : Nat → Nat → Str → Str
  | 0, _, acc => acc
  | fuel + 1, n, acc =>
    if n < 10 then digitChar n :: acc
    else natToDecAux fuel (n / 10) (digitChar (n % 10) :: acc)

/-- `strconv.FormatUint(n, 10)` / `fmt.Sprint(n)`: `"0"` for 0, no leading zeros. -/
def natToDec (n : Nat) : Str := natToDecAux (n + 1) n []

/-- `strconv.FormatInt(v, 10)` / `fmt.Sprint(v)`: `-` prefix for negatives. -/
def intToDec : Int → Str
  | Int.ofNat n => natToDec n
  | Int.negSucc n => '-' :: natToDec (n + 1)

/-- Left-to-right digit accumulation; `none` on the first non-digit. -/
def parseDigitsAcc : Nat → Str → Option Nat
  | acc, [] => some acc
  | acc, c :: r =>
    match charDigit c with
    | some d => parseDigitsAcc (acc * 10 + d) r
    | none => none

/-- Non-empty run of ASCII digits (leading zeros allowed), as an unbounded natural. -/
def parseDigits : Str → Option Nat
  | [] => none
  | c :: r => parseDigitsAcc 0 (c :: r)

/-- `strconv.ParseUint(s, 10, bits)`: digits only (no sign, no underscores), `< 2^bits`. -/
def parseUint (bits : Nat) (s : Str) : Option Nat :=
  (parseDigits s).bind fun n => if n < 2 ^ bits then some n else none

/-- Optional single leading `+` / `-`, then `parseDigits`; unbounded. -/
def parseSigned : Str → Option Int
  | '-' :: r => (parseDigits r).map fun n => -(Int.ofNat n)
  | '+' :: r => (parseDigits r).map Int.ofNat
  | s => (parseDigits s).map Int.ofNat

/-- `strconv.ParseInt(s, 10, bits)`: `parseSigned` with the two's-complement range check. -/
def parseInt (bits : Nat) (s : Str) : Option Int :=
  (parseSigned s).bind fun v =>
    if -(2 ^ (bits - 1) : Int) ≤ v ∧ v ≤ 2 ^ (bits - 1) - 1 then some v else none

/-- `strconv.ParseBool`. -/
def parseBool : Str → Option Bool
  | ['1'] => some true
  | ['t'] => some true
  | ['T'] => some true
  | ['T', 'R', 'U', 'E'] => some true
  | ['t', 'r', 'u', 'e'] => some true
  | ['T', 'r', 'u', 'e'] => some true
  | ['0'] => some false
  | ['f'] => some false
  | ['F'] => some false
  | ['F', 'A', 'L', 'S', 'E'] => some false
  | ['f', 'a', 'l', 's', 'e'] => some false
  | ['F', 'a', 'l', 's', 'e'] => some false
  | _ => none

/-- `strconv.FormatBool`. -/
def formatBool : Bool → Str
  | true => ['t', 'r', 'u', 'e']
  | false => ['f', 'a', 'l', 's', 'e']

/-- The integer protobuf kinds the emitted binding code converts from URL text. -/
inductive NumKind
  | i32 | i64 | u32 | u64
  deriving DecidableEq, Repr

/-- Conversion table of the emitted code: which `strconv` call each kind goes through. -/
def parseKind : NumKind → Str → Option Int
  | .i32, s => parseInt 32 s
  | .i64, s => parseInt 64 s
  | .u32, s => (parseUint 32 s).map Int.ofNat
  | .u64, s => (parseUint 64 s).map Int.ofNat

/-- Value range of each kind. -/
def inRange : NumKind → Int → Prop
  | .i32, v => -(2 ^ 31 : Int) ≤ v ∧ v ≤ 2 ^ 31 - 1
  | .i64, v => -(2 ^ 63 : Int) ≤ v ∧ v ≤ 2 ^ 63 - 1
  | .u32, v => 0 ≤ v ∧ v < 2 ^ 32
  | .u64, v => 0 ≤ v ∧ v < 2 ^ 64

instance (k : NumKind) (v : Int) : Decidable (inRange k v) := by
  cases k <;> (unfold inRange; exact inferInstance)

/-- How the clients print an integer of any kind into a URL. -/
def printKind : Int → Str := intToDec

end Sebuf
