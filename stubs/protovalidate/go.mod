module buf.build/go/protovalidate

go 1.24.7

require (
	buf.build/gen/go/bufbuild/protovalidate/protocolbuffers/go v1.36.11-20260209202127-80ab13bee0bf.1
	google.golang.org/protobuf v1.36.11
)
