import Sebuf.Lemmas.OaRules
import Sebuf.Lemmas.OaNullable
import Sebuf.Gen.OaRules
/-!
# C19 — OpenAPI constraints accept exactly what the declared validation rules accept

`OaRules.Spec.satisfies` is the documented meaning of the supported buf.validate rules,
`OaRules.Impl.fieldSchema` the schema object the generator publishes for the field (as a reader
of the emitted document sees it), `OaRules.jsonForm` the JSON form of a value and
`OaRules.accepts` = `Schema.valid` plus exact decimal comparison of the four bound keywords.

`Full` is the property; it is FALSE for the code as it stands (`not_full`). What is proved for
all bounds and all values are the classes on which the generator is right (`…_partial`, each
naming its side conditions), and for every other class a kernel-checked counter-witness
(`w_…`): a concrete kind, rule and value where the schema's verdict differs from the rule's.
Each witness is replayed on the real plugin by `harness/props/c19.go`.

Ties to the source, regenerated on every run (`Gen.OaRules`, from `validation.go`):
`getter_matches_source`, `exclusive_literals_select_number`, `scalar_nodes_are_untagged`, `string_literals_are_tagged`,
`keyword_wiring`, `format_table`.

`pattern` is published verbatim and evaluated on neither side. Float printing (`strconv`) and
the YAML emitter/reader are library contracts checked by the correspondence runs.
-/
namespace Sebuf.C19
open Sebuf Sebuf.OaRules Sebuf.Schema

/-! ## the property -/

/-- the value has the shape the field's kind and cardinality give it. -/
def scalarTyped : FKind → Scalar → Bool
  | .string, .str _ => true
  | .num nk, .num (.int _) => true || nk.isFloat
  | .num nk, .num (.float _) => nk.isFloat
  | .bool, .bool _ => true
  | _, _ => false

def typed (k : FKind) : FCard → V → Bool
  | .single, .one s | .optional, .one s => scalarTyped k s
  | .repeated, .list l => l.all (scalarTyped k)
  | .map, .map kvs => kvs.all (fun p => scalarTyped k p.2)
  | _, _ => false

/-- **C19 as stated**: for every field kind, cardinality, encoding, rule set and value, the
generator answers and the published schema accepts the JSON form exactly when the rules accept
the value. -/
def Full : Prop :=
  ∀ (k : FKind) (c : FCard) (int64Number : Bool) (r : FieldRules) (v : V), typed k c v = true →
    Impl.crashes k c r = false ∧
    accepts [] 8 (Impl.fieldSchema k c int64Number r) (jsonForm k int64Number v) = Spec.satisfies k c r v

/-! ## ties to `internal/openapiv3/validation.go` (regenerated facts) -/

def getterName : NKind → String
  | .int32 => "GetInt32" | .sint32 => "GetSint32" | .sfixed32 => "GetSfixed32" | .uint32 => "GetUint32" | .fixed32 => "GetFixed32"
  | .int64 => "GetInt64" | .sint64 => "GetSint64" | .sfixed64 => "GetSfixed64" | .uint64 => "GetUint64" | .fixed64 => "GetFixed64"
  | .float => "GetFloat" | .double => "GetDouble"

/-- **which getter each kind consults**: the model's `Impl.getter` is the composition of the
kind switch of `extractValidationConstraints` with the getter each `apply…Constraints` reads:
every numeric kind reads the rule group of its OWN kind (since /repo 3ffb0a3; before, all 32-bit
integer kinds read `GetInt32()` and all 64-bit kinds `GetInt64()`: `getterBefore3ffb0a3`). -/
theorem getter_matches_source : ∀ nk ∈ NKind.all,
    ((Gen.OaRules.kindApply.lookup nk.name).bind fun f => Gen.OaRules.applyGetter.lookup f)
      = some (getterName (Impl.getter nk)) := by decide

/-- string, list and map rules are read through `GetString` / `GetRepeated` / `GetMap`. -/
theorem string_list_map_getters :
    ((Gen.OaRules.kindApply.lookup "string").bind fun f => Gen.OaRules.applyGetter.lookup f) = some "GetString" ∧
    ((Gen.OaRules.cardApply.lookup "IsList").bind fun f => Gen.OaRules.applyGetter.lookup f) = some "GetRepeated" ∧
    ((Gen.OaRules.cardApply.lookup "IsMap").bind fun f => Gen.OaRules.applyGetter.lookup f) = some "GetMap" := by decide

/-- every `base.DynamicValue` stored in `ExclusiveMinimum` / `ExclusiveMaximum` sets `N: 1` next
to `B` (commit de811c7), so libopenapi renders the numeric `B` side; there are two of them (gt
and lt) for each of the twelve numeric kinds (the eight integer kinds added by 3ffb0a3 share
`applyIntegerRules`, whose literals are attributed to each apply function that delegates to it). -/
theorem exclusive_literals_select_number :
    (∀ t ∈ Gen.OaRules.exclusiveLits, t.2.2.1 = ["N", "B"] ∧ t.2.2.2 = "1") ∧
    Gen.OaRules.exclusiveLits.length = 24 ∧
    (NKind.all.all fun nk => match Gen.OaRules.kindApply.lookup nk.name with
      | some f => (Gen.OaRules.exclusiveLits.filter (fun t => t.1 == f)).length == 2
      | none => false) = true := by decide

/-- every `const` / `enum` value is a `yaml.Node` with `Kind` and `Value` only: no `Tag`, no
quoting style. -/
theorem scalar_nodes_are_untagged : ∀ t ∈ Gen.OaRules.nodeLits, t.2.2 = ["Kind", "Value"] := by decide

/-- string `const` / `in` values are built by `stringNode`, whose literal carries `Tag: "!!str"`. -/
theorem string_literals_are_tagged :
    Gen.OaRules.nodeCalls = [("applyStringConstraints", "GetIn", "stringNode"), ("applyStringConstraints", "HasConst", "stringNode")] ∧
    Gen.OaRules.nodeHelpers = [("stringNode", ["Kind", "Tag", "Value"], "\"!!str\"")] ∧
    (Gen.OaRules.nodeLits.all fun t => t.1 != "applyStringConstraints") = true := by decide

/-- the rule accessor → schema keyword wiring the model transcribes. -/
theorem keyword_wiring :
    (NKind.all.all fun nk => match Gen.OaRules.kindApply.lookup nk.name with
      | some f =>
        [("HasGte", "Minimum"), ("HasGt", "ExclusiveMinimum"), ("HasLte", "Maximum"), ("HasLt", "ExclusiveMaximum"),
         ("HasConst", "Const"), ("GetIn", "Enum")].all fun p => Gen.OaRules.assigns.contains (f, p.1, p.2)
      | none => false) = true ∧
    ([("applyStringConstraints", "HasMinLen", "MinLength"), ("applyStringConstraints", "HasMaxLen", "MaxLength"),
      ("applyStringConstraints", "HasPattern", "Pattern"), ("applyStringConstraints", "GetIn", "Enum"),
      ("applyStringConstraints", "HasConst", "Const"), ("applyRepeatedConstraints", "HasMinItems", "MinItems"),
      ("applyRepeatedConstraints", "HasMaxItems", "MaxItems"), ("applyRepeatedConstraints", "GetUnique", "UniqueItems"),
      ("applyMapConstraints", "HasMinPairs", "MinProperties"), ("applyMapConstraints", "HasMaxPairs", "MaxProperties")].all
        fun t => Gen.OaRules.assigns.contains t) = true ∧
    Gen.OaRules.assigns.length = 95 := by decide

def Fmt.accessor : Fmt → String
  | .email => "GetEmail" | .uuid => "GetUuid" | .uri => "GetUri" | .hostname => "GetHostname"
  | .ip => "GetIp" | .ipv4 => "GetIpv4" | .ipv6 => "GetIpv6"

/-- **format names**: each well-known string rule of the property is published under the
matching format name, by the source's switch and by the model. -/
theorem format_table : ∀ f ∈ Fmt.all,
    Gen.OaRules.formatSwitch.lookup (Fmt.accessor f) = some (Spec.formatName f) ∧
    Impl.formatName f = Spec.formatName f := by decide

/-! ## required -/

/-- **required listing**: a field's JSON name is in the message schema's `required` list
exactly when its rules say `required`. -/
theorem required_listed_iff (fields : List (Str × FieldRules)) (n : Str) :
    n ∈ Impl.requiredList fields ↔ ∃ r, (n, r) ∈ fields ∧ r.required = true :=
  mem_requiredList fields n

example : Impl.requiredList [("a".toList, {required := true}), ("b".toList, {}), ("c".toList, {required := true})]
    = ["a".toList, "c".toList] := by decide

/-! ## classes on which schema acceptance = rule acceptance, for all bounds and all values -/

/-- **integers as JSON numbers** (`int32`, `sint32`, `sfixed32` fields; `int64`, `sint64`, `sfixed64`
fields with `int64_encoding = NUMBER`),
rules declared in the field's own group: `gt`, `gte`, `lt`, `lte`, `const`, `in` with any bounds
of magnitude ≤ 2^53 and ANY integer value. Partial: bounds beyond 2^53 are rounded by `float64`
(documented NUMBER limitation, `number_bound_rounds_beyond_2p53`). -/
theorem int_rules_iff_partial (nk : NKind) (int64Number : Bool) (hk : NumberJsonInt nk int64Number)
    (c : FCard) (hc : c.isScalar = true) (r : FieldRules) (hg : r.group = nk)
    (hgt : IntBound r.gt) (hgte : IntBound r.gte) (hlt : IntBound r.lt) (hlte : IntBound r.lte)
    (i : Int) (fuel : Nat) :
    accepts [] (fuel + 1) (Impl.fieldSchema (.num nk) c int64Number r)
        (jsonForm (.num nk) int64Number (.one (.num (.int i))))
      = Spec.satisfies (.num nk) c r (.one (.num (.int i))) :=
  int_rules_iff nk int64Number hk c hc r hg hgt hgte hlt hlte i fuel

example : accepts [] 3 (Impl.fieldSchema (.num .int32) .single false
      {group := .int32, gt := some ⟨.int 0, .int 0⟩, lt := some ⟨.int 100, .int 100⟩})
    (jsonForm (.num .int32) false (.one (.num (.int 99)))) = true := by decide
example : accepts [] 3 (Impl.fieldSchema (.num .int32) .single false
      {group := .int32, gt := some ⟨.int 0, .int 0⟩, lt := some ⟨.int 100, .int 100⟩})
    (jsonForm (.num .int32) false (.one (.num (.int 100)))) = false := by decide
example : accepts [] 3 (Impl.fieldSchema (.num .int32) .single false
      {group := .int32, gt := some ⟨.int 0, .int 0⟩, lt := some ⟨.int 100, .int 100⟩})
    (jsonForm (.num .int32) false (.one (.num (.int 0)))) = false := by decide
example : accepts [] 3 (Impl.fieldSchema (.num .int32) .single false
      {group := .int32, gte := some ⟨.int (-5), .int (-5)⟩, lte := some ⟨.int 7, .int 7⟩, numIn := [.int 7, .int 8]})
    (jsonForm (.num .int32) false (.one (.num (.int 7)))) = true := by decide
example : accepts [] 3 (Impl.fieldSchema (.num .int32) .single false
      {group := .int32, gte := some ⟨.int (-5), .int (-5)⟩, lte := some ⟨.int 7, .int 7⟩})
    (jsonForm (.num .int32) false (.one (.num (.int 8)))) = false := by decide

/-- **strings**: `min_len` / `max_len` in code points, `in`, `const`, for ANY string value and ANY
`in` / `const` literals (they are tagged `!!str` since the `!!str` fix: `string_literals_are_tagged`).
Partial: count bounds must fit `int64`, `max_len` must not be `0` (`w_zero_max_dropped`,
`w_count_wraps`). -/
theorem string_rules_iff_partial (c : FCard) (hc : c.isScalar = true) (int64Number : Bool) (r : FieldRules)
    (hmin : CountOK r.minLen) (hmax : CountPos r.maxLen)
    (s : Str) (fuel : Nat) :
    accepts [] (fuel + 1) (Impl.fieldSchema .string c int64Number r) (jsonForm .string int64Number (.one (.str s)))
      = Spec.satisfies .string c r (.one (.str s)) :=
  string_rules_iff c hc int64Number r hmin hmax s fuel

/-- non-vacuity at the literals that used to be re-typed: `const: "123"`, `in: ["true", ""]`. -/
example : accepts [] 3 (Impl.fieldSchema .string .single false {strConst := some "123".toList}) (jsonForm .string false (.one (.str "123".toList))) = true ∧
    accepts [] 3 (Impl.fieldSchema .string .single false {strIn := ["true".toList, []]}) (jsonForm .string false (.one (.str []))) = true ∧
    accepts [] 3 (Impl.fieldSchema .string .single false {strIn := ["true".toList, []]}) (jsonForm .string false (.one (.str "false".toList))) = false := by decide

/-- a syntactic class of values that stay strings: first character an ASCII letter, not a YAML
null / boolean word. -/
theorem safe_words_stay_strings {v : Str} (h : safeWord v = true) : staysString v = true :=
  staysString_of_safeWord h

example : safeWord "active".toList = true ∧ staysString "hello world".toList = true ∧
    staysString "a: b".toList = true ∧ staysString "-".toList = true := by decide
example : staysString "123".toList = false ∧ staysString "true".toList = false ∧
    staysString "null".toList = false ∧ staysString "".toList = false ∧ staysString "1.5".toList = false := by decide
example : accepts [] 3 (Impl.fieldSchema .string .single false {minLen := some 2, strIn := ["ab".toList, "héé".toList]})
    (jsonForm .string false (.one (.str "héé".toList))) = true := by decide

/-- **repeated string fields**: `min_items` / `max_items` / `unique`, any list. Partial:
`max_items ≠ 0`, counts fit `int64`. -/
theorem repeated_string_iff_partial (int64Number : Bool) (r : FieldRules)
    (hmin : CountOK r.minItems) (hmax : CountPos r.maxItems) (l : List Str) (fuel : Nat) :
    accepts [] (fuel + 2) (Impl.fieldSchema .string .repeated int64Number r)
        (jsonForm .string int64Number (.list (l.map Scalar.str)))
      = Spec.satisfies .string .repeated r (.list (l.map Scalar.str)) :=
  repeated_string_iff int64Number r hmin hmax l fuel

/-- **repeated int32 fields**: the same for integer items. -/
theorem repeated_int32_iff_partial (r : FieldRules)
    (hmin : CountOK r.minItems) (hmax : CountPos r.maxItems) (l : List Int) (fuel : Nat) :
    accepts [] (fuel + 2) (Impl.fieldSchema (.num .int32) .repeated false r)
        (jsonForm (.num .int32) false (.list (l.map fun i => Scalar.num (.int i))))
      = Spec.satisfies (.num .int32) .repeated r (.list (l.map fun i => Scalar.num (.int i))) :=
  repeated_int32_iff r hmin hmax l fuel

example : accepts [] 4 (Impl.fieldSchema .string .repeated false {minItems := some 1, maxItems := some 2, unique := true})
    (jsonForm .string false (.list [.str "a".toList, .str "a".toList])) = false := by decide
example : accepts [] 4 (Impl.fieldSchema .string .repeated false {minItems := some 1, maxItems := some 2, unique := true})
    (jsonForm .string false (.list [.str "a".toList, .str "b".toList])) = true := by decide

/-- **map<string,string> fields**: `min_pairs` / `max_pairs`, any map (distinct keys). Partial:
`max_pairs ≠ 0`, counts fit `int64`. -/
theorem map_pairs_iff_partial (r : FieldRules) (hmin : CountOK r.minPairs) (hmax : CountPos r.maxPairs)
    (kvs : List (Str × Str)) (hk : (kvs.map Prod.fst).Nodup) (fuel : Nat) :
    accepts [] (fuel + 2) (Impl.fieldSchema .string .map false r)
        (jsonForm .string false (.map (kvs.map fun p => (p.1, Scalar.str p.2))))
      = Spec.satisfies .string .map r (.map (kvs.map fun p => (p.1, Scalar.str p.2))) :=
  map_string_iff r hmin hmax kvs hk fuel

example : accepts [] 4 (Impl.fieldSchema .string .map false {minPairs := some 2})
    (jsonForm .string false (.map [("k".toList, .str []) ])) = false := by decide

/-- **float / double bounds** `gt` / `gte` / `lt` / `lte`, any decimal bounds and values.
Partial: in the `float` group every bound must print the same after `float64(float32)` widening
(`w_float_bound_widened`); `const` / `in` are covered separately (`float_in_const_iff_partial`). -/
theorem float_bounds_iff_partial (nk : NKind) (hk : nk = .float ∨ nk = .double) (int64Number : Bool)
    (c : FCard) (hc : c.isScalar = true) (r : FieldRules) (hg : r.group = nk)
    (hin : r.numIn = []) (hconst : r.numConst = none)
    (hgt : BoundParses r.gt) (hgte : BoundParses r.gte) (hlt : BoundParses r.lt) (hlte : BoundParses r.lte)
    (hw : nk = .float → WideExact r.gt ∧ WideExact r.gte ∧ WideExact r.lt ∧ WideExact r.lte)
    (x : JNum) (hx : Parses x) (fuel : Nat) :
    accepts [] (fuel + 1) (Impl.fieldSchema (.num nk) c int64Number r) (jsonForm (.num nk) int64Number (.one (.num x)))
      = Spec.satisfies (.num nk) c r (.one (.num x)) :=
  float_bounds_iff nk hk int64Number c hc r hg hin hconst hgt hgte hlt hlte hw x hx fuel

example : accepts [] 3 (Impl.fieldSchema (.num .double) .single false
      {group := .double, gt := some ⟨.float "0.1".toList, .float "0.1".toList⟩})
    (jsonForm (.num .double) false (.one (.num (.float "0.1".toList)))) = false := by decide
example : accepts [] 3 (Impl.fieldSchema (.num .double) .single false
      {group := .double, gt := some ⟨.float "0.1".toList, .float "0.1".toList⟩})
    (jsonForm (.num .double) false (.one (.num (.float "0.11".toList)))) = true := by decide

/-- **float / double `const` and `in`** (no bounds), any value. -/
theorem float_in_const_iff_partial (nk : NKind) (hk : nk = .float ∨ nk = .double) (int64Number : Bool)
    (c : FCard) (hc : c.isScalar = true) (r : FieldRules) (hg : r.group = nk)
    (hgt : r.gt = none) (hlt : r.lt = none) (hgte : r.gte = none) (hlte : r.lte = none)
    (x : JNum) (fuel : Nat) :
    accepts [] (fuel + 1) (Impl.fieldSchema (.num nk) c int64Number r) (jsonForm (.num nk) int64Number (.one (.num x)))
      = Spec.satisfies (.num nk) c r (.one (.num x)) :=
  float_in_const_iff nk hk int64Number c hc r hg hgt hlt hgte hlte x fuel

example : accepts [] 3 (Impl.fieldSchema (.num .double) .single false
      {group := .double, gte := some ⟨.float "0.1".toList, .float "0.1".toList⟩})
    (jsonForm (.num .double) false (.one (.num (.float "0.09".toList)))) = false := by decide

/-! ## counter-witnesses: classes on which the published schema and the rules disagree -/

def ib (i : Int) : NumB := ⟨.int i, .int i⟩

def kwOf (s : Json) (k : Str) : Option Json := match s with | .obj kvs => kw k kvs | _ => none

def ltRules : FieldRules := {group := .int32, lt := some (ib 100)}

/-- regression witness for commit de811c7 (known finding `exclusive_bound_published_as_false`,
now fixed). Before it `gt` / `lt` were published as `exclusiveMinimum: false` /
`exclusiveMaximum: false`: int32 field, `lt: 100`: the old keyword list holds the boolean
`false` under `exclusiveMaximum` and, read as a (malformed) 2020-12 keyword, rejects the
rule-satisfying `5`. Now the keyword is the number 100 and the schema draws the line exactly
where the rule does (99 accepted, 100 rejected). -/
theorem exclusive_bound_regression :
    (kw K.exclusiveMaximum (Impl.numericKwsBeforeDe811c7 .int32 ltRules)).map (Json.beq (.bool false)) = some true ∧
    Schema.valid [] 3 (.obj (Impl.numericKwsBeforeDe811c7 .int32 ltRules ++ Impl.base (.num .int32) false))
      (jsonForm (.num .int32) false (.one (.num (.int 5)))) = false ∧
    (kwOf (Impl.fieldSchema (.num .int32) .single false ltRules) K.exclusiveMaximum).map (Json.beq (.num (.int 100))) = some true ∧
    Spec.satisfies (.num .int32) .single ltRules (.one (.num (.int 99))) = true ∧
    accepts [] 3 (Impl.fieldSchema (.num .int32) .single false ltRules) (jsonForm (.num .int32) false (.one (.num (.int 99)))) = true ∧
    Spec.satisfies (.num .int32) .single ltRules (.one (.num (.int 100))) = false ∧
    accepts [] 3 (Impl.fieldSchema (.num .int32) .single false ltRules) (jsonForm (.num .int32) false (.one (.num (.int 100)))) = false := by
  decide

/-- a 64-bit field in its default encoding is `type: string`; numeric keywords never reject a
string. int64 field, `gte: 5`: the rule rejects `3`, the schema accepts `"3"`. -/
theorem w_int64_string_bounds :
    let r : FieldRules := {group := .int64, gte := some (ib 5), lte := some (ib 9007199254740993)}
    Spec.satisfies (.num .int64) .single r (.one (.num (.int 3))) = false ∧
    accepts [] 3 (Impl.fieldSchema (.num .int64) .single false r) (jsonForm (.num .int64) false (.one (.num (.int 3)))) = true ∧
    Json.beq (jsonForm (.num .int64) false (.one (.num (.int 3)))) (.str ['3']) = true := by decide

/-- ... and its `const` / `in` values are YAML numbers, which no JSON string equals. int64
field, `const: 7`: the rule accepts `7`, the schema rejects `"7"` (and everything else). -/
theorem w_int64_string_const :
    let r : FieldRules := {group := .int64, numConst := some (.int 7)}
    let r2 : FieldRules := {group := .int64, numIn := [.int 1, .int 2]}
    Spec.satisfies (.num .int64) .single r (.one (.num (.int 7))) = true ∧
    accepts [] 3 (Impl.fieldSchema (.num .int64) .single false r) (jsonForm (.num .int64) false (.one (.num (.int 7)))) = false ∧
    Spec.satisfies (.num .int64) .single r2 (.one (.num (.int 2))) = true ∧
    accepts [] 3 (Impl.fieldSchema (.num .int64) .single false r2) (jsonForm (.num .int64) false (.one (.num (.int 2)))) = false := by decide

def ownGroupRules (nk : NKind) : FieldRules := {group := nk, gte := some (ib 5), numConst := some (.int 7)}

/-- regression witness (entry `rule_group_not_read`, fixed by /repo 3ffb0a3): before, rules declared
in the `sint32`, `sfixed32`, `uint32`, `fixed32`, `sint64`, `sfixed64`, `uint64`, `fixed64` groups
(the only groups protovalidate accepts on those kinds) were never read — the old getter maps each of
these kinds to another group; now `gte: 5` on each such kind is published (`minimum: 5`) and the
schema rejects `3` as the rule does. -/
theorem w_rule_group_ignored :
    ∀ nk ∈ [NKind.sint32, .sfixed32, .uint32, .fixed32, .sint64, .sfixed64, .uint64, .fixed64],
      Impl.getterBefore3ffb0a3 nk ≠ nk ∧ Impl.getter nk = nk ∧
      (kwOf (Impl.fieldSchema (.num nk) .single true (ownGroupRules nk)) K.minimum).map (Json.beq (.num (.int 5))) = some true ∧
      Spec.satisfies (.num nk) .single (ownGroupRules nk) (.one (.num (.int 3))) = false ∧
      accepts [] 3 (Impl.fieldSchema (.num nk) .single true (ownGroupRules nk)) (jsonForm (.num nk) true (.one (.num (.int 3)))) = false := by
  decide

/-- **every numeric kind publishes the rules of its own group**: the keywords of a scalar numeric
field are the keywords of ITS group, for all twelve kinds and all rules. -/
theorem own_group_rules_published (nk : NKind) (c : FCard) (hc : c.isScalar = true) (r : FieldRules) (hg : r.group = nk) :
    Impl.scalarCore (.num nk) c r = Impl.numericKws nk r := by
  simp [Impl.scalarCore, hc, Impl.getter, hg]

def inRules : FieldRules := {strIn := ["a".toList, "123".toList, "".toList]}

/-- regression witness (entry `string_const_in_retyped`, fixed by the `!!str` fix): before, a string
`const` / `in` value that reads as a YAML number, boolean or null was published as that (`const: "123"`
became the number 123) and the schema rejected the only value the rule accepts; now the same schemas
accept exactly what the rules accept. -/
theorem w_string_const_retyped :
    (∀ v ∈ ["123".toList, "true".toList, "null".toList, "1.5".toList, "-7".toList, "~".toList],
      Spec.satisfies .string .single {strConst := some v} (.one (.str v)) = true ∧
      accepts [] 3 (Impl.stringSchemaBeforeFix {strConst := some v}) (jsonForm .string false (.one (.str v))) = false ∧
      accepts [] 3 (Impl.fieldSchema .string .single false {strConst := some v}) (jsonForm .string false (.one (.str v))) = true) ∧
    (Spec.satisfies .string .single inRules (.one (.str "123".toList)) = true ∧
      accepts [] 3 (Impl.stringSchemaBeforeFix inRules) (jsonForm .string false (.one (.str "123".toList))) = false ∧
      accepts [] 3 (Impl.fieldSchema .string .single false inRules) (jsonForm .string false (.one (.str "123".toList))) = true ∧
      Spec.satisfies .string .single inRules (.one (.str [])) = true ∧
      accepts [] 3 (Impl.stringSchemaBeforeFix inRules) (jsonForm .string false (.one (.str []))) = false ∧
      accepts [] 3 (Impl.fieldSchema .string .single false inRules) (jsonForm .string false (.one (.str []))) = true) := by decide

/-- with `format=json` the YAML 1.1 booleans are still re-typed: the tagged scalar `No` is written plain
(a YAML 1.2 reader keeps it a string), and the JSON document is made by re-reading that text with a
YAML 1.1 library: `const: "No"` is `false` there. -/
theorem w_string_const_yaml11_in_json :
    (kwOf (Impl.fieldSchemaJson .string .single false {strConst := some "No".toList}) K.const).map (Json.beq (.bool false)) = some true ∧
    Spec.satisfies .string .single {strConst := some "No".toList} (.one (.str "No".toList)) = true ∧
    accepts [] 3 (Impl.fieldSchemaJson .string .single false {strConst := some "No".toList})
      (jsonForm .string false (.one (.str "No".toList))) = false ∧
    accepts [] 3 (Impl.fieldSchema .string .single false {strConst := some "No".toList})
      (jsonForm .string false (.one (.str "No".toList))) = true := by decide

/-- regression witness (entry `string_const_empty_no_document`, fixed by the `!!str` fix): before,
`string.const = ""` made the generator die (nil dereference while rendering) and publish nothing;
now it publishes `const: ""`, which accepts exactly the empty string. -/
theorem w_string_const_empty_crash :
    Impl.crashesBeforeFix .string .single {strConst := some []} = true ∧
    Impl.crashes .string .single {strConst := some []} = false ∧
    Spec.satisfies .string .single {strConst := some []} (.one (.str [])) = true ∧
    accepts [] 3 (Impl.fieldSchema .string .single false {strConst := some []}) (jsonForm .string false (.one (.str []))) = true ∧
    accepts [] 3 (Impl.fieldSchema .string .single false {strConst := some []}) (jsonForm .string false (.one (.str "x".toList))) = false := by decide

/-- a `float` bound is widened with `float64(float32)`: `gte: 0.1` is published as
`minimum: 0.10000000149011612`, which rejects the JSON form `0.1` of the float32 value 0.1
that satisfies the rule; `lt: 0.1` is published as `exclusiveMaximum: 0.10000000149011612`,
which accepts the `0.1` the rule rejects. -/
theorem w_float_bound_widened :
    let r : FieldRules := {group := .float, gte := some ⟨.float "0.1".toList, .float "0.10000000149011612".toList⟩}
    let r2 : FieldRules := {group := .float, lt := some ⟨.float "0.1".toList, .float "0.10000000149011612".toList⟩}
    Spec.satisfies (.num .float) .single r (.one (.num (.float "0.1".toList))) = true ∧
    accepts [] 3 (Impl.fieldSchema (.num .float) .single false r)
      (jsonForm (.num .float) false (.one (.num (.float "0.1".toList)))) = false ∧
    Spec.satisfies (.num .float) .single r2 (.one (.num (.float "0.1".toList))) = false ∧
    accepts [] 3 (Impl.fieldSchema (.num .float) .single false r2)
      (jsonForm (.num .float) false (.one (.num (.float "0.1".toList)))) = true := by decide

/-- `max_len: 0`, `max_items: 0`, `max_pairs: 0` (only the empty value is allowed) are dropped
by the renderer: the schema accepts everything. -/
theorem w_zero_max_dropped :
    (Spec.satisfies .string .single {maxLen := some 0} (.one (.str ['a'])) = false ∧
     accepts [] 3 (Impl.fieldSchema .string .single false {maxLen := some 0}) (jsonForm .string false (.one (.str ['a']))) = true) ∧
    (Spec.satisfies .string .repeated {maxItems := some 0} (.list [.str ['a']]) = false ∧
     accepts [] 4 (Impl.fieldSchema .string .repeated false {maxItems := some 0}) (jsonForm .string false (.list [.str ['a']])) = true) ∧
    (Spec.satisfies .string .map {maxPairs := some 0} (.map [(['k'], .str ['a'])]) = false ∧
     accepts [] 4 (Impl.fieldSchema .string .map false {maxPairs := some 0}) (jsonForm .string false (.map [(['k'], .str ['a'])])) = true) := by decide

/-- count rules are converted with `int64(uint64)`: `max_len: 18446744073709551615` ("no
limit") is published as `maxLength: -1`, which rejects every string. -/
theorem w_count_wraps :
    let r : FieldRules := {maxLen := some 18446744073709551615}
    (kwOf (Impl.fieldSchema .string .single false r) K.maxLength).map (Json.beq (.num (.int (-1)))) = some true ∧
    Spec.satisfies .string .single r (.one (.str [])) = true ∧
    accepts [] 3 (Impl.fieldSchema .string .single false r) (jsonForm .string false (.one (.str []))) = false := by decide

/-- not a finding (the generator itself warns that NUMBER loses precision beyond 2^53): a bound
above 2^53 is rounded by `float64`. -/
theorem number_bound_rounds_beyond_2p53 :
    let r : FieldRules := {group := .int64, gte := some (ib 9007199254740993)}
    (kwOf (Impl.fieldSchema (.num .int64) .single true r) K.minimum).map (Json.beq (.num (.int 9007199254740992))) = some true ∧
    Spec.satisfies (.num .int64) .single r (.one (.num (.int 9007199254740992))) = false ∧
    accepts [] 3 (Impl.fieldSchema (.num .int64) .single true r)
      (jsonForm (.num .int64) true (.one (.num (.int 9007199254740992)))) = true := by decide

/-- **the property as stated does not hold** for the generator as it is. -/
theorem not_full : ¬ Full := by
  intro h
  have := (h (.num .int64) .single false {group := .int64, numConst := some (.int 7)} (.one (.num (.int 7))) (by decide)).2
  revert this
  decide

/-! ### nullable fields -/

/-- **a nullable field keeps every rule keyword**: for every scalar kind, every rule set and every
JSON value other than `null`, the schema published for the field with `(sebuf.http.nullable)`
(`type: [T, "null"]`) accepts exactly what the schema without the annotation accepts — so every
`…_partial` theorem above carries over to nullable fields unchanged. -/
theorem nullable_keeps_rules (k : FKind) (c : FCard) (i : Bool) (r : FieldRules) (hc : c.isScalar = true)
    (fuel : Nat) (j : Json) (hj : j.isNull = false) :
    accepts [] fuel (Impl.fieldSchemaN true k c i r) j = accepts [] fuel (Impl.fieldSchema k c i r) j := by
  obtain ⟨kvs, hs, ht⟩ := fieldSchema_scalar_type k c i r hc
  simp only [Impl.fieldSchemaN, hc, Bool.and_self, if_true, hs]
  exact accepts_makeNullable [] fuel kvs _ j ht hj

/-- without the annotation nothing changes. -/
theorem not_nullable_same (k : FKind) (c : FCard) (i : Bool) (r : FieldRules) :
    Impl.fieldSchemaN false k c i r = Impl.fieldSchema k c i r := by simp [Impl.fieldSchemaN]

/-- non-vacuity and the regression the seeded change C19-r2-2 made (exclusive bounds dropped from the
nullable copy): `optional int32 [nullable, gt: 0, lt: 10]` publishes both exclusive bounds, rejects 0
and 10, accepts 5 and `null`. -/
theorem w_nullable_exclusive_bounds :
    let r : FieldRules := {group := .int32, gt := some (ib 0), lt := some (ib 10)}
    let s := Impl.fieldSchemaN true (.num .int32) .optional false r
    (kwOf s K.exclusiveMinimum).isSome ∧ (kwOf s K.exclusiveMaximum).isSome ∧
    accepts [] 3 s (.num (.int 0)) = false ∧ accepts [] 3 s (.num (.int 10)) = false ∧
    accepts [] 3 s (.num (.int 5)) = true ∧ accepts [] 3 s .null = true := by decide

/-- **tie**: nothing but the ABSENCE of rules keeps a field's rules from being translated or its `required` flag from
being read: the early returns that precede the translation test nil-ness only and make no call — no option, kind or
name of the field is consulted (regenerated from `extractValidationConstraints` / `checkIfFieldRequired` and the
helper that fetches the rules, if any; seed C19-r8-1 returned early for every `ignore` other than unspecified, which
dropped the constraints of `IGNORE_IF_ZERO_VALUE` fields whose rules still bind every non-zero value). -/
theorem rules_read_whenever_present : Gen.OaRules.guardCalls = [] := by decide

end Sebuf.C19
