package props

import (
	"encoding/json"
	"fmt"
	"math"
	"math/big"
	"regexp"
	"sort"
	"strings"
	"sync"

	"google.golang.org/protobuf/proto"
	"google.golang.org/protobuf/reflect/protoreflect"
	"google.golang.org/protobuf/types/dynamicpb"

	"verif/harness/drv"
	"verif/harness/gen"
	"verif/harness/ir"
	"verif/harness/scratch"
)

func init() {
	Registry["C05"] = func(c *Ctx) error { return codecCheck(c, "C05") }
	Registry["C04"] = func(c *Ctx) error { return codecCheck(c, "C04") }
}

// normJSON makes real JSON (json.Number) and model JSON ({"$int"|"$float": text}) comparable:
// numbers become exact rationals in text form, object keys are sorted by encoding/json.
func normJSON(v any) any {
	switch x := v.(type) {
	case json.Number:
		if r, ok := new(big.Rat).SetString(x.String()); ok {
			return map[string]any{"#": r.RatString()}
		}
		return map[string]any{"#": x.String()}
	case map[string]any:
		if len(x) == 1 {
			for _, k := range []string{"$int", "$float"} {
				if t, ok := x[k].(string); ok {
					if r, ok := new(big.Rat).SetString(t); ok {
						return map[string]any{"#": r.RatString()}
					}
					return map[string]any{"#": t}
				}
			}
		}
		out := map[string]any{}
		for k, e := range x {
			out[k] = normJSON(e)
		}
		return out
	case []any:
		out := make([]any, len(x))
		for i, e := range x {
			out[i] = normJSON(e)
		}
		return out
	}
	return v
}

// firstDiff returns the path of the first difference between two normalised JSON trees.
func firstDiff(a, b any, path string) string {
	am, aok := a.(map[string]any)
	bm, bok := b.(map[string]any)
	if aok && bok {
		keys := map[string]bool{}
		for k := range am {
			keys[k] = true
		}
		for k := range bm {
			keys[k] = true
		}
		var ks []string
		for k := range keys {
			ks = append(ks, k)
		}
		sort.Strings(ks)
		for _, k := range ks {
			av, ain := am[k]
			bv, bin := bm[k]
			if ain != bin {
				return path + "/" + k
			}
			if d := firstDiff(av, bv, path+"/"+k); d != "" {
				return d
			}
		}
		return ""
	}
	al, aok := a.([]any)
	bl, bok := b.([]any)
	if aok && bok {
		if len(al) != len(bl) {
			return path + "/#len"
		}
		for i := range al {
			if d := firstDiff(al[i], bl[i], fmt.Sprintf("%s/%d", path, i)); d != "" {
				return d
			}
		}
		return ""
	}
	if !jsonEq(a, b) {
		if path == "" {
			return "/"
		}
		return path
	}
	return ""
}

var featNames = []string{"Int64", "Enumval", "Enumnum", "Nullable", "Empty", "Ts", "Bytes", "Flatten", "Oneof", "Unwrap", "Plain", "Parent", "Leaf",
	"TextVariant", "ImageVariant", "BarList", "KeepList"}

var _ = regexp.MustCompile

// featureOf names the codec feature a generated message exercises (GenAnnotFile names messages
// after their feature).
func featureOf(msgName string) string {
	n := strings.TrimPrefix(msgName, "T")
	for _, f := range featNames {
		if strings.HasPrefix(msgName, f) || strings.HasPrefix(n, f) {
			return strings.ToLower(f)
		}
	}
	return strings.ToLower(msgName)
}

// lossyAll applies every documented loss everywhere in the message: sub-second truncation for
// UNIX_SECONDS, sub-millisecond for UNIX_MILLIS, time of day for DATE, presence of an empty
// message under OMIT.
func lossyAll(req *ir.Request, full string, m protoreflect.Message) {
	im, _ := req.FindMessage(full)
	if im == nil {
		return
	}
	for _, f := range im.Fields {
		fd := m.Descriptor().Fields().ByName(protoreflect.Name(f.Name))
		if fd == nil || !m.Has(fd) {
			continue
		}
		fixTS := func(ts protoreflect.Message) {
			sfd := ts.Descriptor().Fields().ByName("seconds")
			nfd := ts.Descriptor().Fields().ByName("nanos")
			secs, nanos := ts.Get(sfd).Int(), ts.Get(nfd).Int()
			switch f.Ann.TsFormat {
			case "UNIX_SECONDS":
				nanos = 0
			case "UNIX_MILLIS":
				nanos = nanos / 1000000 * 1000000
			case "DATE":
				nanos = 0
				secs = secs - ((secs%86400)+86400)%86400
			}
			ts.Set(sfd, protoreflect.ValueOfInt64(secs))
			ts.Set(nfd, protoreflect.ValueOfInt32(int32(nanos)))
		}
		switch {
		case fd.IsMap():
			if fd.MapValue().Kind() == protoreflect.MessageKind {
				m.Get(fd).Map().Range(func(_ protoreflect.MapKey, v protoreflect.Value) bool {
					lossyAll(req, f.TypeName, v.Message())
					return true
				})
			}
		case fd.IsList():
			if fd.Kind() == protoreflect.MessageKind {
				l := m.Get(fd).List()
				for i := 0; i < l.Len(); i++ {
					if f.TypeName == ".google.protobuf.Timestamp" {
						fixTS(l.Get(i).Message())
					} else {
						lossyAll(req, f.TypeName, l.Get(i).Message())
					}
				}
			}
		case fd.Kind() == protoreflect.MessageKind:
			child := m.Mutable(fd).Message()
			if f.TypeName == ".google.protobuf.Timestamp" {
				fixTS(child)
				continue
			}
			lossyAll(req, f.TypeName, child)
			if f.Ann.EmptyBehavior == "OMIT" {
				empty := true
				child.Range(func(protoreflect.FieldDescriptor, protoreflect.Value) bool { empty = false; return false })
				if empty {
					m.Clear(fd)
				}
			}
		}
	}
}

func lossyEqual(req *ir.Request, full string, a, b proto.Message) bool {
	x := proto.Clone(a)
	y := proto.Clone(b)
	lossyAll(req, full, x.ProtoReflect())
	lossyAll(req, full, y.ProtoReflect())
	return proto.Equal(x, y)
}

// codecLossyEqual is lossyEqual plus the one loss the flatten mapping has by construction: a
// flattened child without populated fields contributes no member, so "empty child" and "no child"
// have the same documented JSON.
func codecLossyEqual(req *ir.Request, full string, a, b proto.Message) bool {
	x := proto.Clone(a)
	y := proto.Clone(b)
	for _, m := range []proto.Message{x, y} {
		lossyAll(req, full, m.ProtoReflect())
		dropEmptyFlattenChildren(req, full, m.ProtoReflect())
	}
	return proto.Equal(x, y)
}

func dropEmptyFlattenChildren(req *ir.Request, full string, m protoreflect.Message) {
	im, _ := req.FindMessage(full)
	if im == nil {
		return
	}
	for _, f := range im.Fields {
		if f.Ann.Flatten == nil || !*f.Ann.Flatten || f.Kind != "message" || f.Card == "repeated" || f.Card == "map" {
			continue
		}
		fd := m.Descriptor().Fields().ByName(protoreflect.Name(f.Name))
		if fd == nil || !m.Has(fd) {
			continue
		}
		empty := true
		m.Get(fd).Message().Range(func(protoreflect.FieldDescriptor, protoreflect.Value) bool { empty = false; return false })
		if empty {
			m.Clear(fd)
		}
	}
}

// codecCase is one (type, value) of the codec checks with everything observed about it.
type codecCase struct {
	x     *rtItem
	full  string
	name  string
	val   *dynamicpb.Message
	encOp map[string]any
	dop   map[string]any
}

// codecCheck drives both C04 (round trip) and C05 (documented mapping at every depth).
func codecCheck(c *Ctx, prop string) error {
	res := c.Res
	res.Rule = "annotated message types (every codec feature on the shapes the emitted Go compiles for, each also embedded as singular child / list element / map value of a parent; plus codec files built around the flatten, discriminated-oneof and map-value-unwrap templates with rich, empty, multi-word and self-marshalling children) x boundary-biased and directed values: the real MarshalJSON / UnmarshalJSON (or protojson, as the server chooses) run on the compiled generated package; " +
		"a case is one (type, value); non-trivial = the value has a populated field; distinct by (schema, type, value digest)"
	res.Assumptions = append(res.Assumptions, "float text and RFC 3339 / date renderings of Timestamps are taken from the real library as leaves of the Lean mapping model", "values above 2^53 under int64_encoding=NUMBER are compared exactly (Go side); the JavaScript precision limit is documented")
	r := gen.New(c.Seed)
	n := c.N(10, 80)
	nCodec := c.N(3, 12)
	per := c.N(12, 60)
	bt, items, err := buildBatch(n+nCodec, func(i int) *ir.Request {
		var f *ir.File
		if i < n {
			f = gen.GenAnnotFile(r.Fork(fmt.Sprint(prop, "-", i)), i, gen.AnnotOpts{Safe: true})
		} else {
			f = gen.GenCodecFile(r.Fork(fmt.Sprint(prop, "-codec-", i)), i)
		}
		return &ir.Request{Files: []*ir.File{f}, Generate: []string{f.Name}}
	}, scratch.AddOpts{GoHTTP: true, GoClient: true}, false)
	if err != nil {
		return err
	}
	defer bt.Close()
	var all []*codecCase
	for xi, x := range items {
		if !x.it.Built {
			// Safe schemas are expected to build; a failure here is C13's finding, but it also means no codec can be run
			res.Count("unbuildable")
			res.Note("schema " + x.it.ID + " does not build: " + errorClass(x.it.BuildLog))
			if xi >= n {
				res.Corr("codec_file_unbuildable", "a codec file (gen.GenCodecFile) does not build: "+errorClass(x.it.BuildLog), map[string]any{"schema": x.req})
			}
			continue
		}
		rr := r.Fork(fmt.Sprint("vals-", xi))
		model := x.req.ToModel()
		for _, m := range x.file.Messages {
			full := "." + x.file.Package + "." + m.Name
			md := x.msgDesc(full)
			if md == nil {
				continue
			}
			var vals []*dynamicpb.Message
			for k := 0; k < per; k++ {
				sp := 2
				if k == 0 {
					sp = 8 // the default value
				}
				if k == 1 {
					sp = 0 // fully populated
				}
				vals = append(vals, gen.RandomMessage(rr, md, &gen.ValOpts{SparseP: sp, NonFinite: true}, 0))
			}
			if xi >= n {
				for k := 0; k < per/2; k++ {
					// finite floats only: non-finite ones end most encodings of the rich shapes early
					vals = append(vals, gen.RandomMessage(rr.Fork(fmt.Sprint("finite-", m.Name, k)), md, &gen.ValOpts{SparseP: 1 + k%5}, 0))
				}
			}
			// directed values (for every schema: the shapes exist in both generators)
			vals = append(vals, gen.CodecValues(md)...)
			for _, v := range vals {
				ks := &codecCase{x: x, full: full, name: m.Name, val: v}
				ks.encOp = map[string]any{"op": "enc", "type": strings.TrimPrefix(full, "."), "val": jsonRaw(gen.PJ(v))}
				ks.dop = map[string]any{"op": "spec_enc", "rq": model, "type": full, "val": gen.ValJSON(v)}
				all = append(all, ks)
			}
		}
	}
	byItem := map[*rtItem][]*codecCase{}
	for _, k := range all {
		byItem[k.x] = append(byItem[k.x], k)
	}
	outs := map[*codecCase]map[string]any{}
	var mu sync.Mutex
	var runErr error
	var its []*rtItem
	for x := range byItem {
		its = append(its, x)
	}
	parallel(len(its), func(i int) {
		x := its[i]
		var ops []any
		for _, k := range byItem[x] {
			ops = append(ops, k.encOp)
		}
		o, err := runItem(x, ops)
		mu.Lock()
		defer mu.Unlock()
		if err != nil {
			runErr = err
			return
		}
		for j, k := range byItem[x] {
			outs[k] = o[j]
		}
	})
	if runErr != nil {
		return runErr
	}
	var dops []map[string]any
	for _, k := range all {
		dops = append(dops, k.dop)
	}
	var douts []map[string]any
	if drv.Available() {
		if douts, err = drv.Run(dops); err != nil {
			res.Corr("driver", "Lean driver failed: "+err.Error(), nil)
			douts = nil
		}
	} else {
		res.Corr("driver", "Lean driver binary missing (model did not build)", nil)
	}
	// second pass: decode the contract-form JSON (Spec.enc) with the real decoder
	type decCase struct {
		k   *codecCase
		op  map[string]any
		out map[string]any
	}
	var decs []*decCase
	if douts != nil {
		for i, k := range all {
			spec := modelToPlainJSON(douts[i]["spec"])
			b, err := json.Marshal(spec)
			if err != nil {
				continue
			}
			decs = append(decs, &decCase{k: k, op: map[string]any{"op": "dec", "type": strings.TrimPrefix(k.full, "."), "json": b64(b)}})
		}
		byItemD := map[*rtItem][]*decCase{}
		for _, d := range decs {
			byItemD[d.k.x] = append(byItemD[d.k.x], d)
		}
		var its2 []*rtItem
		for x := range byItemD {
			its2 = append(its2, x)
		}
		parallel(len(its2), func(i int) {
			x := its2[i]
			var ops []any
			for _, d := range byItemD[x] {
				ops = append(ops, d.op)
			}
			o, err := runItem(x, ops)
			mu.Lock()
			defer mu.Unlock()
			if err != nil {
				runErr = err
				return
			}
			for j, d := range byItemD[x] {
				d.out = o[j]
			}
		})
		if runErr != nil {
			return runErr
		}
	}
	decOut := map[*codecCase]map[string]any{}
	for _, d := range decs {
		decOut[d.k] = d.out
	}
	for i, k := range all {
		o := outs[k]
		populated := false
		k.val.Range(func(protoreflect.FieldDescriptor, protoreflect.Value) bool { populated = true; return false })
		res.Case(map[string]any{"schema": k.x.it.ID, "type": k.name, "val": hashStr(string(gen.PJ(k.val)))}, populated)
		feat := featureOf(k.name)
		res.Count("type:" + feat)
		replay := map[string]any{"schema": k.x.req, "type": k.full, "value": jsonRaw(gen.PJ(k.val)), "real": o}
		if fault, _ := o["fault"].(string); fault != "" {
			res.Violation("fault", k.name+": encoder "+fault, replay)
			continue
		}
		var d map[string]any
		if douts != nil {
			d = douts[i]
			replay["model"] = map[string]any{"spec": d["spec"], "impl": d["impl"], "template": d["template"], "impl_rt": d["impl_rt"], "impl_dec_spec": d["impl_dec_spec"]}
		}
		template, _ := d["template"].(string)
		cc := &codecCtx{res: res, k: k, prop: prop, feat: feat, template: template, replay: replay}
		if e, ok := o["err"].(string); ok && e != "" {
			// NaN / Inf and map<bool,_> cannot be encoded on the encoding/json paths; protojson can
			predicted := false
			if d != nil {
				predicted, _ = d["encode_fails"].(bool)
				if predicted {
					res.CorrAgree()
				} else {
					res.Corr("encode_error:"+feat, fmt.Sprintf("%s: the real encoder fails (%s), the model predicts success", k.name, e), replay)
				}
			}
			res.Divergence("encode_error:"+cc.encodeErrorCause(e), fmt.Sprintf("%s: encoding failed: %s", k.name, e), predicted, replay)
			continue
		}
		realJ := normJSON(o["json"])
		cc.realJSON = o["json"]
		implAgrees := false
		asym := false // the model says the server's own JSON form differs from the contract form for this value
		if d != nil {
			if p, _ := d["encode_fails"].(bool); p {
				res.Corr("encode_error:"+feat, k.name+": the model predicts an encoder error, the real encoder succeeded", replay)
			} else {
				implJ := normJSON(d["impl"])
				asym = firstDiff(normJSON(d["spec"]), implJ, "") != ""
				if diff := firstDiff(realJ, implJ, ""); diff == "" {
					implAgrees = true
					res.CorrAgree()
				} else {
					res.Corr("enc:"+feat, fmt.Sprintf("%s: the real encoder's output differs from the model at %s", k.name, diff), replay)
				}
			}
			// which encoder the server picks
			if rc, _ := o["custom"].(bool); rc != d["custom"] {
				res.Corr("encoder_choice:"+feat, fmt.Sprintf("%s: real type has MarshalJSON=%v, the model says %v", k.name, rc, d["custom"]), replay)
			}
		}
		if prop == "C05" && d != nil {
			specJ := normJSON(d["spec"])
			if diff := firstDiff(realJ, specJ, ""); diff != "" {
				cause := cc.mappingCause(diff)
				res.Divergence("mapping:"+cause, fmt.Sprintf("%s: server JSON differs from the documented mapping at %s (%s)", k.name, diff, cause), implAgrees, replay)
			}
		}
		if d == nil {
			continue
		}
		// the handler-visible request for a contract-form body (C05), = what another party's
		// canonical JSON decodes to (C04)
		if do := decOut[k]; do != nil {
			replay["decode_of_spec"] = do
			cc.decodeCheck("decode_contract_form", do["err"], do["fault"], do["val"], d["impl_dec_spec"], asym)
		}
		if prop == "C04" {
			// decode(encode v) = v up to the documented losses
			cc.decodeCheck("roundtrip", o["rt_err"], nil, o["rt"], d["impl_rt"], false)
		}
	}
	res.Programs = len(items)
	return nil
}

// codecCtx carries what the divergence classifiers need about one case.
type codecCtx struct {
	res      interface {
		Corr(key, what string, replay any)
		CorrAgree()
		Divergence(key, what string, implAgrees bool, replay any)
		Violation(key, what string, replay any)
	}
	k        *codecCase
	prop     string
	feat     string
	template string // flatten | oneof | container | root | surgery (the Lean model's dispatch)
	replay   map[string]any
	realJSON any // the real encoder's output
}

func (cc *codecCtx) msg() *ir.Message {
	m, _ := cc.k.x.req.FindMessage(cc.k.full)
	return m
}

func (cc *codecCtx) find(full string) *ir.Message {
	m, _ := cc.k.x.req.FindMessage(full)
	return m
}

// goCamel is protogen's GoCamelCase for the identifiers the codec files use (snake_case names).
func goCamel(s string) string {
	var b strings.Builder
	up := true
	for _, c := range s {
		if c == '_' {
			up = true
			continue
		}
		if up && c >= 'a' && c <= 'z' {
			c -= 'a' - 'A'
		}
		up = c >= '0' && c <= '9'
		b.WriteRune(c)
	}
	return b.String()
}

func hasNonFiniteFloat(m protoreflect.Message) bool {
	found := false
	var walk func(m protoreflect.Message)
	isBad := func(fd protoreflect.FieldDescriptor, v protoreflect.Value) bool {
		if fd.Kind() != protoreflect.FloatKind && fd.Kind() != protoreflect.DoubleKind {
			return false
		}
		f := v.Float()
		return f != f || f > 1.7976931348623157e308 || f < -1.7976931348623157e308
	}
	walk = func(m protoreflect.Message) {
		m.Range(func(fd protoreflect.FieldDescriptor, v protoreflect.Value) bool {
			switch {
			case fd.IsMap():
				v.Map().Range(func(_ protoreflect.MapKey, e protoreflect.Value) bool {
					if fd.MapValue().Kind() == protoreflect.MessageKind {
						walk(e.Message())
					} else if isBad(fd.MapValue(), e) {
						found = true
					}
					return true
				})
			case fd.IsList():
				for i := 0; i < v.List().Len(); i++ {
					if fd.Kind() == protoreflect.MessageKind {
						walk(v.List().Get(i).Message())
					} else if isBad(fd, v.List().Get(i)) {
						found = true
					}
				}
			case fd.Kind() == protoreflect.MessageKind:
				walk(v.Message())
			default:
				if isBad(fd, v) {
					found = true
				}
			}
			return true
		})
	}
	walk(m)
	return found
}

// encodeErrorCause names the root cause of an encoder error.
func (cc *codecCtx) encodeErrorCause(e string) string {
	what := "encoding_json_error"
	switch {
	case strings.Contains(e, "unsupported value"):
		what = "non_finite_float"
	case strings.Contains(e, "unsupported type: map[bool]"):
		what = "bool_key_map"
	}
	switch cc.template {
	case "flatten":
		return "flatten_child_" + what
	case "container":
		return "unwrap_container_" + what
	case "oneof":
		return "oneof_" + what
	}
	if m := cc.msg(); m != nil && len(m.Fields) == 1 && m.Fields[0].Ann.Unwrap {
		if m.Fields[0].Card == "map" && m.Fields[0].Kind == "message" {
			return "root_map_value_unwrap_" + what
		}
		return "root_unwrap_" + what
	}
	return cc.feat + ":" + what
}

// flattenKeySpace says whether a top-level JSON key belongs to a flattened child of m (under
// the documented lowerCamel names, the proto names encoding/json writes, or a oneof's Go name).
func (cc *codecCtx) flattenKeySpace(seg string) (childField *ir.Field, isOneofKey, ok bool) {
	m := cc.msg()
	if m == nil {
		return nil, false, false
	}
	for _, f := range m.Fields {
		if f.Ann.Flatten == nil || !*f.Ann.Flatten {
			continue
		}
		prefix := ""
		if f.Ann.FlattenPrefix != nil {
			prefix = *f.Ann.FlattenPrefix
		}
		c := cc.find(f.TypeName)
		if c == nil || !strings.HasPrefix(seg, prefix) {
			continue
		}
		rest := strings.TrimPrefix(seg, prefix)
		for _, cf := range c.Fields {
			if rest == cf.Name || rest == ir.JSONName(cf.Name) {
				return cf, false, true
			}
		}
		for _, o := range c.Oneofs {
			if rest == goCamel(o.Name) {
				return nil, true, true
			}
		}
	}
	return nil, false, false
}

// selectedVariant is the populated member of m's discriminated oneof (nil when unset).
func (cc *codecCtx) selectedVariant() (*ir.Oneof, *ir.Field) {
	m := cc.msg()
	if m == nil {
		return nil, nil
	}
	for _, o := range m.Oneofs {
		if o.Discriminator == nil || *o.Discriminator == "" {
			continue
		}
		for _, f := range m.Fields {
			if f.Oneof != o.Name {
				continue
			}
			fd := cc.k.val.Descriptor().Fields().ByName(protoreflect.Name(f.Name))
			if fd != nil && cc.k.val.Has(fd) {
				return o, f
			}
		}
		return o, nil
	}
	return nil, nil
}

// variantKeySpace: is seg a member a flattened variant of m's oneof hoists to the top level?
func (cc *codecCtx) variantKeySpace(seg string) (childField *ir.Field, isOneofKey, ok bool) {
	m := cc.msg()
	if m == nil {
		return nil, false, false
	}
	for _, o := range m.Oneofs {
		if o.Discriminator == nil || !o.Flatten {
			continue
		}
		for _, f := range m.Fields {
			if f.Oneof != o.Name || f.Kind != "message" {
				continue
			}
			c := cc.find(f.TypeName)
			if c == nil {
				continue
			}
			for _, cf := range c.Fields {
				if seg == cf.Name || seg == ir.JSONName(cf.Name) {
					return cf, false, true
				}
			}
			for _, co := range c.Oneofs {
				if seg == goCamel(co.Name) {
					return nil, true, true
				}
			}
		}
	}
	return nil, false, false
}

func plainIdent(s string) bool {
	if s == "" {
		return false
	}
	for _, c := range s {
		if !(c == '_' || c >= '0' && c <= '9' || c >= 'a' && c <= 'z' || c >= 'A' && c <= 'Z') {
			return false
		}
	}
	return true
}

// underKey: diff lies at or below "/key" — the remainder after it ("" = at the key itself).
func underKey(diff, key string) (string, bool) {
	p := "/" + key
	if diff == p {
		return "", true
	}
	if strings.HasPrefix(diff, p+"/") {
		return diff[len(p):], true
	}
	return "", false
}

// underLongestKey finds the member of obj the diff path enters (member names may hold '/').
func underLongestKey(diff string, obj map[string]any) (key, rest string, ok bool) {
	for k := range obj {
		if r, in := underKey(diff, k); in && (!ok || len(k) > len(key)) {
			key, rest, ok = k, r, true
		}
	}
	return
}

// annotationOf names the codec feature a field's annotations select ("" when it has none).
func annotationOf(req *ir.Request, f *ir.Field) string {
	switch {
	case f.Ann.Int64Enc == "NUMBER":
		return "int64"
	case f.Ann.EnumEnc == "NUMBER":
		return "enumnum"
	case f.Ann.Nullable != nil && *f.Ann.Nullable:
		return "nullable"
	case f.Ann.EmptyBehavior != "":
		return "empty"
	case f.Ann.TsFormat != "" && f.Ann.TsFormat != "RFC3339":
		return "ts"
	case f.Ann.BytesEnc != "" && f.Ann.BytesEnc != "BASE64":
		return "bytes"
	case f.Ann.Flatten != nil && *f.Ann.Flatten:
		return "flatten"
	case f.Ann.Unwrap:
		return "unwrap"
	}
	if f.Kind == "enum" {
		if e := req.FindEnum(f.TypeName); e != nil {
			for _, v := range e.Values {
				if v.Custom != nil {
					return "enumval"
				}
			}
		}
	}
	return ""
}

// deepContext walks a diff path through the schema and the real JSON down to the field it ends
// at: "<feature>@<context>", the feature being the annotation of that field (else the feature
// its message is named after) and the context how the message holding it is embedded (top /
// child / list_element / map_value / oneof_variant).
func (cc *codecCtx) deepContext(diff string) string {
	cur := cc.msg()
	if cur == nil {
		return "?"
	}
	ctx := "top"
	var node any = cc.realJSON
	rest := diff
	var leaf *ir.Field
	for rest != "" {
		var f *ir.Field
		var fr string
		for _, x := range cur.Fields {
			if r, in := underKey(rest, ir.JSONName(x.Name)); in && (f == nil || len(x.Name) > len(f.Name)) {
				f, fr = x, r
			}
		}
		if f == nil {
			break
		}
		leaf = f
		rest = fr
		if obj, _ := node.(map[string]any); obj != nil {
			node = obj[ir.JSONName(f.Name)]
		} else {
			node = nil
		}
		if f.Kind != "message" || f.TypeName == ".google.protobuf.Timestamp" || rest == "" {
			break
		}
		next := "child"
		switch f.Card {
		case "repeated":
			next = "list_element"
			i := 1
			for i < len(rest) && rest[i] != '/' {
				i++
			}
			if arr, _ := node.([]any); arr != nil {
				var idx int
				fmt.Sscan(rest[1:i], &idx)
				if idx < len(arr) {
					node = arr[idx]
				}
			}
			rest = rest[i:]
		case "map":
			next = "map_value"
			obj, _ := node.(map[string]any)
			k, r, ok := underLongestKey(rest, obj)
			if !ok {
				rest = ""
				break
			}
			node, rest = obj[k], r
		}
		if f.Oneof != "" {
			next = "oneof_variant"
		}
		child := cc.find(f.TypeName)
		if child == nil {
			break
		}
		cur, ctx, leaf = child, next, nil
	}
	feature := featureOf(cur.Name)
	if leaf != nil {
		if a := annotationOf(cc.k.x.req, leaf); a != "" {
			feature = a
		}
	}
	return feature + "@" + ctx
}

func firstSeg(diff string) (string, []string) {
	parts := strings.Split(strings.TrimPrefix(diff, "/"), "/")
	if len(parts) == 0 {
		return "", nil
	}
	return parts[0], parts[1:]
}

// mappingCause names the root cause of a server-JSON-vs-documented-mapping difference at diff.
func (cc *codecCtx) mappingCause(diff string) string {
	seg, _ := firstSeg(diff)
	m := cc.msg()
	switch cc.template {
	case "root":
		if m != nil && len(m.Fields) == 1 && diff != "/" {
			f := m.Fields[0]
			if f.Card == "map" && f.Kind == "message" {
				if w := cc.find(f.TypeName); w != nil {
					for _, wf := range w.Fields {
						if wf.Ann.Unwrap && wf.Kind != "message" {
							entries, _ := cc.realJSON.(map[string]any)
							if _, er, ok := underLongestKey(diff, entries); ok && er == "" {
								return "unwrap_map_value_nil_scalar_list_as_null"
							}
							return "root_unwrap_scalar_via_encoding_json"
						}
					}
				}
			} else if f.Kind != "message" {
				return "root_unwrap_scalar_via_encoding_json"
			}
		}
		if diff == "/" {
			return "unwrap@top"
		}
	case "flatten":
		if _, _, ok := cc.flattenKeySpace(seg); ok {
			return "flatten_child_via_encoding_json"
		}
	case "oneof":
		if _, _, ok := cc.variantKeySpace(seg); ok {
			if _, f := cc.selectedVariant(); f != nil {
				fd := cc.k.val.Descriptor().Fields().ByName(protoreflect.Name(f.Name))
				if fd != nil && fd.Kind() == protoreflect.MessageKind && hasNonFiniteFloat(cc.k.val.Get(fd).Message()) {
					return "oneof_flatten_variant_dropped_on_marshal_error"
				}
			}
			return "oneof_flatten_variant_via_encoding_json"
		}
	case "container":
		if m != nil {
			for _, f := range m.Fields {
				if ir.JSONName(f.Name) != seg {
					continue
				}
				if f.Card == "map" && f.Kind == "message" {
					if w := cc.find(f.TypeName); w != nil {
						for _, wf := range w.Fields {
							if wf.Ann.Unwrap && wf.Kind != "message" {
								obj, _ := cc.realJSON.(map[string]any)
								entries, _ := obj[seg].(map[string]any)
								if r, in := underKey(diff, seg); in {
									if _, er, ok := underLongestKey(r, entries); ok && er == "" {
										return "unwrap_map_value_nil_scalar_list_as_null"
									}
								}
								return "unwrap_map_value_scalar_via_encoding_json"
							}
							if wf.Ann.Unwrap {
								return cc.fallbackContext(diff)
							}
						}
					}
					return "unwrap_container_sibling_via_encoding_json"
				}
				if f.Kind != "message" || f.Card == "map" {
					return "unwrap_container_sibling_via_encoding_json"
				}
			}
		}
	}
	return cc.fallbackContext(diff)
}

// fallbackContext: the (feature, context) naming of the nested-annotation findings. Files of the
// first generator name messages after their feature (contextOf reads the names); codec files are
// walked down to the annotated field.
func (cc *codecCtx) fallbackContext(diff string) string {
	if cc.k.x.file.Package == "codec.v1" {
		return cc.deepContext(diff)
	}
	return contextOf(cc.k.x.req, cc.k.full, diff)
}

// decodeErrorCause names the root cause of a decoder error from the model's explanation
// (class, key) — or from the real error text when the model has none.
func (cc *codecCtx) decodeErrorCause(class, key, realErr string) string {
	if class == "" {
		switch {
		case strings.Contains(realErr, "unknown field"):
			class = "unknown_field"
			if i := strings.Index(realErr, "unknown field \""); i >= 0 {
				key = strings.TrimSuffix(strings.TrimSpace(realErr[i+len("unknown field \""):]), "\"")
			}
		case strings.Contains(realErr, "cannot unmarshal"):
			class = "go_type"
		default:
			class = "bad_value"
		}
	}
	if class == "bad_value" && cc.customEnumField(key) {
		return "enumval"
	}
	switch cc.template {
	case "root":
		if class == "go_type" {
			return "root_unwrap_scalar_via_encoding_json"
		}
	case "flatten":
		switch class {
		case "unknown_field":
			if cf, isOneof, ok := cc.flattenKeySpace(key); ok {
				if isOneof {
					return "flatten_child_oneof_key"
				}
				if cf != nil && cf.Name != ir.JSONName(cf.Name) {
					return "flatten_multiword_child_key"
				}
			}
			return "flatten_unknown_member"
		case "go_type":
			return "flatten_child_via_encoding_json"
		}
		return "flatten_" + class
	case "oneof":
		o, _ := cc.selectedVariant()
		kind := "nested"
		if o != nil && o.Flatten {
			kind = "flatten"
		}
		switch class {
		case "unknown_field":
			if cf, isOneof, ok := cc.variantKeySpace(key); ok {
				if isOneof {
					return "oneof_flatten_variant_oneof_key"
				}
				if cf != nil && cf.Name != ir.JSONName(cf.Name) {
					return "oneof_flatten_multiword_variant_key"
				}
			}
			return "oneof_unknown_member"
		case "go_type":
			return "oneof_" + kind + "_variant_via_encoding_json"
		}
		return "oneof_" + class
	case "container":
		if class == "go_type" {
			return "unwrap_container_sibling_via_encoding_json"
		}
		return "unwrap_container_" + class
	}
	return cc.feat
}

// customEnumField: is name a field of some message of the case's file whose enum type carries
// enum_value annotations? (protojson knows only the proto value names.)
func (cc *codecCtx) customEnumField(name string) bool {
	for _, f := range cc.k.x.req.Files {
		var walk func(ms []*ir.Message) bool
		walk = func(ms []*ir.Message) bool {
			for _, m := range ms {
				for _, fl := range m.Fields {
					if fl.Name == name && fl.Kind == "enum" {
						if e := cc.k.x.req.FindEnum(fl.TypeName); e != nil {
							for _, v := range e.Values {
								if v.Custom != nil {
									return true
								}
							}
						}
					}
				}
				if walk(m.Nested) {
					return true
				}
			}
			return false
		}
		if walk(f.Messages) {
			return true
		}
	}
	return false
}

// leafDiff is the first place two messages of one type differ: the field path down to it and
// what each side holds there.
type leafDiff struct {
	path           []protoreflect.FieldDescriptor
	origHas, gotHas bool
	orig           protoreflect.Value
}

func scalarEq(fd protoreflect.FieldDescriptor, a, b protoreflect.Value) bool {
	switch fd.Kind() {
	case protoreflect.FloatKind, protoreflect.DoubleKind:
		x, y := a.Float(), b.Float()
		return math.Float64bits(x) == math.Float64bits(y) || (x != x && y != y)
	case protoreflect.BytesKind:
		return string(a.Bytes()) == string(b.Bytes())
	}
	return a.Interface() == b.Interface()
}

func firstLeafDiff(a, b protoreflect.Message) *leafDiff {
	fds := a.Descriptor().Fields()
	for i := 0; i < fds.Len(); i++ {
		fd := fds.Get(i)
		ha, hb := a.Has(fd), b.Has(fd)
		if !ha && !hb {
			continue
		}
		here := &leafDiff{path: []protoreflect.FieldDescriptor{fd}, origHas: ha, gotHas: hb}
		if ha {
			here.orig = a.Get(fd)
		}
		if ha != hb {
			return here
		}
		sub := func(x, y protoreflect.Message) *leafDiff {
			if d := firstLeafDiff(x, y); d != nil {
				d.path = append([]protoreflect.FieldDescriptor{fd}, d.path...)
				return d
			}
			return nil
		}
		switch {
		case fd.IsMap():
			ma, mb := a.Get(fd).Map(), b.Get(fd).Map()
			if ma.Len() != mb.Len() {
				return here
			}
			var out *leafDiff
			ma.Range(func(k protoreflect.MapKey, va protoreflect.Value) bool {
				if !mb.Has(k) {
					out = here
					return false
				}
				if fd.MapValue().Kind() == protoreflect.MessageKind {
					out = sub(va.Message(), mb.Get(k).Message())
				} else if !scalarEq(fd.MapValue(), va, mb.Get(k)) {
					out = here
				}
				return out == nil
			})
			if out != nil {
				return out
			}
		case fd.IsList():
			la, lb := a.Get(fd).List(), b.Get(fd).List()
			if la.Len() != lb.Len() {
				return here
			}
			for j := 0; j < la.Len(); j++ {
				if fd.Kind() == protoreflect.MessageKind {
					if d := sub(la.Get(j).Message(), lb.Get(j).Message()); d != nil {
						return d
					}
				} else if !scalarEq(fd, la.Get(j), lb.Get(j)) {
					return here
				}
			}
		case fd.Kind() == protoreflect.MessageKind:
			if d := sub(a.Get(fd).Message(), b.Get(fd).Message()); d != nil {
				return d
			}
		default:
			if !scalarEq(fd, a.Get(fd), b.Get(fd)) {
				return here
			}
		}
	}
	return nil
}

func multiWord(fd protoreflect.FieldDescriptor) bool { return string(fd.Name()) != fd.JSONName() }

// decodeValueCause names the root cause of "decodes, but to a different message" from where the
// original and the decoded message first differ.
func (cc *codecCtx) decodeValueCause(got proto.Message) string {
	m := cc.msg()
	if m == nil {
		return cc.feat
	}
	x := proto.Clone(cc.k.val).ProtoReflect()
	y := proto.Clone(got).ProtoReflect()
	lossyAll(cc.k.x.req, cc.k.full, x)
	lossyAll(cc.k.x.req, cc.k.full, y)
	dropEmptyFlattenChildren(cc.k.x.req, cc.k.full, x)
	dropEmptyFlattenChildren(cc.k.x.req, cc.k.full, y)
	d := firstLeafDiff(x, y)
	if d == nil {
		return cc.feat
	}
	top, leaf := d.path[0], d.path[len(d.path)-1]
	var topIR *ir.Field
	for _, f := range m.Fields {
		if f.Name == string(top.Name()) {
			topIR = f
		}
	}
	if topIR == nil {
		return cc.feat
	}
	viaGoJSON := false // does the differing leaf sit in a subtree the template encodes with encoding/json?
	switch cc.template {
	case "flatten":
		if topIR.Ann.Flatten != nil && *topIR.Ann.Flatten {
			return "flatten_child_lost"
		}
	case "oneof":
		if o, f := cc.selectedVariant(); o != nil && f != nil && f.Name == topIR.Name && o.Flatten && top.Kind() == protoreflect.MessageKind {
			if x.Has(top) && hasNonFiniteFloat(x.Get(top).Message()) {
				return "oneof_flatten_variant_dropped_on_marshal_error"
			}
			viaGoJSON = true
		}
	case "container":
		isUnwrapMap := false
		if topIR.Card == "map" && topIR.Kind == "message" {
			if w := cc.find(topIR.TypeName); w != nil {
				for _, wf := range w.Fields {
					if wf.Ann.Unwrap {
						isUnwrapMap = true
					}
				}
			}
		}
		switch {
		case isUnwrapMap:
			return "unwrap_map_value"
		case topIR.Card == "map" && topIR.Kind == "message":
			viaGoJSON = true
		case topIR.Kind != "message":
			viaGoJSON = true
		}
	}
	if viaGoJSON && d.origHas && !d.gotHas && !leaf.IsList() && !leaf.IsMap() {
		switch leaf.Kind() {
		case protoreflect.FloatKind, protoreflect.DoubleKind:
			if v := d.orig.Float(); v == 0 && math.Signbit(v) {
				return "negative_zero_dropped_by_omitempty"
			}
		case protoreflect.BytesKind:
			if leaf.HasOptionalKeyword() && len(d.orig.Bytes()) == 0 {
				return "optional_empty_bytes_dropped_by_omitempty"
			}
		}
	}
	if viaGoJSON && len(d.path) >= 2 && d.origHas && !d.gotHas && multiWord(d.path[1]) {
		// a member written lowerCamel (proto3 JSON) never matches the struct tag (snake_case)
		if cc.template == "oneof" {
			return "oneof_flatten_multiword_variant_field_dropped"
		}
		return "unwrap_container_map_value_member_dropped"
	}
	switch cc.template {
	case "flatten", "oneof":
		return cc.template + "_value"
	}
	return cc.feat
}

// decodeCheck compares one decoding observed on the real code (error text or decoded value, as
// protojson of the result) with the original value (oracle) and with the Lean decoder model's
// prediction (correspondence). kind is "roundtrip" (input: the generated encoder's own output)
// or "decode_contract_form" (input: the documented JSON of the value). asym is the legacy
// explanation for the templates whose generated decoder is outside GoDec (DErr.unsupported).
func (cc *codecCtx) decodeCheck(kind string, realErrAny, faultAny, realVal, predAny any, asym bool) {
	res, k := cc.res, cc.k
	if fault, _ := faultAny.(string); fault != "" {
		res.Violation("fault", k.name+": decoder "+fault, cc.replay)
		return
	}
	realErr, _ := realErrAny.(string)
	pred, _ := predAny.(map[string]any)
	var predErr map[string]any
	var predVal any
	if pred != nil {
		predErr, _ = pred["err"].(map[string]any)
		predVal = pred["val"]
	}
	class, key := "", ""
	if predErr != nil {
		class, _ = predErr["class"].(string)
		key, _ = predErr["key"].(string)
	}
	errKey, valKey := kind+"_error:", kind+":"
	if kind == "decode_contract_form" {
		errKey, valKey = kind+":", kind+"_value:"
	}
	what := "the generated decoder rejects what the generated encoder produced"
	whatVal := "decode(encode(v)) differs from v beyond the documented losses"
	if kind == "decode_contract_form" {
		what = "the contract-form JSON is rejected"
		whatVal = "decoding the contract-form JSON yields a different message"
	}
	if pred == nil || class == "unsupported" {
		// no prediction: only the families whose decoder is plain surgery + protojson may be here
		if cc.template != "surgery" && cc.template != "root" {
			res.Corr("decode_model:"+cc.feat, fmt.Sprintf("%s: the decoder model gives no prediction (%s %s)", k.name, class, key), cc.replay)
		}
		agrees := asym && (cc.template == "surgery" || cc.template == "root")
		if realErr != "" {
			res.Divergence(errKey+cc.feat, fmt.Sprintf("%s: %s: %s", k.name, what, firstLine(realErr)), agrees, cc.replay)
			return
		}
		got := dynamicpb.NewMessage(k.val.Descriptor())
		if b, err := json.Marshal(realVal); err == nil {
			if err := protojsonUnmarshal(b, got); err == nil && !codecLossyEqual(k.x.req, k.full, k.val, got) {
				res.Divergence(valKey+cc.feat, fmt.Sprintf("%s: %s", k.name, whatVal), agrees, cc.replay)
			}
		}
		return
	}
	if realErr != "" {
		agrees := predErr != nil
		if agrees && class == "unknown_field" && plainIdent(key) && strings.Contains(realErr, "unknown field") && !strings.Contains(realErr, "unknown field \""+key+"\"") {
			agrees = false
		}
		if agrees {
			res.CorrAgree()
		} else {
			res.Corr("dec:"+cc.feat, fmt.Sprintf("%s (%s): the real decoder fails (%s), the model predicts %v", k.name, kind, firstLine(realErr), pred), cc.replay)
		}
		if !agrees {
			class, key = "", ""
		}
		res.Divergence(errKey+cc.decodeErrorCause(class, key, realErr), fmt.Sprintf("%s: %s: %s", k.name, what, firstLine(realErr)), agrees, cc.replay)
		return
	}
	got := dynamicpb.NewMessage(k.val.Descriptor())
	b, err := json.Marshal(realVal)
	if err == nil {
		err = protojsonUnmarshal(b, got)
	}
	if err != nil {
		res.Corr("dec:"+cc.feat, fmt.Sprintf("%s (%s): cannot re-read the decoded value: %v", k.name, kind, err), cc.replay)
		return
	}
	agrees := false
	if predErr != nil {
		res.Corr("dec:"+cc.feat, fmt.Sprintf("%s (%s): the model predicts a decoder error (%s %s), the real decoder succeeded", k.name, kind, class, key), cc.replay)
	} else if pm, err := valToMsg(k.val.Descriptor(), predVal); err != nil {
		res.Corr("dec:"+cc.feat, fmt.Sprintf("%s (%s): unreadable model value: %v", k.name, kind, err), cc.replay)
	} else if proto.Equal(got, pm) {
		agrees = true
		res.CorrAgree()
	} else {
		res.Corr("dec:"+cc.feat, fmt.Sprintf("%s (%s): the decoded message differs from the model's: real %s, model %s", k.name, kind, gen.PJ(got), gen.PJ(pm)), cc.replay)
	}
	if !codecLossyEqual(k.x.req, k.full, k.val, got) {
		res.Divergence(valKey+cc.decodeValueCause(got), fmt.Sprintf("%s: %s", k.name, whatVal), agrees, cc.replay)
	}
}

// modelToPlainJSON turns the driver's {"$int"/"$float": text} wrappers into JSON numbers.
func modelToPlainJSON(v any) any {
	switch x := v.(type) {
	case map[string]any:
		if len(x) == 1 {
			if t, ok := x["$int"].(string); ok {
				return json.Number(t)
			}
			if t, ok := x["$float"].(string); ok {
				return json.Number(t)
			}
		}
		out := map[string]any{}
		for k, e := range x {
			out[k] = modelToPlainJSON(e)
		}
		return out
	case []any:
		out := make([]any, len(x))
		for i, e := range x {
			out[i] = modelToPlainJSON(e)
		}
		return out
	}
	return v
}

// contextOf names (feature, context) of the schema position a JSON diff path points at.
func contextOf(req *ir.Request, full string, diff string) string {
	m, _ := req.FindMessage(full)
	if m == nil {
		return "?"
	}
	parts := strings.Split(strings.TrimPrefix(diff, "/"), "/")
	top := featureOf(m.Name)
	if top != "parent" {
		// which field of the top-level message?
		if len(parts) > 0 {
			for _, f := range m.Fields {
				if ir.JSONName(f.Name) == parts[0] && f.Kind == "message" && len(parts) > 1 && f.TypeName != ".google.protobuf.Timestamp" {
					cm, _ := req.FindMessage(f.TypeName)
					if cm != nil {
						ctx := "child"
						switch f.Card {
						case "repeated":
							ctx = "list_element"
						case "map":
							ctx = "map_value"
						}
						if f.Oneof != "" {
							ctx = "oneof_variant"
						}
						return featureOf(cm.Name) + "@" + ctx + "_of_" + top
					}
				}
			}
		}
		return top + "@top"
	}
	if len(parts) > 0 {
		for _, f := range m.Fields {
			if ir.JSONName(f.Name) == parts[0] {
				cm, _ := req.FindMessage(f.TypeName)
				ctx := "child"
				switch f.Card {
				case "repeated":
					ctx = "list_element"
				case "map":
					ctx = "map_value"
				}
				if cm != nil {
					return featureOf(cm.Name) + "@" + ctx
				}
			}
		}
	}
	return top + "@top"
}
