import Sebuf.Gen.Pipeline
import Sebuf.Call
import Sebuf.Gen.PropNames
/-!
Error plumbing of the emitted Go server (`genericHandler` error branch, `writeErrorWithHandler`,
`defaultErrorResponse`, `defaultErrorStatusCode`, `responseCapture`) as a finite function
(`Impl`), next to what the property and the emitted `ErrorHandler` documentation demand (`Spec`).
Status constants and content-type tables are the regenerated facts of `Gen.Pipeline`.
-/
namespace Sebuf.Errors

/-- where the error comes from. -/
inductive Src
  | headerViolation | urlBinding | malformedBody | ruleViolation      -- produced by the middleware
  | plainError | sebufError | wrappedSebufError                        -- returned by the handler
  | validationFromHandler | wrappedValidationFromHandler
  | customMessage | wrappedCustomMessage
deriving DecidableEq, Repr

def Src.all : List Src := [.headerViolation, .urlBinding, .malformedBody, .ruleViolation, .plainError, .sebufError,
  .wrappedSebufError, .validationFromHandler, .wrappedValidationFromHandler, .customMessage, .wrappedCustomMessage]

/-- behaviour of the configured `ErrorHandler`. -/
inductive Hook
  | none | returnsNil | returnsMessage | setsStatus | setsStatusAndMessage | setsHeader | setsHeaderAndStatus | writesBody
deriving DecidableEq, Repr

def Hook.all : List Hook := [.none, .returnsNil, .returnsMessage, .setsStatus, .setsStatusAndMessage, .setsHeader, .setsHeaderAndStatus, .writesBody]

/-- what the response body is. -/
inductive Body
  | violations          -- sebuf ValidationError carrying the violations
  | errorMessage        -- sebuf Error{message = err.Error()}
  | customMessage       -- the handler's own protobuf message, all fields
  | hookMessage         -- the message the hook returned
  | hookBody            -- bytes the hook wrote itself
deriving DecidableEq, Repr

inductive Status | s400 | s500 | hook   -- `hook`: whatever the hook passed to WriteHeader
deriving DecidableEq, Repr

structure Resp where
  status      : Status
  body        : Body
  hookHeader  : Bool       -- a header the hook set is on the response
  ctHeader    : Bool := true   -- the Content-Type header names the codec of the body
deriving DecidableEq, Repr

/-! ### Impl: the control flow of the emitted code -/

/-- is `err` (as `genericHandler` / the middleware hands it to `writeErrorWithHandler`) a proto.Message
by direct type assertion? Wrapped errors are not; they were replaced by `Error{err.Error()}`. -/
def errAfterGenericHandler : Src → Src
  | .wrappedSebufError => .plainError
  | .wrappedValidationFromHandler => .plainError
  | .wrappedCustomMessage => .plainError
  | s => s

/-- `errors.As(err, *ValidationError)`. -/
def isValidation : Src → Bool
  | .headerViolation | .urlBinding | .malformedBody | .ruleViolation | .validationFromHandler => true
  | _ => false

/-- `defaultErrorResponse`. -/
def defaultBody (s : Src) : Body :=
  if isValidation s then .violations
  else match s with
    | .customMessage => .customMessage
    | _ => .errorMessage

/-- `defaultErrorStatusCode` over the regenerated constants. -/
def defaultStatus (s : Src) : Status :=
  let codes := Gen.Pipeline.errorStatus
  let pick (name : String) : Status := if name == "http.StatusBadRequest" then .s400 else .s500
  if isValidation s then pick (codes.getD 0 "") else pick (codes.getD 1 "")

structure Capture where
  wroteHeader : Bool
  written : Bool
  setHeader : Bool
  returned : Bool     -- hook returned a non-nil message

def runHook : Hook → Option Capture
  | .none => none
  | .returnsNil => some ⟨false, false, false, false⟩
  | .returnsMessage => some ⟨false, false, false, true⟩
  | .setsStatus => some ⟨true, false, false, false⟩
  | .setsStatusAndMessage => some ⟨true, false, false, true⟩
  | .setsHeader => some ⟨false, false, true, false⟩
  | .setsHeaderAndStatus => some ⟨true, false, true, false⟩
  | .writesBody => some ⟨true, true, false, true⟩

/-- `writeErrorWithHandler`. -/
def implResponse (src : Src) (h : Hook) : Resp :=
  let s := errAfterGenericHandler src
  match runHook h with
  | none => { status := defaultStatus s, body := defaultBody s, hookHeader := false }
  | some c =>
    if c.written then { status := .hook, body := .hookBody, hookHeader := c.setHeader }
    else
      let body := if c.returned then Body.hookMessage else defaultBody s
      -- `writeResponseBody` sets Content-Type AFTER the hook's WriteHeader: too late, the header is lost
      if c.wroteHeader then { status := .hook, body := body, hookHeader := c.setHeader, ctHeader := false }
      else { status := defaultStatus s, body := body, hookHeader := c.setHeader }

/-! ### Spec: the property text and the printed ErrorHandler documentation -/

def specDefault (src : Src) : Status × Body :=
  match src with
  | .headerViolation | .urlBinding | .malformedBody | .ruleViolation => (.s400, .violations)
  | .plainError | .sebufError | .wrappedSebufError | .wrappedValidationFromHandler | .wrappedCustomMessage => (.s500, .errorMessage)
  | .validationFromHandler => (.s400, .violations)       -- "serialized as that message"; status follows the validation rule
  | .customMessage => (.s500, .customMessage)

def specResponse (src : Src) (h : Hook) : Resp :=
  let d := specDefault src
  match h with
  | .none | .returnsNil => { status := d.1, body := d.2, hookHeader := false }
  | .returnsMessage => { status := d.1, body := .hookMessage, hookHeader := false }
  | .setsStatus => { status := .hook, body := d.2, hookHeader := false }
  | .setsStatusAndMessage => { status := .hook, body := .hookMessage, hookHeader := false }
  | .setsHeader => { status := d.1, body := d.2, hookHeader := true }
  | .setsHeaderAndStatus => { status := .hook, body := d.2, hookHeader := true }
  | .writesBody => { status := .hook, body := .hookBody, hookHeader := false }

/-! ### clients -/

inductive ClientErr | validation | error | other   -- *ValidationError, *Error, fmt error with status+body
deriving DecidableEq, Repr

/-- `handleErrorResponse` of the emitted Go client. JSON decoding rejects unknown fields, so a
body of another shape falls through to the formatted error; binary decoding is lenient (field 1
of any message is read as `Error.message` / `ValidationError.violations`). -/
def goClientErr (binary : Bool) (status400 : Bool) (b : Body) : ClientErr :=
  match b with
  | .violations => if status400 then .validation else (if binary then .error else .other)
  | .errorMessage | .hookMessage => .error   -- (binary + 400: the text would have to be valid FieldViolation wire data)
  | .customMessage => if binary then (if status400 then .validation else .error) else .other
  | .hookBody => .other

/-- what the property asks of the clients. -/
def specClientErr (status400 : Bool) (b : Body) : ClientErr :=
  match b with
  | .violations => if status400 then .validation else .other
  | .errorMessage | .hookMessage => .error
  | .customMessage | .hookBody => .other

/-! ### the emitted TypeScript client (`handleError`) -/

inductive TsClientErr
  | validation          -- ValidationError(violations)
  | api (status : Nat)  -- ApiError(status, message, body): carries the status and the raw body
deriving DecidableEq, Repr

/-- `handleError` of the emitted TS client (JSON only), over the regenerated tests: a
ValidationError exactly when the status test AND the body test hold; an ApiError carrying the
response's status otherwise. `statusIs400` / `hasViolations` are what the two regenerated tests
(`resp.status === 400`, `parsed.violations`) evaluate to on the response. -/
def tsClientErr (status : Nat) (hasViolations : Bool) : TsClientErr :=
  let statusTest := if Gen.PropNames.tsClientValidationStatusTest == "resp.status === 400" then decide (status = 400) else true
  let bodyTest := if Gen.PropNames.tsClientValidationBodyTest == "parsed.violations" then hasViolations else true
  if statusTest && bodyTest then .validation else .api status

/-- what the property asks: a 400 (carrying violations) is a validation error, any other failure an
error carrying the same status (and body). -/
def specTsClientErr (status : Nat) (hasViolations : Bool) : TsClientErr :=
  if status = 400 ∧ hasViolations = true then .validation else .api status

/-! ### the emitted TypeScript server (a route's `catch` block) -/

/-- what was thrown inside a route of the emitted TS server. -/
inductive TsSrvSource
  | headerViolation     -- `validateHeaders` threw a ValidationError (missing / malformed header)
  | requestViolation    -- `options.validateRequest` returned violations
  | handlerValidation   -- the handler itself threw a ValidationError
  | handlerError        -- the handler threw anything else
deriving DecidableEq, Repr

def TsSrvSource.isValidation : TsSrvSource → Bool
  | .handlerError => false
  | _ => true

/-- how the route answers. -/
inductive TsSrvAnswer
  | violations400   -- 400 {violations:[…]} listing the thrown violations
  | hookResponse    -- whatever `options.onError` returned
  | message500      -- 500 {message}
deriving DecidableEq, Repr

/-- the catch block, over the REGENERATED order of its branches: the first branch that applies
answers (`hookAnswers`: an `onError` hook is configured and returns a Response). -/
def tsServerAnswerIn (order : List String) (src : TsSrvSource) (hookAnswers : Bool) : TsSrvAnswer :=
  match order with
  | [] => .message500
  | b :: rest =>
    if b == "validation" && src.isValidation then .violations400
    else if b == "hook" && hookAnswers then .hookResponse
    else if b == "default" then .message500
    else tsServerAnswerIn rest src hookAnswers

def tsServerAnswer (src : TsSrvSource) (hookAnswers : Bool) : TsSrvAnswer :=
  tsServerAnswerIn Gen.PropNames.tsServerCatchOrder src hookAnswers

/-- what the property asks: a validation failure is a 400 listing the violations whatever hook is
configured; any other error goes to the hook when there is one and is a 500 carrying the message
otherwise. -/
def specTsServerAnswer (src : TsSrvSource) (hookAnswers : Bool) : TsSrvAnswer :=
  if src.isValidation then .violations400 else if hookAnswers then .hookResponse else .message500

end Sebuf.Errors
