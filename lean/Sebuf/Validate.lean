import Sebuf.Schema
import Sebuf.Route
import Sebuf.Gen.Wiring
/-!
`Impl`: what the plugins check at generation time. Each validator is transcribed from
`internal/annotations/*.go`, `internal/httpgen/{validation,flatten,oneof_discriminator,enum_encoding}.go`.
`runGoHttp` / `runGoClient` interpret the call sequence of `generateFile` that the extractor
regenerates into `Gen.Wiring` on every run: a validator the code no longer calls is no longer
applied by the model, and the soundness theorems of `Props/C12` stop checking.

A validator returns `none` (accept) or `some offender` (reject; `offender` is a name the real
error message contains).
-/
namespace Sebuf.Impl
open Sebuf

abbrev Verdict := Option Str

/-- `annotations.GetUnwrapField` (error cases only). -/
def unwrapCheck (m : Message) : Verdict :=
  let us := m.fields.filter (·.unwrap)
  match us.find? (fun f => !f.isList && !f.isMap) with
  | some f => some f.name
  | none =>
    -- the loop fails at the first offending field in declaration order: a scalar unwrap field,
    -- or the second unwrap field
    match us with
    | [] => none
    | [u] => if m.fields.length != 1 && u.isMap then some u.name else none
    | _ :: v :: _ => some v.name

/-- `annotations.ValidateNullableAnnotation`. -/
def nullableCheck (f : Field) : Verdict :=
  if !f.nullable then none
  else if f.card != .optional then some f.name
  else if f.descKind == .message then some f.name
  else none

/-- `annotations.ValidateEmptyBehaviorAnnotation`. -/
def emptyBehaviorCheck (f : Field) : Verdict :=
  if f.emptyBehavior == 0 then none
  else if f.descKind != .message then some f.name
  else if f.isList then some f.name
  else if f.isMap then some f.name
  else none

def Field.isTimestamp (f : Field) : Bool := f.descKind == .message && f.card != .map && isTimestampName f.typeName

/-- `annotations.ValidateTimestampFormatAnnotation`. -/
def timestampCheck (f : Field) : Verdict :=
  if f.tsFormat == 0 then none else if !(Field.isTimestamp f) then some f.name else none

/-- `annotations.ValidateBytesEncodingAnnotation`. -/
def bytesCheck (f : Field) : Verdict :=
  if f.bytesEnc == 0 then none else if f.descKind != .bytes then some f.name else none

/-- `annotations.ValidateFlattenField`. -/
def flattenFieldCheck (f : Field) : Verdict :=
  if !f.flatten && f.flattenPrefix != [] then some f.name
  else if !f.flatten then none
  else if f.isList then some f.name
  else if f.isMap then some f.name
  else if f.descKind != .message then some f.name
  else if f.inAnyOneof then some f.name
  else none

/-- children of a message-typed field (`field.Message.Fields`); unknown type ⇒ none. -/
def childFields (rq : Request) (f : Field) : List Field :=
  match rq.findMessage f.typeName with
  | some m => m.fields
  | none => []

/-- `annotations.ValidateFlattenCollisions`: walks the flattened fields in order with a growing
set of used JSON names. -/
def flattenCollisionsAux (rq : Request) : List Field → List Str → Verdict
  | [], _ => none
  | f :: rest, used =>
    if !f.flatten || f.kind != .message then flattenCollisionsAux rq rest used
    else
      let names := (childFields rq f).map fun c => f.flattenPrefix ++ c.json
      -- children are registered one by one, so a child can also collide with an earlier sibling
      let rec go : List Str → List Str → Option (List Str)
        | [], u => some u
        | n :: ns, u => if u.contains n then none else go ns (n :: u)
      match go names used with
      | none => some f.name
      | some u => flattenCollisionsAux rq rest u

def flattenCollisions (rq : Request) (m : Message) : Verdict :=
  flattenCollisionsAux rq m.fields ((m.fields.filter (!·.flatten)).map (·.json))

def hasFlatten (m : Message) : Bool := m.fields.any (·.flatten)

/-- `detectMarshalJSONConflicts` (flatten side): other MarshalJSON-producing features on
non-flattened fields. -/
def flattenConflict (m : Message) : Verdict :=
  if m.fields.any (fun f => !f.flatten &&
      ((f.descKind.isInt64 && f.int64Enc == 2) || f.nullable || f.emptyBehavior != 0 ||
       (Field.isTimestamp f && f.tsFormat != 0) || f.bytesEnc != 0))
  then some m.name else none

/-- `validateDiscriminatorNameCollision`. -/
def discriminatorCollision (m : Message) (o : OneofDecl) : Verdict :=
  if m.fields.any (fun f => f.oneof != some o.name && f.json == o.discriminator) then some o.name else none

/-- `validateOneofFlatten`. -/
def oneofFlattenCheck (rq : Request) (m : Message) (o : OneofDecl) : Verdict :=
  let variants := m.fields.filter (·.oneof == some o.name)
  if variants.any (·.kind != .message) then some o.name
  else
    let reserved := o.discriminator :: (m.fields.filter (·.oneof != some o.name)).map (·.json)
    if variants.any (fun v => (childFields rq v).any (fun c => reserved.contains c.json)) then some o.name
    else none

/-- `annotations.ValidateOneofDiscriminator` for every configured oneof of a message. -/
def oneofCheck (rq : Request) (m : Message) : Verdict :=
  (m.oneofs.filter (·.hasConfig)).findSome? fun o =>
    match discriminatorCollision m o with
    | some e => some e
    | none => if o.flatten then oneofFlattenCheck rq m o else none

/-- which messages get a oneof `MarshalJSON` (`collectOneofDiscriminatorContext`): a configured
oneof with a non-empty discriminator. -/
def needsOneofMarshal (m : Message) : Bool := m.oneofs.any (fun o => o.hasConfig && o.discriminator != [])

/-- `checkMarshalJSONConflict` (oneof side). -/
def oneofConflict (m : Message) : Verdict :=
  if needsOneofMarshal m && m.fields.any (fun f =>
      (f.descKind.isInt64 && f.int64Enc == 2) || f.nullable || f.emptyBehavior != 0 ||
      (Field.isTimestamp f && f.tsFormat != 0) || f.bytesEnc != 0)
  then some m.name else none

/-- `validateEnumAnnotations`: NUMBER encoding on a field whose enum has custom values. -/
def enumCheck (rq : Request) (f : Field) : Verdict :=
  if f.descKind == .enum && f.enumEnc == 2 &&
     (match rq.findEnum f.typeName with | some e => e.hasCustom | none => false)
  then some f.name else none

def isPathParamCompatible : Kind → Bool
  | .enum | .bytes | .message => false
  | _ => true

def queryFieldNames (m : Message) : List Str := (m.fields.filter (·.query.isSome)).map (·.name)

/-- first error wins. -/
def orV (a b : Verdict) : Verdict :=
  match a with
  | some x => some x
  | none => b

/-- checks 1 and 2 of `ValidateMethodConfig` for one path variable. -/
def pathVarCheck (input : Message) (v : Str) : Verdict :=
  match input.fields.find? (fun f => f.name == v) with
  | none => some v
  | some f =>
    -- repeated and map fields are refused since `fix: go-http: refuse path variables bound to repeated or map fields`
    if isPathParamCompatible f.descKind && f.card != .repeated && f.card != .map then none else some v

/-- check 4: a bodiless verb with fields bound to neither path nor query. -/
def bodilessCheck (input : Message) (vars : List Str) (verb : Str) : Verdict :=
  if verb == "GET".toList || verb == "DELETE".toList then
    (input.fields.find? (fun f => !vars.contains f.name && !(queryFieldNames input).contains f.name)).map (·.name)
  else none

/-- `httpgen.ValidateMethodConfig` (first error of one method). -/
def methodCheck (rq : Request) (meth : Method) : Verdict :=
  if !meth.hasConfig then none
  else
    let input := (rq.findMessage meth.input).getD default
    let vars := extractPathParams meth.path
    orV (vars.findSome? (pathVarCheck input))
      (orV ((queryFieldNames input).find? (fun q => vars.contains q))
        (bodilessCheck input vars (verbOfNum meth.verbNum)))

def serviceCheck (rq : Request) (s : Service) : Verdict := s.methods.findSome? (methodCheck rq)

/-- The validator-like functions the model knows. -/
inductive V
  | enumConflict | unwrap | nullable | emptyBehavior | timestamp | bytes | flattenField
  | flattenCollisions | flattenConflict | oneof | oneofConflict | methodConfig
deriving DecidableEq, Repr

/-- Go function name (as it appears in `Gen.Wiring`) ↦ model validator. Names the model does
not know (emitters, wrappers) map to `none` and accept everything. -/
def V.ofName : String → Option V
  | "validateEnumAnnotations" => some .enumConflict
  | "annotations.GetUnwrapField" => some .unwrap
  | "annotations.ValidateNullableAnnotation" => some .nullable
  | "annotations.ValidateEmptyBehaviorAnnotation" => some .emptyBehavior
  | "annotations.ValidateTimestampFormatAnnotation" => some .timestamp
  | "annotations.ValidateBytesEncodingAnnotation" => some .bytes
  | "annotations.ValidateFlattenField" => some .flattenField
  | "annotations.ValidateFlattenCollisions" => some .flattenCollisions
  | "detectMarshalJSONConflicts" => some .flattenConflict
  | "annotations.ValidateOneofDiscriminator" => some .oneof
  | "checkMarshalJSONConflict" => some .oneofConflict
  | "ValidateMethodConfig" => some .methodConfig
  | _ => none

def msgsOf (f : File) (nested : Bool) : List Message :=
  if nested then f.messages else f.messages.filter (·.topLevel)

def perField (msgs : List Message) (chk : Field → Verdict) : Verdict :=
  msgs.findSome? fun m => m.fields.findSome? chk

/-- one validator applied to a file. `nested = false` restricts a per-message validator to
top-level messages. -/
def applyV (rq : Request) (f : File) (nested : Bool) : V → Verdict
  | .enumConflict => perField (msgsOf f nested) (enumCheck rq)
  | .unwrap => (msgsOf f nested).findSome? unwrapCheck
  | .nullable => perField (msgsOf f nested) nullableCheck
  | .emptyBehavior => perField (msgsOf f nested) emptyBehaviorCheck
  | .timestamp => perField (msgsOf f nested) timestampCheck
  | .bytes => perField (msgsOf f nested) bytesCheck
  | .flattenField => perField (msgsOf f nested) flattenFieldCheck
  | .flattenCollisions => (msgsOf f nested).findSome? fun m => if hasFlatten m then flattenCollisions rq m else none
  | .flattenConflict => (msgsOf f nested).findSome? fun m => if hasFlatten m then flattenConflict m else none
  | .oneof => (msgsOf f nested).findSome? (oneofCheck rq)
  | .oneofConflict => (msgsOf f nested).findSome? oneofConflict
  | .methodConfig => f.services.findSome? (serviceCheck rq)

def applyValidator (rq : Request) (f : File) (nested : Bool) (name : String) : Verdict :=
  match V.ofName name with
  | some v => applyV rq f nested v
  | none => none

def runStep (rq : Request) (f : File) (st : Gen.Wiring.Step) : Verdict :=
  st.2.1.findSome? (applyValidator rq f st.2.2)

/-- `generateFile`: steps in order; the early return for service-less files cuts the rest. -/
def runSteps (rq : Request) (f : File) : List Gen.Wiring.Step → Verdict
  | [] => none
  | st :: rest =>
    if st.1 == "return_if_no_services" then (if f.services.isEmpty then none else runSteps rq f rest)
    else match runStep rq f st with
      | some e => some e
      | none => runSteps rq f rest

def generated (rq : Request) : List File := rq.files.filter (·.generate)

/-- go-http `Generate`: global unwrap collection over the files to generate, then each file. -/
def runGoHttp (rq : Request) : Verdict :=
  let pre : Verdict :=
    if Gen.Wiring.goHttpPre.contains "annotations.GetUnwrapField" then
      (generated rq).findSome? fun f => f.messages.findSome? unwrapCheck
    else none
  match pre with
  | some e => some e
  | none => (generated rq).findSome? fun f => runSteps rq f Gen.Wiring.goHttp

def runGoClient (rq : Request) : Verdict :=
  (generated rq).findSome? fun f => runSteps rq f Gen.Wiring.goClient

/-- ts-server: `resolvePathParamFields` + `validateFieldCoverage` per method. -/
def tsServerMethodCheck (rq : Request) (meth : Method) : Verdict :=
  let input := (rq.findMessage meth.input).getD default
  let vars := if meth.hasConfig then extractPathParams meth.path else []
  let v := if meth.hasConfig then verbOfNum meth.verbNum else "POST".toList
  match (if Gen.Wiring.tsServerValidators.contains "resolvePathParamFields" then
          vars.find? (fun p => !(input.fields.any (·.name == p))) else none) with
  | some p => some p
  | none =>
    if Gen.Wiring.tsServerValidators.contains "validateFieldCoverage" && !(isBodyVerb v) then
      match input.fields.find? (fun f => !vars.contains f.name && !(queryFieldNames input).contains f.name) with
      | some f => some f.name
      | none => none
    else none

def runTsServer (rq : Request) : Verdict :=
  (generated rq).findSome? fun f => f.services.findSome? fun s => s.methods.findSome? (tsServerMethodCheck rq)

end Sebuf.Impl
