import Sebuf.Str
import Sebuf.OaEmit
/-!
# The OpenAPI plugin's parameter string (`cmd/protoc-gen-openapiv3/main.go`)

`parseParameters` splits the parameter at `,`, each pair at its first `=` (`strings.SplitN(pair,
"=", 2)`; a pair without `=` is dropped) and stores `TrimSpace(key) ↦ TrimSpace(value)` in a map
(a later pair with the same key wins). `parseFormat` looks up `format`. The shape of the function
(split characters, both `TrimSpace` calls) is the regenerated fact `Gen.OpenApiMain.paramParsing`.
-/
namespace Sebuf.OaParams
open Sebuf

/-- `unicode.IsSpace` on Latin-1 (what `strings.TrimSpace` removes). -/
def isSpace (c : Char) : Bool :=
  c = ' ' || c = '\t' || c = '\n' || c = '\x0b' || c = '\x0c' || c = '\r' || c = '\u0085' || c = '\u00a0'

def trimLeft : Str → Str
  | [] => []
  | c :: r => if isSpace c then trimLeft r else c :: r

/-- `strings.TrimSpace`. -/
def trimSpace (s : Str) : Str := (trimLeft (trimLeft s).reverse).reverse

/-- `strings.SplitN(pair, "=", 2)` when it yields two parts. -/
def cutEq : Str → Option (Str × Str)
  | [] => none
  | c :: r => if c = '=' then some ([], r) else (cutEq r).map fun p => (c :: p.1, p.2)

/-- the pairs in order (the map keeps the LAST value of a key). -/
def parseParameters (param : Str) : List (Str × Str) :=
  (splitOnChar ',' param).filterMap fun pair => (cutEq pair).map fun kv => (trimSpace kv.1, trimSpace kv.2)

def lookupLast (k : Str) (l : List (Str × Str)) : Option Str := (l.reverse.find? (fun p => p.1 == k)).map (·.2)

/-- `parseFormat`: the output format constant for a plugin parameter (`none` = no parameter). -/
def formatOfParam (param : Option Str) : String :=
  match param with
  | none => OaEmit.formatOf none
  | some p =>
    match lookupLast Gen.OpenApiMain.paramKey.toList (parseParameters p) with
    | none => OaEmit.formatOf none
    | some v => OaEmit.formatOf (some (String.ofList v))

end Sebuf.OaParams
