package props

import (
	"bytes"
	"encoding/json"
	"fmt"
	"math"
	"math/big"
	"sort"
	"strconv"
	"strings"

	yaml "go.yaml.in/yaml/v4"

	"verif/harness/ir"
	"verif/harness/plug"
)

// OpenAPI document helpers shared by C18 / C06 / C19 / C20.

// oaRun runs protoc-gen-openapiv3 on req with a plugin parameter ("" = none).
func oaRun(req *ir.Request, param string) (*plug.Result, error) {
	c := req.Clone()
	c.Parameter = param
	return plug.Run(plug.OpenAPI, c, nil)
}

// normNum folds a number to canonical text: integral values as integers, others shortest float.
func normRat(r *big.Rat) any {
	if r.IsInt() {
		return json.Number(r.Num().String())
	}
	f, _ := r.Float64()
	return json.Number(strconv.FormatFloat(f, 'g', -1, 64))
}

func normFloat(f float64) any {
	if math.IsInf(f, 0) || math.IsNaN(f) {
		return fmt.Sprintf("<float %v>", f)
	}
	r := new(big.Rat)
	r.SetFloat64(f)
	return normRat(r)
}

// normalize turns a decoded YAML / JSON value into maps, slices, strings, bools, nil and
// json.Number with canonical number text.
func normalize(v any) any {
	switch x := v.(type) {
	case map[string]any:
		out := map[string]any{}
		for k, e := range x {
			out[k] = normalize(e)
		}
		return out
	case map[any]any:
		out := map[string]any{}
		for k, e := range x {
			out[fmt.Sprint(k)] = normalize(e)
		}
		return out
	case []any:
		out := make([]any, len(x))
		for i, e := range x {
			out[i] = normalize(e)
		}
		return out
	case int:
		return json.Number(strconv.Itoa(x))
	case int64:
		return json.Number(strconv.FormatInt(x, 10))
	case uint64:
		return json.Number(strconv.FormatUint(x, 10))
	case float64:
		return normFloat(x)
	case json.Number:
		r := new(big.Rat)
		if _, ok := r.SetString(x.String()); ok {
			return normRat(r)
		}
		return x
	default:
		return v
	}
}

// yamlNodeValue converts a YAML node with explicit YAML 1.2 core-schema typing: timestamps and
// anything else outside null / bool / int / float stay strings; non-finite floats are kept as
// their source text and reported.
func yamlNodeValue(n *yaml.Node, nonFinite *[]string) (any, error) {
	switch n.Kind {
	case yaml.DocumentNode:
		if len(n.Content) != 1 {
			return nil, fmt.Errorf("document with %d roots", len(n.Content))
		}
		return yamlNodeValue(n.Content[0], nonFinite)
	case yaml.AliasNode:
		return yamlNodeValue(n.Alias, nonFinite)
	case yaml.MappingNode:
		out := map[string]any{}
		for i := 0; i+1 < len(n.Content); i += 2 {
			k := n.Content[i]
			if k.Kind != yaml.ScalarNode {
				return nil, fmt.Errorf("line %d: non-scalar mapping key", k.Line)
			}
			if _, dup := out[k.Value]; dup {
				return nil, fmt.Errorf("line %d: duplicate key %q", k.Line, k.Value)
			}
			v, err := yamlNodeValue(n.Content[i+1], nonFinite)
			if err != nil {
				return nil, err
			}
			out[k.Value] = v
		}
		return out, nil
	case yaml.SequenceNode:
		out := make([]any, 0, len(n.Content))
		for _, c := range n.Content {
			v, err := yamlNodeValue(c, nonFinite)
			if err != nil {
				return nil, err
			}
			out = append(out, v)
		}
		return out, nil
	case yaml.ScalarNode:
		switch n.ShortTag() {
		case "!!null":
			return nil, nil
		case "!!bool":
			var b bool
			if err := n.Decode(&b); err != nil {
				return nil, err
			}
			return b, nil
		case "!!int":
			var v any
			if err := n.Decode(&v); err != nil {
				return nil, err
			}
			return normalize(v), nil
		case "!!float":
			var f float64
			if err := n.Decode(&f); err != nil {
				return nil, err
			}
			if math.IsInf(f, 0) || math.IsNaN(f) {
				*nonFinite = append(*nonFinite, n.Value)
				return n.Value, nil
			}
			return normFloat(f), nil
		default:
			return n.Value, nil
		}
	}
	return nil, fmt.Errorf("unexpected node kind %d", n.Kind)
}

// parseYAMLDocNF also returns the source text of non-finite float scalars.
func parseYAMLDocNF(text string) (map[string]any, []string, error) {
	var root yaml.Node
	if err := yaml.Unmarshal([]byte(text), &root); err != nil {
		return nil, nil, err
	}
	var nf []string
	v, err := yamlNodeValue(&root, &nf)
	if err != nil {
		return nil, nil, err
	}
	m, ok := v.(map[string]any)
	if !ok {
		return nil, nil, fmt.Errorf("document is not a mapping")
	}
	return m, nf, nil
}

func parseYAMLDoc(text string) (map[string]any, error) {
	m, _, err := parseYAMLDocNF(text)
	return m, err
}

// untaggedKeys are the schema keywords whose values the generator emits as untagged scalars.
var untaggedKeys = map[string]bool{"enum": true, "const": true, "example": true, "examples": true}

// oaStrings collects every mapping key and every string under an untagged-scalar keyword.
func oaStrings(v any, under bool, keys, vals map[string]bool) {
	switch x := v.(type) {
	case map[string]any:
		for k, e := range x {
			keys[k] = true
			oaStrings(e, untaggedKeys[k], keys, vals)
		}
	case []any:
		for _, e := range x {
			oaStrings(e, under, keys, vals)
		}
	case string:
		if under {
			vals[x] = true
		}
	}
}

// oaPredictJSON applies the Lean model of the JSON rendering (keys renamed, untagged plain
// scalars re-typed as YAML 1.1 booleans) to the YAML-parsed document.
func oaPredictJSON(v any, under bool, key func(string) string, retype func(string) (bool, bool)) any {
	switch x := v.(type) {
	case map[string]any:
		out := map[string]any{}
		for k, e := range x {
			out[key(k)] = oaPredictJSON(e, untaggedKeys[k], key, retype)
		}
		return out
	case []any:
		out := make([]any, len(x))
		for i, e := range x {
			out[i] = oaPredictJSON(e, under, key, retype)
		}
		return out
	case string:
		if under {
			if b, ok := retype(x); ok {
				return b
			}
		}
		return x
	}
	return v
}

func parseJSONDoc(text string) (map[string]any, error) {
	dec := json.NewDecoder(strings.NewReader(text))
	dec.UseNumber()
	var d any
	if err := dec.Decode(&d); err != nil {
		return nil, err
	}
	if dec.More() {
		return nil, fmt.Errorf("trailing data")
	}
	m, ok := normalize(d).(map[string]any)
	if !ok {
		return nil, fmt.Errorf("document is not an object")
	}
	return m, nil
}

// canonJSON renders with sorted keys.
func canonJSON(v any) string {
	var b bytes.Buffer
	enc := json.NewEncoder(&b)
	enc.SetEscapeHTML(false)
	_ = enc.Encode(v)
	return strings.TrimSpace(b.String())
}

// firstDiff names the first JSON pointer at which two normalised documents differ.
func docDiff(a, b any, at string) string {
	switch x := a.(type) {
	case map[string]any:
		y, ok := b.(map[string]any)
		if !ok {
			return at
		}
		keys := map[string]bool{}
		for k := range x {
			keys[k] = true
		}
		for k := range y {
			keys[k] = true
		}
		ks := make([]string, 0, len(keys))
		for k := range keys {
			ks = append(ks, k)
		}
		sort.Strings(ks)
		for _, k := range ks {
			xv, xo := x[k]
			yv, yo := y[k]
			if xo != yo {
				return at + "/" + k
			}
			if d := docDiff(xv, yv, at+"/"+k); d != "" {
				return d
			}
		}
		return ""
	case []any:
		y, ok := b.([]any)
		if !ok || len(x) != len(y) {
			return at
		}
		for i := range x {
			if d := docDiff(x[i], y[i], fmt.Sprintf("%s/%d", at, i)); d != "" {
				return d
			}
		}
		return ""
	default:
		if canonJSON(a) != canonJSON(b) {
			return at
		}
		return ""
	}
}

func atPointer(v any, ptr string) any {
	for _, p := range strings.Split(strings.TrimPrefix(ptr, "/"), "/") {
		if p == "" {
			continue
		}
		switch x := v.(type) {
		case map[string]any:
			v = x[p]
		case []any:
			i, err := strconv.Atoi(p)
			if err != nil || i < 0 || i >= len(x) {
				return nil
			}
			v = x[i]
		default:
			return nil
		}
	}
	return v
}

func oaComponents(doc map[string]any) map[string]any {
	c, _ := doc["components"].(map[string]any)
	s, _ := c["schemas"].(map[string]any)
	if s == nil {
		s = map[string]any{}
	}
	return s
}

// oaServices lists the services of the files to generate, in emission order.
func oaServices(req *ir.Request) (out []struct {
	F *ir.File
	S *ir.Service
}) {
	gen := map[string]bool{}
	for _, g := range req.Generate {
		gen[g] = true
	}
	for _, f := range req.Files {
		if !gen[f.Name] {
			continue
		}
		for _, s := range f.Services {
			out = append(out, struct {
				F *ir.File
				S *ir.Service
			}{f, s})
		}
	}
	return
}

// plainMessage: no annotation changes the object shape of the message's own schema.
func plainMessage(m *ir.Message) bool {
	for _, o := range m.Oneofs {
		if o.HasConfig || o.Discriminator != nil || o.Flatten {
			return false
		}
	}
	for _, f := range m.Fields {
		if f.Ann.Unwrap || (f.Ann.Flatten != nil && *f.Ann.Flatten) {
			return false
		}
	}
	return true
}

func jsonNames(m *ir.Message) []string {
	var out []string
	for _, f := range m.Fields {
		out = append(out, f.JSON())
	}
	sort.Strings(out)
	return out
}

func propertyNames(schema any) []string {
	s, _ := schema.(map[string]any)
	p, _ := s["properties"].(map[string]any)
	out := make([]string, 0, len(p))
	for k := range p {
		out = append(out, k)
	}
	sort.Strings(out)
	return out
}

func sameStrings(a, b []string) bool {
	if len(a) != len(b) {
		return false
	}
	for i := range a {
		if a[i] != b[i] {
			return false
		}
	}
	return true
}
