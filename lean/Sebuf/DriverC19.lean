import Sebuf.DriverOA
import Sebuf.OaRules
/-!
Driver op `c19_case` (property C19): for one field (kind, cardinality, int64 encoding, rules)
and a list of probe values it returns the schema object the Impl model publishes, whether the
model says the generator dies, and per probe: the JSON form, `Spec.satisfies`, and
`OaRules.accepts` against BOTH the model's schema and the schema object the harness cut out of
the really emitted document. Op `c19_required`: the model's `required` list of a message.

Numbers travel as `{"$int": "<decimal>"}` / `{"$float": "<canonical decimal>"}` in both
directions, counts as decimal strings.
-/
namespace Sebuf.Driver
open Sebuf.OaRules

/-- wire JSON → model JSON. -/
partial def ofWire : Lean.Json → Sebuf.Json
  | .null => .null
  | .bool b => .bool b
  | .num n => if n.exponent == 0 then .num (.int n.mantissa) else .num (.float (toString n).toList)
  | .str s => .str s.toList
  | .arr a => .arr (a.toList.map ofWire)
  | .obj kvs =>
    match kvs.toList with
    | [("$int", .str s)] => .num (.int (s.toInt?.getD 0))
    | [("$float", .str s)] => .num (.float s.toList)
    | l => .obj (l.map fun p => (p.1.toList, ofWire p.2))

def numOf (j : Lean.Json) : JNum :=
  match ofWire j with
  | .num n => n
  | _ => .int 0

def optField (j : Lean.Json) (k : String) : Option Lean.Json :=
  match j.getObjVal? k with
  | .ok .null => none
  | .ok v => some v
  | .error _ => none

def optNat (j : Lean.Json) (k : String) : Option Nat :=
  (optField j k).bind fun v => match v with | .str s => s.toNat? | _ => none

def optStrF (j : Lean.Json) (k : String) : Option Str :=
  (optField j k).bind fun v => match v with | .str s => some s.toList | _ => none

def optBound (j : Lean.Json) (k : String) : Option NumB :=
  (optField j k).map fun v => ⟨numOf (v.getObjValD "v"), numOf (v.getObjValD "wide")⟩

def nkindOf (s : String) : Option NKind := NKind.all.find? fun k => k.name == s

def fkindOf (s : String) : FKind :=
  match s with
  | "string" => .string
  | "bool" => .bool
  | _ => match nkindOf s with | some k => .num k | none => .bool

def cardOf (s : String) : FCard :=
  match s with
  | "optional" => .optional
  | "repeated" => .repeated
  | "map" => .map
  | _ => .single

def fmtOf (s : String) : Option Fmt := Fmt.all.find? fun f => Spec.formatName f == s

def rulesOf (j : Lean.Json) : FieldRules :=
  { required := getBool j "required"
    minLen := optNat j "min_len", maxLen := optNat j "max_len"
    pattern := optStrF j "pattern"
    strIn := getStrList j "str_in"
    strConst := optStrF j "str_const"
    format := (optStrF j "format").bind fun s => fmtOf (String.ofList s)
    group := (nkindOf (String.ofList (getStr j "group"))).getD .int32
    gt := optBound j "gt", gte := optBound j "gte", lt := optBound j "lt", lte := optBound j "lte"
    numIn := (getArr j "num_in").map numOf
    numConst := (optField j "num_const").map numOf
    minItems := optNat j "min_items", maxItems := optNat j "max_items"
    unique := getBool j "unique"
    minPairs := optNat j "min_pairs", maxPairs := optNat j "max_pairs" }

def scalarOf (j : Lean.Json) : Scalar :=
  match optField j "n" with
  | some n => .num (numOf n)
  | none =>
    match j.getObjVal? "s" with
    | .ok (.str s) => .str s.toList
    | _ => .bool (getBool j "b")

def valueOf (j : Lean.Json) : V :=
  match j.getObjVal? "l" with
  | .ok (.arr a) => .list (a.toList.map scalarOf)
  | _ =>
    match j.getObjVal? "m" with
    | .ok (.arr a) => .map (a.toList.map fun p => (getStr p "k", scalarOf (p.getObjValD "v")))
    | _ => .one (scalarOf j)

/-- first binding of every key (what `Json.oget` reads), so that the printed object has no
duplicate keys. -/
def firstBindings (l : List (Str × Sebuf.Json)) : List (Str × Sebuf.Json) :=
  (l.foldl (fun acc p => if acc.any (fun q => q.1 == p.1) then acc else p :: acc) []).reverse

partial def dedupKeys : Sebuf.Json → Sebuf.Json
  | .arr l => .arr (l.map dedupKeys)
  | .obj kvs => .obj ((firstBindings kvs).map fun p => (p.1, dedupKeys p.2))
  | x => x

def opC19Case (j : Lean.Json) : Lean.Json :=
  let k := fkindOf (String.ofList (getStr j "kind"))
  let c := cardOf (String.ofList (getStr j "card"))
  let i64n := getBool j "int64_number"
  let r := rulesOf (j.getObjValD "rules")
  let nl := getBool j "nullable"
  let implSchema := if getBool j "json_format" then Impl.fieldSchemaJsonN nl k c i64n r else Impl.fieldSchemaN nl k c i64n r
  let real := ofWire (j.getObjValD "real_schema")
  let hasReal := match j.getObjVal? "real_schema" with | .ok .null => false | .ok _ => true | .error _ => false
  let probes := (getArr j "probes").map valueOf
  Lean.Json.mkObj [
    ("impl_schema", toLeanJson (dedupKeys implSchema)),
    ("impl_constraints", toLeanJson (dedupKeys (.obj (Impl.constraints k c i64n r)))),
    ("impl_crashes", Lean.Json.bool (Impl.crashes k c r)),
    ("in_theorem_domain", Lean.Json.bool (inTheoremDomain k c i64n r &&
      (!(getBool j "json_format") || Sebuf.Json.beq (Impl.fieldSchemaJson k c i64n r) (Impl.fieldSchema k c i64n r)))),
    ("probes", Lean.Json.arr (probes.map fun v =>
      let jf := jsonForm k i64n v
      Lean.Json.mkObj [
        ("json", toLeanJson jf),
        ("spec", Lean.Json.bool (Spec.satisfies k c r v)),
        ("impl_valid", Lean.Json.bool (accepts [] 16 implSchema jf)),
        ("real_valid", if hasReal then Lean.Json.bool (accepts [] 16 real jf) else Lean.Json.null)]).toArray)]

def opC19Required (j : Lean.Json) : Lean.Json :=
  let fields := (getArr j "fields").map fun f => (getStr f "json", ({ required := getBool f "required" } : FieldRules))
  Lean.Json.mkObj [("required", Lean.Json.arr ((Impl.requiredList fields).map jstr).toArray)]

/-- the YAML plain-scalar model alone (for the scalar correspondence of the harness). -/
def opC19Yaml (j : Lean.Json) : Lean.Json :=
  Lean.Json.mkObj [("values", Lean.Json.arr ((getStrList j "values").map fun v => toLeanJson (yamlScalar v)).toArray)]

end Sebuf.Driver
