import Sebuf.Lemmas.Order
import Sebuf.Gen.MapRanges
import Sebuf.Lemmas.OaParams
import Sebuf.Lemmas.OutDir
/-!
# C15 — generation is a pure, order-independent function of the definitions

Go randomises map iteration per process. The model makes the iteration order an explicit
parameter (`iter`, any permutation) and proves that what the generators print does not depend on
it: `CombineHeaders` and `OrderedEnums` sort the keys they collect. `Gen.MapRanges` lists every
`range` over a map-typed variable in generator code, regenerated on every run; each must be of
one of the two order-insensitive shapes.

Partial by nature: hash seeds, GOMAXPROCS and cross-invocation state are runtime; the
`gen_repeat` correspondence (repeated runs, extra files, permuted / single-file invocations,
byte comparison) supports the static facts.
-/
namespace Sebuf.C15
open Sebuf

/-- **sorted merge**: the merged header list is the same for every map iteration order. -/
theorem sorted_merge (iter : List Str → List Str) (hperm : ∀ l, (iter l).Perm l) (s m : List Header) :
    combineHeadersWith iter s m = combineHeaders s m :=
  combineHeaders_iter_indep iter hperm s m

/-- the merged list is strictly sorted by name (so names are unique per operation). -/
theorem merge_sorted (s m : List Header) (hs : s ≠ []) (hm : m ≠ []) :
    List.Pairwise (fun a b => strLt a.name b.name = true) (combineHeaders s m) :=
  combineHeaders_sorted s m hs hm

/-- **enum order**: TypeScript enum declarations come out in the same order for every iteration order. -/
theorem enum_order (iter : List Str → List Str) (hperm : ∀ l, (iter l).Perm l) (keys : List Str) :
    orderedEnums iter keys = orderedEnums id keys :=
  orderedEnums_iter_indep iter hperm keys

/-- **map ranges are benign**: every `range` over a map in generator code either collects keys
into a slice that is sorted before use, or only inserts into another map. Closed by `decide` on
the sites found in the current source. -/
theorem map_ranges_benign : ∀ s ∈ Gen.MapRanges.sites, s.2.2.1 = true ∨ s.2.2.2.1 = true := by decide

/-- **the sorts are total**: every site that relies on sorting the collected keys sorts them with
the plain string order (`sort.Strings` / `slices.Sort`), under which distinct map keys never
compare equal — a comparator that identifies distinct keys (e.g. case-insensitive) would leave
their relative order to the map iteration. -/
theorem sorted_sites_use_total_order :
    ∀ s ∈ Gen.MapRanges.sites, s.2.2.1 = true → s.2.2.2.2 = "sort.Strings" ∨ s.2.2.2.2 = "slices.Sort" := by decide

/-- what a regression would look like: without the sort the result depends on the iteration order. -/
theorem unsorted_would_depend : ∃ s m iter₁ iter₂, (∀ l, (iter₁ l).Perm l) ∧ (∀ l, (iter₂ l).Perm l) ∧
    combineHeadersUnsorted iter₁ s m ≠ combineHeadersUnsorted iter₂ s m :=
  unsorted_depends_on_iter

/-- non-vacuity: a non-identity permutation satisfies the hypothesis. -/
example : ∀ l : List Str, (List.reverse l).Perm l := fun l => List.reverse_perm l

/-! ### parameter spelling (openapiv3 parses its own parameter string) -/

/-- the shape of `parseParameters` the model `OaParams.parseParameters` transcribes: pairs cut at
`,`, each at its first `=`, key and value stored through `strings.TrimSpace` (regenerated from
`cmd/protoc-gen-openapiv3/main.go`). -/
theorem param_parsing_transcribed :
    Gen.OpenApiMain.pairSplit = "strings.Split(parameter, \",\")" ∧
    Gen.OpenApiMain.kvSplit = "strings.SplitN(pair, \"=\", splitLimit)" ∧ Gen.OpenApiMain.kvLimit = 2 ∧
    Gen.OpenApiMain.storeKey = "strings.TrimSpace(kv[0])" ∧ Gen.OpenApiMain.storeValue = "strings.TrimSpace(kv[1])" := by decide

/-- **the spelling of the `format` pair does not matter**: for ANY white space before the key,
between key and `=`, between `=` and the value and after the value, and any value that is a word
without `,` (so: every value of the format table and every unknown one), the plugin selects the
format `format=<value>` selects — the output is the same function of the definitions. -/
theorem format_spelling_independent (a b c d v : Str) (ha : OaParams.Spaces a) (hb : OaParams.Spaces b)
    (hc : OaParams.Spaces c) (hd : OaParams.Spaces d) (hv : OaParams.Word v) (hvc : ∀ x ∈ v, x ≠ ',') :
    OaParams.formatOfParam (some (a ++ "format".toList ++ b ++ '=' :: (c ++ v ++ d))) =
      OaParams.formatOfParam (some ("format=".toList ++ v)) := by
  rw [OaParams.format_spelling a b c d v ha hb hc hd hv hvc]
  have := OaParams.format_spelling [] [] [] [] v (by intro _ h; cases h) (by intro _ h; cases h)
    (by intro _ h; cases h) (by intro _ h; cases h) hv hvc
  simp only [List.nil_append, List.append_nil] at this
  rw [← this]; rfl

/-- non-vacuity and the other spellings the correspondence draws (another parameter before / after the
pair, tabs, an empty parameter, `yml`). -/
example :
    OaParams.formatOfParam (some " format = json ".toList) = "FormatJSON" ∧
    OaParams.formatOfParam (some "paths=source_relative, format = json".toList) = "FormatJSON" ∧
    OaParams.formatOfParam (some "format=json ,paths=source_relative".toList) = "FormatJSON" ∧
    OaParams.formatOfParam (some "\tformat\t=\tjson".toList) = "FormatJSON" ∧
    OaParams.formatOfParam (some "format = yml".toList) = "FormatYAML" ∧
    OaParams.formatOfParam (some "".toList) = "FormatYAML" ∧ OaParams.formatOfParam none = "FormatYAML" ∧
    OaParams.formatOfParam (some "format=yaml,format=json".toList) = "FormatJSON" := by decide

/-! ### the global unwrap table (files generated in the same invocation)

`CollectGlobalUnwrapInfo` folds every message of every file to generate into one Go map; code emission
only ever reads it by key. The model is `OutDir.writeAll` from the empty map (a Go map assignment IS
`OutDir.write`). Message full names are unique in a descriptor pool, so the entries are `Functional`. -/

/-- every write to and read of the table is keyed by the message's FULL name (regenerated from
`internal/httpgen/unwrap.go`), which is what makes the entries functional. -/
theorem unwrap_table_keyed_by_full_name :
    Gen.MapRanges.unwrapTable = [
      ("collectFileUnwrapFields", "write", "string(msg.Desc.FullName())"),
      ("collectUnwrapFieldsRecursive", "write", "string(msg.Desc.FullName())"),
      ("collectRootUnwrapMessages", "read", "string(msg.Desc.FullName())"),
      ("collectUnwrapMapFields", "read", "string(valueMsg.Desc.FullName())")] := by decide

open OutDir in
/-- **the order of the files (and of the messages in them) does not matter**: every lookup in the table
gives the same answer for every permutation of the collected entries. -/
theorem unwrap_table_order_free (entries entries' : List (String × String)) (h : entries'.Perm entries)
    (hf : Functional entries) (k : String) :
    writeAll (fun _ => none) entries' k = writeAll (fun _ => none) entries k :=
  writeAll_perm entries' entries h hf _ k

open OutDir in
/-- **an unrelated file does not matter**: entries under other names — collected before or after — leave
the lookup of a name as it was, so a file's output cannot change with files that define none of the
messages it refers to. -/
theorem unwrap_table_unrelated_file (entries extra : List (String × String)) (k : String)
    (hx : ∀ p ∈ extra, p.1 ≠ k) :
    writeAll (fun _ => none) (entries ++ extra) k = writeAll (fun _ => none) entries k ∧
    writeAll (fun _ => none) (extra ++ entries) k = writeAll (fun _ => none) entries k :=
  writeAll_append_other entries extra _ k hx

/-- non-vacuity: two entries, swapped, and a third under another name. -/
example :
    OutDir.writeAll (fun _ => none) [("p.A", "items"), ("p.B", "rows")] "p.A" = some "items" ∧
    OutDir.writeAll (fun _ => none) [("p.B", "rows"), ("p.A", "items")] "p.A" = some "items" ∧
    OutDir.writeAll (fun _ => none) [("q.C", "x"), ("p.B", "rows"), ("p.A", "items")] "p.A" = some "items" := by
  simp [OutDir.writeAll, OutDir.write]

end Sebuf.C15
