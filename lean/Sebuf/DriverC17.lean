import Sebuf.Driver
import Sebuf.DriverC09
import Sebuf.Conc
import Sebuf.Headers
namespace Sebuf.Driver
open Lean (Json)
open Sebuf.Headers

/-- `[["k","v"], …]` → `Conc.Headers`. -/
def pairsOf (j : Json) : Sebuf.Conc.Headers :=
  match j with
  | Json.arr a => a.toList.filterMap fun p =>
      match p with
      | Json.arr kv =>
        match kv.toList with
        | [Json.str k, Json.str v] => some (k, v)
        | _ => none
      | _ => none
  | _ => []

def pairsJson (h : Sebuf.Conc.Headers) : Json :=
  Json.arr (h.map fun kv => Json.arr #[Json.str kv.1, Json.str kv.2]).toArray

/-- C17 correspondence: a batch of calls issued on ONE generated client (defaults fixed at
construction, per-call options per call, issued in `order`). For every call `i` the model says
which headers the request carries (`Conc.requestHeadersOrd rpc`: the client is only read, so
defaults then the call's OWN options, whatever was issued before) and, from the route's own
service + method header declarations (`Headers.violations`), whether the server dispatches it.
`leak` is what the writing variant `rpcBad` would send instead (defaults polluted by earlier
calls). Header names arrive in net/http canonical form; `Content-Type` is set first. -/
def opC17Calls (j : Json) : Json :=
  let ct := String.ofList (getStr j "ct")
  let defaults : Sebuf.Conc.Headers := ("Content-Type", ct) :: pairsOf (j.getObjValD "defaults")
  let calls := getArr j "calls"
  let opts : List Sebuf.Conc.Headers := calls.map fun c => pairsOf (c.getObjValD "opts")
  let order : List Nat := match j.getObjValAs? (Array Nat) "order" with
    | .ok a => a.toList
    | .error _ => List.range opts.length
  let libs : List (Str × Lib) := (getArr j "lib").map fun l => (getStr l "value", libOf l)
  let outs := (List.range calls.length).map fun i =>
    let c := calls.getD i Json.null
    let hs := (Sebuf.Conc.requestHeadersOrd Sebuf.Conc.rpc order defaults opts i).getD []
    let bad := (Sebuf.Conc.requestHeadersOrd Sebuf.Conc.rpcBad order defaults opts i).getD []
    let svc := (getArr c "service").map hspecOf
    let meth := (getArr c "method").map hspecOf
    let req : Hdrs := fun n =>
      (hs.find? fun kv => lower kv.1.toList == n).map fun kv =>
        let v := kv.2.toList
        (v, ((libs.find? (·.1 == v)).map (·.2)).getD { utf8OK := true, floatOK := false, dateTimeOK := false, dateOK := false, timeOK := false })
    Json.mkObj [("headers", pairsJson hs), ("leak", pairsJson bad),
                ("dispatched", Json.bool (dispatched svc meth req)),
                ("violations", Json.arr ((violations svc meth req).map jstr).toArray)]
  Json.mkObj [("calls", Json.arr outs.toArray)]

end Sebuf.Driver
