import Sebuf.Lemmas.Mapping
import Sebuf.Lemmas.GoJson
/-!
# C05 — server JSON follows the documented mapping wherever an annotated type occurs

`Spec` is `Mapping.enc` (the documented mapping, annotations honoured at every depth; `Mapping.pj`
is plain proto3 JSON). `Impl` is `WireEnc.wireEnc` (what the emitted Go encodes: the top-level
type's own `MarshalJSON`, children through protojson). The harness checks `Impl` against the REAL
emitted code for every generated schema and value (correspondence) and the real code against
`Spec` (oracle).

Proved:
* a schema without annotations is encoded by `Spec` exactly as proto3 JSON (`unannotated_is_proto3`);
* **the property, partial**: when only the top-level message carries annotations, the server's JSON
  IS the documented mapping (`server_follows_mapping_partial`);
* the full statement ("at any depth") is FALSE of `Impl` and of the real code: witnesses
  `depth_independence_fails_*` (known findings of C05, replayed on the real code by the harness);
* `json.Marshal` of a protoc-gen-go struct names every member by the PROTO field name, protojson by
  the JSON name (`goJson_keys_are_proto_names`, `protojson_keys_are_json_names`: all schemas, values);
  hence the flatten template's wire form of a multi-word child field is not the documented one
  (`flatten_mapping_diverges`, both sides evaluated);
* by kernel evaluation of the model on closed schemas: one witness per root cause the harness files a
  `mapping:` divergence under for the encoding/json templates.
-/
namespace Sebuf.C05
open Sebuf Sebuf.Mapping Sebuf.WireEnc

/-- every field without an annotation is encoded exactly as proto3 JSON does — for whole schemas
without annotations, at every depth, any fuel, any value. -/
theorem unannotated_is_proto3 (rq : Request) (h : rq.noAnn = true) (fuel : Nat) (m : Message)
    (hm : m ∈ rq.allMessages) (vs : List (Str × Val)) :
    enc rq fuel m vs = pj rq fuel m vs := enc_eq_pj_of_noAnn rq h fuel m hm vs

/-- a server whose schema carries no annotation sends plain proto3 JSON: `Impl = Spec = proto3`. -/
theorem unannotated_server_is_proto3 (rq : Request) (h : rq.noAnn = true) (fuel : Nat) (m : Message)
    (hm : m ∈ rq.allMessages) (hnd : (rq.allMessages.map (·.fullName)).Nodup) (vs : List (Str × Val)) :
    wireEnc rq fuel m vs = encMsg rq true true fuel m vs := by
  apply wireEnc_eq_spec_top_only
  refine ⟨fun x hx _ => Request.noAnn_messages h x hx, Request.noAnn_enums h, ?_, hnd, hm⟩
  intro f hf
  have := (Message.noAnn_iff m).mp (Request.noAnn_messages h m hm)
  exact ((Field.noAnn_iff f).mp (this.1 f hf)).2.2.1

/-- **C05, partial** — annotations only on the RPC's top-level message: the server's JSON is the
documented mapping (for the templates `WireEnc.modelled` covers, see the correspondence). -/
theorem server_follows_mapping_partial (rq : Request) (m : Message) (h : AnnotatedOnlyAtTop rq m)
    (fuel : Nat) (vs : List (Str × Val)) :
    wireEnc rq fuel m vs = encMsg rq true true fuel m vs := wireEnc_eq_spec_top_only rq m h fuel vs

/-- the hypothesis is satisfiable and the conclusion is not trivial: an `int64_encoding=NUMBER`
field on the top-level message goes out as a JSON number. -/
example : AnnotatedOnlyAtTop Witness.rqTop Witness.childMsg := Witness.top_only_child

/-- the full statement fails: the same annotated message nested in an unannotated parent is sent
with the 64-bit integer as a string (known finding `nested_int64_number_ignored`). -/
theorem depth_independence_fails_int64 (n : Nat) :
    wireEnc Witness.rqNested (n + 6) Witness.parentMsg Witness.vNested ≠
      enc Witness.rqNested (n + 6) Witness.parentMsg Witness.vNested := Witness.nested_int64_number_ignored n

/-- enum custom values never reach the wire (protojson does not consult the enum's `MarshalJSON`). -/
theorem depth_independence_fails_enum (n : Nat) :
    wireEnc Witness.rqEnum (n + 3) Witness.paintMsg Witness.vEnum ≠
      enc Witness.rqEnum (n + 3) Witness.paintMsg Witness.vEnum := Witness.enum_custom_value_never_on_wire n

/-! ### the encoding/json templates -/

section GoJsonTemplates
open Sebuf.GoJson Sebuf.GoJson.W Sebuf.Json

/-- `json.Marshal` of a protoc-gen-go struct (a message type without a oneof and without its own
`MarshalJSON`): every member is named by a PROTO field name — any schema, value, fuel. -/
theorem goJson_keys_are_proto_names (rq : Request) (n : Nat) (m : Message) (vs : List (Str × Val)) (j : Json)
    (ho : m.oneofs = []) (h : goJson rq n m vs = some j) :
    ∃ kvs, j = Json.obj kvs ∧ ∀ p ∈ kvs, ∃ f ∈ m.fields, p.1 = f.name :=
  goMsg_keys_proto_names rq n m vs j ho h

/-- protojson names every member by the field's JSON name (lowerCamel). -/
theorem protojson_keys_are_json_names (rq : Request) (n : Nat) (m : Message) (vs : List (Str × Val)) :
    ∃ kvs, pjMsg rq (n + 1) m vs = Json.obj kvs ∧ ∀ p ∈ kvs, ∃ f ∈ m.fields, p.1 = f.json :=
  pjMsg_keys_json_names rq n m vs

/-- the two namings differ as soon as a field name has an underscore. -/
example : jsonName (s "zip_code") = s "zipCode" ∧ s "zip_code" ≠ s "zipCode" := by decide

/-- `mapping:flatten_child_via_encoding_json` — `Flat{title:"t", home:{zip_code:"z"}}` with
`home` flattened under the prefix `home_`: the server sends `home_zip_code`, the documented
mapping says `home_zipCode`. -/
theorem flatten_wire_keys_snake_case :
    serverEnc W.rq 12 flat vFlat = some (Json.obj [(s "title", W.str "t"), (s "home_zip_code", W.str "z")]) := flat_wire
theorem flatten_spec_keys_lower_camel (n : Nat) :
    enc W.rq (n + 6) flat vFlat = Json.obj [(s "title", W.str "t"), (s "home_zipCode", W.str "z")] := flat_spec n
theorem flatten_mapping_diverges (n : Nat) : serverEnc W.rq 12 flat vFlat ≠ some (enc W.rq (n + 6) flat vFlat) := by
  rw [flatten_wire_keys_snake_case, flatten_spec_keys_lower_camel]
  decide

/-- 64-bit integers of a flattened child are sent as JSON numbers. -/
theorem flatten_child_int64_as_number :
    serverEnc W.rq 12 flat [(s "home", .msg [(s "big", .int 5)])] = some (Json.obj [(s "home_big", W.int 5)]) := flat_wire_int64

/-- two flatten fields of the same child type: each child's members stay under its own prefix
(a member the second child omits is NOT inherited from the first). -/
theorem flatten_two_children_keys_apart :
    serverEnc W.rq 12 two [(s "billing", .msg [(s "street", vstr "a"), (s "count", .int 12)]), (s "shipping", .msg [(s "street", vstr "b")])] =
    some (Json.obj [(s "billing_street", W.str "a"), (s "billing_count", W.int 12), (s "shipping_street", W.str "b")]) := two_wire

/-- `mapping:oneof_flatten_variant_via_encoding_json`. -/
theorem oneof_flatten_wire_multiword :
    serverEnc W.rq 12 oneFlat [(s "ident", vstr "i"), (s "multi_word", .msg [(s "lang_code", vstr "en")])] =
    some (Json.obj [(s "ident", W.str "i"), (s "type", W.str "mw"), (s "lang_code", W.str "en")]) := oneFlat_wire_multiword

/-- `mapping:oneof_flatten_variant_dropped_on_marshal_error`. -/
theorem oneof_flatten_wire_nan_dropped :
    serverEnc W.rq 12 oneFlat [(s "single", .msg [(s "body", vstr "b"), (s "ratio", .float (s "NaN") true)])] =
    some (Json.obj [(s "type", W.str "single")]) := oneFlat_wire_nan

/-- `mapping:int64@oneof_variant`: a variant type with `int64_encoding = NUMBER` under a nested
discriminated oneof is written by protojson (string). -/
theorem oneof_nested_annotated_variant_by_protojson :
    serverEnc W.rq 12 oneNest [(s "num", .msg [(s "big_val", .int 5)])] =
    some (Json.obj [(s "num", Json.obj [(s "bigVal", W.str "5")]), (s "type", W.str "num")]) := oneNest_wire_annotated_variant

/-- `mapping:root_unwrap_scalar_via_encoding_json`: a root unwrap of `repeated int64` is an array of
numbers (proto3 JSON: decimal strings). -/
theorem root_unwrap_int64_as_number : serverEnc W.rq 12 numList [(s "nums", .list [.int 5])] = some (Json.arr [W.int 5]) := numList_wire

/-- `mapping:unwrap_container_sibling_via_encoding_json`, `mapping:unwrap_map_value_scalar_via_encoding_json`,
`mapping:unwrap_map_value_nil_scalar_list_as_null`: the container's 64-bit sibling and the
unwrapped scalar lists are numbers; an empty scalar list is `null`. -/
theorem container_wire :
    serverEnc W.rq 12 cont [(s "by_n", .map [(s "x", .msg [(s "nums", .list [.int 5])]), (s "z", .msg [])]), (s "big_i", .int 7)] =
    some (Json.obj [(s "byN", Json.obj [(s "x", Json.arr [W.int 5]), (s "z", Json.null)]), (s "bigI", W.int 7)]) := cont_wire

/-- `encode_error:*` (the server answers 500 for a valid message). -/
theorem encoding_json_encode_errors :
    serverEnc W.rq 12 flatFlags [(s "inner", .msg [(s "ratio", .float (s "NaN") true)])] = none ∧
    serverEnc W.rq 12 flatFlags [(s "inner", .msg [(s "flags", .map [(s "true", vstr "x")])])] = none ∧
    serverEnc W.rq 12 ratios [(s "items", .list [.float (s "Infinity") true])] = none ∧
    serverEnc W.rq 12 cont [(s "dbl", .float (s "NaN") true)] = none :=
  ⟨flatFlags_nan, flatFlags_bool_map, ratios_nan, cont_nan⟩

/-- `decode_contract_form*` (the handler-visible request for a body in the documented form). -/
theorem contract_form_requests :
    GoDec.serverDec W.rq 12 flat (Json.obj [(s "title", W.str "t"), (s "home_street", W.str "x"), (s "home_zipCode", W.str "z")]) = .ok [(s "title", vstr "t")] ∧
    GoDec.serverDec W.rq 12 flat (Json.obj [(s "home_big", W.str "5")]) = .error (.goType (s "big")) ∧
    GoDec.serverDec W.rq 12 oneFlat (Json.obj [(s "type", W.str "mw"), (s "langCode", W.str "en"), (s "url", W.str "u")]) = .ok [(s "multi_word", .msg [(s "url", vstr "u")])] ∧
    GoDec.serverDec W.rq 12 oneFlat (Json.obj [(s "type", W.str "single"), (s "big", W.str "5")]) = .error (.goType (s "big")) ∧
    GoDec.serverDec W.rq 12 oneFlat (Json.obj [(s "type", W.str "single"), (s "ratio", Json.num (JNum.float (s "-0")))]) = .ok [(s "single", .msg [])] ∧
    GoDec.serverDec W.rq 12 oneNest (Json.obj [(s "type", W.str "single"), (s "single", Json.obj [(s "big", W.str "5")])]) = .error (.goType (s "big")) ∧
    GoDec.serverDec W.rq 12 numList (Json.arr [W.str "5"]) = .error (.goType (s "nums")) ∧
    GoDec.serverDec W.rq 12 cont (Json.obj [(s "bigI", W.str "7")]) = .error (.goType (s "big_i")) ∧
    GoDec.serverDec W.rq 12 cont (Json.obj [(s "byK", Json.obj [(s "k", Json.obj [(s "street", W.str "x"), (s "zipCode", W.str "z")])])]) =
      .ok [(s "by_k", .map [(s "k", .msg [(s "street", vstr "x")])])] :=
  ⟨flat_contract_child_lost, flat_contract_int64, oneFlat_contract_multiword_dropped, oneFlat_contract_int64, oneFlat_contract_negzero,
   oneNest_contract_int64, numList_contract, cont_contract_int64, cont_contract_member_dropped⟩

end GoJsonTemplates

end Sebuf.C05
