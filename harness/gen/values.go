package gen

import (
	"math"

	"google.golang.org/protobuf/encoding/protojson"
	"google.golang.org/protobuf/reflect/protodesc"
	"google.golang.org/protobuf/reflect/protoreflect"
	"google.golang.org/protobuf/reflect/protoregistry"
	"google.golang.org/protobuf/types/descriptorpb"
	"google.golang.org/protobuf/types/dynamicpb"

	"verif/harness/ir"
)

// Descs resolves the request's descriptors (so that values can be built by reflection).
func Descs(req *ir.Request) (*protoregistry.Files, error) {
	cgr, err := req.ToCodeGenRequest()
	if err != nil {
		return nil, err
	}
	return protodesc.NewFiles(&descriptorpb.FileDescriptorSet{File: cgr.ProtoFile})
}

func FindMsg(files *protoregistry.Files, full string) protoreflect.MessageDescriptor {
	d, err := files.FindDescriptorByName(protoreflect.FullName(full[1:]))
	if err != nil {
		return nil
	}
	md, _ := d.(protoreflect.MessageDescriptor)
	return md
}

var strPool = []string{"", "a", "hello", "a b", "a/b", "q?x=1&y=2", "100%", "é", "日本", "a+b", "x#frag", ".", "..", "tab\there", "quote\"s", "back\\slash", "UPPER", "-dash-", "~tilde", "semi;colon", "a,b", "@at:colon", "😀",
	// text that LOOKS percent-encoded: a value decoded once too often, or not at all, changes
	"100%25.txt", "a%2Fb", "caf%C3%A9 %41", "%zz", "%"}
var i32Pool = []int64{0, 1, -1, 7, 42, math.MaxInt32, math.MinInt32, 1000000}
var i64Pool = []int64{0, 1, -1, 9007199254740991, 9007199254740993, math.MaxInt64, math.MinInt64, 1234567890123}
var u32Pool = []uint64{0, 1, 7, math.MaxUint32, 65536}
var u64Pool = []uint64{0, 1, 9007199254740993, math.MaxUint64, 1 << 53}
var f64Pool = []float64{0, 1, -1, 0.5, 1e21, 1e-7, 3.141592653589793, math.MaxFloat64, math.SmallestNonzeroFloat64, math.Copysign(0, -1)}
var f32Pool = []float64{0, 1, -1, 0.5, 16777216, 3.4028234663852886e38, 1.401298464324817e-45, 0.1}

// ValOpts steer RandomMessage.
type ValOpts struct {
	// NonFinite allows NaN and ±Inf for float kinds.
	NonFinite bool
	// PathSafe: field names that must be non-empty / non-dot (path-bound).
	PathBound map[string]bool
	// SparseP: probability (out of 8) that a field is left unset.
	SparseP int
}

func scalar(r *R, fd protoreflect.FieldDescriptor, o *ValOpts, pathBound bool) protoreflect.Value {
	switch fd.Kind() {
	case protoreflect.StringKind:
		s := Pick(r, strPool)
		if pathBound {
			for s == "" || s == "." || s == ".." {
				s = Pick(r, strPool)
			}
		}
		return protoreflect.ValueOfString(s)
	case protoreflect.BoolKind:
		return protoreflect.ValueOfBool(r.Bool())
	case protoreflect.Int32Kind, protoreflect.Sint32Kind, protoreflect.Sfixed32Kind:
		return protoreflect.ValueOfInt32(int32(Pick(r, i32Pool)))
	case protoreflect.Int64Kind, protoreflect.Sint64Kind, protoreflect.Sfixed64Kind:
		return protoreflect.ValueOfInt64(Pick(r, i64Pool))
	case protoreflect.Uint32Kind, protoreflect.Fixed32Kind:
		return protoreflect.ValueOfUint32(uint32(Pick(r, u32Pool)))
	case protoreflect.Uint64Kind, protoreflect.Fixed64Kind:
		return protoreflect.ValueOfUint64(Pick(r, u64Pool))
	case protoreflect.FloatKind:
		v := Pick(r, f32Pool)
		if o.NonFinite && r.P(1, 6) {
			v = Pick(r, []float64{math.NaN(), math.Inf(1), math.Inf(-1)})
		}
		return protoreflect.ValueOfFloat32(float32(v))
	case protoreflect.DoubleKind:
		v := Pick(r, f64Pool)
		if o.NonFinite && r.P(1, 6) {
			v = Pick(r, []float64{math.NaN(), math.Inf(1), math.Inf(-1)})
		}
		return protoreflect.ValueOfFloat64(v)
	case protoreflect.BytesKind:
		n := r.Intn(5)
		b := make([]byte, n)
		for i := range b {
			b[i] = byte(r.U64())
		}
		if r.P(1, 4) {
			b = []byte{0xfb, 0xff, 0x00}
		}
		return protoreflect.ValueOfBytes(b)
	case protoreflect.EnumKind:
		vs := fd.Enum().Values()
		return protoreflect.ValueOfEnum(vs.Get(r.Intn(vs.Len())).Number())
	}
	return protoreflect.Value{}
}

// RandomMessage fills a dynamic message of type md with boundary-biased values.
func RandomMessage(r *R, md protoreflect.MessageDescriptor, o *ValOpts, depth int) *dynamicpb.Message {
	m := dynamicpb.NewMessage(md)
	if md.FullName() == "google.protobuf.Timestamp" {
		secs := Pick(r, []int64{0, 1, -1, 1577934245, 253402300799, -62135596800, 86400})
		nanos := Pick(r, []int64{0, 0, 500000000, 123456789, 999999999, 1000000})
		m.Set(md.Fields().ByName("seconds"), protoreflect.ValueOfInt64(secs))
		m.Set(md.Fields().ByName("nanos"), protoreflect.ValueOfInt32(int32(nanos)))
		return m
	}
	if md.FullName() == "google.protobuf.Value" {
		// one of the six kinds, finite numbers only (protojson refuses NaN / ±Inf in a Value), small containers
		switch k := r.Intn(6); {
		case k == 0:
			m.Set(md.Fields().ByName("null_value"), protoreflect.ValueOfEnum(0))
		case k == 1:
			m.Set(md.Fields().ByName("number_value"), protoreflect.ValueOfFloat64(Pick(r, []float64{0, 1, -1.5, 1e21, 42})))
		case k == 2:
			m.Set(md.Fields().ByName("string_value"), protoreflect.ValueOfString(Pick(r, strPool)))
		case k == 3:
			m.Set(md.Fields().ByName("bool_value"), protoreflect.ValueOfBool(r.Bool()))
		case k == 4 && depth < 2:
			fd := md.Fields().ByName("struct_value")
			m.Set(fd, protoreflect.ValueOfMessage(RandomMessage(r, fd.Message(), o, depth+1)))
		case k == 5 && depth < 2:
			fd := md.Fields().ByName("list_value")
			m.Set(fd, protoreflect.ValueOfMessage(RandomMessage(r, fd.Message(), o, depth+1)))
		default:
			m.Set(md.Fields().ByName("string_value"), protoreflect.ValueOfString("leaf"))
		}
		return m
	}
	fds := md.Fields()
	chosenOneof := map[string]int{}
	for i := 0; i < fds.Len(); i++ {
		fd := fds.Get(i)
		pb := o.PathBound != nil && o.PathBound[string(fd.Name())] && depth == 0
		if oo := fd.ContainingOneof(); oo != nil && !oo.IsSynthetic() {
			if _, ok := chosenOneof[string(oo.Name())]; !ok {
				chosenOneof[string(oo.Name())] = r.Intn(oo.Fields().Len() + 1) // last = unset
			}
			if oo.Fields().Get(min(chosenOneof[string(oo.Name())], oo.Fields().Len()-1)) != fd || chosenOneof[string(oo.Name())] == oo.Fields().Len() {
				continue
			}
		} else if !pb && r.P(o.SparseP, 8) {
			continue
		}
		switch {
		case fd.IsMap():
			n := r.Intn(3)
			mp := m.Mutable(fd).Map()
			for j := 0; j < n; j++ {
				k := scalar(r, fd.MapKey(), o, false).MapKey()
				if fd.MapValue().Kind() == protoreflect.MessageKind {
					if depth < 3 {
						mp.Set(k, protoreflect.ValueOfMessage(RandomMessage(r, fd.MapValue().Message(), o, depth+1)))
					}
				} else {
					mp.Set(k, scalar(r, fd.MapValue(), o, false))
				}
			}
		case fd.IsList():
			n := r.Intn(4)
			l := m.Mutable(fd).List()
			for j := 0; j < n; j++ {
				if fd.Kind() == protoreflect.MessageKind {
					if depth < 3 {
						l.Append(protoreflect.ValueOfMessage(RandomMessage(r, fd.Message(), o, depth+1)))
					}
				} else {
					l.Append(scalar(r, fd, o, false))
				}
			}
		case fd.Kind() == protoreflect.MessageKind:
			if depth < 3 {
				m.Set(fd, protoreflect.ValueOfMessage(RandomMessage(r, fd.Message(), o, depth+1)))
			}
		default:
			m.Set(fd, scalar(r, fd, o, pb))
		}
	}
	return m
}

// PJ renders a message as canonical proto3 JSON (the interchange form between harness and runner).
func PJ(m protoreflect.ProtoMessage) []byte {
	b, err := protojson.Marshal(m)
	if err != nil {
		return []byte("{}")
	}
	return b
}
