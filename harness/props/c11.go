package props

import (
	"encoding/base64"
	"encoding/json"
	"fmt"
	"sort"
	"strings"
	"sync"
	"time"
	"unicode/utf8"

	"google.golang.org/protobuf/encoding/protojson"
	"google.golang.org/protobuf/proto"
	"google.golang.org/protobuf/types/dynamicpb"

	sebufhttp "github.com/SebastienMelki/sebuf/http"

	"verif/harness/drv"
	"verif/harness/gen"
	"verif/harness/ir"
	"verif/harness/plug"
	"verif/harness/report"
	"verif/harness/scratch"
)

func init() { Registry["C11"] = C11 }

var c11ContentTypes = []*string{sp2("application/json"), sp2("application/json; charset=utf-8"), sp2("application/proto"),
	sp2("application/x-protobuf"), sp2("application/octet-stream"), sp2("text/plain"), nil, sp2("%garbage/;;= \xe9\xff")}

func sp2(s string) *string { return &s }

// ctClass is the ORACLE's reading of a Content-Type: which decodings of the body may be
// dispatched. A JSON media type admits the JSON reading only, a protobuf one the wire reading
// only; for anything else either reading is acceptable (rejecting is always acceptable).
func ctClass(ct *string) string {
	if ct == nil {
		return "any"
	}
	mt := strings.ToLower(strings.TrimSpace(strings.SplitN(*ct, ";", 2)[0]))
	switch mt {
	case "application/json":
		return "json"
	case "application/x-protobuf", "application/octet-stream":
		return "binary"
	}
	return "any"
}

// c11Pending is a real-vs-Spec divergence waiting for the Impl model's word on it.
type c11Pending struct {
	key, what string
	base      bool           // the part of "Impl agrees" already known (serve_case / modelled edits)
	aux       map[string]any // driver op whose "impl" must equal want
	want      string
	replay    map[string]any
}

type c11Case struct {
	sh       *c11Shape
	in       *ir.Message
	mut      string
	ct       *string
	body     []byte
	transfer string // "" | cl_trunc | chunk_trunc | chunk_bad0 | chunk_bad1
	op       map[string]any
	out      map[string]any
	crash    string
	// analysis
	tree     *jn
	drvIdx   int // index of the dec_case op, -1 none
	scIdx    int
	holes    map[string]*jn
}

func (k *c11Case) failed() bool { return k.transfer != "" }
func (k *c11Case) eof() bool    { return k.transfer == "cl_trunc" || k.transfer == "chunk_trunc" }
func (k *c11Case) gotLen() int {
	if k.transfer == "chunk_bad0" {
		return 0
	}
	return len(k.body)
}

func ctText(ct *string) string {
	if ct == nil {
		return "<absent>"
	}
	return *ct
}

// rawRequest spells the request out byte by byte (transfer faults need a lying framing).
func (k *c11Case) rawRequest() []byte {
	var b strings.Builder
	fmt.Fprintf(&b, "%s %s HTTP/1.1\r\nHost: h.test\r\n", k.sh.mi.verb, k.sh.url)
	if k.ct != nil {
		fmt.Fprintf(&b, "Content-Type: %s\r\n", *k.ct)
	}
	switch k.transfer {
	case "":
		fmt.Fprintf(&b, "Content-Length: %d\r\n\r\n", len(k.body))
		b.Write(k.body)
	case "cl_trunc":
		fmt.Fprintf(&b, "Content-Length: %d\r\n\r\n", len(k.body)+17)
		b.Write(k.body)
	case "chunk_trunc":
		fmt.Fprintf(&b, "Transfer-Encoding: chunked\r\n\r\n%x\r\n", len(k.body)+9)
		b.Write(k.body)
	case "chunk_bad0":
		b.WriteString("Transfer-Encoding: chunked\r\n\r\nzz\r\n")
		b.Write(k.body)
	case "chunk_bad1":
		fmt.Fprintf(&b, "Transfer-Encoding: chunked\r\n\r\n%x\r\n", len(k.body))
		b.Write(k.body)
		b.WriteString("\r\nzz\r\n")
	}
	return []byte(b.String())
}

// abstractForDriver replaces the parts of a body the member-level model never looks into
// (nested objects, arrays holding containers, very long arrays) by typed placeholders, so that
// bodies of any depth and size can be shown to the Lean driver.
func abstractForDriver(t *jn, tplKeys map[string]bool) (*jn, map[string]*jn) {
	holes := map[string]*jn{}
	out := &jn{k: 'o', obj: []jmem{}}
	for _, m := range t.obj {
		v := m.val
		if v.k == '#' && !tplKeys[m.key] {
			// a number of a member no template reads: an opaque token (keeps -0, 1E2, … as written)
			id := fmt.Sprintf("\x02REF:%d", len(holes))
			holes[id] = v
			out.obj = append(out.obj, jmem{m.key, jNum(id)})
			continue
		}
		switch v.k {
		case 'o':
			if len(v.obj) == 0 {
				out.obj = append(out.obj, jmem{m.key, v})
				continue
			}
			id := fmt.Sprintf("\x02REF:%d", len(holes))
			holes[id] = v
			out.obj = append(out.obj, jmem{m.key, jObj(jmem{id, jNull()})})
		case 'a':
			flat := len(v.arr) <= 2000
			for _, e := range v.arr {
				if e.k == 'a' || e.k == 'o' || e.k == 'r' {
					flat = false
				}
			}
			if flat {
				out.obj = append(out.obj, jmem{m.key, v})
				continue
			}
			id := fmt.Sprintf("\x02REF:%d", len(holes))
			holes[id] = v
			out.obj = append(out.obj, jmem{m.key, jArr(jStr(id))})
		default:
			out.obj = append(out.obj, jmem{m.key, v})
		}
	}
	return out, holes
}

func concretise(n *jn, holes map[string]*jn) *jn {
	if n == nil {
		return nil
	}
	if n.k == 'o' && len(n.obj) == 1 {
		if h, ok := holes[n.obj[0].key]; ok {
			return h
		}
	}
	if n.k == 'a' && len(n.arr) == 1 && n.arr[0].k == 's' {
		if h, ok := holes[n.arr[0].s]; ok {
			return h
		}
	}
	if n.k == '#' {
		if h, ok := holes[n.tok]; ok {
			return h
		}
	}
	if n.k == 'o' {
		for i := range n.obj {
			n.obj[i].val = concretise(n.obj[i].val, holes)
		}
	}
	return n
}

func hasRaw(n *jn) bool {
	if n.k == 'r' {
		return true
	}
	for _, e := range n.arr {
		if hasRaw(e) {
			return true
		}
	}
	for _, m := range n.obj {
		if hasRaw(m.val) {
			return true
		}
	}
	return false
}

// C11: malformed traffic is rejected cleanly and never crashes server or client.
func C11(c *Ctx) error {
	res := c.Res
	res.Rule = "request bodies = valid documented-form / proto3 JSON / wire encodings of random values, then MUTATED (truncate, bit flip, byte insert/delete, wrong JSON type or borderline value per member, duplicate keys, unknown / case-variant / proto-name keys, nesting to 20000, top-level null/array/scalar, BOM, trailing garbage, comments, invalid UTF-8, lone surrogates, number forms, empty), random bytes, protobuf wire mutants, truncated and mis-chunked transfers " +
		"x content type {application/json, +charset, application/proto, application/x-protobuf, application/octet-stream, text/plain, absent, garbage} x every request shape with a generated decoder (decoder zoo: int64 NUMBER, nullable, empty_behavior, timestamp formats, bytes encodings, flatten, discriminated oneof flat/nested, unwrap root list/scalars/map, map-value unwrap, enum, plain; plus random annotated and un-annotated schemas on every verb), raw against the compiled Go server; " +
		"scripted responses (status 0..999 incl. 1xx/204/304 with bodies, wrong content types, truncated / huge / invalid-UTF-8 / deeply nested bodies, failing body readers, transport errors) against the compiled Go client; " +
		"a case is one exchange; non-trivial = the body is non-empty; distinct by (schema, route, content type, transfer, body digest)"
	res.Assumptions = append(res.Assumptions,
		"library leaves: encoding/json syntax, protojson and proto wire decoding (run on dynamicpb as the reference for members the documented mapping leaves to proto3 JSON), time.Format",
		"annotated types below the top level of a request are decoded by plain protojson (C05 known findings mapping:*@child/list_element/map_value); the C11 reference applies the documented mapping at the top level only",
		"value differences owned by C02 (URL-bound fields reset by a body) and C04 (flatten child / flattened oneof variant lost on decode) are not re-reported: URL-bound fields are cleared before comparing, flatten / flattened-oneof values are delegated to the C04 entries while those are listed open",
		"liveness (panic, hang, 5xx, process death) is observed, not proved: every op runs under recover and a time limit in the runner")
	r := gen.New(c.Seed)
	c11LateBudget.Store(int64(c.N(5, 15)))

	// ---- schemas ----
	nZoo, nRt, nAnn := c.N(2, 5), c.N(2, 5), c.N(3, 10)
	type plan struct {
		req *ir.Request
		zoo []gen.ZooMsg
		src string
	}
	var plans []plan
	for i := 0; i < nZoo; i++ {
		var rr *gen.R
		if i > 0 {
			rr = r.Fork(fmt.Sprint("zoo-", i))
		}
		req, zoo := gen.GenDecoderZoo(rr, i)
		plans = append(plans, plan{req, zoo, "zoo"})
	}
	for i := 0; i < nRt; i++ {
		plans = append(plans, plan{gen.GenRuntimeFile(r.Fork(fmt.Sprint("rt-", i)), i, gen.RuntimeOpts{ManyMethods: i%2 == 1}), nil, "runtime"})
	}
	for i := 0; i < nAnn; i++ {
		f := gen.GenAnnotFile(r.Fork(fmt.Sprint("ann-", i)), i, gen.AnnotOpts{Safe: true})
		plans = append(plans, plan{&ir.Request{Files: []*ir.File{f}, Generate: []string{f.Name}}, nil, "annotated"})
	}
	bt, items, err := buildBatch(len(plans), func(i int) *ir.Request { return plans[i].req }, scratch.AddOpts{GoHTTP: true, GoClient: true}, false)
	if err != nil {
		return err
	}
	defer bt.Close()
	res.Programs = len(items)

	// ---- shapes ----
	var shapes []*c11Shape
	for xi, x := range items {
		if !x.it.Built {
			if plans[xi].src == "zoo" {
				res.Violation("build", "the decoder zoo does not build: "+x.it.GenErr+firstLines(x.it.BuildLog, 8), map[string]any{"schema": x.req})
			} else {
				res.Count("unbuildable:" + plans[xi].src)
				res.Note("schema " + x.it.ID + " (" + plans[xi].src + ") does not build: " + errorClass(x.it.BuildLog))
			}
			continue
		}
		for _, mi := range x.methods() {
			if mi.template == "" {
				continue
			}
			full := mi.m.Input
			md := x.msgDesc(full)
			if md == nil {
				continue
			}
			sh := &c11Shape{x: x, mi: mi, md: md, kind: decoderKind(x.req, mi.in), feature: plans[xi].src}
			if sh.kind == "surgery" && !emitsUnmarshalJSON(x, mi.in.Name) {
				// annotations that need no decode edit (empty_behavior PRESERVE / OMIT alone, …): go-http
				// emits no UnmarshalJSON and the body goes straight to protojson
				sh.kind = "plain"
			}
			if sh.kind == "surgery" {
				sh.tpls, sh.tplOf = surgeryTpls(mi.in)
			}
			// a valid URL for the route
			url := mi.template
			for _, pv := range mi.pathVars {
				f := mi.in.Field(pv)
				kind := "string"
				if f != nil {
					kind = f.Kind
				}
				url = strings.Replace(url, "{"+pv+"}", sampleURLValue(kind), 1)
				sh.bound = append(sh.bound, pv)
			}
			sep := "?"
			for _, q := range mi.query {
				sh.bound = append(sh.bound, q.Name)
				if q.Ann.Query.Required || !mi.bodyVerb() {
					url += sep + mi.queryName(q) + "=" + sampleURLValue(q.Kind)
					sep = "&"
				}
			}
			sh.url = url
			shapes = append(shapes, sh)
		}
	}

	// ---- cases ----
	perShape := c.N(150, 420)
	var all []*c11Case
	for si, sh := range shapes {
		rr := r.Fork(fmt.Sprint("cases-", si, "-", sh.mi.m.Name))
		in := sh.mi.in
		n := perShape
		if !sh.mi.bodyVerb() {
			n = perShape / 6
		}
		if sh.feature == "zoo" {
			n = perShape * 2
		}
		var bodies []c11Body
		nv := 2 + n/40
		for v := 0; v < nv; v++ {
			val := gen.RandomMessage(rr, sh.md, &gen.ValOpts{SparseP: 2 + 3*(v%2), NonFinite: v%3 == 0}, 0)
			pjTree, err := parseJSONStrict(gen.PJ(val))
			if err != nil {
				continue
			}
			doc := docForm(sh.x.req, in, sh.kind, pjTree, rr)
			bodies = append(bodies, jsonMutants(rr, sh, in, doc, n/(2*nv))...)
			if sh.kind != "plain" && rr.P(1, 3) {
				bodies = append(bodies, c11Body{mut: "proto3_json_form", data: pjTree.bytes()})
			}
			bodies = append(bodies, wireMutants(rr, val, n/(6*nv))...)
		}
		for i := 0; i < n/12; i++ {
			bodies = append(bodies, c11Body{mut: "random_bytes", data: randomBytes(rr, 1+rr.Intn(64))})
			bodies = append(bodies, c11Body{mut: "random_jsonish", data: randomJSONish(rr, 1+rr.Intn(48))})
		}
		for _, b := range bodies {
			natural := sp2("application/json")
			if b.bin {
				natural = sp2("application/x-protobuf")
			}
			cts := []*string{natural}
			if rr.P(1, 2) {
				cts = append(cts, gen.Pick(rr, c11ContentTypes))
			}
			for _, ct := range cts {
				k := &c11Case{sh: sh, in: in, mut: b.mut, ct: ct, body: b.data, drvIdx: -1, scIdx: -1}
				if len(b.data) > 0 && rr.P(1, 14) {
					k.transfer = gen.Pick(rr, []string{"cl_trunc", "chunk_trunc", "chunk_bad0", "chunk_bad1"})
				}
				all = append(all, k)
			}
		}
	}
	// boundary corpus on the fixed zoo (run on every seed): one body per decision point of every
	// generated decoder, among them the witnesses of the known findings
	for _, sh := range shapes {
		if sh.x != items[0] {
			continue
		}
		for _, cb := range c11Corpus[sh.mi.m.Name] {
			k := &c11Case{sh: sh, in: sh.mi.in, mut: "corpus", ct: sp2("application/json"), body: []byte(cb), drvIdx: -1, scIdx: -1}
			all = append(all, k)
		}
		if sh.mi.m.Name == "Plain" {
			wire := []byte{0x0a, 0x03, 'a', 'b', 'c', 0x10, 0x05}
			for _, tr := range []string{"cl_trunc", "chunk_trunc", "chunk_bad0", "chunk_bad1"} {
				for _, ct := range []string{"application/x-protobuf", "application/octet-stream", "application/json"} {
					body := wire
					if ct == "application/json" {
						body = []byte(`{"title":"abc"}`)
					}
					all = append(all, &c11Case{sh: sh, in: sh.mi.in, mut: "corpus_transfer", ct: sp2(ct), body: body, transfer: tr, drvIdx: -1, scIdx: -1})
				}
			}
			all = append(all, &c11Case{sh: sh, in: sh.mi.in, mut: "corpus", ct: sp2("application/json"), body: []byte("{\"title\":\"\xff\xfe\"}"), drvIdx: -1, scIdx: -1})
		}
	}
	for i, k := range all {
		k.op = map[string]any{"op": "serve", "id": fmt.Sprint(i), "raw_req": b64(k.rawRequest()), "handler": map[string]any{"kind": "ok"}}
	}

	// ---- run (a dying runner is an observation of the op it died on) ----
	byItem := map[*rtItem][]*c11Case{}
	for _, k := range all {
		byItem[k.sh.x] = append(byItem[k.sh.x], k)
	}
	var its []*rtItem
	for x := range byItem {
		its = append(its, x)
	}
	sort.Slice(its, func(a, b int) bool { return its[a].it.ID < its[b].it.ID })
	var mu sync.Mutex
	var runErr error
	parallel(len(its), func(i int) {
		ks := byItem[its[i]]
		for len(ks) > 0 {
			ops := make([]any, len(ks))
			for j, k := range ks {
				ops[j] = k.op
			}
			outs, stderr, err := its[i].it.Run(ops, 10*time.Minute, "TZ=UTC")
			for j := 0; j < len(outs) && j < len(ks); j++ {
				ks[j].out = outs[j]
			}
			if len(outs) >= len(ks) {
				return
			}
			if len(outs) == 0 && err != nil && !strings.Contains(stderr, "goroutine") {
				mu.Lock()
				runErr = fmt.Errorf("runner for %s: %v %s", its[i].it.ID, err, firstLines(stderr, 6))
				mu.Unlock()
				return
			}
			ks[len(outs)].crash = firstLines(stderr, 12)
			ks = ks[len(outs)+1:]
		}
	})
	if runErr != nil {
		return runErr
	}

	// ---- the model's view (one driver batch) ----
	var dops []map[string]any
	for _, k := range all {
		if !k.sh.mi.bodyVerb() {
			continue
		}
		if t, err := parseJSONStrict(k.body); err == nil {
			k.tree = t
			if k.sh.kind == "surgery" && t.k == 'o' && !hasRaw(t) {
				abs, holes := abstractForDriver(t, k.sh.tplKeys())
				k.holes = holes
				k.drvIdx = len(dops)
				dops = append(dops, map[string]any{"op": "dec_case", "tpls": k.sh.tpls, "body": abs.model()})
			}
		}
	}
	var douts []map[string]any
	driverOK := drv.Available()
	if driverOK {
		if douts, err = drv.Run(dops); err != nil {
			res.Corr("driver", "Lean driver failed: "+err.Error(), nil)
			driverOK = false
		}
	} else {
		res.Corr("driver", "Lean driver binary missing (model did not build)", nil)
	}
	// serve_case needs the decoders' verdicts, which need dec_case: second batch
	type pred struct {
		known bool // the JSON path of this shape is inside the model
		ok    bool
		msg   *dynamicpb.Message
	}
	preds := make([]pred, len(all))
	var sops []map[string]any
	for i, k := range all {
		jsonPred := pred{}
		if k.sh.mi.bodyVerb() && len(k.body) > 0 {
			switch k.sh.kind {
			case "plain":
				m, err := pjDecode(k.sh.md, k.body)
				jsonPred = pred{known: true, ok: err == nil, msg: m}
			case "surgery":
				var raw map[string]json.RawMessage
				if err := json.Unmarshal(k.body, &raw); err != nil {
					jsonPred = pred{known: true}
				} else if raw == nil {
					jsonPred = pred{known: true} // "null": the nil map is marshalled back to null, which protojson refuses
				} else if k.drvIdx >= 0 && driverOK {
					obj := concretise(fromModel(douts[k.drvIdx]["impl_obj"]), k.holes)
					materialiseTS(obj)
					m, err := pjDecode(k.sh.md, obj.bytes())
					jsonPred = pred{known: true, ok: err == nil, msg: m}
				}
			}
		}
		preds[i] = jsonPred
		binOK := false
		if len(k.body) > 0 {
			binOK = proto.Unmarshal(k.body, dynamicpb.NewMessage(k.sh.md)) == nil
		}
		k.scIdx = len(sops)
		ct := ""
		if k.ct != nil {
			ct = *k.ct
		}
		sops = append(sops, map[string]any{"op": "serve_case", "ct": ct, "verb": k.sh.mi.verb, "failed": k.failed(), "eof": k.eof(),
			"got_len": k.gotLen(), "json_ok": jsonPred.ok, "bin_ok": binOK})
	}
	var souts []map[string]any
	if driverOK {
		if souts, err = drv.Run(sops); err != nil {
			res.Corr("driver", "Lean driver failed: "+err.Error(), nil)
			driverOK = false
		}
	}

	// ---- decide ----
	var pending []*c11Pending
	for i, k := range all {
		c11Decide(res, k, i, preds[i].known, preds[i].ok, preds[i].msg, douts, souts, driverOK, &pending)
	}
	var aops []map[string]any
	for _, p := range pending {
		if p.aux != nil {
			aops = append(aops, p.aux)
		}
	}
	var aouts []map[string]any
	if driverOK && len(aops) > 0 {
		if aouts, err = drv.Run(aops); err != nil {
			res.Corr("driver", "Lean driver failed: "+err.Error(), nil)
			aouts = nil
		}
	}
	ai := 0
	for _, p := range pending {
		agrees := p.base
		if p.aux != nil {
			if aouts == nil {
				agrees = false
			} else {
				p.replay["model_aux"] = aouts[ai]
				agrees = agrees && aouts[ai]["impl"] == p.want
				if agrees {
					res.CorrAgree()
				} else {
					res.Corr("aux:"+fmt.Sprint(p.aux["what"]), fmt.Sprintf("%s: the model says %v, the real decoder behaved as %q", p.what, aouts[ai]["impl"], p.want), p.replay)
				}
			}
			ai++
		}
		res.Divergence(p.key, p.what, agrees, p.replay)
	}

	// ---- the client ----
	if err := c11Client(c, r, items, plans2src(plans), driverOK); err != nil {
		return err
	}
	return nil
}

func plans2src[T any](ps []T) int { return len(ps) }

// emitsUnmarshalJSON reads the emitted go-http files: is there a generated decoder for the type?
func emitsUnmarshalJSON(x *rtItem, goType string) bool {
	res := x.it.Results[plug.GoHTTP]
	if res == nil {
		return false
	}
	needle := "func (x *" + goType + ") UnmarshalJSON("
	for _, src := range res.Files {
		if strings.Contains(src, needle) {
			return true
		}
	}
	return false
}

func hashBytes(b []byte) string { return fmt.Sprintf("%016x", hashStr(string(b))) }

func c11Replay(k *c11Case) map[string]any {
	return map[string]any{"schema": k.sh.x.req, "rpc": k.sh.mi.svc.Name + "." + k.sh.mi.m.Name, "verb": k.sh.mi.verb, "url": k.sh.url,
		"decoder": k.sh.kind, "mutation": k.mut, "content_type": ctText(k.ct), "transfer": k.transfer,
		"body_base64": b64(k.body), "body_text": printable(k.body), "real": k.out}
}

func printable(b []byte) string {
	if len(b) > 400 {
		b = b[:400]
	}
	if utf8.Valid(b) {
		return string(b)
	}
	return fmt.Sprintf("%q", b)
}

// wellFormedError checks the 400 body: a ValidationError with at least one violation, each
// naming a field, in the codec the response's Content-Type announces.
func wellFormedError(o map[string]any) (string, []string) {
	ct, _ := o["ct"].(string)
	raw, _ := base64.StdEncoding.DecodeString(fmt.Sprint(o["body"]))
	ve := &sebufhttp.ValidationError{}
	switch {
	case strings.HasPrefix(ct, "application/json"):
		if err := protojson.Unmarshal(raw, ve); err != nil {
			return "the JSON error body is not a ValidationError: " + firstLine(err.Error()), nil
		}
	case strings.HasPrefix(ct, "application/x-protobuf") || strings.HasPrefix(ct, "application/octet-stream"):
		if err := proto.Unmarshal(raw, ve); err != nil {
			return "the binary error body is not a ValidationError: " + firstLine(err.Error()), nil
		}
	default:
		return "the error response has Content-Type " + ct, nil
	}
	if len(ve.GetViolations()) == 0 {
		return "the ValidationError carries no violation", nil
	}
	var fields []string
	for _, v := range ve.GetViolations() {
		if v.GetField() == "" || v.GetDescription() == "" {
			return "a violation without field or description", nil
		}
		fields = append(fields, v.GetField())
	}
	return "", fields
}

// refJSON is the independent reading of a JSON body for the request shape.
func refJSON(k *c11Case, douts []map[string]any, driverOK bool) (v refVerdict, class string) {
	sh := k.sh
	if len(k.body) == 0 {
		return refVerdict{state: "skip"}, ""
	}
	if sh.kind == "plain" {
		// un-annotated: protojson itself is the reference
		m, err := pjDecode(sh.md, k.body)
		if err != nil {
			return refVerdict{state: "reject", why: firstLine(err.Error())}, "plain"
		}
		return refVerdict{state: "ok", msg: m}, ""
	}
	if k.tree == nil {
		return refVerdict{state: "reject", why: "not RFC 8259 JSON in UTF-8"}, "syntax"
	}
	tree := k.tree
	if sh.kind != "surgery" {
		if tree.k == 'o' && tree.hasDup() {
			return refDup(k, tree, nil), "dup"
		}
		canon, why := canonicalise(sh, k.in, tree)
		if why != "" {
			return refVerdict{state: "reject", why: why}, "shape"
		}
		if canon.k == 'o' && canon.hasDup() {
			// the body spells a child both ways (hoisted members AND the nested member): each
			// spelling must decode; which one wins is not specified
			return refDup(k, canon, canon), "conflict"
		}
		m, err := pjDecode(sh.md, canon.bytes())
		if err != nil {
			return refVerdict{state: "reject", why: firstLine(err.Error())}, "member"
		}
		return refVerdict{state: "ok", msg: m}, ""
	}
	// surgery: the Lean Spec reads every member
	if tree.k != 'o' {
		return refVerdict{state: "reject", why: "the body is not a JSON object"}, "shape"
	}
	if hasRaw(tree) {
		return refVerdict{state: "reject", why: "not JSON"}, "syntax"
	}
	if !driverOK || k.drvIdx < 0 {
		return refVerdict{state: "unspecified", why: "no model answer"}, ""
	}
	mems, _ := douts[k.drvIdx]["members"].([]any)
	canon := &jn{k: 'o', obj: []jmem{}}
	var invalid []string
	for _, mm := range mems {
		m, _ := mm.(map[string]any)
		key, _ := m["key"].(string)
		switch m["reading"] {
		case "invalid":
			invalid = append(invalid, key)
		default:
			if cv, ok := m["canon"]; ok {
				canon.obj = append(canon.obj, jmem{key, concretise(fromModel(cv), k.holes)})
			}
		}
	}
	if len(invalid) > 0 {
		class := "spec_invalid:" + k.sh.tplOfAny(invalid[0])
		if tree.hasDup() {
			n := 0
			for _, m := range tree.obj {
				if m.key == invalid[0] {
					n++
				}
			}
			if n > 1 {
				class = "dup"
			}
		}
		return refVerdict{state: "reject", why: "no documented reading of member " + strings.Join(invalid, ", ")}, class
	}
	materialiseTS(canon)
	if tree.hasDup() {
		return refDup(k, tree, canon), "dup"
	}
	m, err := pjDecode(sh.md, canon.bytes())
	if err != nil {
		return refVerdict{state: "reject", why: firstLine(err.Error())}, "member"
	}
	return refVerdict{state: "ok", msg: m}, ""
}

// refDup: a body with duplicate keys. Every binding must be decodable on its own; which
// binding wins is left unspecified (proto3 JSON does not say; protojson refuses them all).
func refDup(k *c11Case, tree *jn, canon *jn) refVerdict {
	src := tree
	if canon != nil {
		src = canon
	}
	count := map[string]int{}
	for _, m := range src.obj {
		count[m.key]++
	}
	for i, m := range src.obj {
		if count[m.key] < 2 {
			continue
		}
		// the body with THIS binding of the duplicated key and none of its siblings
		one := &jn{k: 'o', obj: []jmem{}}
		for j, o := range src.obj {
			if o.key != m.key || j == i {
				one.obj = append(one.obj, o)
			}
		}
		if one.hasDup() {
			// several keys duplicated: judge this binding on its own
			one = jObj(jmem{m.key, m.val})
		}
		if canon == nil {
			c, why := canonicalise(k.sh, k.in, one)
			if why != "" {
				return refVerdict{state: "reject", why: why}
			}
			one = c
		}
		if _, err := pjDecode(k.sh.md, one.bytes()); err != nil {
			return refVerdict{state: "reject", why: "binding " + fmt.Sprint(i) + " (" + m.key + ") of a duplicated key does not decode: " + firstLine(err.Error())}
		}
	}
	return refVerdict{state: "unspecified", why: "duplicate keys, every binding decodable"}
}

func refBinary(k *c11Case) refVerdict {
	if len(k.body) == 0 {
		return refVerdict{state: "skip"}
	}
	m := dynamicpb.NewMessage(k.sh.md)
	if err := proto.Unmarshal(k.body, m); err != nil {
		return refVerdict{state: "reject", why: firstLine(err.Error())}
	}
	return refVerdict{state: "ok", msg: m}
}

// divergenceKey names the class of a dispatched-but-should-not / dispatched-with-another-value
// case from what the body contains (never from the mutation label).
func divergenceKey(k *c11Case, ref refVerdict, refClass string, seen proto.Message) string {
	sh := k.sh
	if k.failed() {
		return "dispatched_undecodable:binary_body_read_error_tolerated"
	}
	tree := k.tree
	if tree == nil {
		if json.Valid(k.body) {
			// encoding/json's own syntax check passes: what the strict parser objects to is the text
			// encoding (bytes that are not UTF-8, unpaired surrogate escapes)
			return "dispatched_undecodable:invalid_utf8_replaced"
		}
		return "dispatched_undecodable:not_json"
	}
	if ref.state == "reject" {
		if sh.kind == "oneofflat" {
			if key, _ := overwrittenVariantMember(k); key != "" {
				c := tree.clone()
				c.del(key)
				if canon, why := canonicalise(sh, k.in, c); why == "" {
					if _, err := pjDecode(sh.md, canon.bytes()); err == nil {
						return "dispatched_undecodable:flattened_oneof_variant_member_overwritten"
					}
				}
			}
		}
		if sh.kind == "mapval" && tree.k == 'n' {
			return "dispatched_undecodable:map_value_unwrap_container_lenient"
		}
		switch {
		case strings.HasPrefix(refClass, "spec_invalid:bytes"):
			return "dispatched_undecodable:bytes_hex_read_as_base64"
		case refClass == "dup":
			return "dispatched_undecodable:duplicate_key_shadows_invalid_member"
		}
		// a null element of a list that Go's encoding/json turns into a zero
		if nullElementIn(sh, tree) {
			return "dispatched_undecodable:null_element_read_as_zero"
		}
		if sh.kind == "flatten" || sh.kind == "oneofflat" {
			if c, ok := dropUnmatchedChildMembers(sh, k.in, tree); ok {
				if canon, why := canonicalise(sh, k.in, c); why == "" {
					if _, err := pjDecode(sh.md, canon.bytes()); err == nil {
						return "dispatched_undecodable:flattened_child_member_ignored"
					}
				}
			}
		}
		if sh.kind == "mapval" {
			if c, ok := dropUnknownMembers(k.in, tree); ok {
				if canon, why := canonicalise(sh, k.in, c); why == "" {
					if _, err := pjDecode(sh.md, canon.bytes()); err == nil {
						return "dispatched_undecodable:map_value_unwrap_container_lenient"
					}
				}
			}
		}
		if sh.kind == "surgery" && usesProtoNameKey(k.in, tree) {
			return "dispatched_value:proto_field_name_bypasses_decoder"
		}
		return "dispatched_undecodable:" + sh.kind
	}
	// both decoded, values differ
	if sh.kind == "surgery" {
		for _, m := range tree.obj {
			t := sh.tplOf[m.key]
			if (t == "ts_secs" || t == "ts_millis") && m.val.k == 'n' {
				return "dispatched_value:timestamp_null_read_as_epoch"
			}
		}
		if usesProtoNameKey(k.in, tree) {
			return "dispatched_value:proto_field_name_bypasses_decoder"
		}
	}
	if sh.kind == "mapval" {
		if _, ok := dropUnknownMembers(k.in, tree); ok {
			return "dispatched_undecodable:map_value_unwrap_container_lenient"
		}
	}
	if sh.kind == "flatten" {
		return "delegated:C04:roundtrip:flatten_child_lost"
	}
	if sh.kind == "oneofflat" {
		return "delegated:C04:decode_contract_form_value:oneof_flatten_multiword_variant_field_dropped"
	}
	return "dispatched_value:" + sh.kind
}

func usesProtoNameKey(in *ir.Message, tree *jn) bool {
	for _, m := range tree.obj {
		for _, f := range in.Fields {
			if f.Name == m.key && f.JSON() != m.key && msgFieldAnnotated(f) {
				return true
			}
		}
	}
	return false
}

func msgFieldAnnotated(f *ir.Field) bool {
	a := f.Ann
	return a.Int64Enc == "NUMBER" || a.Nullable != nil || a.EmptyBehavior == "NULL" || (a.TsFormat != "" && a.TsFormat != "RFC3339") || bytesEncNum[a.BytesEnc] != 0
}

func nullElementIn(sh *c11Shape, tree *jn) bool {
	hasNull := func(a *jn) bool {
		if a == nil || a.k != 'a' {
			return false
		}
		for _, e := range a.arr {
			if e.k == 'n' {
				return true
			}
		}
		return false
	}
	if sh.kind == "ulist" {
		return hasNull(tree) && sh.mi.in.Fields[0].Kind != "message"
	}
	if sh.kind == "umap" && tree.k == 'o' && sh.mi.in.Fields[0].Kind != "message" {
		for _, m := range tree.obj {
			if m.val.k == 'n' {
				return true
			}
		}
	}
	if sh.kind == "surgery" && tree.k == 'o' {
		for _, m := range tree.obj {
			if sh.tplOf[m.key] == "int64s" && hasNull(m.val) {
				return true
			}
		}
	}
	// the map-value unwrap container hands its scalar list siblings to encoding/json
	if sh.kind == "mapval" && tree.k == 'o' {
		if m := containerScalarListWithNull(sh, tree); m != nil {
			return true
		}
	}
	return false
}

// containerScalarListWithNull: the member of a container body that is a repeated SCALAR sibling
// holding a null element.
func containerScalarListWithNull(sh *c11Shape, tree *jn) *jn {
	for _, m := range tree.obj {
		for _, f := range sh.mi.in.Fields {
			if f.JSON() == m.key && f.Card == "repeated" && f.Kind != "message" && m.val != nil && m.val.k == 'a' {
				for _, e := range m.val.arr {
					if e.k == 'n' {
						return m.val
					}
				}
			}
		}
	}
	return nil
}

// dropUnmatchedChildMembers removes the members a flatten / flattened-oneof decoder hands to
// encoding/json under a key that matches no json tag of the child struct (JSON name differs from
// the proto name): those are the members the generated code never looks at.
func dropUnmatchedChildMembers(sh *c11Shape, in *ir.Message, tree *jn) (*jn, bool) {
	if tree.k != 'o' {
		return nil, false
	}
	drop := map[string]bool{}
	child := func(pfx string, tn string) {
		cm, _ := sh.x.req.FindMessage(tn)
		if cm == nil {
			return
		}
		for _, cf := range cm.Fields {
			if !strings.EqualFold(cf.JSON(), cf.Name) {
				drop[pfx+cf.JSON()] = true
			}
		}
	}
	for _, f := range in.Fields {
		if f.Ann.Flatten != nil && *f.Ann.Flatten {
			pfx := ""
			if f.Ann.FlattenPrefix != nil {
				pfx = *f.Ann.FlattenPrefix
			}
			child(pfx, f.TypeName)
		}
		if f.Oneof != "" && f.Kind == "message" {
			child("", f.TypeName)
		}
	}
	out := tree.clone()
	changed := false
	for k := range drop {
		if out.get(k) != nil {
			out.del(k)
			changed = true
		}
	}
	return out, changed
}

func dropUnknownMembers(in *ir.Message, tree *jn) (*jn, bool) {
	if tree.k != 'o' {
		return nil, false
	}
	known := map[string]bool{}
	for _, f := range in.Fields {
		known[f.JSON()] = true
	}
	out := tree.clone()
	changed := false
	for _, m := range tree.obj {
		if !known[m.key] {
			out.del(m.key)
			changed = true
		}
	}
	return out, changed
}

func c11Decide(res *report.Result, k *c11Case, idx int, predKnown, predOK bool, predMsg *dynamicpb.Message, douts, souts []map[string]any, driverOK bool, pending *[]*c11Pending) {
	sh := k.sh
	o := k.out
	res.Case(map[string]any{"schema": sh.x.it.ID, "rpc": sh.mi.m.Name, "ct": ctText(k.ct), "transfer": k.transfer, "body": hashBytes(k.body)}, len(k.body) > 0)
	res.Count("decoder:" + sh.kind)
	res.Count("mutation:" + k.mut)
	res.Count("content_type:" + ctClass(k.ct) + ":" + ctText(k.ct))
	if k.transfer != "" {
		res.Count("transfer:" + k.transfer)
	}
	replay := c11Replay(k)
	if k.crash != "" {
		res.Violation("crash", fmt.Sprintf("%s %s: the server PROCESS died on this request: %s", sh.mi.verb, sh.url, firstLine(k.crash)), replay)
		return
	}
	if o == nil {
		res.Violation("no_answer", fmt.Sprintf("%s %s: the runner gave no answer", sh.mi.verb, sh.url), replay)
		return
	}
	if f, _ := o["fault"].(string); strings.HasPrefix(f, "bad request") {
		// net/http refused the request line / headers before any generated code ran
		res.Count("harness:request_not_parsed_by_net_http")
		return
	}
	if fc, _ := o["fault_class"].(string); fc != "" {
		res.Violation(fc, fmt.Sprintf("%s %s [%s] body %s: server %v", sh.mi.verb, sh.url, ctText(k.ct), k.mut, o["fault"]), replay)
		return
	}
	if f, _ := o["fault"].(string); f != "" {
		res.Violation("panic", fmt.Sprintf("%s %s: server %s", sh.mi.verb, sh.url, f), replay)
		return
	}
	status := jsonInt(o["status"])
	called := jsonInt(o["called"])
	res.Count(fmt.Sprintf("status:%d", status))
	var seen *dynamicpb.Message
	if called > 0 {
		sb, _ := base64.StdEncoding.DecodeString(fmt.Sprint(o["seen_bin"]))
		seen = dynamicpb.NewMessage(sh.md)
		if err := proto.Unmarshal(sb, seen); err != nil {
			res.Violation("harness", "cannot re-read the handler-visible message: "+err.Error(), replay)
			return
		}
	}
	// ---- oracle ----
	var errFields []string
	malformed400 := false
	switch {
	case status >= 500:
		res.Violation("status_5xx", fmt.Sprintf("%s %s [%s] body %s: HTTP %d", sh.mi.verb, sh.url, ctText(k.ct), k.mut, status), replay)
		return
	case status == 400:
		if called != 0 {
			res.Violation("dispatched_and_400", fmt.Sprintf("%s %s: HTTP 400 although the handler ran", sh.mi.verb, sh.url), replay)
		}
		why, fields := wellFormedError(o)
		if why != "" {
			// the only modelled way to a malformed 400: the description echoes bytes of a body that is not UTF-8
			echo := !utf8.Valid(k.body)
			*pending = append(*pending, &c11Pending{key: "malformed_error_body:undecodable_input_echoed",
				what: fmt.Sprintf("%s %s [%s] body %s: HTTP 400 whose body is not a validation error: %s", sh.mi.verb, sh.url, ctText(k.ct), printable(k.body), why),
				base: echo, aux: map[string]any{"op": "aux_case", "what": "err_body", "utf8": !echo}, want: "plain_text", replay: replay})
			malformed400 = true
		}
		errFields = fields
	case status >= 200 && status < 300:
		if called != 1 {
			res.Violation("not_dispatched_2xx", fmt.Sprintf("%s %s: HTTP %d without exactly one handler call (%d)", sh.mi.verb, sh.url, status, called), replay)
			return
		}
	default:
		res.Violation("unexpected_status", fmt.Sprintf("%s %s [%s]: HTTP %d (neither dispatched nor a validation error)", sh.mi.verb, sh.url, ctText(k.ct), status), replay)
		return
	}
	// the model's prediction of this exchange
	var sc map[string]any
	if driverOK && k.scIdx >= 0 {
		sc = souts[k.scIdx]
		replay["model"] = sc
	}
	implDispatch, implKnown := false, false
	if sc != nil {
		how, _ := sc["impl_how"].(string)
		implKnown = how != "decoded" && how != "undecodable" || sc["codec"] == "binary" || predKnown
		implDispatch = sc["impl"] == "dispatch"
	}
	realDispatch := called == 1
	if sc != nil && implKnown {
		ok := implDispatch == realDispatch
		what := ""
		if !ok {
			what = fmt.Sprintf("the model predicts %v (%v), the server answered %d", sc["impl"], sc["impl_how"], status)
		}
		if ok && !realDispatch && !malformed400 {
			// the violation names the field the Serve model names
			if len(errFields) != 1 || errFields[0] != fmt.Sprint(sc["field"]) {
				ok, what = false, fmt.Sprintf("the 400 names fields %v, the model says [%v]", errFields, sc["field"])
			}
		}
		if ok && realDispatch && sc["impl_how"] == "decoded" && sc["codec"] == "json" && predKnown && predMsg != nil {
			if !equalModuloBound(predMsg, seen, sh.bound) {
				ok, what = false, "the handler-visible message differs from what the modelled edits + protojson give: model "+string(gen.PJ(predMsg))+" real "+string(gen.PJ(seen))
			}
		}
		if ok && realDispatch && (sc["impl_how"] == "skipped" || sc["impl_how"] == "ignored") {
			if !equalModuloBound(dynamicpb.NewMessage(sh.md), seen, sh.bound) {
				ok, what = false, "the body should not have been looked at, yet the handler-visible message carries body fields"
			}
		}
		if ok {
			res.CorrAgree()
		} else {
			res.Corr("serve:"+sh.kind, fmt.Sprintf("%s %s [%s] body %s: %s", sh.mi.verb, sh.url, ctText(k.ct), k.mut, what), replay)
		}
	}
	if !realDispatch {
		return // a clean 400 is always within the property
	}
	// dispatched: the message must be a decoding of the body
	if !sh.mi.bodyVerb() {
		if !equalModuloBound(dynamicpb.NewMessage(sh.md), seen, sh.bound) {
			res.Violation("bodiless_verb_read_body", fmt.Sprintf("%s %s: a body sent with a bodiless verb reached the handler", sh.mi.verb, sh.url), replay)
		}
		return
	}
	if k.failed() {
		res.Divergence("dispatched_undecodable:binary_body_read_error_tolerated",
			fmt.Sprintf("%s %s [%s]: the transfer of the body failed (%s after %d of the announced bytes) and the request was dispatched", sh.mi.verb, sh.url, ctText(k.ct), k.transfer, k.gotLen()),
			sc != nil && implDispatch, replay)
		return
	}
	if len(k.body) == 0 {
		if !equalModuloBound(dynamicpb.NewMessage(sh.md), seen, sh.bound) {
			res.Violation("empty_body_not_empty", fmt.Sprintf("%s %s: empty body, yet the handler-visible message carries body fields", sh.mi.verb, sh.url), replay)
		}
		return
	}
	class := ctClass(k.ct)
	var refs []refVerdict
	var refClasses []string
	if class == "json" || class == "any" {
		v, rc := refJSON(k, douts, driverOK)
		refs = append(refs, v)
		refClasses = append(refClasses, rc)
	}
	if class == "binary" || class == "any" {
		refs = append(refs, refBinary(k))
		refClasses = append(refClasses, "binary")
	}
	for _, v := range refs {
		if v.state == "unspecified" {
			res.Count("oracle:unspecified:" + firstLine(v.why))
			return
		}
		if v.state == "ok" && equalModuloBound(v.msg, seen, sh.bound) {
			res.Count("oracle:dispatched_value_confirmed")
			return
		}
	}
	// no admissible reading of the body gives the dispatched message
	ref, refClass := refs[0], refClasses[0]
	for i, v := range refs {
		if v.state == "ok" {
			ref, refClass = v, refClasses[i]
		}
	}
	replay["reference"] = map[string]any{"state": ref.state, "why": ref.why, "message": jsonRaw(pjOrNull(ref.msg))}
	key := divergenceKey(k, ref, refClass, seen)
	implAgrees := sc != nil && implDispatch && (!predKnown || predMsg == nil || equalModuloBound(predMsg, seen, sh.bound))
	what := ""
	if ref.state == "reject" {
		what = fmt.Sprintf("%s %s [%s] body %s: dispatched %s although the body has no reading (%s)", sh.mi.verb, sh.url, ctText(k.ct), printable(k.body), string(gen.PJ(seen)), ref.why)
	} else {
		what = fmt.Sprintf("%s %s [%s] body %s: dispatched %s, the body means %s", sh.mi.verb, sh.url, ctText(k.ct), printable(k.body), string(gen.PJ(seen)), string(gen.PJ(ref.msg)))
	}
	if strings.HasPrefix(key, "delegated:") {
		p := strings.SplitN(strings.TrimPrefix(key, "delegated:"), ":", 2)
		if _, ok := report.IsKnownOpen(p[0], p[1]); ok {
			res.Count("oracle:value_owned_by:" + p[0] + ":" + p[1])
			return
		}
		key = "dispatched_value:" + sh.kind
	}
	pd := &c11Pending{key: key, what: what, base: implAgrees, replay: replay}
	if !predKnown {
		// templates outside the member-level model: the Impl side is the rule of lean/Sebuf/Decode.lean
		// for the point where the decoder loses the member
		pd.base = true
		pd.aux, pd.want = auxFor(key, k)
		if pd.aux == nil {
			pd.base = false
		}
	}
	*pending = append(*pending, pd)
}

// auxFor builds the driver question that states the Impl side of a divergence class.
func auxFor(key string, k *c11Case) (map[string]any, string) {
	sh := k.sh
	switch key {
	case "dispatched_undecodable:flattened_child_member_ignored":
		for _, f := range k.in.Fields {
			tn := ""
			pfx := ""
			if f.Ann.Flatten != nil && *f.Ann.Flatten {
				tn = f.TypeName
				if f.Ann.FlattenPrefix != nil {
					pfx = *f.Ann.FlattenPrefix
				}
			} else if f.Oneof != "" && f.Kind == "message" {
				tn = f.TypeName
			}
			cm, _ := sh.x.req.FindMessage(tn)
			if cm == nil || k.tree == nil {
				continue
			}
			var tags []string
			for _, cf := range cm.Fields {
				tags = append(tags, cf.Name)
			}
			for _, cf := range cm.Fields {
				if k.tree.get(pfx+cf.JSON()) != nil && !strings.EqualFold(cf.JSON(), cf.Name) {
					return map[string]any{"op": "aux_case", "what": "child_key", "tags": tags, "key": cf.JSON()}, "ignored"
				}
			}
		}
	case "dispatched_undecodable:map_value_unwrap_container_lenient":
		if k.tree != nil && k.tree.k == 'n' {
			return map[string]any{"op": "aux_case", "what": "container_root", "body": nil}, "dispatch"
		}
		var known []string
		for _, f := range k.in.Fields {
			known = append(known, f.JSON())
		}
		if k.tree != nil {
			for _, m := range k.tree.obj {
				isKnown := false
				for _, n := range known {
					if n == m.key {
						isKnown = true
					}
				}
				if !isKnown {
					return map[string]any{"op": "aux_case", "what": "container_key", "known": known, "key": m.key}, "ignored"
				}
			}
		}
	case "dispatched_undecodable:invalid_utf8_replaced":
		return map[string]any{"op": "aux_case", "what": "utf8", "valid": false}, "dispatch"
	case "dispatched_undecodable:duplicate_key_shadows_invalid_member":
		if k.tree != nil && k.tree.k == 'o' {
			seen := map[string]bool{}
			for _, m := range k.tree.obj {
				if seen[m.key] {
					abs, _ := abstractForDriver(k.tree, k.sh.tplKeys())
					return map[string]any{"op": "aux_case", "what": "dup_shadow", "key": m.key, "body": abs.model()}, "ignored"
				}
				seen[m.key] = true
			}
		}
	case "dispatched_undecodable:flattened_oneof_variant_member_overwritten":
		if key, own := overwrittenVariantMember(k); key != "" {
			return map[string]any{"op": "aux_case", "what": "oneof_overwrite", "key": key, "own": own.model()}, "ignored"
		}
	case "dispatched_undecodable:null_element_read_as_zero":
		if sh.kind == "umap" && k.tree != nil {
			abs := &jn{k: 'a', arr: []*jn{}}
			for _, m := range k.tree.obj {
				if m.val.k == 'n' {
					abs.arr = append(abs.arr, jNull())
				} else {
					abs.arr = append(abs.arr, jBool(true))
				}
			}
			return map[string]any{"op": "aux_case", "what": "unwrap_elems", "body": abs.model()}, "dispatch"
		}
		if sh.kind == "ulist" && k.tree != nil {
			abs := k.tree.clone()
			for i, e := range abs.arr {
				if e.k != 'n' {
					abs.arr[i] = jBool(true) // an element the real decoder accepted (leaf)
				}
			}
			return map[string]any{"op": "aux_case", "what": "unwrap_elems", "body": abs.model()}, "dispatch"
		}
		if sh.kind == "mapval" && k.tree != nil && k.tree.k == 'o' {
			if l := containerScalarListWithNull(sh, k.tree); l != nil {
				abs := l.clone()
				for i, e := range abs.arr {
					if e.k != 'n' {
						abs.arr[i] = jBool(true)
					}
				}
				return map[string]any{"op": "aux_case", "what": "unwrap_elems", "body": abs.model()}, "dispatch"
			}
		}
	}
	return nil, ""
}

// overwrittenVariantMember: a flattened-oneof body that carries a member under the selected
// variant's own key.
func overwrittenVariantMember(k *c11Case) (string, *jn) {
	if k.tree == nil || k.tree.k != 'o' {
		return "", nil
	}
	for _, o := range k.in.Oneofs {
		if !o.HasConfig || o.Discriminator == nil || !o.Flatten {
			continue
		}
		dv := k.tree.get(*o.Discriminator)
		if dv == nil || dv.k != 's' {
			continue
		}
		for _, f := range k.in.Fields {
			if f.Oneof != o.Name || f.Kind != "message" {
				continue
			}
			tag := f.Name
			if f.Ann.OneofValue != nil {
				tag = *f.Ann.OneofValue
			}
			if tag == dv.s {
				if own := k.tree.get(f.JSON()); own != nil {
					return f.JSON(), own
				}
			}
		}
	}
	return "", nil
}

func pjOrNull(m *dynamicpb.Message) []byte {
	if m == nil {
		return []byte("null")
	}
	return gen.PJ(m)
}

// c11Corpus: fixed bodies per RPC of the fixed decoder zoo (gen.GenDecoderZoo(nil, 0)).
var c11Corpus = map[string][]string{
	"Bytes": {`{"bHex":"zzzz"}`, `{"bHex":"deadbeef"}`, `{"bHex":"deadbeeg"}`, `{"bHex":"abc"}`, `{"bHex":"a"}`, `{"bHex":"!!"}`, `{"bHex":12}`, `{"bHex":null}`, `{"bHex":"CAFE"}`,
		`{"bRaw":"YQ=="}`, `{"bRaw":"YQ"}`, `{"bRaw":"-_-_"}`, `{"bUrl":"+/+/"}`, `{"bUrl":"YQ"}`, `{"bUrlraw":"YQ=="}`, `{"bStd":"-_-_"}`, `{"b_hex":"cafe"}`, `{"b_hex":"zz"}`, `{"bHex":"cafe","b_hex":"cafe"}`},
	"Ts": {`{"tSecs":"2024-01-01T00:00:00Z"}`, `{"tSecs":1.5}`, `{"tSecs":1e3}`, `{"tSecs":"12"}`, `{"tSecs":9223372036854775807}`, `{"tSecs":-9223372036854775808}`, `{"tSecs":253402300799}`,
		`{"tSecs":253402300800}`, `{"tSecs":-62135596800}`, `{"tSecs":-62135596801}`, `{"tSecs":9223371974719179008}`, `{"tSecs":null}`, `{"tMillis":null}`, `{"tDate":null}`, `{"tRfc":null}`,
		`{"tMillis":1705312200123}`, `{"tMillis":-1}`, `{"tMillis":9223372036854775807}`, `{"tMillis":253402300799999}`, `{"tMillis":253402300800000}`, `{"tDate":"2024-01-15"}`, `{"tDate":"2024-02-30"}`,
		`{"tDate":"2024-02-29"}`, `{"tDate":"2023-02-29"}`, `{"tDate":"2024-1-5"}`, `{"tDate":"0000-01-01"}`, `{"tDate":"0001-01-01"}`, `{"tDate":"9999-12-31"}`, `{"tDate":"2024-01-15T10:00:00Z"}`,
		`{"tDate":20240115}`, `{"tDate":"garbage"}`, `{"tSecs":{"seconds":5}}`, `{"t_secs":5}`, `{"tSecs":18446744073709551616}`},
	"Int64": {`{"big":"12"}`, `{"big":1.5}`, `{"big":1e2}`, `{"big":1.0}`, `{"big":9223372036854775808}`, `{"big":"abc"}`, `{"big":true}`, `{"big":null}`, `{"big":-0}`, `{"ubig":-1}`,
		`{"ubig":18446744073709551615}`, `{"ubig":18446744073709551616}`, `{"bigs":[1,"2"]}`, `{"bigs":[1,2.5]}`, `{"bigs":[1,null]}`, `{"bigs":null}`, `{"bigs":5}`, `{"bigs":[]}`, `{"ubigs":[18446744073709551615,null]}`,
		`{"big":1,"big":"x"}`, `{"big":"x","big":1}`, `{"note":1,"note":"x"}`, `{"note":"a","note":"b"}`, `null`, `[]`, `5`, `"x"`, ` `, `{}garbage`, `{"unknown":1}`, "\xef\xbb\xbf{}", `{"note":"\ud800"}`, "{\"note\":\"\xff\"}"},
	"Null":  {`{"maybeS":null,"maybeN":null}`, `{"maybeS":null,"maybeS":5}`, `{"maybeN":"x"}`, `{"note":null}`, `{"maybe_s":null}`},
	"Empty": {`{"metaNull":null}`, `{"metaNull":5}`, `{"metaOmit":null}`, `{"metaKeep":null}`, `{"meta_null":null}`, `{"metaNull":{}}`},
	"Flat": {`{"title":"a","home_street":"x","home_zipCode":5}`, `{"title":"a","home_street":5}`, `{"title":"a","home_zipCode":"zz"}`, `{"title":"a","home_zip_code":"zz"}`, `{"title":"a","street":{}}`,
		`{"title":5,"street":"q"}`, `{"title":"t","home_zipCode":{"a":[1,2]}}`, "{\"title\":\"t\",\"street\":\"\xff\xfe\"}", `null`},
	"OneofFlat": {`{"ident":"a","type":"txt","body":"hi","langCode":"en"}`, `{"ident":"a","type":"nope","body":"hi"}`, `{"ident":"a","type":5,"body":"hi"}`, `{"ident":"a","type":"txt","body":5}`,
		`{"ident":"a","body":"hi"}`, `{"ident":"a","type":"image","width":"zz"}`, `{"ident":"a","type":"image","width":7,"url":"u"}`, `{"ident":"a","type":"txt","body":"b","langCode":5}`,
		`{"ident":"a","type":"nope"}`, `{"ident":"a","type":"txt"}`, `{"ident":"a","type":"txt","body":"b","text":-1}`, `{"ident":"a","type":null}`},
	"OneofNest": {`{"ident":"a","kind":"text","text":{"body":"x"}}`, `{"ident":"a","kind":"text","text":{"body":5}}`, `{"ident":"a","kind":"text","text":5}`, `{"ident":"a","kind":"text"}`,
		`{"ident":"a","kind":"img","text":{"body":"x"}}`, `{"ident":"a","kind":"code","code":"zz"}`, `{"ident":"a","kind":"code","code":5}`, `{"ident":"a","kind":"zzz","code":5}`, `{"ident":"a","text":{"body":"x"}}`,
		`{"ident":"a","kind":null,"text":{"body":"x"}}`, `{"ident":"a","kind":7}`, `{"ident":"a","kind":"text","text":{"langCode":5}}`},
	"UnwrapList":    {`[{"street":"a"},{"zipCode":5}]`, `[{"street":5}]`, `{"items":[{"street":"a"}]}`, `null`, `[null]`, `[1]`, `[]`, `[{}]`, `[{"street":"a"},{"street":"a"}]`},
	"UnwrapScalars": {`[1,2,3]`, `[1,"2"]`, `[1,2.5]`, `[1,null]`, `[null]`, `[1,4294967296]`, `null`, `{}`, `[]`, `[1e2]`, `[-0]`},
	"UnwrapMap":     {`{"a":{"street":"x"}}`, `{"a":{"street":5}}`, `{"a":null}`, `{"a":5}`, `[]`, `null`, `{}`, `{"a":{},"a":{"street":5}}`},
	"MapVal": {`{"bySymbol":{"A":[{"street":"x"}]},"note":"n"}`, `{"bySymbol":{"A":[{"street":5}]},"note":"n"}`, `{"bySymbol":{"A":{"bars":[]}},"note":"n"}`, `{"bySymbol":{"A":null},"note":"n"}`,
		`{"bySymbol":{"A":5},"note":"n"}`, `{"bySymbol":5,"note":"n"}`, `{"bySymbol":{"A":[]},"note":5}`, `{"bySymbol":{"A":[]},"nope":5}`, `null`, `{"NOTE":"x"}`, "{\"note\":\"\xff\"}", `{"note":null}`, `{"bySymbol":null}`},
	"Enum":  {`{"status":"active"}`, `{"status":"STATUS_ACTIVE"}`, `{"status":"zzz"}`, `{"status":7}`, `{"status":1.5}`, `{"history":[1,"STATUS_GONE",null]}`},
	"Plain": {`{"raw":"-_-_"}`, `{"raw":"YQ"}`, `{"raw":"Y"}`, `{"amount":1e2}`, `{"amount":" 12"}`, `{"when":"2024-01-01T00:00:00+02:00"}`, `{"home":null,"nums":null,"props":null,"title":null}`, `{"title":"a","title":"b"}`,
		`{"amount":NaN}`, `{"amount":1e400}`, `{} {}`, "{}  \n", `{/*x*/}`, `{"weight":"NaN"}`, `{"weight":1e400}`, `{"f32":1e39}`, `{"optNum":4294967296}`, `{"asText":"a","asLeaf":{}}`, `{"props":{"a":1,"a":2}}`, `{"byKey":{"x":{}}}`},
}
