import Sebuf.DriverOA
import Sebuf.Mock
/-!
Driver op of C20: `mock_answer`. Given the schema, the declared examples, the supplied
`ParseFloat` table and (optionally) one real answer of a mock RPC, it evaluates the `Impl` model
(table outcome, Go typing defects, termination) and — for a real 200 answer — searches the
random draws under which `Mock.mockMsg` returns exactly that answer (correspondence "real ∈
model, for some pick"), then evaluates `Spec` (`wt`, `Schema.valid` of the wire JSON against the
real emitted OpenAPI component, `dishonoured`) on the real answer.
-/
namespace Sebuf.Driver
open Sebuf Sebuf.Mapping Sebuf.Mock

def declsOf (j : Lean.Json) : Decls :=
  (getArr j "decls").map fun d => (getStr d "msg", getStr d "field", getStrList d "examples")

def floatsOf (j : Lean.Json) : List (Str × FloatRow) :=
  (getArr j "floats").map fun d => (getStr d "s", { tok := getStr d "tok", quoted := getBool d "quoted", zero := getBool d "zero" })

/-- scalar leaves of a value by call site (same naming as `Mock.mockMsg`). -/
def flattenVal : Nat → Str → List (Str × Val) → List (Str × Val)
  | 0, _, _ => []
  | fuel + 1, site, vs => vs.flatMap fun p =>
      let s := site ++ ['.'] ++ p.1
      match p.2 with
      | .msg cvs => flattenVal fuel s cvs
      | .map kvs => kvs.flatMap fun kv =>
          (match kv.2 with
           | .msg cvs => flattenVal fuel (s ++ "[]".toList) cvs
           | _ => [])
      | v => [(s, v)]

def optLeafEq : Option Val → Option Val → Bool
  | none, none => true
  | some a, some b => leafEq a b
  | _, _ => false

/-- order-insensitive equality of values. -/
def valEq : Nat → Val → Val → Bool
  | 0, _, _ => false
  | fuel + 1, a, b =>
    match a, b with
    | .msg x, .msg y => x.length == y.length && x.all fun p => match y.lookup p.1 with | some v => valEq fuel p.2 v | none => false
    | .map x, .map y => x.length == y.length && x.all fun p => match y.lookup p.1 with | some v => valEq fuel p.2 v | none => false
    | .list x, .list y => x.length == y.length && (x.zip y).all fun p => valEq fuel p.1 p.2
    | .bytes x, .bytes y => x == y
    | x, y => leafEq x y

def setPick (env : Env) (site : Str) (i : Nat) : Env :=
  { env with pick := fun s => if s == site then i else env.pick s }

/-- draw-by-draw search: the draws are independent, one per call site. -/
def solvePicks (rq : Request) (fuel : Nat) (m : Message) (realFlat : List (Str × Val)) (env : Env) : List (Str × Nat) → Env
  | [] => env
  | (s, n) :: rest =>
    let want := realFlat.lookup s
    let hit := (List.range n).find? fun i =>
      optLeafEq ((flattenVal fuel [] (mockMsg rq (setPick env s i) fuel [] [] m)).lookup s) want
    solvePicks rq fuel m realFlat (match hit with | some i => setPick env s i | none => env) rest

def rndFrom (realFlat : List (Str × Val)) (s : Str) : List Nat :=
  match realFlat.lookup s with
  | some (.str u) => (hexDecode ((u.filter (· != '-')).map Char.toNat)).getD []
  | _ => []

def opMockAnswer (j : Lean.Json) : Lean.Json :=
  let rq := requestOf (j.getObjValD "rq")
  let ty := getStr j "type"
  let fname := getStr j "file"
  let decls := declsOf j
  let floats := floatsOf j
  match rq.findMessage ty, rq.files.find? (·.name == fname) with
  | some m, some file =>
    let fuel := rq.allMessages.length + 2
    let encFuel := 4 * fuel + 8
    let fin := finishes rq fuel [] m
    let tbl := exampleTable file decls
    let tblName := match tbl with | .ok _ => "ok" | .unparsable => "unparsable" | .outside => "outside"
    let table : Table := match tbl with | .ok t => t | _ => []
    let defects := (msgDefects rq fuel [] m).eraseDups
    let env0 : Env := { tbl := table, floats := floats }
    let ss := sites rq env0 fuel [] [] m
    -- can some draw make a string field hold invalid UTF-8?
    let can500 := ss.any fun sn => (List.range sn.2).any fun i =>
      (mockMsg rq (setPick env0 sn.1 i) fuel [] [] m).any fun p => hasBadUtf8 (fuel + 2) p.2
    let base : List (String × Lean.Json) := [("finishes", Lean.Json.bool fin), ("table", Lean.Json.str tblName),
      ("table_rows", Lean.Json.arr (table.map fun r => Lean.Json.mkObj [("key", jstr r.1),
          ("values", Lean.Json.arr (r.2.map fun v => match v with | some s => jstr s | none => Lean.Json.null).toArray)]).toArray),
      ("defects", Lean.Json.arr (defects.map Lean.Json.str).toArray),
      ("sites", Lean.Json.arr (ss.map fun s => jstr s.1).toArray),
      ("can_500", Lean.Json.bool can500)]
    match j.getObjVal? "real" with
    | .ok rj =>
      (match valOf rj with
       | .msg rvs =>
         let realFlat := flattenVal (fuel + 2) [] rvs
         let env1 : Env := { env0 with rnd := rndFrom realFlat }
         let env := solvePicks rq fuel m realFlat env1 ss
         let model := mockMsg rq env fuel [] [] m
         let solved := valEq (fuel + 4) (.msg model) (.msg rvs)
         let comps := OpenApi.objOf (ofLeanJson (j.getObjValD "components"))
         let schema := ofLeanJson (j.getObjValD "schema")
         let wire := WireEnc.wireEnc rq encFuel m rvs
         let sv := Schema.valid comps (Schema.defaultFuel comps schema wire) schema wire
         let wtb := wt rq fuel m rvs
         let dis := dishonoured rq decls floats fuel [] m rvs
         Lean.Json.mkObj (base ++ [("solved", Lean.Json.bool solved),
           ("model_wire", toLeanJson (WireEnc.wireEnc rq encFuel m model)),
           ("real_wire", toLeanJson wire),
           ("well_typed", Lean.Json.bool wtb), ("schema_valid", Lean.Json.bool sv),
           ("dishonoured", strArr dis),
           ("spec_ok", Lean.Json.bool (mockOk rq decls floats comps schema fuel encFuel m rvs)),
           ("model_spec_ok", Lean.Json.bool (mockOk rq decls floats comps schema fuel encFuel m model))])
       | _ => Lean.Json.mkObj (base ++ [("driver_err", Lean.Json.str "real value is not a message")]))
    | .error _ => Lean.Json.mkObj base
  | _, _ => Lean.Json.mkObj [("driver_err", Lean.Json.str "unknown response type or file")]

end Sebuf.Driver
