import Sebuf.Gen.Templates
import Sebuf.Gen.Wiring
/-!
# C14 — go-http and go-client emit interchangeable codec files

The codec generators are duplicated source (`internal/httpgen/X.go` / `internal/clientgen/X.go`).
`Gen.Templates` holds, per function of each duplicated file, the digest of its comment-free
source (the header writer's name being the one sanctioned difference), regenerated on every run.
`templates_identical` is the obligation that the two copies are the same program text; the step
from "same program text applied to the same protogen input" to "same emitted bytes" is the
meta-argument stated in DESIGN.md §7 C14 and backed by the `emit_files` correspondence, which
compares the two plugins' real `CodeGeneratorResponse`s file by file.

What a plugin emits for a file is the sequence of `generateFile` steps (`Gen.Wiring`), cut at
the early return for service-less files.
-/
namespace Sebuf.C14
open Sebuf

/-- **same program text**: every function of the duplicated codec generators is identical in
both packages (names and digests, in order). -/
theorem templates_identical : Gen.Templates.httpgen = Gen.Templates.clientgen := by rfl

/-- steps a plugin reaches for a file, depending on whether the file has services. -/
def reached (steps : List Gen.Wiring.Step) (hasServices : Bool) : List String :=
  match steps with
  | [] => []
  | st :: r =>
    if st.1 == "return_if_no_services" then (if hasServices then reached r hasServices else [])
    else st.1 :: reached r hasServices

/-- file-name suffixes a plugin can emit for a file. -/
def suffixes (steps : List Gen.Wiring.Step) (emits : List Gen.Wiring.Emit) (hasServices : Bool) : List String :=
  (reached steps hasServices).filterMap fun s => emits.lookup s

/-- the codec suffixes both plugins know how to emit. -/
def sharedSuffixes : List String :=
  (Gen.Wiring.goHttpEmits.map Prod.snd).filter fun s => (Gen.Wiring.goClientEmits.map Prod.snd).contains s

/-- codec files of go-http = everything it emits except the HTTP runtime and the error impls. -/
def isCodecSuffix (s : String) : Bool :=
  !(["_http.pb.go", "_http_binding.pb.go", "_http_config.pb.go", "_http_mock.pb.go", "_error_impl.pb.go", "_client.pb.go"].contains s)

/-- **same name ⇒ same generator**: a suffix both plugins emit is produced by the same-named
step in both (whose text is identical by `templates_identical`). -/
theorem same_suffix_same_step :
    ∀ p ∈ Gen.Wiring.goHttpEmits, ∀ q ∈ Gen.Wiring.goClientEmits, p.2 = q.2 → p.1 = q.1 := by decide

def ClientAloneComplete : Prop :=
  ∀ hasServices : Bool,
    ∀ s ∈ suffixes Gen.Wiring.goHttp Gen.Wiring.goHttpEmits hasServices, isCodecSuffix s = true →
      s ∈ suffixes Gen.Wiring.goClient Gen.Wiring.goClientEmits hasServices

/-- **client alone, partial**: for files with AND without services, every codec file go-http can
emit other than the unwrap file is also emitted by go-client (by the same generator text). The
service-less half holds since `fix: go-client: emit int64 and enum encoding files for files
without services` (entries `client_missing:encoding:file_without_services` and
`client_missing:enum_encoding:file_without_services`, fixed). -/
theorem client_alone_partial (hasServices : Bool) :
    ∀ s ∈ suffixes Gen.Wiring.goHttp Gen.Wiring.goHttpEmits hasServices, isCodecSuffix s = true → s ≠ "_unwrap.pb.go" →
      s ∈ suffixes Gen.Wiring.goClient Gen.Wiring.goClientEmits hasServices := by
  cases hasServices <;> decide

/-- **¬ ClientAloneComplete** (known finding C14 `client_missing:unwrap`): go-client has no unwrap
emitter. -/
theorem not_client_alone : ¬ ClientAloneComplete := by
  intro h
  have := h true "_unwrap.pb.go" (by decide) (by decide)
  revert this; decide

/-- service-less files get their int64 / enum codecs from both plugins. -/
theorem serviceless_codecs_emitted :
    "_encoding.pb.go" ∈ suffixes Gen.Wiring.goHttp Gen.Wiring.goHttpEmits false ∧
    "_encoding.pb.go" ∈ suffixes Gen.Wiring.goClient Gen.Wiring.goClientEmits false ∧
    "_enum_encoding.pb.go" ∈ suffixes Gen.Wiring.goHttp Gen.Wiring.goHttpEmits false ∧
    "_enum_encoding.pb.go" ∈ suffixes Gen.Wiring.goClient Gen.Wiring.goClientEmits false := by decide

/-- order independence of writing both outputs into one directory: for every shared name the
two contents are produced by identical generator text, so whichever plugin writes last leaves
the same bytes modulo the header line. Stated on the model: overlaying the two emit plans in
either order yields the same set of (suffix, generating step). -/
def overlay (a b : List (String × String)) : List (String × String) :=
  b ++ a.filter fun p => !(b.map Prod.fst).contains p.1

def plan (steps : List Gen.Wiring.Step) (emits : List Gen.Wiring.Emit) (hs : Bool) : List (String × String) :=
  (reached steps hs).filterMap fun s => (emits.lookup s).map fun suf => (suf, s)

theorem order_independent (hs : Bool) :
    (∀ p ∈ overlay (plan Gen.Wiring.goHttp Gen.Wiring.goHttpEmits hs) (plan Gen.Wiring.goClient Gen.Wiring.goClientEmits hs),
         p ∈ overlay (plan Gen.Wiring.goClient Gen.Wiring.goClientEmits hs) (plan Gen.Wiring.goHttp Gen.Wiring.goHttpEmits hs)) ∧
    (∀ p ∈ overlay (plan Gen.Wiring.goClient Gen.Wiring.goClientEmits hs) (plan Gen.Wiring.goHttp Gen.Wiring.goHttpEmits hs),
         p ∈ overlay (plan Gen.Wiring.goHttp Gen.Wiring.goHttpEmits hs) (plan Gen.Wiring.goClient Gen.Wiring.goClientEmits hs)) := by
  cases hs <;> decide

end Sebuf.C14
