package main

import (
	"bytes"
	"fmt"
	"go/ast"
	"go/parser"
	"go/printer"
	"go/token"
	"regexp"
	"strconv"
	"strings"
)

func init() { register("Mock", extractMock) }

const mockSrc = "internal/httpgen/mock_generator.go"

func srcOf(n ast.Node) string {
	var buf bytes.Buffer
	_ = (&printer.Config{Mode: printer.RawFormat}).Fprint(&buf, token.NewFileSet(), n)
	return strings.Join(strings.Fields(buf.String()), " ")
}

// kindName turns `protoreflect.Int32Kind` into "int32".
func kindName(e ast.Expr) (string, error) {
	sel, ok := e.(*ast.SelectorExpr)
	if !ok || !strings.HasSuffix(sel.Sel.Name, "Kind") {
		return "", fmt.Errorf("case label %s is not a protoreflect kind", srcOf(e))
	}
	return strings.ToLower(strings.TrimSuffix(sel.Sel.Name, "Kind")), nil
}

// kindSwitch finds the `switch <x>.Desc.Kind()` statement of a function.
func kindSwitch(fn *ast.FuncDecl) *ast.SwitchStmt {
	var out *ast.SwitchStmt
	ast.Inspect(fn, func(n ast.Node) bool {
		if out != nil {
			return false
		}
		if s, ok := n.(*ast.SwitchStmt); ok && s.Tag != nil && strings.HasSuffix(srcOf(s.Tag), ".Desc.Kind()") {
			out = s
			return false
		}
		return true
	})
	return out
}

// returnTable reads a `switch kind { case …: return X }` function as kind -> returned source text.
func returnTable(f *ast.File, name string, consts map[string]string) (rows []string, deflt string, err error) {
	fn := findFunc(f, name)
	if fn == nil {
		return nil, "", fmt.Errorf("%s not found", name)
	}
	sw := kindSwitch(fn)
	if sw == nil {
		return nil, "", fmt.Errorf("%s: no switch over a field kind", name)
	}
	val := func(e ast.Expr) string {
		switch x := e.(type) {
		case *ast.BasicLit:
			if x.Kind == token.STRING {
				v, _ := strconv.Unquote(x.Value)
				return v
			}
			return x.Value
		case *ast.Ident:
			if v, ok := consts[x.Name]; ok {
				return v
			}
		}
		return "expr:" + srcOf(e)
	}
	for _, c := range sw.Body.List {
		cc := c.(*ast.CaseClause)
		if len(cc.Body) != 1 {
			return nil, "", fmt.Errorf("%s: case body is not a single return", name)
		}
		ret, ok := cc.Body[0].(*ast.ReturnStmt)
		if !ok || len(ret.Results) != 1 {
			return nil, "", fmt.Errorf("%s: case body is not a single return", name)
		}
		v := val(ret.Results[0])
		if cc.List == nil {
			deflt = v
			continue
		}
		for _, e := range cc.List {
			k, err := kindName(e)
			if err != nil {
				return nil, "", fmt.Errorf("%s: %v", name, err)
			}
			rows = append(rows, fmt.Sprintf("(%s, %s)", leanStr(k), leanStr(v)))
		}
	}
	return rows, deflt, nil
}

// pArgs returns the argument source texts of every gf.P(...) call under n, in order.
func pCalls(n ast.Node) [][]ast.Expr {
	var out [][]ast.Expr
	ast.Inspect(n, func(x ast.Node) bool {
		if call, ok := x.(*ast.CallExpr); ok {
			if sel, ok := call.Fun.(*ast.SelectorExpr); ok && sel.Sel.Name == "P" {
				if id, ok := sel.X.(*ast.Ident); ok && id.Name == "gf" {
					out = append(out, call.Args)
				}
			}
		}
		return true
	})
	return out
}

func litOf(e ast.Expr) (string, bool) {
	if bl, ok := e.(*ast.BasicLit); ok && bl.Kind == token.STRING {
		v, err := strconv.Unquote(bl.Value)
		return v, err == nil
	}
	return "", false
}

// emittedText joins the all-literal gf.P lines of a function into the Go text it emits.
func emittedText(fn *ast.FuncDecl) (string, error) {
	var b strings.Builder
	for _, args := range pCalls(fn) {
		for _, a := range args {
			s, ok := litOf(a)
			if !ok {
				return "", fmt.Errorf("%s: gf.P argument %s is not a string literal", fn.Name.Name, srcOf(a))
			}
			b.WriteString(s)
		}
		b.WriteByte('\n')
	}
	return b.String(), nil
}

var selExampleRe = regexp.MustCompile(`(select\w+Example)\(`)

func extractMock() (string, error) {
	_, f, err := parseFile(mockSrc)
	if err != nil {
		return "", err
	}
	consts := map[string]string{}
	// the kind* constants live elsewhere in the package
	for _, rel := range []string{"internal/httpgen/generator.go", "internal/httpgen/validation.go", "internal/httpgen/unwrap.go", "internal/httpgen/encoding.go"} {
		if _, cf, err := parseFile(rel); err == nil {
			for k, v := range stringConsts(cf) {
				consts[k] = v
			}
		}
	}
	for k, v := range stringConsts(f) {
		consts[k] = v
	}
	var b strings.Builder
	b.WriteString(header("Mock", mockSrc+" (go/ast: the per-kind switches, the helper tables and the emitted selector / generator text)"))

	// 1. generateMockFieldAssignments
	fn := findFunc(f, "generateMockFieldAssignments")
	if fn == nil {
		return "", fmt.Errorf("generateMockFieldAssignments not found")
	}
	sw := kindSwitch(fn)
	if sw == nil {
		return "", fmt.Errorf("generateMockFieldAssignments: no switch over field.Desc.Kind()")
	}
	var assign, dargs, msgCases []string
	assignDefault := ""
	for _, c := range sw.Body.List {
		cc := c.(*ast.CaseClause)
		action, darg := "", ""
		if len(cc.Body) == 1 {
			if inner, ok := cc.Body[0].(*ast.SwitchStmt); ok && inner.Tag == nil {
				action = "message"
				for _, ic := range inner.Body.List {
					icc := ic.(*ast.CaseClause)
					cond := "default"
					if len(icc.List) == 1 {
						cond = srcOf(icc.List[0])
					}
					body := ""
					for _, st := range icc.Body {
						body += srcOf(st) + " "
					}
					what := "?"
					switch {
					case strings.Contains(body, "generateMockMapFieldAssignment("):
						what = "map"
					case strings.Contains(body, `"// TODO`):
						what = "todo"
					case len(icc.Body) == 1 && strings.HasPrefix(body, `gf.P("// `):
						what = "comment_only"
					case strings.Contains(body, "generateMockFieldAssignments(") && strings.Contains(body, `" = &"`):
						what = "alloc_recurse"
					}
					msgCases = append(msgCases, fmt.Sprintf("(%s, %s)", leanStr(cond), leanStr(what)))
				}
			}
		}
		if action == "" {
			calls := pCalls(cc)
			if len(calls) != 1 {
				return "", fmt.Errorf("generateMockFieldAssignments: a scalar case emits %d lines, expected 1", len(calls))
			}
			args := calls[0]
			for i, a := range args {
				if s, ok := litOf(a); ok {
					if m := selExampleRe.FindStringSubmatch(s); m != nil {
						action = m[1]
						// LHS shape: varName "." fieldName " = select…"
						if i != 3 || srcOf(args[0]) != "varName" || srcOf(args[2]) != "fieldName" || !strings.HasPrefix(s, " = ") {
							return "", fmt.Errorf("assignment is no longer `<var>.<GoName> = selector(...)`: %s", srcOf(calls[0][0]))
						}
						if i+3 < len(args) {
							darg = srcOf(args[i+3])
						}
					} else if strings.HasPrefix(s, "// TODO") && action == "" {
						action = "todo"
					}
				}
			}
			if action == "" {
				return "", fmt.Errorf("generateMockFieldAssignments: unrecognised case body %s", srcOf(cc))
			}
		}
		if cc.List == nil {
			assignDefault = action
			continue
		}
		for _, e := range cc.List {
			k, err := kindName(e)
			if err != nil {
				return "", err
			}
			assign = append(assign, fmt.Sprintf("(%s, %s)", leanStr(k), leanStr(action)))
			if darg != "" {
				dargs = append(dargs, fmt.Sprintf("(%s, %s)", leanStr(k), leanStr(darg)))
			}
		}
	}
	b.WriteString("/-- `generateMockFieldAssignments`, `switch field.Desc.Kind()`: kind ↦ what is emitted\n(`select…Example` = `<var>.<GoName> = select…Example(\"<key>\", <default>)`, `message` = the nested switch, `todo` = a comment only). -/\n")
	fmt.Fprintf(&b, "def assign : List (String × String) := [%s]\n", strings.Join(assign, ", "))
	fmt.Fprintf(&b, "def assignDefault : String := %s\n", leanStr(assignDefault))
	b.WriteString("/-- the default argument handed to the selector, per kind (source text). -/\n")
	fmt.Fprintf(&b, "def assignDefaultArg : List (String × String) := [%s]\n", strings.Join(dargs, ", "))
	b.WriteString("/-- the message case: condition ↦ map | todo | comment_only | alloc_recurse, in source order. -/\n")
	fmt.Fprintf(&b, "def messageCases : List (String × String) := [%s]\n", strings.Join(msgCases, ", "))
	// does the emitter consult cardinality / presence / oneof membership for scalar kinds?
	consults := []string{}
	whole := srcOf(f)
	for _, w := range []string{"Oneof", "HasPresence", "HasOptionalKeyword", "Cardinality", "IsList", "IsMap"} {
		if n := strings.Count(whole, w); n > 0 {
			consults = append(consults, fmt.Sprintf("(%s, %d)", leanStr(w), n))
		}
	}
	b.WriteString("/-- how often the whole file mentions cardinality / presence / oneof API names. -/\n")
	fmt.Fprintf(&b, "def cardinalityMentions : List (String × Nat) := [%s]\n", strings.Join(consults, ", "))
	// key expressions
	keyExpr := func(fnName, varName string) (string, error) {
		fd := findFunc(f, fnName)
		if fd == nil {
			return "", fmt.Errorf("%s not found", fnName)
		}
		out := ""
		ast.Inspect(fd, func(n ast.Node) bool {
			if as, ok := n.(*ast.AssignStmt); ok && len(as.Lhs) == 1 && srcOf(as.Lhs[0]) == varName && out == "" {
				out = srcOf(as.Rhs[0])
			}
			return true
		})
		if out == "" {
			return "", fmt.Errorf("%s: no assignment to %s", fnName, varName)
		}
		return out, nil
	}
	type ke struct{ lean, fn, v string }
	for _, k := range []ke{{"assignMsgNameExpr", "generateMockFieldAssignments", "messageName"}, {"assignKeyExpr", "generateMockFieldAssignments", "fieldPath"},
		{"collectPathExpr", "collectMessageFieldExamples", "messagePath"}, {"collectKeyExpr", "collectMessageFieldExamples", "fieldPath"}} {
		s, err := keyExpr(k.fn, k.v)
		if err != nil {
			return "", err
		}
		fmt.Fprintf(&b, "def %s : String := %s\n", k.lean, leanStr(s))
	}
	// recursion argument of collectMessageFieldExamples and its roots
	coll := findFunc(f, "collectMessageFieldExamples")
	nestedArg := ""
	ast.Inspect(coll, func(n ast.Node) bool {
		if call, ok := n.(*ast.CallExpr); ok && strings.HasSuffix(srcOf(call.Fun), "collectMessageFieldExamples") && len(call.Args) == 3 {
			nestedArg = srcOf(call.Args[1]) + " | " + srcOf(call.Args[2])
		}
		return true
	})
	fmt.Fprintf(&b, "def collectNestedCall : String := %s\n", leanStr(nestedArg))
	stor := findFunc(f, "generateFieldExamplesStorage")
	if stor == nil {
		return "", fmt.Errorf("generateFieldExamplesStorage not found")
	}
	roots := ""
	ast.Inspect(stor, func(n ast.Node) bool {
		if rs, ok := n.(*ast.RangeStmt); ok {
			roots = srcOf(rs.X)
		}
		return true
	})
	fmt.Fprintf(&b, "def collectRoots : String := %s\n", leanStr(roots))
	// how one example is written into the table
	var exLines []string
	for _, args := range pCalls(coll) {
		var parts []string
		for _, a := range args {
			parts = append(parts, srcOf(a))
		}
		exLines = append(exLines, leanStr(strings.Join(parts, " , ")))
	}
	b.WriteString("/-- the gf.P lines of `collectMessageFieldExamples` (argument source texts): the example is pasted between two quote characters. -/\n")
	fmt.Fprintf(&b, "def tableLines : List String := [%s]\n", strings.Join(exLines, ", "))

	// 2. helper tables
	for _, t := range []struct{ lean, fn string }{{"defaultValue", "getDefaultValue"}, {"sampleKey", "getSampleMapKey"}, {"goTypeScalar", "getGoTypeScalar"}} {
		rows, d, err := returnTable(f, t.fn, consts)
		if err != nil {
			return "", err
		}
		fmt.Fprintf(&b, "/-- `%s`: kind ↦ returned text. -/\ndef %s : List (String × String) := [%s]\ndef %sDefault : String := %s\n", t.fn, t.lean, strings.Join(rows, ", "), t.lean, leanStr(d))
	}
	// getDefaultGenerator: ordered substring tests
	dg := findFunc(f, "getDefaultGenerator")
	if dg == nil {
		return "", fmt.Errorf("getDefaultGenerator not found")
	}
	var gens []string
	gensDefault := ""
	lowered := strings.Contains(srcOf(dg), "fieldName := strings.ToLower(string(field.Desc.Name()))")
	ast.Inspect(dg, func(n ast.Node) bool {
		sws, ok := n.(*ast.SwitchStmt)
		if !ok {
			return true
		}
		for _, c := range sws.Body.List {
			cc := c.(*ast.CaseClause)
			ret := cc.Body[0].(*ast.ReturnStmt)
			v, _ := litOf(ret.Results[0])
			if cc.List == nil {
				gensDefault = v
				continue
			}
			call, ok := cc.List[0].(*ast.CallExpr)
			if !ok || srcOf(call.Fun) != "strings.Contains" || srcOf(call.Args[0]) != "fieldName" {
				err = fmt.Errorf("getDefaultGenerator: case is not strings.Contains(fieldName, …)")
				return false
			}
			sub, _ := litOf(call.Args[1])
			gens = append(gens, fmt.Sprintf("(%s, %s)", leanStr(sub), leanStr(v)))
		}
		return false
	})
	if err != nil {
		return "", err
	}
	b.WriteString("/-- `getDefaultGenerator`: first substring of the lower-cased proto field name that matches ↦ generator. -/\n")
	fmt.Fprintf(&b, "def defaultGen : List (String × String) := [%s]\ndef defaultGenFallback : String := %s\ndef defaultGenLowersName : Bool := %v\n", strings.Join(gens, ", "), leanStr(gensDefault), lowered)

	// 3. emitted selector and generator text, parsed as Go
	selFn := findFunc(f, "generateExampleSelectors")
	genFn := findFunc(f, "generateDefaultGenerators")
	if selFn == nil || genFn == nil {
		return "", fmt.Errorf("selector / generator emitters not found")
	}
	selText, err := emittedText(selFn)
	if err != nil {
		return "", err
	}
	genText, err := emittedText(genFn)
	if err != nil {
		return "", err
	}
	fset := token.NewFileSet()
	ef, err := parser.ParseFile(fset, "emitted.go", "package p\n"+selText+genText, 0)
	if err != nil {
		return "", fmt.Errorf("emitted helper text does not parse: %v", err)
	}
	var sels, bodies []string
	uuidBody := ""
	for _, d := range ef.Decls {
		fd, ok := d.(*ast.FuncDecl)
		if !ok {
			continue
		}
		name := fd.Name.Name
		if strings.HasPrefix(name, "select") {
			ret := srcOf(fd.Type.Results.List[0].Type)
			parse := "identity"
			ast.Inspect(fd, func(n ast.Node) bool {
				if call, ok := n.(*ast.CallExpr); ok && strings.HasPrefix(srcOf(call.Fun), "strconv.") {
					parse = srcOf(call)
				}
				return true
			})
			// local names do not matter: the slice parameter is `examples`, the element picked from it `example`, the
			// parsed value `v` — whatever the emitted text calls them
			if fd.Type.Params != nil && len(fd.Type.Params.List) > 0 && len(fd.Type.Params.List[0].Names) > 0 {
				renameIdent(fd, fd.Type.Params.List[0].Names[0].Name, "examples")
			}
			ast.Inspect(fd.Body, func(n ast.Node) bool {
				as, ok := n.(*ast.AssignStmt)
				if !ok || as.Tok != token.DEFINE || len(as.Rhs) != 1 {
					return true
				}
				if _, ok := as.Rhs[0].(*ast.IndexExpr); ok && len(as.Lhs) == 2 {
					// the table lookup `examples, ok := fieldExamples[fieldPath]`
					if id, ok := as.Lhs[0].(*ast.Ident); ok {
						renameIdent(fd, id.Name, "examples")
					}
					if id, ok := as.Lhs[1].(*ast.Ident); ok {
						renameIdent(fd, id.Name, "ok")
					}
				}
				if ix, ok := as.Rhs[0].(*ast.IndexExpr); ok && len(as.Lhs) == 1 && srcOf(ix.X) == "examples" {
					if id, ok := as.Lhs[0].(*ast.Ident); ok {
						renameIdent(fd, id.Name, "example")
					}
				}
				if call, ok := as.Rhs[0].(*ast.CallExpr); ok && len(as.Lhs) == 2 && strings.HasPrefix(srcOf(call.Fun), "strconv.") {
					if id, ok := as.Lhs[0].(*ast.Ident); ok {
						renameIdent(fd, id.Name, "v")
					}
					if id, ok := as.Lhs[1].(*ast.Ident); ok {
						renameIdent(fd, id.Name, "err")
					}
				}
				return true
			})
			parse = "identity"
			ast.Inspect(fd, func(n ast.Node) bool {
				if call, ok := n.(*ast.CallExpr); ok && strings.HasPrefix(srcOf(call.Fun), "strconv.") {
					parse = srcOf(call)
				}
				return true
			})
			// shape: index with rand.Intn(len(examples)); on a parse error fall through to the default
			body := srcOf(fd.Body)
			shape := "?"
			switch {
			case parse == "identity" && strings.Contains(body, "return examples[rand.Intn(len(examples))]") && strings.HasSuffix(body, "return defaultGenerator() }"):
				shape = "pick_or_generate"
			case strings.Contains(body, "example := examples[rand.Intn(len(examples))]") && strings.Contains(body, "err == nil { return v }") && strings.HasSuffix(body, "return defaultValue }"):
				shape = "pick_parse_or_default"
			}
			sels = append(sels, fmt.Sprintf("(%s, %s, %s, %s)", leanStr(name), leanStr(ret), leanStr(parse), leanStr(shape)))
			continue
		}
		if name == "generateUUID" {
			uuidBody = srcOf(fd.Body)
			continue
		}
		var vals []string
		ast.Inspect(fd.Body, func(n ast.Node) bool {
			if bl, ok := n.(*ast.BasicLit); ok && bl.Kind == token.STRING {
				v, _ := strconv.Unquote(bl.Value)
				vals = append(vals, leanStr(v))
			}
			return true
		})
		bodies = append(bodies, fmt.Sprintf("(%s, [%s])", leanStr(name), strings.Join(vals, ", ")))
	}
	b.WriteString("/-- emitted selectors: name ↦ (Go return type, parse call, control-flow shape). -/\n")
	fmt.Fprintf(&b, "def selectors : List (String × String × String × String) := [%s]\n", strings.Join(sels, ", "))
	b.WriteString("/-- emitted default generators other than generateUUID: name ↦ the string constants it can return. -/\n")
	fmt.Fprintf(&b, "def generators : List (String × List String) := [%s]\n", strings.Join(bodies, ", "))
	fmt.Fprintf(&b, "def uuidBody : String := %s\n", leanStr(uuidBody))

	// 4. the map emitter, as source-level facts
	mp := findFunc(f, "generateMockMapFieldAssignment")
	if mp == nil {
		return "", fmt.Errorf("generateMockMapFieldAssignment not found")
	}
	mpSrc := srcOf(mp.Body)
	facts := []struct{ name, needle string }{
		{"mapValueIsMessageTest", "if valueField.Desc.Kind() == protoreflect.MessageKind {"},
		{"mapKeyFromSampleKey", "sampleKey := g.getSampleMapKey(keyField)"},
		{"mapKeyTypeFromScalar", "keyType := g.getGoTypeScalar(keyField)"},
		{"mapValueTypeFromScalar", "valueType := g.getGoTypeScalar(valueField)"},
		{"mapScalarValueFromDefault", "defaultValue := g.getDefaultValue(valueField)"},
		{"mapMessageValueRecurses", "g.generateMockFieldAssignments(gf, valueField.Message, mapValueVar, visiting)"},
		{"mapMessageValueGuarded", "if valueField.Desc.Kind() == protoreflect.MessageKind { if visiting[string(valueField.Message.Desc.FullName())] { gf.P(\"// Recursive map value type: \", fieldName, \" is left unset\") return }"},
	}
	for _, fc := range facts {
		fmt.Fprintf(&b, "def %s : Bool := %v\n", fc.name, strings.Contains(mpSrc, fc.needle))
	}
	// the recursion guard: a path set keyed by full message name, entered on entry, left on return
	fnSrc := srcOf(fn.Body)
	methodFn := findFunc(f, "generateMockMethod")
	if methodFn == nil {
		return "", fmt.Errorf("generateMockMethod not found")
	}
	// local names of the generator do not matter either: the key variable and the set are found by their roles
	keyVar, setVar := "\\w+", "\\w+"
	if m := regexp.MustCompile(`(\w+) := string\(\w+\.Desc\.FullName\(\)\)`).FindStringSubmatch(fnSrc); m != nil {
		keyVar = regexp.QuoteMeta(m[1])
	}
	if m := regexp.MustCompile(`(\w+)\[` + keyVar + `\] = true`).FindStringSubmatch(fnSrc); m != nil {
		setVar = regexp.QuoteMeta(m[1])
	}
	guard := []struct{ name, hay, pattern string }{
		{"visitingKeyIsFullName", fnSrc, `\w+ := string\(\w+\.Desc\.FullName\(\)\)`},
		{"visitingEnteredOnEntry", fnSrc, setVar + `\[` + keyVar + `\] = true`},
		{"visitingLeftOnReturn", fnSrc, `defer delete\(` + setVar + `, ` + keyVar + `\)`},
		{"visitingPassedDown", fnSrc, `g\.generateMockFieldAssignments\(gf, \w+\.Message, [^,]+, ` + setVar + `\)`},
		{"visitingPassedToMap", fnSrc, `g\.generateMockMapFieldAssignment\(gf, \w+, \w+, ` + setVar + `\)`},
		{"visitingStartsEmpty", srcOf(methodFn.Body), `g\.generateMockFieldAssignments\(gf, method\.Output, "\w+", map\[string\]bool\{\}\)`},
	}
	for _, fc := range guard {
		fmt.Fprintf(&b, "def %s : Bool := %v\n", fc.name, regexp.MustCompile(fc.pattern).MatchString(fc.hay))
	}
	b.WriteString("end Sebuf.Gen.Mock\n")
	return b.String(), nil
}

// renameIdent renames every identifier `from` inside fd to `to` (emitted helper functions are small and have no
// shadowing, so the name identifies the variable).
func renameIdent(fd *ast.FuncDecl, from, to string) {
	if from == to || from == "_" {
		return
	}
	ast.Inspect(fd, func(n ast.Node) bool {
		if id, ok := n.(*ast.Ident); ok && id.Name == from {
			id.Name = to
		}
		return true
	})
}
