import Sebuf.Schema
/-!
# Property names: under which name emitted TypeScript reads a request field

The interfaces both TS plugins emit declare a field under its descriptor JSON name (`Field.json`:
the explicit `json_name`, else protoc's derivation). The code that READS a field from a request
object must use the same name:

* the TS client substitutes a path variable with `req.<prop>` — since `/repo` 97b5191 `<prop>` is
  the JSON name of the field the variable is bound to (`pathParamProperty`); before it was
  `snakeToLowerCamel(variable)`, which is another name whenever the field carries an explicit
  `json_name` (the request then went to `/…/undefined`);
* the TS server fills `body.<prop>` from the path with the JSON name looked up in the request
  message (`resolvePathParamFields`);
* query parameters are read / written under `QueryParam.FieldJSONName` (= the descriptor's name).

Tie: `Gen/PropNames.lean` is regenerated on every run by running the REAL plugins on a probe schema
and reading the names back from the emitted text.
-/
namespace Sebuf.PropName
open Sebuf

/-- `tsclientgen.pathParamProperty`: the JSON name of the request field called `param`;
`snakeToLowerCamel` when the message has no such field. -/
def tsClientPathProp (fields : List Field) (param : Str) : Str :=
  match fields.find? (fun f => f.name == param) with
  | some f => f.json
  | none => snakeToLowerCamel param

/-- the emitted client before `/repo` 97b5191. -/
def tsClientPathPropBeforeFix (param : Str) : Str := snakeToLowerCamel param

/-- `tsservergen.resolvePathParamFields`: generation fails when no field is called `param`. -/
def tsServerPathProp (fields : List Field) (param : Str) : Option Str :=
  (fields.find? (fun f => f.name == param)).map Field.json

/-- a field of the probe schema of `Gen/PropNames.lean`. -/
def probeField (p : String × String) : Field :=
  { name := p.1.toList, kind := .string, jsonOverride := if p.2 = "" then none else some p.2.toList }

end Sebuf.PropName
