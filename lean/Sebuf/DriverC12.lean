import Sebuf.DriverSchema
import Sebuf.Validate
import Sebuf.Rules
namespace Sebuf.Driver
open Lean (Json)

def verdictJson : Impl.Verdict → Json
  | none => Json.mkObj [("outcome", Json.str "ok")]
  | some e => Json.mkObj [("outcome", Json.str "error"), ("offender", jstr e)]

def opGenOutcome (j : Json) : Json :=
  let rq := requestOf (j.getObjValD "rq")
  let bs := Spec.breaches rq
  let genNames := (Impl.generated rq).map (·.name)
  Json.mkObj [
    ("go-http", verdictJson (Impl.runGoHttp rq)),
    ("go-client", verdictJson (Impl.runGoClient rq)),
    ("ts-server", verdictJson (Impl.runTsServer rq)),
    ("breaches", Json.arr (bs.map fun b => Json.mkObj [
        ("rule", Json.str b.rule.name), ("offender", jstr b.offender), ("file", jstr b.file),
        ("message", jstr b.message), ("in_generated", Json.bool (genNames.contains b.file)),
        ("json_mapping", Json.bool b.rule.isJsonMapping), ("unwrap", Json.bool b.rule.isUnwrap)]).toArray)]

end Sebuf.Driver
