package gen

import (
	"fmt"

	"verif/harness/ir"
)

// GenMultiServiceFile builds a runtime schema with several services in ONE file (so that they
// share one generated Go package and therefore its package-level state): the service of
// GenRuntimeFile plus one or two more with three to five RPCs each. Every service has its own
// base path and service-level headers; with o.Headers every RPC additionally requires one
// header whose name no other route declares, so that per-route configuration leaking from one
// route to another is visible on every route. GenRuntimeFile's output is not changed.
func GenMultiServiceFile(r *R, idx int, o RuntimeOpts) *ir.Request {
	hdr := o.Headers
	o.Headers = false
	req := GenRuntimeFile(r.Fork("base"), idx, o)
	f := req.Files[0]
	P := "." + f.Package + "."
	verbs := []string{"GET", "POST", "PUT", "DELETE", "PATCH"}
	extra := []struct{ name, base string }{{"Aux", "/aux"}, {"Third", "/t3/x"}}
	ns := 1 + r.Intn(2)
	for si := 0; si < ns; si++ {
		rs := r.Fork("svc-" + extra[si].name)
		svc := &ir.Service{Name: extra[si].name, BasePath: extra[si].base}
		nm := 3 + rs.Intn(3)
		for i := 0; i < nm; i++ {
			verb := verbs[(i+si)%5]
			in := &ir.Message{Name: fmt.Sprintf("%sReq%d", extra[si].name, i)}
			used := map[string]bool{}
			no := int32(1)
			path := fmt.Sprintf("/m%d", i)
			nvars := 1 + rs.Intn(2)
			if i == nm-1 {
				nvars = 0
			}
			for v := 0; v < nvars; v++ {
				fn := uniqueName(used, Pick(rs, urlFieldNames))
				in.Fields = append(in.Fields, &ir.Field{Name: fn, Number: no, Kind: Pick(rs, PathScalarKinds)})
				no++
				path += "/{" + fn + "}"
			}
			nq := 1 + rs.Intn(2)
			for q := 0; q < nq; q++ {
				fn := uniqueName(used, Pick(rs, urlFieldNames))
				in.Fields = append(in.Fields, &ir.Field{Name: fn, Number: no, Kind: Pick(rs, queryKinds), Ann: ir.Ann{Query: &ir.Query{Name: fn}}})
				no++
			}
			if verb == "POST" || verb == "PUT" || verb == "PATCH" {
				in.Fields = append(in.Fields,
					&ir.Field{Name: "title", Number: no, Kind: "string"},
					&ir.Field{Name: "amount", Number: no + 1, Kind: "int64"},
					&ir.Field{Name: "labels", Number: no + 2, Kind: "string", Card: "repeated"},
					&ir.Field{Name: "home", Number: no + 3, Kind: "message", TypeName: P + "Leaf"})
				if o.FlattenHome && i%2 == 0 {
					tr := true
					pfx := "home_"
					in.Fields[len(in.Fields)-1].Ann = ir.Ann{Flatten: &tr, FlattenPrefix: &pfx}
				}
			}
			f.Messages = append(f.Messages, in)
			svc.Methods = append(svc.Methods, &ir.Method{Name: fmt.Sprintf("%sDo%d", extra[si].name, i), Input: P + in.Name, Output: P + "Reply",
				Config: &ir.HTTPConfig{Path: path, Method: verb}})
		}
		f.Services = append(f.Services, svc)
	}
	if o.SharedRequest {
		ref := &ir.Message{Name: "AccountRef", Fields: []*ir.Field{{Name: "org_id", Number: 1, Kind: "string"}, {Name: "id", Number: 2, Kind: "string"}, {Name: "rev", Number: 3, Kind: "int32"}}}
		f.Messages = append(f.Messages, ref)
		f.Services = append(f.Services, &ir.Service{Name: "Shared", BasePath: "/shared", Methods: []*ir.Method{
			{Name: "Archive", Input: P + "AccountRef", Output: P + "Reply", Config: &ir.HTTPConfig{Path: "/accounts/{id}/archive", Method: "POST"}},
			{Name: "Move", Input: P + "AccountRef", Output: P + "Reply", Config: &ir.HTTPConfig{Path: "/orgs/{org_id}/accounts/{id}", Method: "PUT"}},
			{Name: "Bump", Input: P + "AccountRef", Output: P + "Reply", Config: &ir.HTTPConfig{Path: "/accounts/{id}/rev/{rev}", Method: "PATCH"}},
		}})
	}
	if hdr {
		// Header names are distinct within a service (service level and every method): the Go
		// client names its typed option helpers from the header name alone (recorded under C13).
		for _, s := range f.Services {
			rh := r.Fork("hdr-" + s.Name)
			perm := make([]int, len(headerNames))
			for i := range perm {
				perm[i] = i
			}
			for i := len(perm) - 1; i > 0; i-- {
				j := rh.Intn(i + 1)
				perm[i], perm[j] = perm[j], perm[i]
			}
			next := 0
			draw := func(required bool) ir.Header {
				sh := Pick(rh, headerShapes)
				h := ir.Header{Name: headerNames[perm[next]], Type: sh.typ, Format: sh.format, Required: required, Desc: "d"}
				next++
				return h
			}
			for k := 1 + rh.Intn(3); k > 0; k-- {
				s.Headers = append(s.Headers, draw(rh.P(3, 4)))
			}
			for mi, m := range s.Methods {
				// some routes (never the first of a service) declare NO method headers, right after a
				// route with a required one: a stale per-route header list would show there
				if mi > 0 && rh.P(1, 3) {
					continue
				}
				if next < len(perm) && rh.P(1, 2) {
					m.Headers = append(m.Headers, draw(rh.P(1, 2)))
				}
				m.Headers = append(m.Headers, ir.Header{Name: "X-" + s.Name + "-" + m.Name,
					Type: Pick(rh, []string{"string", "string", "integer", "boolean"}), Required: true})
				// a method may re-declare a SERVICE header with another type / format (it then shadows the
				// service declaration on this route only: the other routes keep the service's; compiles
				// since /repo 50d5457 emits each typed helper once)
				if o.OverrideServiceHeader && len(s.Headers) > 0 && rh.P(1, 3) {
					sh := Pick(rh, headerShapes)
					ov := s.Headers[rh.Intn(len(s.Headers))]
					m.Headers = append(m.Headers, ir.Header{Name: ov.Name, Type: sh.typ, Format: sh.format, Required: true})
				}
			}
		}
	}
	return req
}
