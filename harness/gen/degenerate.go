package gen

import (
	"fmt"
	"strings"

	"verif/harness/ir"
)

// Degenerate builds descriptor sets at the edges of the schema language for C16. Each shape is
// a valid CodeGeneratorRequest.
type Degenerate struct {
	Shape string
	Req   *ir.Request
}

func svcFor(pkg string, in, out string) *ir.Service {
	p := "."
	if pkg != "" {
		p = "." + pkg + "."
	}
	return &ir.Service{Name: "Svc", Methods: []*ir.Method{{Name: "Do", Input: p + in, Output: p + out, Config: &ir.HTTPConfig{Path: "/do", Method: "POST"}}}}
}

func DegenerateShapes(r *R) []Degenerate {
	var out []Degenerate
	add := func(shape string, f *ir.File, extra ...*ir.File) {
		req := &ir.Request{Files: append(extra, f), Generate: []string{f.Name}}
		for _, e := range extra {
			_ = e
		}
		out = append(out, Degenerate{shape, req})
	}
	mk := func(name, pkg string) *ir.File {
		gp := "example.com/gen/" + name + ";" + name
		return &ir.File{Name: name + "/d.proto", Package: pkg, GoPackage: gp}
	}
	// 1. directly recursive message as request and response
	{
		f := mk("selfrec", "d.selfrec")
		f.Messages = []*ir.Message{{Name: "Tree", Fields: []*ir.Field{
			{Name: "label", Number: 1, Kind: "string"},
			{Name: "parent", Number: 2, Kind: "message", TypeName: ".d.selfrec.Tree"},
			{Name: "children", Number: 3, Kind: "message", TypeName: ".d.selfrec.Tree", Card: "repeated"},
		}}}
		f.Services = []*ir.Service{svcFor("d.selfrec", "Tree", "Tree")}
		add("self_recursive_singular", f)
	}
	// 2. recursion only through a repeated field
	{
		f := mk("listrec", "d.listrec")
		f.Messages = []*ir.Message{{Name: "Node", Fields: []*ir.Field{
			{Name: "kids", Number: 1, Kind: "message", TypeName: ".d.listrec.Node", Card: "repeated"},
		}}}
		f.Services = []*ir.Service{svcFor("d.listrec", "Node", "Node")}
		add("recursive_through_repeated", f)
	}
	// 3. mutual recursion, one edge through a map value
	{
		f := mk("mutual", "d.mutual")
		f.Messages = []*ir.Message{
			{Name: "A", Fields: []*ir.Field{{Name: "b", Number: 1, Kind: "message", TypeName: ".d.mutual.B"}}},
			{Name: "B", Fields: []*ir.Field{{Name: "as", Number: 1, Kind: "message", TypeName: ".d.mutual.A", Card: "map", MapKey: "string"}}},
		}
		f.Services = []*ir.Service{svcFor("d.mutual", "A", "B")}
		add("mutually_recursive_via_map", f)
	}
	// 4. recursion through a oneof member and an optional field
	{
		f := mk("oneofrec", "d.oneofrec")
		f.Messages = []*ir.Message{{Name: "Expr", Oneofs: []*ir.Oneof{{Name: "kind"}}, Fields: []*ir.Field{
			{Name: "lit", Number: 1, Kind: "string", Oneof: "kind"},
			{Name: "neg", Number: 2, Kind: "message", TypeName: ".d.oneofrec.Expr", Oneof: "kind"},
			{Name: "alt", Number: 3, Kind: "message", TypeName: ".d.oneofrec.Expr", Card: "optional"},
		}}}
		f.Services = []*ir.Service{svcFor("d.oneofrec", "Expr", "Expr")}
		add("recursive_via_oneof_and_optional", f)
	}
	// 5. deep chain of 120 message types
	{
		f := mk("chain", "d.chain")
		n := 120
		for i := 0; i < n; i++ {
			m := &ir.Message{Name: fmt.Sprintf("M%d", i), Fields: []*ir.Field{{Name: "v", Number: 1, Kind: "int32"}}}
			if i+1 < n {
				m.Fields = append(m.Fields, &ir.Field{Name: "next", Number: 2, Kind: "message", TypeName: fmt.Sprintf(".d.chain.M%d", i+1)})
			}
			f.Messages = append(f.Messages, m)
		}
		f.Services = []*ir.Service{svcFor("d.chain", "M0", "M0")}
		add("deep_type_chain_120", f)
	}
	// 6. deep nesting of declarations (60 levels)
	{
		f := mk("nest", "d.nest")
		var inner *ir.Message
		full := ""
		for i := 59; i >= 0; i-- {
			m := &ir.Message{Name: fmt.Sprintf("N%d", i), Fields: []*ir.Field{{Name: "v", Number: 1, Kind: "string"}}}
			if inner != nil {
				m.Nested = []*ir.Message{inner}
			}
			inner = m
		}
		_ = full
		f.Messages = []*ir.Message{inner}
		f.Services = []*ir.Service{svcFor("d.nest", "N0", "N0")}
		add("deeply_nested_declarations_60", f)
	}
	// 7. empty messages, service without methods
	{
		f := mk("empty", "d.empty")
		f.Messages = []*ir.Message{{Name: "E"}}
		f.Services = []*ir.Service{svcFor("d.empty", "E", "E"), {Name: "NoMethods"}}
		add("empty_messages_and_methodless_service", f)
	}
	// 8. file without package
	{
		f := &ir.File{Name: "nopkg/d.proto", GoPackage: "example.com/gen/nopkg;nopkg"}
		f.Messages = []*ir.Message{{Name: "Q", Fields: []*ir.Field{{Name: "v", Number: 1, Kind: "string"}}}}
		f.Services = []*ir.Service{svcFor("", "Q", "Q")}
		add("file_without_package", f)
	}
	// 9. file without go_package
	{
		f := &ir.File{Name: "nogopkg/d.proto", Package: "d.nogopkg"}
		f.Messages = []*ir.Message{{Name: "Q", Fields: []*ir.Field{{Name: "v", Number: 1, Kind: "string"}}}}
		f.Services = []*ir.Service{svcFor("d.nogopkg", "Q", "Q")}
		add("file_without_go_package", f)
	}
	// 10. methods sharing request/response types, maps of messages, proto3 optional, timestamps
	{
		f := mk("shared", "d.shared")
		f.Messages = []*ir.Message{
			{Name: "Item", Fields: []*ir.Field{{Name: "id", Number: 1, Kind: "string"}, {Name: "at", Number: 2, Kind: "message", TypeName: tsType}, {Name: "opt", Number: 3, Kind: "int64", Card: "optional"}}},
			{Name: "Bag", Fields: []*ir.Field{{Name: "items", Number: 1, Kind: "message", TypeName: ".d.shared.Item", Card: "map", MapKey: "string"}, {Name: "list", Number: 2, Kind: "message", TypeName: ".d.shared.Item", Card: "repeated"}}},
		}
		s := &ir.Service{Name: "Svc"}
		for i := 0; i < 6; i++ {
			s.Methods = append(s.Methods, &ir.Method{Name: fmt.Sprintf("M%d", i), Input: ".d.shared.Bag", Output: ".d.shared.Bag", Config: &ir.HTTPConfig{Path: fmt.Sprintf("/m%d", i), Method: "POST"}})
		}
		f.Services = []*ir.Service{s}
		add("shared_types_maps_optional_timestamp", f)
	}
	// 11. very long names
	{
		f := mk("long", "d.long")
		ln := "L" + strings.Repeat("abcdefghij", 400)
		f.Messages = []*ir.Message{{Name: ln, Fields: []*ir.Field{{Name: "f_" + strings.Repeat("x", 3000), Number: 1, Kind: "string"}}}}
		f.Services = []*ir.Service{{Name: "S" + strings.Repeat("y", 2000), Methods: []*ir.Method{{Name: "Do" + strings.Repeat("z", 2000), Input: ".d.long." + ln, Output: ".d.long." + ln}}}}
		add("names_of_4000_characters", f)
	}
	// 12. wide message (400 fields) and many methods
	{
		f := mk("wide", "d.wide")
		m := &ir.Message{Name: "W"}
		for i := 1; i <= 400; i++ {
			m.Fields = append(m.Fields, &ir.Field{Name: fmt.Sprintf("f%d", i), Number: int32(i), Kind: Pick(r, ir.ScalarKinds)})
		}
		f.Messages = []*ir.Message{m}
		s := &ir.Service{Name: "Svc"}
		for i := 0; i < 60; i++ {
			s.Methods = append(s.Methods, &ir.Method{Name: fmt.Sprintf("Call%d", i), Input: ".d.wide.W", Output: ".d.wide.W"})
		}
		f.Services = []*ir.Service{s}
		add("wide_message_many_methods", f)
	}
	// 11b. empty string literals: a rule `const: ""`, `in: ["", "a"]` and a field example `""`
	{
		f := mk("emptylit", "d.emptylit")
		e := ""
		f.Messages = []*ir.Message{{Name: "Q", Fields: []*ir.Field{
			{Name: "suffix", Number: 1, Kind: "string", Ann: ir.Ann{Examples: []string{"", "Jr."}}},
			{Name: "none", Number: 2, Kind: "string", Rules: &ir.Rules{StrConst: &e}},
			{Name: "some", Number: 3, Kind: "string", Rules: &ir.Rules{StrIn: []string{"", "a"}}},
		}}}
		f.Services = []*ir.Service{svcFor("d.emptylit", "Q", "Q")}
		add("empty_string_literals", f)
	}
	// 11b°. messages that have NO plain field of their own: every field flattened (one child, two children), only a
	// flattened discriminated oneof, only optional-nullable fields — the "own fields" part of whatever a generator
	// builds for them is empty
	{
		f := mk("noown", "d.noown")
		tr := true
		pre := func(s string) *string { return &s }
		f.Messages = []*ir.Message{
			{Name: "Addr", Fields: []*ir.Field{{Name: "street", Number: 1, Kind: "string"}, {Name: "zip", Number: 2, Kind: "int32"}}},
			{Name: "Who", Fields: []*ir.Field{{Name: "nick", Number: 1, Kind: "string"}}},
			{Name: "OneFlat", Fields: []*ir.Field{{Name: "ship_to", Number: 1, Kind: "message", TypeName: ".d.noown.Addr", Ann: ir.Ann{Flatten: &tr}}}},
			{Name: "TwoFlat", Fields: []*ir.Field{
				{Name: "ship_to", Number: 1, Kind: "message", TypeName: ".d.noown.Addr", Ann: ir.Ann{Flatten: &tr, FlattenPrefix: pre("ship_")}},
				{Name: "who", Number: 2, Kind: "message", TypeName: ".d.noown.Who", Ann: ir.Ann{Flatten: &tr}}}},
			{Name: "OnlyOneof", Oneofs: []*ir.Oneof{{Name: "pick", HasConfig: true, Discriminator: pre("kind"), Flatten: true}}, Fields: []*ir.Field{
				{Name: "addr", Number: 1, Kind: "message", TypeName: ".d.noown.Addr", Oneof: "pick"},
				{Name: "who", Number: 2, Kind: "message", TypeName: ".d.noown.Who", Oneof: "pick"}}},
			{Name: "OnlyNullable", Fields: []*ir.Field{{Name: "maybe", Number: 1, Kind: "string", Card: "optional", Ann: ir.Ann{Nullable: &tr}}}},
			{Name: "All", Fields: []*ir.Field{
				{Name: "a", Number: 1, Kind: "message", TypeName: ".d.noown.OneFlat"}, {Name: "b", Number: 2, Kind: "message", TypeName: ".d.noown.TwoFlat"},
				{Name: "c", Number: 3, Kind: "message", TypeName: ".d.noown.OnlyOneof"}, {Name: "d", Number: 4, Kind: "message", TypeName: ".d.noown.OnlyNullable"}}},
		}
		f.Services = []*ir.Service{{Name: "Svc", Methods: []*ir.Method{
			{Name: "A", Input: ".d.noown.OneFlat", Output: ".d.noown.TwoFlat"},
			{Name: "B", Input: ".d.noown.OnlyOneof", Output: ".d.noown.OnlyNullable"},
			{Name: "C", Input: ".d.noown.All", Output: ".d.noown.All"}}}}
		add("messages_without_own_fields", f)
	}
	// 11b*. comments of every shape protoc can deliver: a paragraph break (an empty line between two paragraphs), a
	// whitespace-only line, a linter directive line, a comment that is only a line break, an empty one, a very long
	// line, non-ASCII text — on the service, an rpc, messages and fields (incl. a path-bound one)
	{
		f := mk("cmt", "d.cmt")
		f.Messages = []*ir.Message{
			{Name: "Q", Fields: []*ir.Field{{Name: "id", Number: 1, Kind: "string"}, {Name: "note", Number: 2, Kind: "string"}, {Name: "n", Number: 3, Kind: "int32"}}},
			{Name: "A", Fields: []*ir.Field{{Name: "ok", Number: 1, Kind: "bool"}, {Name: "why", Number: 2, Kind: "string"}}}}
		f.Services = []*ir.Service{{Name: "Svc", Methods: []*ir.Method{
			{Name: "Get", Input: ".d.cmt.Q", Output: ".d.cmt.A", Config: &ir.HTTPConfig{Path: "/q/{id}", Method: "POST"}},
			{Name: "Put", Input: ".d.cmt.Q", Output: ".d.cmt.A"}}}}
		f.Comments = map[string]string{
			"svc:Svc":      " Order lookup.\n\n Returns what it finds.\n",
			"rpc:Svc.Get":  " Looks an order up.\n \t \n Second paragraph after a whitespace-only line.\n",
			"rpc:Svc.Put":  " buf:lint:ignore RPC_REQUEST_STANDARD_NAME\n Stores.\n",
			"msg:Q":        "\n",
			"msg:A":        "",
			"field:Q.id":   " The identifier.\n\n\n Two empty lines above.\n",
			"field:Q.note": " " + strings.Repeat("long ", 4000) + "\n",
			"field:Q.n":    " Zürich — 数 — \U0001D11E\n\n protolint:disable:next FIELD_NAMES_LOWER_SNAKE_CASE\n",
			"field:A.ok":   " \n",
			"field:A.why":  "no leading space\nsecond line\n",
		}
		add("comments_of_every_shape", f)
	}
	// 11b'. headers of every declared type with examples that are no value of that type (and some that are)
	{
		f := mk("hdrex", "d.hdrex")
		f.Messages = []*ir.Message{{Name: "Q", Fields: []*ir.Field{{Name: "v", Number: 1, Kind: "string"}}}}
		svc := svcFor("d.hdrex", "Q", "Q")
		odd := []string{"1,000", "0089", "18446744073709551616", "30s", "1", "yes", "e", "12", "true", "1.5", "-7", "null", "~", "0x1F"}
		for i, t := range []string{"integer", "boolean", "number", "string", "array", ""} {
			svc.Headers = append(svc.Headers, ir.Header{Name: fmt.Sprintf("X-Svc-%d", i), Type: t, Example: odd[i%len(odd)]})
			for j := 0; j < 3; j++ {
				if len(svc.Methods) > 0 {
					svc.Methods[0].Headers = append(svc.Methods[0].Headers, ir.Header{Name: fmt.Sprintf("X-M-%d-%d", i, j), Type: t, Example: odd[(3*i+j+1)%len(odd)], Required: j == 0})
				}
			}
		}
		f.Services = []*ir.Service{svc}
		add("typed_headers_with_odd_examples", f)
	}
	// 11b''. path templates with stray, doubled or nested braces (each its own request, so that one refusal does not
	// hide the others): whatever a generator makes of them, it must say so with files or an error message
	for i, tpl := range []string{"/archive}/{user_id}/{post_id}", "/users/{user_id}}/posts/{post_id}", "/users/{{user_id}}/posts/{{post_id}}",
		"/users/{user_id:[0-9]{4}}/posts/{post_id}", "/users/{user_id", "/users/user_id}/x", "/users/{}/x/{post_id}", "/}{/{user_id}"} {
		f := mk(fmt.Sprintf("braces%d", i), fmt.Sprintf("d.braces%d", i))
		f.Messages = []*ir.Message{{Name: "Q", Fields: []*ir.Field{{Name: "user_id", Number: 1, Kind: "string"}, {Name: "post_id", Number: 2, Kind: "string"}, {Name: "note", Number: 3, Kind: "string"}}}}
		svc := svcFor(fmt.Sprintf("d.braces%d", i), "Q", "Q")
		svc.Methods[0].Config = &ir.HTTPConfig{Path: tpl, Method: "POST"}
		f.Services = []*ir.Service{svc}
		add(fmt.Sprintf("odd_braces_in_path#%d", i), f)
	}
	// 11c. enums with a single value (only the zero entry) and the dynamically typed well-known types (whose
	// NullValue enum has one value too) in a response: directly, through a singular child, in a map value
	{
		f := mk("oneval", "d.oneval")
		f.Enums = []*ir.Enum{{Name: "Only", Values: []ir.EnumValue{{Name: "ONLY_UNSPECIFIED", Number: 0}}}}
		f.Messages = []*ir.Message{
			{Name: "Inner", Fields: []*ir.Field{{Name: "only", Number: 1, Kind: "enum", TypeName: ".d.oneval.Only"}}},
			{Name: "R", Fields: []*ir.Field{
				{Name: "only", Number: 1, Kind: "enum", TypeName: ".d.oneval.Only"},
				{Name: "onlies", Number: 2, Kind: "enum", TypeName: ".d.oneval.Only", Card: "repeated"},
				{Name: "maybe", Number: 3, Kind: "enum", TypeName: ".d.oneval.Only", Card: "optional"},
				{Name: "inner", Number: 4, Kind: "message", TypeName: ".d.oneval.Inner"},
				{Name: "by_key", Number: 5, Kind: "message", TypeName: ".d.oneval.Inner", Card: "map", MapKey: "string"},
				{Name: "dyn", Number: 6, Kind: "message", TypeName: ".google.protobuf.Value"},
				{Name: "meta", Number: 7, Kind: "message", TypeName: ".google.protobuf.Struct"},
			}}}
		f.Services = []*ir.Service{svcFor("d.oneval", "R", "R")}
		add("single_value_enums_and_dynamic_types", f)
	}
	// 12a. a request of more than 6 MiB: an imported tree of 40 files with 40 messages of four fields whose
	// names take 1000 characters each (the generated file itself is small)
	{
		f := mk("bigreq", "d.bigreq")
		f.Messages = []*ir.Message{{Name: "Q", Fields: []*ir.Field{{Name: "v", Number: 1, Kind: "string"}}}}
		f.Services = []*ir.Service{svcFor("d.bigreq", "Q", "Q")}
		var deps []*ir.File
		for i := 0; i < 40; i++ {
			d := &ir.File{Name: fmt.Sprintf("bigreq/dep%d.proto", i), Package: fmt.Sprintf("d.bigreq.dep%d", i), GoPackage: fmt.Sprintf("example.com/gen/bigreq/dep%d;dep%d", i, i)}
			for j := 0; j < 40; j++ {
				m := &ir.Message{Name: fmt.Sprintf("M%d", j)}
				for k := 1; k <= 4; k++ {
					m.Fields = append(m.Fields, &ir.Field{Name: fmt.Sprintf("f%d_%s", k, strings.Repeat("n", 1000)), Number: int32(k), Kind: "string"})
				}
				d.Messages = append(d.Messages, m)
			}
			deps = append(deps, d)
			f.Deps = append(f.Deps, d.Name)
		}
		add("request_of_6_MiB", f, deps...)
	}
	// 12b. many services in one file, many files with one service each in one invocation
	for _, n := range []int{9, 12, 70} {
		f := mk(fmt.Sprintf("manysvc%d", n), fmt.Sprintf("d.manysvc%d", n))
		f.Messages = []*ir.Message{{Name: "Q", Fields: []*ir.Field{{Name: "v", Number: 1, Kind: "string"}}}}
		for i := 0; i < n; i++ {
			f.Services = append(f.Services, &ir.Service{Name: fmt.Sprintf("Svc%d", i), BasePath: fmt.Sprintf("/s%d", i), Methods: []*ir.Method{
				{Name: "Do", Input: "." + f.Package + ".Q", Output: "." + f.Package + ".Q", Config: &ir.HTTPConfig{Path: "/do", Method: "POST"}}}})
		}
		add(fmt.Sprintf("%d_services_in_one_file", n), f)
	}
	{
		var files []*ir.File
		var names []string
		for i := 0; i < 24; i++ {
			f := mk(fmt.Sprintf("manyfiles%d", i), fmt.Sprintf("d.manyfiles%d", i))
			f.Messages = []*ir.Message{{Name: "Q", Fields: []*ir.Field{{Name: "v", Number: 1, Kind: "string"}}}}
			f.Services = []*ir.Service{svcFor(f.Package, "Q", "Q")}
			files = append(files, f)
			names = append(names, f.Name)
		}
		out = append(out, Degenerate{"24_files_generated_together", &ir.Request{Files: files, Generate: names}})
	}
	// 12c. flatten cycles: a flattened field of the message's own type, two messages flattening each other
	{
		f := mk("flatself", "d.flatself")
		f.Messages = []*ir.Message{
			{Name: "Category", Fields: []*ir.Field{{Name: "name", Number: 1, Kind: "string"},
				{Name: "parent", Number: 2, Kind: "message", TypeName: ".d.flatself.Category", Ann: ir.Ann{Flatten: bp(true), FlattenPrefix: sp("parent_")}}}},
		}
		f.Services = []*ir.Service{svcFor("d.flatself", "Category", "Category")}
		add("flatten_of_own_type", f)
	}
	{
		f := mk("flatmutual", "d.flatmutual")
		f.Messages = []*ir.Message{
			{Name: "A", Fields: []*ir.Field{{Name: "id", Number: 1, Kind: "string"}, {Name: "b", Number: 2, Kind: "message", TypeName: ".d.flatmutual.B", Ann: ir.Ann{Flatten: bp(true), FlattenPrefix: sp("b_")}}}},
			{Name: "B", Fields: []*ir.Field{{Name: "tag", Number: 1, Kind: "string"}, {Name: "a", Number: 2, Kind: "message", TypeName: ".d.flatmutual.A", Ann: ir.Ann{Flatten: bp(true), FlattenPrefix: sp("a_")}}}},
		}
		f.Services = []*ir.Service{svcFor("d.flatmutual", "A", "B")}
		add("flatten_mutual_cycle", f)
	}
	// 12d. path variables no request field is named after (in the base path, in the method path), on a
	// body verb (the Go plugins refuse or accept: either way every plugin must ANSWER)
	{
		f := mk("unboundvar", "d.unboundvar")
		f.Messages = []*ir.Message{{Name: "Q", Fields: []*ir.Field{{Name: "item_id", Number: 1, Kind: "string"}, {Name: "v", Number: 2, Kind: "string"}}}}
		f.Services = []*ir.Service{{Name: "Svc", BasePath: "/tenants/{tenant}", Methods: []*ir.Method{
			{Name: "Do", Input: ".d.unboundvar.Q", Output: ".d.unboundvar.Q", Config: &ir.HTTPConfig{Path: "/items/{id}", Method: "POST"}},
			{Name: "Get", Input: ".d.unboundvar.Q", Output: ".d.unboundvar.Q", Config: &ir.HTTPConfig{Path: "/items/{item_id}/{missing_}", Method: "PUT"}}}}}
		add("path_variable_without_field", f)
	}
	// 12e. oneofs with oneof_config named with a trailing / doubled underscore, one-letter names
	for _, on := range []string{"payload_", "event__body", "_x", "c"} {
		f := mk("oneofname", "d.oneofname")
		f.Messages = []*ir.Message{
			{Name: "T", Fields: []*ir.Field{{Name: "body", Number: 1, Kind: "string"}}},
			{Name: "E", Oneofs: []*ir.Oneof{{Name: on, HasConfig: true, Discriminator: sp("type"), Flatten: on != "c"}},
				Fields: []*ir.Field{{Name: "id", Number: 1, Kind: "string"}, {Name: "t", Number: 2, Kind: "message", TypeName: ".d.oneofname.T", Oneof: on}}}}
		f.Services = []*ir.Service{svcFor("d.oneofname", "E", "E")}
		add("oneof_named_"+on, f)
	}
	// 13. recursive annotated types: flatten child that refers back, unwrap of self
	{
		f := mk("annrec", "d.annrec")
		f.Messages = []*ir.Message{
			{Name: "P", Fields: []*ir.Field{{Name: "title", Number: 1, Kind: "string"}, {Name: "c", Number: 2, Kind: "message", TypeName: ".d.annrec.C", Ann: ir.Ann{Flatten: bp(true), FlattenPrefix: sp("c_")}}}},
			{Name: "C", Fields: []*ir.Field{{Name: "back", Number: 1, Kind: "message", TypeName: ".d.annrec.P"}, {Name: "big", Number: 2, Kind: "int64"}}},
			{Name: "L", Fields: []*ir.Field{{Name: "items", Number: 1, Kind: "message", TypeName: ".d.annrec.L", Card: "repeated", Ann: ir.Ann{Unwrap: true}}}},
		}
		f.Services = []*ir.Service{svcFor("d.annrec", "P", "L")}
		add("recursive_annotated_types", f)
	}
	// 14. a file with no messages and no services; a file with only enums
	{
		f := mk("bare", "d.bare")
		add("empty_file", f)
		g := mk("enums", "d.enums")
		g.Enums = []*ir.Enum{{Name: "Color", Values: []ir.EnumValue{{Name: "COLOR_UNSPECIFIED", Number: 0}, {Name: "COLOR_RED", Number: 1, Custom: sp("red")}}}}
		add("enums_only_file", g)
	}
	// diamond chains: 32 levels, each referring to the next level TWICE (two fields / a map field the
	// generators visit twice): a traversal that releases its visited mark does 2^32 work
	{
		f := mk("diamond", "d.diamond")
		const depth = 32
		for l := 0; l < depth; l++ {
			m := &ir.Message{Name: fmt.Sprintf("L%d", l), Fields: []*ir.Field{{Name: "v", Number: 1, Kind: "string"}}}
			if l+1 < depth {
				next := fmt.Sprintf(".d.diamond.L%d", l+1)
				m.Fields = append(m.Fields, &ir.Field{Name: "left", Number: 2, Kind: "message", TypeName: next}, &ir.Field{Name: "right", Number: 3, Kind: "message", TypeName: next})
			}
			f.Messages = append(f.Messages, m)
		}
		f.Services = []*ir.Service{svcFor("d.diamond", "L0", "L0")}
		add("diamond_chain_two_fields", f)
	}
	{
		f := mk("diamondmap", "d.diamondmap")
		const depth = 32
		for l := 0; l < depth; l++ {
			m := &ir.Message{Name: fmt.Sprintf("M%d", l), Fields: []*ir.Field{{Name: "v", Number: 1, Kind: "string"}}}
			if l+1 < depth {
				m.Fields = append(m.Fields, &ir.Field{Name: "next", Number: 2, Kind: "message", TypeName: fmt.Sprintf(".d.diamondmap.M%d", l+1), Card: "map", MapKey: "string"})
			}
			f.Messages = append(f.Messages, m)
		}
		f.Services = []*ir.Service{svcFor("d.diamondmap", "M0", "M0")}
		add("diamond_chain_map_values", f)
	}
	// root unwrap over scalar collections (no value message to look at)
	for _, v := range []struct{ shape, kind, card string }{{"root_unwrap_scalar_map_string", "string", "map"}, {"root_unwrap_scalar_map_int64", "int64", "map"},
		{"root_unwrap_scalar_list", "double", "repeated"}, {"root_unwrap_enum_free_bool_map", "bool", "map"}} {
		f := mk("ru"+v.shape[12:], "d.ru")
		fl := &ir.Field{Name: "entries", Number: 1, Kind: v.kind, Card: v.card, Ann: ir.Ann{Unwrap: true}}
		if v.card == "map" {
			fl.MapKey = "string"
		}
		f.Messages = []*ir.Message{{Name: "Bag", Fields: []*ir.Field{fl}}, {Name: "Q", Fields: []*ir.Field{{Name: "q", Number: 1, Kind: "string"}}}}
		f.Services = []*ir.Service{svcFor("d.ru", "Q", "Bag")}
		add(v.shape, f)
	}
	return out
}

// MockEdges is the type graph the mock emitter walks: singular (incl. optional / oneof member)
// message fields and message-valued maps; repeated fields are skipped.
func MockEdges(req *ir.Request) []map[string]any {
	var edges []map[string]any
	var walk func(prefix string, ms []*ir.Message)
	walk = func(prefix string, ms []*ir.Message) {
		for _, m := range ms {
			var to []string
			for _, f := range m.Fields {
				if f.Kind == "message" && f.Card != "repeated" {
					to = append(to, f.TypeName)
				}
			}
			if to == nil {
				to = []string{}
			}
			edges = append(edges, map[string]any{"from": prefix + m.Name, "to": to})
			walk(prefix+m.Name+".", m.Nested)
		}
	}
	for _, f := range req.Files {
		p := "."
		if f.Package != "" {
			p = "." + f.Package + "."
		}
		walk(p, f.Messages)
	}
	// the well-known Timestamp is a leaf for the walk (its fields are scalars)
	edges = append(edges, map[string]any{"from": ".google.protobuf.Timestamp", "to": []string{}})
	return edges
}
