import Sebuf.Lemmas.OaSchema
/-!
# C06 — wire JSON bodies validate against the generated OpenAPI

`Spec`: the documented wire form of a value (`Mapping.scalarJson`, `Mapping.encMsg … ann := true`).
`Impl`: the component schemas `protoc-gen-openapiv3` emits (`OaSchema.scalarSchema`, `fieldSchema`,
`messageSchema`, the built-in `Error` / `FieldViolation` / `ValidationError` components) and the
error bodies the generated server writes. Validation is `Schema.valid` (JSON Schema 2020-12, the
keyword subset the generator emits; `format` is an annotation, `pattern` is uninterpreted);
"no property the schema does not describe" is `Schema.undeclaredDeep … = []`.

Proved for ALL values (no bounds):
* every scalar kind and annotation state (`scalar_valid_*`, and the master statement `scalar_valid`);
* repeated and map fields of scalars;
* the server's own error bodies;
* satisfiability by the default value, `null` against the nullable layouts;
* `flat_message_valid_partial`: whole messages of singular scalar fields.

Kernel-checked failures (the part of the property that does NOT hold):
`nonfinite_float_invalid`, `undefined_enum_number_invalid`, `map_int64_number_value_invalid`,
`nullable_enum_rejects_null`, `empty_violation_list_invalid`, `empty_description_invalid`, and
`nested_oneof_unsatisfiable` (the non-flattened discriminated-oneof component accepts no
well-formed value at all).

Not covered here (oracle only): nested message fields (`$ref` into another component), collections
inside the message-level induction, root unwrap / flatten / flattened-oneof layouts, path and
query parameter schemas.
-/
namespace Sebuf.C06
open Sebuf Sebuf.OaSchema Sebuf.Mapping

/-! ## 1. scalar kinds -/

/-- **int32 / sint32 / sfixed32**: a JSON number against `{type: integer, format: int32}`. -/
theorem scalar_valid_int32 (rq : Request) (f : Field) (comps : List (Str × Json)) (n : Nat) (i : Int)
    (hk : f.kind = .int32 ∨ f.kind = .sint32 ∨ f.kind = .sfixed32) :
    Schema.valid comps (n + 1) (scalarSchema rq f) (scalarJson rq true f (.int i)) = true :=
  valid_int32 rq f comps n i hk

example : Schema.valid [] 1 (scalarSchema {} Witness.fCount) (Json.num (.int (-7))) = true :=
  scalar_valid_int32 {} Witness.fCount [] 0 (-7) (Or.inl rfl)

/-- **64-bit kinds, default / STRING encoding** (signed and unsigned): the decimal string against
`{type: string, format: int64|uint64}`. -/
theorem scalar_valid_int64_string (rq : Request) (f : Field) (comps : List (Str × Json)) (n : Nat) (i : Int)
    (hk : f.kind = .int64 ∨ f.kind = .sint64 ∨ f.kind = .sfixed64 ∨ f.kind = .uint64 ∨ f.kind = .fixed64)
    (he : f.int64Enc ≠ 2) :
    Schema.valid comps (n + 1) (scalarSchema rq f) (scalarJson rq true f (.int i)) = true ∧
    scalarJson rq true f (.int i) = Json.str (toString i).toList :=
  valid_int64_string rq f comps n i hk he

example : Schema.valid [] 1 (scalarSchema {} Witness.fBig) (scalarJson {} true Witness.fBig (.int 9)) = true :=
  (scalar_valid_int64_string {} Witness.fBig [] 0 9 (Or.inl rfl) (by decide)).1

/-- **signed 64-bit kinds under `int64_encoding = NUMBER`**: a JSON number against
`{type: integer, format: int64}`. -/
theorem scalar_valid_int64_number (rq : Request) (f : Field) (comps : List (Str × Json)) (n : Nat) (i : Int)
    (hk : f.kind = .int64 ∨ f.kind = .sint64 ∨ f.kind = .sfixed64) (he : f.int64Enc = 2) :
    Schema.valid comps (n + 1) (scalarSchema rq f) (scalarJson rq true f (.int i)) = true ∧
    scalarJson rq true f (.int i) = Json.num (.int i) :=
  valid_int64_number rq f comps n i hk he

example : Schema.valid [] 1 (scalarSchema {} Witness.fBigN) (Json.num (.int 9)) = true :=
  (scalar_valid_int64_number {} Witness.fBigN [] 0 9 (Or.inl rfl) rfl).1

/-- **uint32 / fixed32**: a number that is not negative against `{type: integer, minimum: 0}`. -/
theorem scalar_valid_uint32 (rq : Request) (f : Field) (comps : List (Str × Json)) (n : Nat) (i : Int)
    (hk : f.kind = .uint32 ∨ f.kind = .fixed32) (hi : 0 ≤ i) :
    Schema.valid comps (n + 1) (scalarSchema rq f) (scalarJson rq true f (.int i)) = true := by
  rw [valid_uint32 rq f comps n i hk]; simpa using hi

example : Schema.valid [] 1 (scalarSchema {} Witness.fU32) (Json.num (.int 4)) = true :=
  scalar_valid_uint32 {} Witness.fU32 [] 0 4 (Or.inl rfl) (by decide)

/-- the `0 ≤ i` hypothesis is needed: `minimum: 0` rejects every negative number. -/
theorem uint32_negative_invalid (rq : Request) (f : Field) (comps : List (Str × Json)) (n : Nat) (i : Int)
    (hk : f.kind = .uint32 ∨ f.kind = .fixed32) (hi : i < 0) :
    Schema.valid comps (n + 1) (scalarSchema rq f) (scalarJson rq true f (.int i)) = false := by
  rw [valid_uint32 rq f comps n i hk]; simpa using hi

example : Schema.valid [] 1 (scalarSchema {} Witness.fU32) (Json.num (.int (-1))) = false :=
  uint32_negative_invalid {} Witness.fU32 [] 0 (-1) (Or.inl rfl) (by decide)

/-- **uint64 / fixed64 under `int64_encoding = NUMBER`**: `{type: integer, minimum: 0}`. -/
theorem scalar_valid_uint64_number (rq : Request) (f : Field) (comps : List (Str × Json)) (n : Nat) (i : Int)
    (hk : f.kind = .uint64 ∨ f.kind = .fixed64) (he : f.int64Enc = 2) (hi : 0 ≤ i) :
    Schema.valid comps (n + 1) (scalarSchema rq f) (scalarJson rq true f (.int i)) = true := by
  rw [valid_uint64_number rq f comps n i hk he]; simpa using hi

example : Schema.valid [] 1 (scalarSchema {} Witness.fU64N) (Json.num (.int 4)) = true :=
  scalar_valid_uint64_number {} Witness.fU64N [] 0 4 (Or.inl rfl) rfl (by decide)

theorem uint64_number_negative_invalid (rq : Request) (f : Field) (comps : List (Str × Json)) (n : Nat) (i : Int)
    (hk : f.kind = .uint64 ∨ f.kind = .fixed64) (he : f.int64Enc = 2) (hi : i < 0) :
    Schema.valid comps (n + 1) (scalarSchema rq f) (scalarJson rq true f (.int i)) = false := by
  rw [valid_uint64_number rq f comps n i hk he]; simpa using hi

example : Schema.valid [] 1 (scalarSchema {} Witness.fU64N) (Json.num (.int (-1))) = false :=
  uint64_number_negative_invalid {} Witness.fU64N [] 0 (-1) (Or.inl rfl) rfl (by decide)

/-- **bool**. -/
theorem scalar_valid_bool (rq : Request) (f : Field) (comps : List (Str × Json)) (n : Nat) (b : Bool)
    (hk : f.kind = .bool) :
    Schema.valid comps (n + 1) (scalarSchema rq f) (scalarJson rq true f (.bool b)) = true :=
  valid_bool rq f comps n b hk

example : Schema.valid [] 1 (scalarSchema {} Witness.fFlag) (Json.bool false) = true :=
  scalar_valid_bool {} Witness.fFlag [] 0 false rfl

/-- **string**. -/
theorem scalar_valid_string (rq : Request) (f : Field) (comps : List (Str × Json)) (n : Nat) (s : Str)
    (hk : f.kind = .string) :
    Schema.valid comps (n + 1) (scalarSchema rq f) (scalarJson rq true f (.str s)) = true :=
  valid_string rq f comps n s hk

example : Schema.valid [] 1 (scalarSchema {} Witness.fTitle) (Json.str "x".toList) = true :=
  scalar_valid_string {} Witness.fTitle [] 0 "x".toList rfl

/-- **float / double, finite**: the number token against `{type: number}`. -/
theorem scalar_valid_float (rq : Request) (f : Field) (comps : List (Str × Json)) (n : Nat) (tok : Str)
    (hk : f.kind = .float ∨ f.kind = .double) :
    Schema.valid comps (n + 1) (scalarSchema rq f) (scalarJson rq true f (.float tok false)) = true :=
  valid_float rq f comps n tok hk

example : Schema.valid [] 1 (scalarSchema {} Witness.fRatio) (Json.num (.float "1.5".toList)) = true :=
  scalar_valid_float {} Witness.fRatio [] 0 "1.5".toList (Or.inr rfl)

/-- **non-finite floats do NOT validate**: `NaN`, `Infinity`, `-Infinity` are JSON strings on the
wire (proto3 JSON), the schema is `{type: number}` — for every fuel. -/
theorem nonfinite_float_invalid (rq : Request) (f : Field) (comps : List (Str × Json)) (fuel : Nat) (tok : Str)
    (hk : f.kind = .float ∨ f.kind = .double) :
    Schema.valid comps fuel (scalarSchema rq f) (scalarJson rq true f (.float tok true)) = false :=
  invalid_nonfinite rq f comps fuel tok hk

example : Schema.valid [] 5 (scalarSchema {} Witness.fRatio) (Json.str "NaN".toList) = false :=
  nonfinite_float_invalid {} Witness.fRatio [] 5 "NaN".toList (Or.inr rfl)

/-- **bytes, every `bytes_encoding`**: a string (`format` is an annotation; the `pattern` of the HEX
encoding is not interpreted by the validator, so it is not checked here). -/
theorem scalar_valid_bytes (rq : Request) (f : Field) (comps : List (Str × Json)) (n : Nat) (b : Bytes)
    (hk : f.kind = .bytes) :
    Schema.valid comps (n + 1) (scalarSchema rq f) (scalarJson rq true f (.bytes b)) = true :=
  valid_bytes rq f comps n b hk

example : Schema.valid [] 1 (scalarSchema {} Witness.fBlob) (scalarJson {} true Witness.fBlob (.bytes [1, 255])) = true :=
  scalar_valid_bytes {} Witness.fBlob [] 0 [1, 255] rfl

/-- **google.protobuf.Timestamp, every `timestamp_format`**: RFC 3339 / date string, or the integer
of UNIX_SECONDS / UNIX_MILLIS. -/
theorem scalar_valid_timestamp (rq : Request) (f : Field) (comps : List (Str × Json)) (n : Nat) (s : Int)
    (ns : Nat) (r d : Str) (hk : f.kind = .message) (ht : isTimestampName f.typeName = true) :
    Schema.valid comps (n + 1) (scalarSchema rq f) (scalarJson rq true f (.ts s ns r d)) = true :=
  valid_ts rq f comps n s ns r d hk ht

example : Schema.valid [] 1 (scalarSchema {} Witness.fWhen) (Json.num (.int 1700000000)) = true :=
  scalar_valid_timestamp {} Witness.fWhen [] 0 1700000000 0 [] [] rfl (by decide)

/-- **enum, STRING (default) encoding**: a number the enum defines is sent as its name — or its
custom `enum_value` — which is a listed `enum` member. -/
theorem scalar_valid_enum_string (rq : Request) (f : Field) (comps : List (Str × Json)) (n : Nat) (k : Int)
    (e : EnumT) (hk : f.kind = .enum) (hE : rq.findEnum f.typeName = some e) (he : f.enumEnc ≠ 2)
    (hn : ∃ v ∈ e.values, v.1 = k) (hc : ∀ v ∈ e.values, v.2.2 ≠ some []) :
    Schema.valid comps (n + 1) (scalarSchema rq f) (scalarJson rq true f (.enum k)) = true :=
  valid_enum_string rq f comps n k e hk hE he hn hc

example : Schema.valid [] 1 (scalarSchema Witness.rq Witness.fColor) (scalarJson Witness.rq true Witness.fColor (.enum 1)) = true :=
  scalar_valid Witness.rq Witness.fColor [] 0 (.enum 1) Witness.color_wellKinded

/-- **enum, NUMBER encoding**: a defined number against `{type: integer, enum: [numbers]}`. -/
theorem scalar_valid_enum_number (rq : Request) (f : Field) (comps : List (Str × Json)) (n : Nat) (k : Int)
    (e : EnumT) (hk : f.kind = .enum) (hE : rq.findEnum f.typeName = some e) (he : f.enumEnc = 2)
    (hn : ∃ v ∈ e.values, v.1 = k) :
    Schema.valid comps (n + 1) (scalarSchema rq f) (scalarJson rq true f (.enum k)) = true :=
  valid_enum_number rq f comps n k e hk hE he hn

example : Schema.valid [] 1 (scalarSchema Witness.rq Witness.fColorN) (Json.num (.int 1)) = true :=
  scalar_valid_enum_number Witness.rq Witness.fColorN [] 0 1 Witness.colorEnum rfl rfl rfl
    ⟨_, List.mem_cons_of_mem _ List.mem_cons_self, rfl⟩

/-- **an enum number the enum does not define does NOT validate**: proto3 JSON prints it as a
number, the STRING-encoded schema is `{type: string, enum: [...]}` — for every fuel. -/
theorem undefined_enum_number_invalid (rq : Request) (f : Field) (comps : List (Str × Json)) (fuel : Nat)
    (k : Int) (e : EnumT) (hk : f.kind = .enum) (hE : rq.findEnum f.typeName = some e) (he : f.enumEnc ≠ 2)
    (hn : ∀ v ∈ e.values, v.1 ≠ k) :
    scalarJson rq true f (.enum k) = Json.num (.int k) ∧
    Schema.valid comps fuel (scalarSchema rq f) (scalarJson rq true f (.enum k)) = false :=
  invalid_enum_undefined rq f comps fuel k e hk hE he hn

example : Schema.valid [] 5 (scalarSchema Witness.rq Witness.fColor) (scalarJson Witness.rq true Witness.fColor (.enum 7)) = false :=
  (undefined_enum_number_invalid Witness.rq Witness.fColor [] 5 7 Witness.colorEnum rfl rfl (by decide) (by decide)).2

/-- **all scalars at once**: `WellKinded rq f v` says the value is of the field's kind (unsigned
kinds hold a non-negative number, a float is finite, an enum number is defined, a message-kind
scalar is a Timestamp). Its documented wire form validates against the field's element schema. -/
theorem scalar_valid (rq : Request) (f : Field) (comps : List (Str × Json)) (n : Nat) (v : Val)
    (h : WellKinded rq f v) :
    Schema.valid comps (n + 1) (scalarSchema rq f) (scalarJson rq true f v) = true :=
  OaSchema.scalar_valid rq f comps n v h

example : WellKinded Witness.rq Witness.fColor (.enum 1) := Witness.color_wellKinded

/-! ## 2. collections -/

/-- **repeated field**: `{type: array, items: S}` — an array validates iff every element validates
against the element schema. -/
theorem repeated_field_valid_iff (rq : Request) (f : Field) (comps : List (Str × Json)) (n : Nat)
    (l : List Json) (h : f.card = .repeated) :
    Schema.valid comps (n + 1) (fieldSchema rq f) (Json.arr l) =
      l.all (Schema.valid comps n (scalarSchema rq f)) :=
  valid_repeated rq f comps n l h

/-- **repeated field of well-kinded scalars**: the documented wire form of the whole list validates. -/
theorem repeated_field_valid (rq : Request) (f : Field) (comps : List (Str × Json)) (n k : Nat) (g : Bool)
    (l : List Val) (hc : f.card = .repeated) (hl : ∀ v ∈ l, WellKinded rq f v) :
    Schema.valid comps (n + 2) (fieldSchema rq f) (encFieldVal rq true g (k + 3) f (.list l)) = true :=
  repeated_valid rq f comps n k g l hc hl

example : Schema.valid [] 2 (fieldSchema {} Witness.fTags)
    (encFieldVal {} true false 3 Witness.fTags (.list [.str "a".toList, .str "b".toList])) = true :=
  repeated_field_valid {} Witness.fTags [] 0 0 false _ rfl (by
    intro v hv
    rcases List.mem_cons.mp hv with rfl | hv
    · exact rfl
    · rcases List.mem_cons.mp hv with rfl | hv
      · exact rfl
      · cases hv)

/-- **map field with scalar values**: `{type: object, additionalProperties: S}` — an object validates
iff every value validates against the schema of the bare value field. -/
theorem map_field_valid_iff (rq : Request) (f : Field) (comps : List (Str × Json)) (n : Nat)
    (kvs : List (Str × Json)) (h : f.card = .map) (hk : f.kind ≠ .message) :
    Schema.valid comps (n + 1) (fieldSchema rq f) (Json.obj kvs) =
      kvs.all (fun p => Schema.valid comps n (scalarSchema rq (mapValueField f)) p.2) :=
  valid_map_scalar rq f comps n kvs h hk

/-- **map field of well-kinded scalars**, when the map field carries no `int64_encoding = NUMBER` /
`enum_encoding = NUMBER` (the emitted value schema ignores the map field's annotations). -/
theorem map_field_valid (rq : Request) (f : Field) (comps : List (Str × Json)) (n k : Nat) (g : Bool)
    (kvs : List (Str × Val)) (hc : f.card = .map) (hk : f.kind ≠ .message) (h64 : f.int64Enc ≠ 2)
    (hen : f.enumEnc ≠ 2) (hl : ∀ p ∈ kvs, WellKinded rq f p.2) :
    Schema.valid comps (n + 2) (fieldSchema rq f) (encFieldVal rq true g (k + 3) f (.map kvs)) = true :=
  map_valid rq f comps n k g kvs hc hk h64 hen hl

example : Schema.valid [] 2 (fieldSchema {} Witness.fAttrs)
    (encFieldVal {} true false 3 Witness.fAttrs (.map [("a".toList, .int 5)])) = true :=
  map_field_valid {} Witness.fAttrs [] 0 0 false _ rfl (by decide) (by decide) (by decide) (by
    intro p hp
    rcases List.mem_cons.mp hp with rfl | hp
    · exact Or.inl (Or.inr (Or.inr (Or.inr (Or.inl rfl))))
    · cases hp)

/-- the `int64Enc ≠ 2` hypothesis is needed: with `int64_encoding = NUMBER` on a 64-bit map field the
documented wire form of a value is a number while the emitted `additionalProperties` schema (built
from the annotation-free synthetic value field) is `{type: string}` — for every fuel. -/
theorem map_int64_number_value_invalid (rq : Request) (f : Field) (comps : List (Str × Json)) (fuel : Nat)
    (key : Str) (i : Int) (hc : f.card = .map)
    (hk : f.kind = .int64 ∨ f.kind = .sint64 ∨ f.kind = .sfixed64 ∨ f.kind = .uint64 ∨ f.kind = .fixed64)
    (h64 : f.int64Enc = 2) :
    Schema.valid comps fuel (fieldSchema rq f) (Json.obj [(key, scalarJson rq true f (.int i))]) = false :=
  map_int64_number_invalid rq f comps fuel key i hc hk h64

example : Schema.valid [] 5 (fieldSchema {} Witness.fAttrsN) (Json.obj [("a".toList, Json.num (.int 5))]) = false :=
  map_int64_number_value_invalid {} Witness.fAttrsN [] 5 "a".toList 5 rfl (Or.inl rfl) rfl

/-! ## 3. the server's own error bodies -/

/-- **default `Error` response**: `{"message": msg}` (or `{}` for an empty message) validates against
the built-in `Error` component and carries no undeclared member. -/
theorem error_body_valid (n : Nat) (msg : Str) :
    Schema.valid builtinComponents (n + 3) errorSchema (errorBody msg) = true ∧
    Schema.undeclaredDeep builtinComponents (n + 3) [errorSchema] (errorBody msg) [] = [] :=
  ⟨errorBody_valid n msg, errorBody_undeclared n msg⟩

/-- **400 `ValidationError` response, partial**: with at least one violation, each with a non-empty
field and description, the body validates against the built-in `ValidationError` component (through
the `$ref` to `FieldViolation`) and carries no undeclared member. The two hypotheses are needed:
`empty_violation_list_invalid`, `empty_description_invalid`. -/
theorem validation_error_body_valid_partial (n : Nat) (vs : List (Str × Str)) (hne : vs ≠ [])
    (hv : ∀ v ∈ vs, v.1 ≠ [] ∧ v.2 ≠ []) :
    Schema.valid builtinComponents (n + 5) validationErrorSchema (validationErrorBody vs) = true ∧
    Schema.undeclaredDeep builtinComponents (n + 5) [validationErrorSchema] (validationErrorBody vs) [] = [] :=
  ⟨validationErrorBody_valid n vs hne hv, validationErrorBody_undeclared n vs⟩

example : ([("email".toList, "required".toList)] : List (Str × Str)) ≠ [] ∧
    ∀ v ∈ ([("email".toList, "required".toList)] : List (Str × Str)), v.1 ≠ [] ∧ v.2 ≠ [] := by decide

/-- a `ValidationError` without violations is `{}` on the wire (protojson omits an empty list) and
misses the `required` `violations` — for every fuel. -/
theorem empty_violation_list_invalid (fuel : Nat) :
    validationErrorBody [] = Json.obj [] ∧
    Schema.valid builtinComponents fuel validationErrorSchema (validationErrorBody []) = false :=
  ⟨rfl, validationErrorBody_nil_invalid fuel⟩

/-- a violation with an empty description is sent without `description` (protojson omits an empty
string) and misses the `required` `description` of `FieldViolation`: the body does not validate. -/
theorem empty_description_invalid (n : Nat) (fld : Str) :
    Schema.valid builtinComponents (n + 5) validationErrorSchema (validationErrorBody [(fld, [])]) = false := by
  rw [validationErrorBody_valid_eq n _ (List.cons_ne_nil _ _)]
  simp [violation_empty_description_invalid]

/-! ## 4. satisfiability -/

/-- **the default value satisfies every plain message component**: `{}` (every field at its default
is omitted) validates, whatever the fields are. -/
theorem default_satisfiable (rq : Request) (m : Message) (comps : List (Str × Json)) (n : Nat) :
    Schema.valid comps (n + 1) (messageSchema rq m) (Json.obj []) = true := by
  rw [valid_messageSchema_obj]; rfl

/-- **`nullable`**: the `type: [T, "null"]` layout accepts `null` for every kind whose schema has a
`type` and no `enum` (every scalar kind and Timestamp). -/
theorem nullable_accepts_null (rq : Request) (f : Field) (comps : List (Str × Json)) (n : Nat)
    (hc : f.card = .singular ∨ f.card = .optional) (hn : f.nullable = true)
    (hk : f.kind ≠ .enum) (hm : f.kind = .message → isTimestampName f.typeName = true) :
    Schema.valid comps (n + 1) (fieldSchema rq f) Json.null = true :=
  nullable_valid_null rq f comps n hc hn hk hm

example : Schema.valid [] 1 (fieldSchema {} Witness.fNick) Json.null = true :=
  nullable_accepts_null {} Witness.fNick [] 0 (Or.inr rfl) rfl (by decide) (by intro h; cases h)

/-- **`nullable` on an enum field does NOT accept `null`**: `makeNullableSchema` appends `"null"` to
`type` but keeps the `enum` keyword, and `null` is not a listed value — for every fuel. (The
documented wire form of the unset field is `null`: `encFields` emits `(json, null)`.) -/
theorem nullable_enum_rejects_null (rq : Request) (f : Field) (comps : List (Str × Json)) (fuel : Nat)
    (e : EnumT) (hc : f.card = .singular ∨ f.card = .optional) (hn : f.nullable = true)
    (hk : f.kind = .enum) (hE : rq.findEnum f.typeName = some e) :
    Schema.valid comps fuel (fieldSchema rq f) Json.null = false :=
  nullable_enum_invalid_null rq f comps fuel e hc hn hk hE

example : Schema.valid [] 5 (fieldSchema Witness.rq Witness.fColorNull) Json.null = false :=
  nullable_enum_rejects_null Witness.rq Witness.fColorNull [] 5 Witness.colorEnum (Or.inr rfl) rfl rfl rfl

/-- **`empty_behavior = NULL`** on a message field whose type is a plain message component:
`oneOf [$ref, {type: null}]` accepts `null` (the `$ref` target is `type: object` and rejects it). -/
theorem empty_behavior_null_accepts_null (rq : Request) (f : Field) (tm : Message) (comps : List (Str × Json))
    (n : Nat) (hc : f.card = .singular ∨ f.card = .optional) (hn : f.nullable = false)
    (hk : f.kind = .message) (ht : isTimestampName f.typeName = false) (he : f.emptyBehavior = 2)
    (hcomp : Json.oget (shortName f.typeName) comps = some (messageSchema rq tm)) :
    Schema.valid comps (n + 2) (fieldSchema rq f) Json.null = true := by
  apply emptyNull_valid_null rq f comps n hc hn hk he
  have : scalarSchema rq f = refTo f.typeName := by simp [scalarSchema, hk, ht]
  rw [this]
  exact refTo_message_rejects_null rq tm comps (n + 1) f.typeName hcomp

example : Schema.valid Witness.comps 2 (fieldSchema Witness.rq Witness.fChild) Json.null = true :=
  empty_behavior_null_accepts_null Witness.rq Witness.fChild Witness.childMsg Witness.comps 0 (Or.inl rfl) rfl rfl
    (by decide) rfl rfl

/-! ## 5. whole messages (flat fragment) -/

/-- **message level, partial**. `FlatMessage m`: every field of `m` is singular (or proto3
`optional`) with none of `nullable` / `empty_behavior` / `flatten` / `unwrap`, no oneof of `m` has a
`oneof_config`, and the JSON names are pairwise distinct. For a value assigning well-kinded scalars
to some of the fields, the documented wire form validates against the message's component schema
and contains no member the schema does not describe (for every fuel of the latter).

Missing for the full statement: fields of message kind (the `$ref` into another component — the
induction over the type graph), repeated / map fields inside the message (proved field-wise in
`repeated_field_valid` / `map_field_valid`, not assembled), and the nullable / flatten / unwrap /
discriminated-oneof layouts (`nested_oneof_unsatisfiable` shows one of them fails outright). -/
theorem flat_message_valid_partial (rq : Request) (m : Message) (comps : List (Str × Json)) (n k fuel : Nat)
    (g : Bool) (vs : List (Str × Val)) (hm : FlatMessage m)
    (hv : ∀ f ∈ m.fields, ∀ v, vs.lookup f.name = some v → WellKinded rq f v) :
    Schema.valid comps (n + 2) (messageSchema rq m) (encMsg rq true g (k + 3) m vs) = true ∧
    Schema.undeclaredDeep comps fuel [messageSchema rq m] (encMsg rq true g (k + 3) m vs) [] = [] :=
  ⟨flat_valid rq m comps n k g vs hm hv, flat_undeclared rq m comps fuel k g vs hm hv⟩

/-- non-vacuity: `Flat{count: 3, big_id: 9, color: COLOR_RED}` is `{"count":3,"bigId":"9","color":"red"}`. -/
example : FlatMessage Witness.flatMsg ∧
    (∀ f ∈ Witness.flatMsg.fields, ∀ v, Witness.flatVal.lookup f.name = some v → WellKinded Witness.rq f v) ∧
    encMsg Witness.rq true false 3 Witness.flatMsg Witness.flatVal =
      Json.obj [("count".toList, Json.num (.int 3)), ("bigId".toList, Json.str (toString (9 : Int)).toList),
        ("color".toList, Json.str "red".toList)] :=
  ⟨Witness.flatMsg_flat, Witness.flatVal_wellKinded, Witness.flatVal_wire false 0⟩

/-! ## 6. the nested (non-flattened) discriminated oneof -/

/-- **the nested discriminated-oneof component accepts no well-formed value**.
`buildNestedOneofVariants` emits `oneOf: [{type: object, properties: {<variant>: S_i}} …]` without
`required`, so a variant schema accepts every object in which its own key is absent or well-formed.
With two or more variants, an object in which every carried variant key holds a value valid for
that variant — `{}`, a value with one variant set, even one with several — is matched by ALL the
variant schemas and `oneOf` (exactly one) fails. -/
theorem nested_oneof_unsatisfiable (comps : List (Str × Json)) (n : Nat) (variants members : List (Str × Json))
    (h2 : 2 ≤ variants.length)
    (hw : ∀ v ∈ variants, ∀ m ∈ members, m.1 = v.1 → Schema.valid comps n v.2 m.2 = true) :
    Schema.valid comps (n + 2) (nestedOneofSchema variants) (Json.obj members) = false :=
  nestedOneof_wellformed comps n variants members h2 hw

example : 2 ≤ Witness.variants.length ∧
    ∀ v ∈ Witness.variants, ∀ m ∈ [("text".toList, Json.str "hi".toList)], m.1 = v.1 →
      Schema.valid [] 1 v.2 m.2 = true := by decide

/-- the same for the whole component (`type: object`, the common and discriminator `properties`,
and the `oneOf`): the `oneOf` conjunct already fails. -/
theorem nested_oneof_message_unsatisfiable (comps : List (Str × Json)) (n : Nat)
    (props variants members : List (Str × Json)) (h2 : 2 ≤ variants.length)
    (hw : ∀ v ∈ variants, ∀ m ∈ members, m.1 = v.1 → Schema.valid comps n v.2 m.2 = true) :
    Schema.valid comps (n + 2) (nestedOneofMessageSchema props variants) (Json.obj members) = false :=
  nestedOneofMessage_imp comps (n + 2) props variants _ (nestedOneof_wellformed comps n variants members h2 hw)

/-- whenever two variant keys are absent the object is rejected, for every fuel and whatever the
other members hold; in particular the default value `{}`. -/
theorem nested_oneof_two_absent_invalid (comps : List (Str × Json)) (fuel : Nat)
    (variants members : List (Str × Json))
    (h : 2 ≤ (variants.filter fun v => (Json.oget v.1 members).isNone).length) :
    Schema.valid comps fuel (nestedOneofSchema variants) (Json.obj members) = false :=
  nestedOneof_two_absent comps fuel variants members h

theorem nested_oneof_default_invalid (comps : List (Str × Json)) (fuel : Nat) (variants : List (Str × Json))
    (h2 : 2 ≤ variants.length) :
    Schema.valid comps fuel (nestedOneofSchema variants) (Json.obj []) = false := by
  apply nestedOneof_two_absent
  rw [filter_eq_self_of_all (fun v : Str × Json => (Json.oget v.1 []).isNone) variants (fun _ _ => rfl)]
  exact h2

/-- three or more variants with pairwise distinct names: an object carrying at most one of the
variant keys (`k`) is rejected whatever that key holds. -/
theorem nested_oneof_at_most_one_key_invalid (comps : List (Str × Json)) (fuel : Nat)
    (variants members : List (Str × Json)) (k : Str) (h3 : 3 ≤ variants.length)
    (hn : (variants.map Prod.fst).Nodup)
    (hk : ∀ v ∈ variants, v.1 ≠ k → Json.oget v.1 members = none) :
    Schema.valid comps fuel (nestedOneofSchema variants) (Json.obj members) = false :=
  nestedOneof_three comps fuel variants members k h3 hn hk

/-- closed witnesses (`oneof { string text; int32 count }`): the default value, a value with one
variant set, and the full component with its discriminator are rejected; what IS accepted is an
object that is malformed in exactly one variant. -/
theorem nested_oneof_witness :
    Schema.valid [] 6 (nestedOneofSchema Witness.variants) (Json.obj []) = false ∧
    Schema.valid [] 6 (nestedOneofSchema Witness.variants) (Json.obj [("text".toList, Json.str "hi".toList)]) = false ∧
    Schema.valid [] 6 (nestedOneofMessageSchema [("kind".toList, typed "string")] Witness.variants)
      (Json.obj [("kind".toList, Json.str "text".toList), ("text".toList, Json.str "hi".toList)]) = false ∧
    Schema.valid [] 6 (nestedOneofSchema Witness.variants) (Json.obj [("text".toList, Json.num (.int 5))]) = true := by
  decide


/-- a custom error type's body carries members the `default` response schema (the built-in
`Error`) does not describe (known finding `error_body:handler_custom_error`). -/
theorem custom_error_body_undeclared :
    Schema.undeclaredDeep OaSchema.builtinComponents 8 [OaSchema.errorSchema]
      (Json.obj [("code".toList, Json.num (JNum.int 404)), ("resource".toList, Json.str "user/7".toList)]) [] =
    ["code".toList, "resource".toList] := by decide

end Sebuf.C06
