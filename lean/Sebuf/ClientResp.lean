import Sebuf.Call
/-!
`Impl`: what the generated Go client makes of whatever comes back from the transport
(`generateRPCMethodExecution`, `generateRPCMethodResponse`, `handleErrorResponse`,
`unmarshalResponse`). The status tests and the codec table are the regenerated facts of
`Gen.Pipeline`; the decoders (protojson / proto wire / a generated `UnmarshalJSON`) are
parameters. The response's own Content-Type header is never consulted: the codec is chosen by
the content type the CALL was made with.
-/
namespace Sebuf.ClientResp
open Sebuf Sebuf.Call

/-- what `httpClient.Do` and `io.ReadAll(resp.Body)` deliver. -/
inductive Exchange
  | doError                                   -- transport / redirect error: no response
  | readError (status : Int)                  -- a response whose body reader fails
  | response (status : Int) (body : Bytes)
deriving DecidableEq, Repr

inductive ErrKind
  | execute        -- "failed to execute request"
  | read           -- "failed to read response body"
  | validation     -- *ValidationError
  | error          -- *Error
  | status         -- "request failed with status N: body"
  | decode         -- "failed to unmarshal response"
deriving DecidableEq, Repr

inductive Outcome (M : Type)
  | ok (m : M)
  | err (k : ErrKind)
deriving Repr

/-- `resp.StatusCode >= 400` — read off the regenerated text; an unknown test counts every
status as an error (the theorems about 2xx then fail, flagging the change). -/
def isErrorStatus (s : Int) : Bool :=
  if Gen.Pipeline.clientErrorThreshold == ">= 400" then decide (s ≥ 400) else true

/-- `statusCode == http.StatusBadRequest`. -/
def isValidationStatus (s : Int) : Bool :=
  if Gen.Pipeline.clientValidationStatusTest == "== http.StatusBadRequest" then decide (s = 400) else false

variable {M V E : Type}

/-- `unmarshalResponse`: an empty body decodes to the zero message without looking at it. -/
def unmarshal (dec : String → Bytes → Option M) (zero : M) (ct : String) (body : Bytes) : Option M :=
  if body.isEmpty then some zero else dec (clientRespCodec ct) body

structure Decoders (M V E : Type) where
  msg : String → Bytes → Option M
  zeroMsg : M
  verr : String → Bytes → Option V
  zeroVerr : V
  gerr : String → Bytes → Option E
  zeroGerr : E

def handleError (d : Decoders M V E) (ct : String) (s : Int) (body : Bytes) : ErrKind :=
  if isValidationStatus s && (unmarshal d.verr d.zeroVerr ct body).isSome then .validation
  else if (unmarshal d.gerr d.zeroGerr ct body).isSome then .error
  else .status

def outcome (d : Decoders M V E) (ct : String) : Exchange → Outcome M
  | .doError => .err .execute
  | .readError _ => .err .read
  | .response s body =>
    if isErrorStatus s then .err (handleError d ct s body)
    else match unmarshal d.msg d.zeroMsg ct body with
      | some m => .ok m
      | none => .err .decode

end Sebuf.ClientResp
