package props

import (
	"fmt"
	"strings"

	"verif/harness/drv"
	"verif/harness/gen"
	"verif/harness/ir"
	"verif/harness/plug"
)

func init() { Registry["C12"] = C12 }

type c12case struct {
	req       *ir.Request
	kind      string // valid | invalid
	rule      string
	placement string
	variant   string
	offender  string
	outs      map[string]*plug.Result
	err       error
}

// C12: misused annotations stop generation; valid definitions are never refused.
func C12(c *Ctx) error {
	res := c.Res
	res.Rule = "invalid stream: one rule of the property broken once (rule x variant x placement in {top, nested, other generated file, imported file}) inside a random valid file; " +
		"valid stream: rule-free annotated files and route files; a case is one request to all five plugins; distinct by (rule, variant, placement) or by schema shape; every case is non-trivial"
	r := gen.New(c.Seed)
	var cases []*c12case
	rounds := c.N(1, 6)
	idx := 0
	for round := 0; round < rounds; round++ {
		for _, rule := range gen.JSONRules {
			for _, pl := range gen.Placements {
				idx++
				req, b := gen.Place(r.Fork(fmt.Sprint("inv", idx)), idx, rule, pl)
				cases = append(cases, &c12case{req: req, kind: "invalid", rule: rule, placement: pl, variant: b.Variant, offender: b.Offender})
			}
		}
		for _, rule := range gen.HTTPRules {
			for _, pl := range []string{"top", "nested", "other_generated_file", "imported_file"} {
				idx++
				req, b := gen.Place(r.Fork(fmt.Sprint("inv", idx)), idx, rule, pl)
				cases = append(cases, &c12case{req: req, kind: "invalid", rule: rule, placement: pl, variant: b.Variant, offender: b.Offender})
			}
		}
	}
	nvalid := c.N(60, 600)
	for i := 0; i < nvalid; i++ {
		idx++
		rr := r.Fork(fmt.Sprint("val", i))
		var req *ir.Request
		switch i % 3 {
		case 0:
			req = gen.GenRouteFile(rr, idx, gen.RouteOpts{QueryNameClash: i%2 == 0})
		default:
			f := gen.GenAnnotFile(rr, idx, gen.AnnotOpts{Combos: i%2 == 0})
			req = &ir.Request{Files: []*ir.File{f}, Generate: []string{f.Name}}
			if i%6 == 1 {
				// a second, service-less generated file of the same package
				f2 := gen.GenAnnotFile(rr.Fork("second"), idx, gen.AnnotOpts{NoService: true, FileName: fmt.Sprintf("a%d/types.proto", idx), MsgPrefix: "T"})
				req.Files = append(req.Files, f2)
				req.Generate = append(req.Generate, f2.Name)
			}
		}
		cases = append(cases, &c12case{req: req, kind: "valid"})
	}
	parallel(len(cases), func(i int) { cases[i].outs, cases[i].err = runAll(cases[i].req) })
	var dops []map[string]any
	for _, cs := range cases {
		dops = append(dops, map[string]any{"op": "gen_outcome", "rq": cs.req.ToModel()})
	}
	var douts []map[string]any
	if drv.Available() {
		var err error
		if douts, err = drv.Run(dops); err != nil {
			res.Corr("driver", "Lean driver failed: "+err.Error(), nil)
			douts = nil
		}
	} else {
		res.Corr("driver", "Lean driver binary missing (model did not build)", nil)
	}
	for i, cs := range cases {
		if cs.err != nil {
			return cs.err
		}
		canon := map[string]any{"kind": cs.kind, "rule": cs.rule, "variant": cs.variant, "placement": cs.placement}
		if cs.kind == "valid" {
			canon["shape"] = cs.req.ShapeKey()
		}
		res.Case(canon, true)
		res.Count(cs.kind + ":" + cs.rule + ":" + cs.placement)
		replay := map[string]any{"schema": cs.req, "rule": cs.rule, "placement": cs.placement, "variant": cs.variant}
		real := map[string]string{}
		for _, p := range plug.All {
			real[p] = cs.outs[p].Outcome()
			if cs.outs[p].Error != nil {
				real[p+":error"] = *cs.outs[p].Error
			}
		}
		replay["real"] = real
		// a run that answers with an error must not also carry files
		for _, p := range plug.All {
			o := cs.outs[p]
			if o.Crash != "" {
				res.Violation("crash:"+p, fmt.Sprintf("%s crashed (%s) on a %s definition: %s", p, o.Crash, cs.kind, firstLine(o.Stderr)), replay)
			}
			if o.Error != nil && len(o.Files) > 0 {
				res.Violation("partial_output:"+p, p+" answered with an error AND files", replay)
			}
		}
		// ---- correspondence: real outcome == Impl outcome (go-http, go-client, ts-server) ----
		implAgrees := false
		var d map[string]any
		if douts != nil {
			d = douts[i]
			implAgrees = true
			for _, p := range []string{"go-http", "go-client", "ts-server"} {
				dm, _ := d[p].(map[string]any)
				impl, _ := dm["outcome"].(string)
				rp := "protoc-gen-" + p
				if impl != cs.outs[rp].Outcome() {
					implAgrees = false
					res.Corr("outcome:"+p, fmt.Sprintf("%s: real outcome %s (%s) differs from the model's %s [%s %s %s]", p, cs.outs[rp].Outcome(), errText(cs.outs[rp]), impl, cs.kind, cs.rule, cs.placement), replay)
				}
			}
			if implAgrees {
				res.CorrAgree()
			}
			replay["impl"] = d
		}
		// ---- oracle: Spec.breaches decides what must happen ----
		if d == nil {
			// without the model, fall back on the construction: an invalid case placed in a generated file must be refused
			if cs.kind == "invalid" && cs.placement != "imported_file" && cs.outs[plug.GoHTTP].OK() {
				res.Violation("accepted:"+cs.rule, fmt.Sprintf("go-http accepted a definition breaking %s (%s, %s)", cs.rule, cs.variant, cs.placement), replay)
			}
			continue
		}
		breaches := asList(d["breaches"])
		if cs.kind == "invalid" && len(breaches) == 0 {
			res.Corr("spec", fmt.Sprintf("Spec finds no breach in a case built to break %s (%s)", cs.rule, cs.variant), replay)
		}
		if cs.kind == "valid" && len(breaches) != 0 {
			res.Corr("spec", fmt.Sprintf("Spec finds breaches %v in a case built to be valid", breaches), replay)
		}
		if len(breaches) == 0 {
			// valid: nobody may refuse
			for _, p := range plug.All {
				if !cs.outs[p].OK() && cs.outs[p].Crash == "" {
					key := "refused_valid:" + refusalClass(*cs.outs[p].Error)
					res.Divergence(key, fmt.Sprintf("%s refused a rule-free definition: %s", p, *cs.outs[p].Error), implAgrees, replay)
				}
			}
			continue
		}
		for _, bv := range breaches {
			b, _ := bv.(map[string]any)
			rule, _ := b["rule"].(string)
			off, _ := b["offender"].(string)
			inGen, _ := b["in_generated"].(bool)
			jsonRule, _ := b["json_mapping"].(bool)
			unwrap, _ := b["unwrap"].(bool)
			must := []string{plug.GoHTTP}
			if jsonRule && !unwrap {
				must = append(must, plug.GoClient)
			}
			for _, p := range must {
				o := cs.outs[p]
				loc := "generated"
				if !inGen {
					loc = "imported"
				}
				if o.OK() {
					key := fmt.Sprintf("accepted:%s:%s", strings.TrimPrefix(p, "protoc-gen-"), rule)
					// the recorded enum class is about map-valued fields only (the check tests the
					// descriptor kind): any other accepted shape of that rule is a class of its own
					if rule == "enum_number_with_custom_values" && !strings.HasPrefix(cs.variant, "map value") {
						key += ":" + strings.ReplaceAll(cs.variant+"_field", " ", "_")
					}
					if !inGen {
						// imported files are not validated at all: one class, whatever the rule
						key = "accepted:offender_in_imported_file"
					}
					res.Divergence(key, fmt.Sprintf("%s accepted a definition breaking %s (offender %s, %s file, placement %s)", p, rule, off, loc, cs.placement), implAgrees, replay)
				} else if o.Error != nil && !strings.Contains(*o.Error, off) && len(breaches) == 1 {
					key := fmt.Sprintf("unnamed:%s:%s", strings.TrimPrefix(p, "protoc-gen-"), rule)
					res.Divergence(key, fmt.Sprintf("%s refused %s without naming the offender %q: %s", p, rule, off, *o.Error), implAgrees, replay)
				}
			}
		}
	}
	res.Programs = len(cases)
	return nil
}

func firstLine(s string) string {
	if i := strings.Index(s, "\n"); i >= 0 {
		return s[:i]
	}
	return s
}

// refusalClass maps an error text to a small class so that distinct refusals are distinct findings.
func refusalClass(e string) string {
	switch {
	case strings.Contains(e, "only one MarshalJSON-generating feature"), strings.Contains(e, "requires MarshalJSON but conflicts"):
		return "marshaljson_conflict"
	case strings.Contains(e, "flatten is not valid on oneof variant"):
		return "flatten_on_optional_message"
	}
	if i := strings.Index(e, ":"); i > 0 && i < 40 {
		return e[:i]
	}
	if len(e) > 40 {
		return e[:40]
	}
	return e
}
