package main

import (
	"fmt"
	"go/ast"
	"go/parser"
	"go/token"
	"os"
	"regexp"
	"sort"
	"strings"
)

func init() { register("Wiring", extractWiring) }

type pkgFuncs struct {
	funcs map[string]*ast.FuncDecl
}

func loadPkg(rel string) (*pkgFuncs, error) {
	fset := token.NewFileSet()
	ents, err := os.ReadDir(repo(rel))
	if err != nil {
		return nil, err
	}
	p := &pkgFuncs{funcs: map[string]*ast.FuncDecl{}}
	for _, e := range ents {
		n := e.Name()
		if !strings.HasSuffix(n, ".go") || strings.HasSuffix(n, "_test.go") {
			continue
		}
		f, err := parser.ParseFile(fset, repo(rel+"/"+n), nil, 0)
		if err != nil {
			return nil, err
		}
		for _, d := range f.Decls {
			if fd, ok := d.(*ast.FuncDecl); ok && fd.Body != nil {
				p.funcs[fd.Name.Name] = fd
			}
		}
	}
	return p, nil
}

var validatorName = regexp.MustCompile(`^(?i)(validate|check|detect)`)

// calleeName returns ("", name) for local calls f(...) / g.f(...), ("annotations", name) for annotations.f(...).
func calleeName(c *ast.CallExpr) (string, string) {
	switch f := c.Fun.(type) {
	case *ast.Ident:
		return "", f.Name
	case *ast.SelectorExpr:
		if id, ok := f.X.(*ast.Ident); ok {
			if id.Name == "annotations" {
				return "annotations", f.Sel.Name
			}
			if id.Name == "g" {
				return "", f.Sel.Name
			}
		}
	}
	return "?", ""
}

// reach collects, in first-visit order, the validator-like functions reachable from fn through
// package-local functions, and whether any of the local ones recurses into nested messages.
func (p *pkgFuncs) reach(name string, seen map[string]bool, out *[]string, nested *bool) {
	fd := p.funcs[name]
	if fd == nil || seen[name] {
		return
	}
	seen[name] = true
	ast.Inspect(fd.Body, func(n ast.Node) bool {
		c, ok := n.(*ast.CallExpr)
		if !ok {
			return true
		}
		pk, cn := calleeName(c)
		switch pk {
		case "annotations":
			if validatorName.MatchString(cn) || cn == "GetUnwrapField" {
				*out = append(*out, "annotations."+cn)
			}
		case "":
			if cn == name {
				// self recursion: into nested messages when an argument mentions .Messages or "nested"
				for _, a := range c.Args {
					s := exprString(a)
					if strings.Contains(s, ".Messages") || strings.Contains(s, "nested") {
						*nested = true
					}
				}
				return true
			}
			if _, local := p.funcs[cn]; local && (validatorName.MatchString(cn) || strings.HasPrefix(cn, "collect")) {
				if validatorName.MatchString(cn) {
					*out = append(*out, cn)
				}
				p.reach(cn, seen, out, nested)
			}
		}
		return true
	})
}

func exprString(e ast.Expr) string {
	switch x := e.(type) {
	case *ast.Ident:
		return x.Name
	case *ast.SelectorExpr:
		return exprString(x.X) + "." + x.Sel.Name
	case *ast.CallExpr:
		return exprString(x.Fun) + "()"
	}
	return "?"
}

type step struct {
	name       string
	validators []string
	nested     bool
	emits      string // file-name suffix the step's generator appends to GeneratedFilenamePrefix ("" if none)
}

// emitSuffix finds `file.GeneratedFilenamePrefix + "<suffix>"` inside a function.
func (p *pkgFuncs) emitSuffix(name string) string {
	fd := p.funcs[name]
	if fd == nil {
		return ""
	}
	suffix := ""
	ast.Inspect(fd.Body, func(n ast.Node) bool {
		be, ok := n.(*ast.BinaryExpr)
		if !ok || be.Op != token.ADD {
			return true
		}
		if strings.HasSuffix(exprString(be.X), "GeneratedFilenamePrefix") {
			if bl, ok := be.Y.(*ast.BasicLit); ok && bl.Kind == token.STRING {
				suffix = strings.Trim(bl.Value, "\"")
			}
		}
		return true
	})
	return suffix
}

func (p *pkgFuncs) fileSteps() ([]step, error) {
	gf := p.funcs["generateFile"]
	if gf == nil {
		return nil, fmt.Errorf("generateFile not found")
	}
	var steps []step
	addCall := func(cn string) {
		st := step{name: cn}
		seen := map[string]bool{}
		if validatorName.MatchString(cn) {
			st.validators = append(st.validators, cn)
		}
		p.reach(cn, seen, &st.validators, &st.nested)
		// dedupe keeping order
		var ded []string
		m := map[string]bool{}
		for _, v := range st.validators {
			if !m[v] {
				m[v] = true
				ded = append(ded, v)
			}
		}
		st.validators = ded
		st.emits = p.emitSuffix(cn)
		steps = append(steps, st)
	}
	for _, s := range gf.Body.List {
		switch x := s.(type) {
		case *ast.IfStmt:
			// if len(file.Services) == 0 { return nil }
			if be, ok := x.Cond.(*ast.BinaryExpr); ok && x.Init == nil {
				if c, ok := be.X.(*ast.CallExpr); ok && exprString(c.Fun) == "len" && len(c.Args) == 1 && exprString(c.Args[0]) == "file.Services" && be.Op == token.EQL {
					steps = append(steps, step{name: "return_if_no_services"})
					continue
				}
			}
			found := false
			ast.Inspect(x, func(n ast.Node) bool {
				if c, ok := n.(*ast.CallExpr); ok {
					if pk, cn := calleeName(c); pk == "" && p.funcs[cn] != nil {
						addCall(cn)
						found = true
						return false
					}
				}
				return true
			})
			if !found {
				return nil, fmt.Errorf("generateFile: unrecognised if statement")
			}
		case *ast.RangeStmt:
			ast.Inspect(x.Body, func(n ast.Node) bool {
				if c, ok := n.(*ast.CallExpr); ok {
					if pk, cn := calleeName(c); pk == "" && p.funcs[cn] != nil {
						addCall(cn)
						return false
					}
				}
				return true
			})
		case *ast.ReturnStmt:
		default:
			return nil, fmt.Errorf("generateFile: unrecognised statement %T", s)
		}
	}
	return steps, nil
}

func leanStrList(xs []string) string {
	var q []string
	for _, x := range xs {
		q = append(q, leanStr(x))
	}
	return "[" + strings.Join(q, ", ") + "]"
}

func extractWiring() (string, error) {
	var b strings.Builder
	b.WriteString(header("Wiring", "internal/httpgen/*.go, internal/clientgen/*.go, internal/tsservergen/generator.go (generateFile call sequences)"))
	b.WriteString("/-- one step of `generateFile`: (called function, validator-like functions it reaches in order, does it recurse into nested messages). -/\nabbrev Step := String × List String × Bool\n/-- (step, file-name suffix it emits). -/\nabbrev Emit := String × String\n")
	for _, pk := range [][2]string{{"goHttp", "internal/httpgen"}, {"goClient", "internal/clientgen"}} {
		p, err := loadPkg(pk[1])
		if err != nil {
			return "", err
		}
		steps, err := p.fileSteps()
		if err != nil {
			return "", fmt.Errorf("%s: %w", pk[1], err)
		}
		fmt.Fprintf(&b, "def %s : List Step := [\n", pk[0])
		for i, s := range steps {
			sep := ","
			if i == len(steps)-1 {
				sep = ""
			}
			fmt.Fprintf(&b, "  (%s, %s, %v)%s\n", leanStr(s.name), leanStrList(s.validators), s.nested, sep)
		}
		b.WriteString("]\n")
		fmt.Fprintf(&b, "def %sEmits : List Emit := [", pk[0])
		first := true
		for _, s := range steps {
			if s.emits == "" {
				continue
			}
			if !first {
				b.WriteString(", ")
			}
			first = false
			fmt.Fprintf(&b, "(%s, %s)", leanStr(s.name), leanStr(s.emits))
		}
		b.WriteString("]\n")
		// does Generate() collect the global unwrap table before the per-file loop, and skip !file.Generate files
		gen := p.funcs["Generate"]
		pre := []string{}
		skipsNonGenerate := false
		if gen != nil {
			for _, s := range gen.Body.List {
				if _, ok := s.(*ast.RangeStmt); ok {
					break
				}
				ast.Inspect(s, func(n ast.Node) bool {
					if c, ok := n.(*ast.CallExpr); ok {
						if _, cn := calleeName(c); cn != "" && p.funcs[cn] != nil {
							var vs []string
							nested := false
							p.reach(cn, map[string]bool{}, &vs, &nested)
							pre = append(pre, cn)
							pre = append(pre, vs...)
						}
					}
					return true
				})
			}
			ast.Inspect(gen.Body, func(n ast.Node) bool {
				if u, ok := n.(*ast.UnaryExpr); ok && u.Op == token.NOT && exprString(u.X) == "file.Generate" {
					skipsNonGenerate = true
				}
				return true
			})
		}
		fmt.Fprintf(&b, "def %sPre : List String := %s\n", pk[0], leanStrList(pre))
		fmt.Fprintf(&b, "def %sSkipsNonGenerate : Bool := %v\n", pk[0], skipsNonGenerate)
	}
	// ts-server: validations reached from generateRouteEntry / generateCreateRoutes
	p, err := loadPkg("internal/tsservergen")
	if err != nil {
		return "", err
	}
	var names []string
	for n := range p.funcs {
		if n == "resolvePathParamFields" || n == "validateFieldCoverage" {
			names = append(names, n)
		}
	}
	sort.Strings(names)
	fmt.Fprintf(&b, "def tsServerValidators : List String := %s\n", leanStrList(names))
	b.WriteString("end Sebuf.Gen.Wiring\n")
	return b.String(), nil
}
