/-
Theorems about the hex / base64 model of `Sebuf/Bytes.lean`: decoding inverts encoding for
every byte string, for Go `encoding/hex` and each of the four Go base64 encodings, and hence
for every sebuf `BytesEncoding` value; plus evaluated witnesses.
-/
import Sebuf.Bytes

namespace Sebuf

/-! ## Hex -/

theorem hexDigitVal_hexLowerDigit (n : Nat) (h : n < 16) :
    hexDigitVal (hexLowerDigit n) = some n := by
  unfold hexDigitVal hexLowerDigit
  by_cases h10 : n < 10
  · have h1 : 48 ≤ 48 + n ∧ 48 + n ≤ 57 := by omega
    simp [h10, h1]
  · have h1 : ¬ (48 ≤ 87 + n ∧ 87 + n ≤ 57) := by omega
    have h2 : 97 ≤ 87 + n ∧ 87 + n ≤ 102 := by omega
    simp [h10, h1, h2]

theorem hexDecode_hexEncode (bs : Bytes) (h : ∀ b ∈ bs, b < 256) :
    hexDecode (hexEncode bs) = some bs := by
  induction bs with
  | nil => simp [hexEncode, hexDecode]
  | cons b bs ih =>
    have hb : b < 256 := h b (by simp)
    have ih' := ih (fun x hx => h x (by simp [hx]))
    have e1 : hexDigitVal (hexLowerDigit (b / 16 % 16)) = some (b / 16 % 16) :=
      hexDigitVal_hexLowerDigit _ (by omega)
    have e2 : hexDigitVal (hexLowerDigit (b % 16)) = some (b % 16) :=
      hexDigitVal_hexLowerDigit _ (by omega)
    have e3 : b / 16 % 16 * 16 + b % 16 = b := by omega
    simp [hexEncode, hexDecode, e1, e2, ih', e3]

theorem hexEncode_length (bs : Bytes) : (hexEncode bs).length = 2 * bs.length := by
  induction bs with
  | nil => simp [hexEncode]
  | cons b bs ih => simp [hexEncode, ih]; omega

/-! ## Base64 alphabet -/

theorem b64Val_b64Char (url : Bool) (n : Nat) (h : n < 64) :
    b64Val url (b64Char url n) = some n := by
  have key : ∀ n, n < 64 → b64Val url (b64Char url n) = some n := by
    cases url <;> decide
  exact key n h

theorem b64Val_pad (url : Bool) : b64Val url b64Pad = none := by
  cases url <;> decide

theorem b64Char_ge (url : Bool) (n : Nat) : 43 ≤ b64Char url n := by
  unfold b64Char b64Char62 b64Char63
  cases url <;> simp <;> (repeat' split) <;> omega

theorem b64Keep_b64Char (url : Bool) (n : Nat) : b64Keep (b64Char url n) = true := by
  have := b64Char_ge url n
  simp [b64Keep]
  omega

theorem b64Keep_pad : b64Keep b64Pad = true := by decide

/-- Encoded text never contains `'\r'` or `'\n'`, so the decoder's skipping is a no-op. -/
theorem filter_b64Keep_b64EncodeCore (url pad : Bool) :
    ∀ bs : Bytes, (b64EncodeCore url pad bs).filter b64Keep = b64EncodeCore url pad bs
  | [] => by simp [b64EncodeCore]
  | [a] => by
    cases pad <;> simp [b64EncodeCore, b64Keep_b64Char, b64Keep_pad]
  | [a, b] => by
    cases pad <;> simp [b64EncodeCore, b64Keep_b64Char, b64Keep_pad]
  | a :: b :: c :: rest => by
    have ih := filter_b64Keep_b64EncodeCore url pad rest
    simp [b64EncodeCore, b64Keep_b64Char, ih]

/-! ## Base64 round trip -/

theorem b64DecodeCore_b64EncodeCore (url pad : Bool) :
    ∀ bs : Bytes, (∀ b ∈ bs, b < 256) →
      b64DecodeCore url pad (b64EncodeCore url pad bs) = some bs
  | [], _ => by simp [b64EncodeCore, b64DecodeCore]
  | [a], h => by
    have ha : a < 256 := h a (by simp)
    have e0 := b64Val_b64Char url (a / 4 % 64) (by omega)
    have e1 := b64Val_b64Char url (a % 4 * 16) (by omega)
    have r0 : b64Byte0 (a / 4 % 64) (a % 4 * 16) = a := by unfold b64Byte0; omega
    cases pad <;>
      simp [b64EncodeCore, b64DecodeCore, e0, e1, r0, b64Val_pad]
  | [a, b], h => by
    have ha : a < 256 := h a (by simp)
    have hb : b < 256 := h b (by simp)
    have e0 := b64Val_b64Char url (a / 4 % 64) (by omega)
    have e1 := b64Val_b64Char url (a % 4 * 16 + b / 16 % 16) (by omega)
    have e2 := b64Val_b64Char url (b % 16 * 4) (by omega)
    have r0 : b64Byte0 (a / 4 % 64) (a % 4 * 16 + b / 16 % 16) = a := by
      unfold b64Byte0; omega
    have r1 : b64Byte1 (a % 4 * 16 + b / 16 % 16) (b % 16 * 4) = b := by
      unfold b64Byte1; omega
    cases pad <;>
      simp [b64EncodeCore, b64DecodeCore, e0, e1, e2, r0, r1, b64Val_pad]
  | a :: b :: c :: rest, h => by
    have ha : a < 256 := h a (by simp)
    have hb : b < 256 := h b (by simp)
    have hc : c < 256 := h c (by simp)
    have ih := b64DecodeCore_b64EncodeCore url pad rest
      (fun x hx => h x (by simp [hx]))
    have e0 := b64Val_b64Char url (a / 4 % 64) (by omega)
    have e1 := b64Val_b64Char url (a % 4 * 16 + b / 16 % 16) (by omega)
    have e2 := b64Val_b64Char url (b % 16 * 4 + c / 64 % 4) (by omega)
    have e3 := b64Val_b64Char url (c % 64) (by omega)
    have r0 : b64Byte0 (a / 4 % 64) (a % 4 * 16 + b / 16 % 16) = a := by
      unfold b64Byte0; omega
    have r1 : b64Byte1 (a % 4 * 16 + b / 16 % 16) (b % 16 * 4 + c / 64 % 4) = b := by
      unfold b64Byte1; omega
    have r2 : b64Byte2 (b % 16 * 4 + c / 64 % 4) (c % 64) = c := by
      unfold b64Byte2; omega
    simp [b64EncodeCore, b64DecodeCore, e0, e1, e2, e3, r0, r1, r2, ih]

theorem b64Decode_b64Encode (v : B64Variant) (bs : Bytes) (h : ∀ b ∈ bs, b < 256) :
    b64Decode v (b64Encode v bs) = some bs := by
  unfold b64Decode b64Encode
  rw [filter_b64Keep_b64EncodeCore]
  exact b64DecodeCore_b64EncodeCore _ _ bs h

/-! ## sebuf `BytesEncoding` -/

theorem sebufBytes_roundtrip (e : Nat) (bs : Bytes) (h : ∀ b ∈ bs, b < 256) :
    sebufBytesDecode e (sebufBytesEncode e bs) = some bs := by
  match e with
  | 0 => exact b64Decode_b64Encode .std bs h
  | 1 => exact b64Decode_b64Encode .std bs h
  | 2 => exact b64Decode_b64Encode .rawStd bs h
  | 3 => exact b64Decode_b64Encode .url bs h
  | 4 => exact b64Decode_b64Encode .rawUrl bs h
  | 5 => exact hexDecode_hexEncode bs h
  | _ + 6 => exact b64Decode_b64Encode .std bs h

/-! ## Evaluated witnesses -/

/-- ASCII codes of a string literal (all witnesses below are ASCII). -/
private def asciiCodes (s : String) : List Nat := s.toList.map Char.toNat

-- `"zz"` is not hex ...
example : hexDecode ("zz".toList.map Char.toNat) = none := by decide
-- ... but it is valid unpadded base64 (one byte, lenient trailing bits), and with padding
-- `"zz=="` is valid `StdEncoding`.
example : b64Decode .rawStd ("zz".toList.map Char.toNat) = some [207] := by decide
example : b64Decode .std ("zz==".toList.map Char.toNat) = some [207] := by decide
example : hexDecode ("zz==".toList.map Char.toNat) = none := by decide
-- Conversely `"abc"` is valid `RawStdEncoding` but not hex (odd length), and `"0a1"` too;
-- `"0a1b2"` is hex-digits only but has a 1-character final quantum and odd length;
-- `"0A1b2"` (5 hex digits) is rejected by both; `"0a"` (valid hex) is not valid `StdEncoding`.
example : hexDecode ("0a".toList.map Char.toNat) = some [10] := by decide
example : hexDecode ("0A".toList.map Char.toNat) = some [10] := by decide
example : b64Decode .std ("0a".toList.map Char.toNat) = none := by decide
example : hexDecode ("0a1".toList.map Char.toNat) = none := by decide
example : hexDecode ("0g".toList.map Char.toNat) = none := by decide
example : hexDecode ("deadBEEF".toList.map Char.toNat) = some [222, 173, 190, 239] := by decide
example : hexEncode [222, 173, 190, 239] = "deadbeef".toList.map Char.toNat := by decide
example : hexEncode [] = [] := by decide

-- "hello"
example : b64Encode .std (asciiCodes "hello") = asciiCodes "aGVsbG8=" := by decide
example : b64Encode .rawStd (asciiCodes "hello") = asciiCodes "aGVsbG8" := by decide
example : b64Encode .url (asciiCodes "hello") = asciiCodes "aGVsbG8=" := by decide
example : b64Encode .rawUrl (asciiCodes "hello") = asciiCodes "aGVsbG8" := by decide
example : b64Decode .std (asciiCodes "aGVsbG8=") = some (asciiCodes "hello") := by decide
example : b64Decode .rawStd (asciiCodes "aGVsbG8") = some (asciiCodes "hello") := by decide
-- padded variants require the padding, raw variants reject it
example : b64Decode .std (asciiCodes "aGVsbG8") = none := by decide
example : b64Decode .rawStd (asciiCodes "aGVsbG8=") = none := by decide
example : b64Decode .url (asciiCodes "aGVsbG8") = none := by decide
example : b64Decode .rawUrl (asciiCodes "aGVsbG8=") = none := by decide

-- bytes 251, 255 exercise the two variant specific characters
example : b64Encode .std [251, 255] = asciiCodes "+/8=" := by decide
example : b64Encode .url [251, 255] = asciiCodes "-_8=" := by decide
example : b64Encode .rawStd [251, 255] = asciiCodes "+/8" := by decide
example : b64Encode .rawUrl [251, 255] = asciiCodes "-_8" := by decide
example : b64Decode .std (asciiCodes "+/8=") = some [251, 255] := by decide
example : b64Decode .url (asciiCodes "-_8=") = some [251, 255] := by decide
-- the alphabets are disjoint on those two characters
example : b64Decode .url (asciiCodes "+/8=") = none := by decide
example : b64Decode .std (asciiCodes "-_8=") = none := by decide

-- one, two, three bytes
example : b64Encode .std [102] = asciiCodes "Zg==" := by decide
example : b64Encode .std [102, 111] = asciiCodes "Zm8=" := by decide
example : b64Encode .std [102, 111, 111] = asciiCodes "Zm9v" := by decide
example : b64Encode .std [] = [] := by decide
example : b64Decode .std [] = some [] := by decide

-- Go decoder behaviours: CR/LF skipped anywhere (also inside / after the padding) ...
example : b64Decode .std (asciiCodes "aGVs\r\nbG8=\n") = some (asciiCodes "hello") := by decide
example : b64Decode .std (asciiCodes "Zg=\n=\r\n") = some [102] := by decide
-- ... non-zero trailing bits accepted (non-strict) ...
example : b64Decode .std (asciiCodes "Zh==") = some [102] := by decide
example : b64Decode .std (asciiCodes "Zm9=") = some [102, 111] := by decide
-- ... and the error cases: lone final character, short / misplaced / excess padding,
-- trailing garbage, character outside the alphabet.
example : b64Decode .rawStd (asciiCodes "Zm9vZ") = none := by decide
example : b64Decode .std (asciiCodes "Zg=") = none := by decide
example : b64Decode .std (asciiCodes "Z===") = none := by decide
example : b64Decode .std (asciiCodes "Zg=v") = none := by decide
example : b64Decode .std (asciiCodes "Zg===") = none := by decide
example : b64Decode .std (asciiCodes "Zg==Zg==") = none := by decide
example : b64Decode .std (asciiCodes "Zm8=Zm8=") = none := by decide
example : b64Decode .std (asciiCodes "====") = none := by decide
example : b64Decode .std (asciiCodes "Zm9v====") = none := by decide
example : b64Decode .std (asciiCodes "Zm 9v") = none := by decide
example : b64Decode .std [90, 109, 57, 300] = none := by decide

-- sebuf dispatch
example : sebufBytesEncode 0 [251, 255] = asciiCodes "+/8=" := by decide
example : sebufBytesEncode 1 [251, 255] = asciiCodes "+/8=" := by decide
example : sebufBytesEncode 2 [251, 255] = asciiCodes "+/8" := by decide
example : sebufBytesEncode 3 [251, 255] = asciiCodes "-_8=" := by decide
example : sebufBytesEncode 4 [251, 255] = asciiCodes "-_8" := by decide
example : sebufBytesEncode 5 [251, 255] = asciiCodes "fbff" := by decide
example : sebufBytesEncode 6 [251, 255] = asciiCodes "+/8=" := by decide
example : sebufBytesDecode 5 (asciiCodes "FBff") = some [251, 255] := by decide
example : sebufBytesDecode 2 (asciiCodes "+/8") = some [251, 255] := by decide

end Sebuf
