package gen

import "verif/harness/ir"

var headerNames = []string{"X-API-Key", "X-Request-ID", "Authorization", "X-Tenant", "Accept-Language", "X-Trace", "Api-Key", "X-Count", "X-Flag", "X-When"}

type hdrShape struct{ typ, format string }

var headerShapes = []hdrShape{{"string", ""}, {"", ""}, {"string", "uuid"}, {"string", "email"}, {"string", "date-time"}, {"string", "date"}, {"string", "time"},
	{"integer", ""}, {"number", ""}, {"boolean", ""}, {"array", ""}, {"int64", ""}}

// GenHeaders draws 0..n header declarations with distinct names.
func GenHeaders(r *R, max int) []ir.Header {
	n := r.Intn(max + 1)
	perm := make([]int, len(headerNames))
	for i := range perm {
		perm[i] = i
	}
	for i := len(perm) - 1; i > 0; i-- {
		j := r.Intn(i + 1)
		perm[i], perm[j] = perm[j], perm[i]
	}
	var hs []ir.Header
	for i := 0; i < n && i < len(perm); i++ {
		sh := Pick(r, headerShapes)
		hs = append(hs, ir.Header{Name: headerNames[perm[i]], Type: sh.typ, Format: sh.format, Required: r.P(3, 4), Desc: "d", Example: "e", Deprecated: r.P(1, 4)})
	}
	return hs
}

// AddHeaders decorates the services of a file with service- and method-level headers,
// sometimes overriding a service header at method level (same or differently-cased name).
func AddHeaders(r *R, f *ir.File) {
	for _, s := range f.Services {
		s.Headers = GenHeaders(r, 4)
		for _, m := range s.Methods {
			if r.P(1, 2) {
				m.Headers = GenHeaders(r, 3)
				if len(s.Headers) > 0 && r.P(1, 2) {
					o := s.Headers[r.Intn(len(s.Headers))]
					sh := Pick(r, headerShapes)
					ov := ir.Header{Name: o.Name, Type: sh.typ, Format: sh.format, Required: r.Bool(), Deprecated: r.P(1, 4)}
					// replace a same-named generated header if present
					replaced := false
					for i := range m.Headers {
						if m.Headers[i].Name == ov.Name {
							m.Headers[i] = ov
							replaced = true
						}
					}
					if !replaced {
						m.Headers = append(m.Headers, ov)
					}
				}
			}
		}
	}
}
