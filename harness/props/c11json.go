package props

import (
	"bytes"
	"encoding/json"
	"fmt"
	"regexp"
	"strconv"
	"strings"
	"unicode/utf16"
	"unicode/utf8"
)

// jn is a JSON value that keeps what the wire carried: member order, duplicate keys and the
// number tokens. It is the body representation C11 mutates and the one it hands to the Lean
// driver (transport form of lean/Sebuf/DriverC11.lean: {"$int"}, {"$float"}, {"$obj": pairs}).
type jn struct {
	k   byte // n(ull) b(ool) # (number) s(tring) a(rray) o(bject) r(aw token: only for printing mutants)
	b   bool
	tok string // number token or raw text
	s   string
	arr []*jn
	obj []jmem
}

type jmem struct {
	key string
	val *jn
}

func jNull() *jn          { return &jn{k: 'n'} }
func jBool(b bool) *jn    { return &jn{k: 'b', b: b} }
func jNum(tok string) *jn { return &jn{k: '#', tok: tok} }
func jStr(s string) *jn   { return &jn{k: 's', s: s} }
func jArr(xs ...*jn) *jn  { return &jn{k: 'a', arr: xs} }
func jObj(ms ...jmem) *jn { return &jn{k: 'o', obj: ms} }
func jRaw(tok string) *jn { return &jn{k: 'r', tok: tok} }

func (n *jn) clone() *jn {
	c := *n
	if n.arr != nil {
		c.arr = make([]*jn, len(n.arr))
		for i, e := range n.arr {
			c.arr[i] = e.clone()
		}
	}
	if n.obj != nil {
		c.obj = make([]jmem, len(n.obj))
		for i, m := range n.obj {
			c.obj[i] = jmem{m.key, m.val.clone()}
		}
	}
	return &c
}

func (n *jn) get(key string) *jn {
	for _, m := range n.obj {
		if m.key == key {
			return m.val
		}
	}
	return nil
}

func (n *jn) del(key string) {
	var out []jmem
	for _, m := range n.obj {
		if m.key != key {
			out = append(out, m)
		}
	}
	n.obj = out
}

func (n *jn) set(key string, v *jn) {
	for i, m := range n.obj {
		if m.key == key {
			n.obj[i].val = v
			return
		}
	}
	n.obj = append(n.obj, jmem{key, v})
}

func (n *jn) hasDup() bool {
	seen := map[string]bool{}
	for _, m := range n.obj {
		if seen[m.key] {
			return true
		}
		seen[m.key] = true
	}
	return false
}

func (n *jn) depth() int {
	d := 0
	for _, e := range n.arr {
		if x := e.depth(); x > d {
			d = x
		}
	}
	for _, m := range n.obj {
		if x := m.val.depth(); x > d {
			d = x
		}
	}
	return d + 1
}

func quoteJSON(s string) string {
	var b bytes.Buffer
	e := json.NewEncoder(&b)
	e.SetEscapeHTML(false)
	e.Encode(s)
	return strings.TrimSuffix(b.String(), "\n")
}

func (n *jn) write(b *bytes.Buffer) {
	switch n.k {
	case 'n':
		b.WriteString("null")
	case 'b':
		b.WriteString(strconv.FormatBool(n.b))
	case '#', 'r':
		b.WriteString(n.tok)
	case 's':
		b.WriteString(quoteJSON(n.s))
	case 'a':
		b.WriteByte('[')
		for i, e := range n.arr {
			if i > 0 {
				b.WriteByte(',')
			}
			e.write(b)
		}
		b.WriteByte(']')
	case 'o':
		b.WriteByte('{')
		for i, m := range n.obj {
			if i > 0 {
				b.WriteByte(',')
			}
			b.WriteString(quoteJSON(m.key))
			b.WriteByte(':')
			m.val.write(b)
		}
		b.WriteByte('}')
	}
}

func (n *jn) bytes() []byte {
	var b bytes.Buffer
	n.write(&b)
	return b.Bytes()
}

var intLit = regexp.MustCompile(`^-?(0|[1-9][0-9]*)$`)

// model renders the transport form of the Lean driver.
func (n *jn) model() any {
	switch n.k {
	case 'n':
		return nil
	case 'b':
		return n.b
	case '#':
		if intLit.MatchString(n.tok) {
			t := n.tok
			if t == "-0" {
				t = "0"
			}
			return map[string]any{"$int": t}
		}
		return map[string]any{"$float": n.tok}
	case 's':
		return n.s
	case 'a':
		out := make([]any, len(n.arr))
		for i, e := range n.arr {
			out[i] = e.model()
		}
		return out
	case 'o':
		ps := make([]any, len(n.obj))
		for i, m := range n.obj {
			ps[i] = []any{m.key, m.val.model()}
		}
		return map[string]any{"$obj": ps}
	}
	return nil
}

// fromModel reads the driver's transport form back.
func fromModel(v any) *jn {
	switch x := v.(type) {
	case nil:
		return jNull()
	case bool:
		return jBool(x)
	case string:
		return jStr(x)
	case json.Number:
		return jNum(x.String())
	case []any:
		out := jArr()
		out.arr = []*jn{}
		for _, e := range x {
			out.arr = append(out.arr, fromModel(e))
		}
		return out
	case map[string]any:
		if t, ok := x["$int"].(string); ok {
			return jNum(t)
		}
		if t, ok := x["$float"].(string); ok {
			return jNum(t)
		}
		out := jObj()
		out.obj = []jmem{}
		if ps, ok := x["$obj"].([]any); ok {
			for _, p := range ps {
				kv, _ := p.([]any)
				if len(kv) == 2 {
					k, _ := kv[0].(string)
					out.obj = append(out.obj, jmem{k, fromModel(kv[1])})
				}
			}
		}
		return out
	}
	return jNull()
}

// walkStrings applies f to every string VALUE of the tree.
func (n *jn) walkStrings(f func(string) string) {
	switch n.k {
	case 's':
		n.s = f(n.s)
	case 'a':
		for _, e := range n.arr {
			e.walkStrings(f)
		}
	case 'o':
		for _, m := range n.obj {
			m.val.walkStrings(f)
		}
	}
}

// ---- a strict RFC 8259 parser (the reference's notion of "is JSON"): UTF-8 must be valid,
// \u escapes must pair their surrogates, nothing but white space after the value. ----

type jparser struct {
	b []byte
	i int
}

func parseJSONStrict(b []byte) (*jn, error) {
	if !utf8.Valid(b) {
		return nil, fmt.Errorf("invalid UTF-8")
	}
	p := &jparser{b: b}
	p.ws()
	v, err := p.value(0)
	if err != nil {
		return nil, err
	}
	p.ws()
	if p.i != len(p.b) {
		return nil, fmt.Errorf("trailing data at %d", p.i)
	}
	return v, nil
}

func (p *jparser) ws() {
	for p.i < len(p.b) && (p.b[p.i] == ' ' || p.b[p.i] == '\t' || p.b[p.i] == '\n' || p.b[p.i] == '\r') {
		p.i++
	}
}

var numRe = regexp.MustCompile(`^-?(0|[1-9][0-9]*)(\.[0-9]+)?([eE][+-]?[0-9]+)?`)

func (p *jparser) value(depth int) (*jn, error) {
	if depth > 200000 {
		return nil, fmt.Errorf("too deep")
	}
	if p.i >= len(p.b) {
		return nil, fmt.Errorf("unexpected end")
	}
	switch c := p.b[p.i]; {
	case c == '{':
		p.i++
		o := jObj()
		o.obj = []jmem{}
		p.ws()
		if p.i < len(p.b) && p.b[p.i] == '}' {
			p.i++
			return o, nil
		}
		for {
			p.ws()
			if p.i >= len(p.b) || p.b[p.i] != '"' {
				return nil, fmt.Errorf("expected key at %d", p.i)
			}
			k, err := p.str()
			if err != nil {
				return nil, err
			}
			p.ws()
			if p.i >= len(p.b) || p.b[p.i] != ':' {
				return nil, fmt.Errorf("expected ':' at %d", p.i)
			}
			p.i++
			p.ws()
			v, err := p.value(depth + 1)
			if err != nil {
				return nil, err
			}
			o.obj = append(o.obj, jmem{k, v})
			p.ws()
			if p.i < len(p.b) && p.b[p.i] == ',' {
				p.i++
				continue
			}
			if p.i < len(p.b) && p.b[p.i] == '}' {
				p.i++
				return o, nil
			}
			return nil, fmt.Errorf("expected ',' or '}' at %d", p.i)
		}
	case c == '[':
		p.i++
		a := jArr()
		a.arr = []*jn{}
		p.ws()
		if p.i < len(p.b) && p.b[p.i] == ']' {
			p.i++
			return a, nil
		}
		for {
			p.ws()
			v, err := p.value(depth + 1)
			if err != nil {
				return nil, err
			}
			a.arr = append(a.arr, v)
			p.ws()
			if p.i < len(p.b) && p.b[p.i] == ',' {
				p.i++
				continue
			}
			if p.i < len(p.b) && p.b[p.i] == ']' {
				p.i++
				return a, nil
			}
			return nil, fmt.Errorf("expected ',' or ']' at %d", p.i)
		}
	case c == '"':
		s, err := p.str()
		if err != nil {
			return nil, err
		}
		return jStr(s), nil
	case c == 't' && bytes.HasPrefix(p.b[p.i:], []byte("true")):
		p.i += 4
		return jBool(true), nil
	case c == 'f' && bytes.HasPrefix(p.b[p.i:], []byte("false")):
		p.i += 5
		return jBool(false), nil
	case c == 'n' && bytes.HasPrefix(p.b[p.i:], []byte("null")):
		p.i += 4
		return jNull(), nil
	case c == '-' || (c >= '0' && c <= '9'):
		m := numRe.Find(p.b[p.i:])
		if m == nil {
			return nil, fmt.Errorf("bad number at %d", p.i)
		}
		p.i += len(m)
		return jNum(string(m)), nil
	}
	return nil, fmt.Errorf("unexpected byte %q at %d", p.b[p.i], p.i)
}

func (p *jparser) str() (string, error) {
	p.i++ // opening quote
	var out []byte
	for {
		if p.i >= len(p.b) {
			return "", fmt.Errorf("unterminated string")
		}
		c := p.b[p.i]
		switch {
		case c == '"':
			p.i++
			return string(out), nil
		case c < 0x20:
			return "", fmt.Errorf("control character in string at %d", p.i)
		case c == '\\':
			if p.i+1 >= len(p.b) {
				return "", fmt.Errorf("bad escape")
			}
			e := p.b[p.i+1]
			p.i += 2
			switch e {
			case '"', '\\', '/':
				out = append(out, e)
			case 'b':
				out = append(out, '\b')
			case 'f':
				out = append(out, '\f')
			case 'n':
				out = append(out, '\n')
			case 'r':
				out = append(out, '\r')
			case 't':
				out = append(out, '\t')
			case 'u':
				r, err := p.hex4()
				if err != nil {
					return "", err
				}
				if utf16.IsSurrogate(r) {
					if r >= 0xDC00 || p.i+1 >= len(p.b) || p.b[p.i] != '\\' || p.b[p.i+1] != 'u' {
						return "", fmt.Errorf("lone surrogate")
					}
					p.i += 2
					r2, err := p.hex4()
					if err != nil {
						return "", err
					}
					d := utf16.DecodeRune(r, r2)
					if d == utf8.RuneError {
						return "", fmt.Errorf("lone surrogate")
					}
					r = d
				}
				out = utf8.AppendRune(out, r)
			default:
				return "", fmt.Errorf("bad escape \\%c", e)
			}
		default:
			out = append(out, c)
			p.i++
		}
	}
}

func (p *jparser) hex4() (rune, error) {
	if p.i+4 > len(p.b) {
		return 0, fmt.Errorf("short \\u escape")
	}
	v, err := strconv.ParseUint(string(p.b[p.i:p.i+4]), 16, 32)
	if err != nil {
		return 0, fmt.Errorf("bad \\u escape")
	}
	p.i += 4
	return rune(v), nil
}
