/-
String helpers of the sebuf generators, over `List Char` (`Str`).

Every function here transcribes a Go helper the five plugins use to derive routes and
identifiers (`internal/annotations/path.go`, `helpers.go`, `httpgen.camelToSnake`,
`clientgen.snakeToUpperCamel`, `tscommon.SnakeToLowerCamel`, ...). They are tied to the code
by the `strfn` correspondence op: the Go harness calls the real functions (through the
plugins' output) and the driver evaluates these on the same inputs.
-/
namespace Sebuf

abbrev Str := List Char

def Str.ofString (s : String) : Str := s.toList
def Str.toStr (s : Str) : String := String.ofList s

/-- `strings.TrimSuffix(s, "/")`: removes at most one trailing slash. -/
def trimSuffixSlash (s : Str) : Str :=
  if s.getLast? = some '/' then s.dropLast else s

/-- `strings.HasPrefix(s, "/")`. -/
def hasPrefixSlash : Str → Bool
  | '/' :: _ => true
  | _ => false

/-- `strings.TrimPrefix(s, "/")`: removes at most one leading slash. -/
def trimPrefixSlash : Str → Str
  | '/' :: r => r
  | s => s

/-- `annotations.EnsureLeadingSlash`. -/
def ensureLeadingSlash (s : Str) : Str :=
  match s with
  | [] => ['/']
  | '/' :: _ => s
  | _ => '/' :: s

/-- `annotations.BuildHTTPPath`. -/
def buildHTTPPath (sp mp : Str) : Str :=
  if sp = [] ∧ mp = [] then ['/']
  else if sp = [] then ensureLeadingSlash mp
  else if mp = [] then ensureLeadingSlash sp
  else trimSuffixSlash (ensureLeadingSlash sp) ++ '/' :: trimPrefixSlash mp

def isUpperAscii (c : Char) : Bool := 'A' ≤ c ∧ c ≤ 'Z'
def isLowerAscii (c : Char) : Bool := 'a' ≤ c ∧ c ≤ 'z'
def isDigitAscii (c : Char) : Bool := '0' ≤ c ∧ c ≤ '9'

def toLowerAscii (c : Char) : Char := if isUpperAscii c then Char.ofNat (c.toNat + 32) else c
def toUpperAscii (c : Char) : Char := if isLowerAscii c then Char.ofNat (c.toNat - 32) else c

/-- `annotations.LowerFirst` (ASCII identifiers). -/
def lowerFirst : Str → Str
  | [] => []
  | c :: r => toLowerAscii c :: r

def upperFirst : Str → Str
  | [] => []
  | c :: r => toUpperAscii c :: r

/-- `httpgen.camelToSnake`: `_` before every ASCII upper-case letter except at index 0. -/
def camelToSnakeAux : Bool → Str → Str
  | _, [] => []
  | first, c :: r =>
    if isUpperAscii c then
      (if first then [toLowerAscii c] else ['_', toLowerAscii c]) ++ camelToSnakeAux false r
    else c :: camelToSnakeAux false r

def camelToSnake (s : Str) : Str := camelToSnakeAux true s

/-- Scanner state for `\{([^}]+)\}`: outside, or inside a candidate with the reversed run. -/
def extractPathParamsAux : Option Str → Str → List Str
  | _, [] => []
  | none, c :: r => if c = '{' then extractPathParamsAux (some []) r else extractPathParamsAux none r
  | some acc, c :: r =>
    if c = '}' then
      (if acc = [] then extractPathParamsAux none r else acc.reverse :: extractPathParamsAux none r)
    else extractPathParamsAux (some (c :: acc)) r

/-- `annotations.ExtractPathParams`: all leftmost non-overlapping matches of `\{([^}]+)\}`. -/
def extractPathParams (s : Str) : List Str := extractPathParamsAux none s

/-- `strings.Split(s, sep)` for a single-character separator. -/
def splitOnChar (sep : Char) : Str → List Str
  | [] => [[]]
  | c :: r =>
    if c = sep then [] :: splitOnChar sep r
    else match splitOnChar sep r with
      | [] => [[c]]
      | h :: t => (c :: h) :: t

/-- `clientgen.snakeToUpperCamel`. -/
def snakeToUpperCamel (s : Str) : Str :=
  ((splitOnChar '_' s).map upperFirst).flatten

/-- `tscommon.SnakeToLowerCamel`. -/
def snakeToLowerCamel (s : Str) : Str :=
  match splitOnChar '_' s with
  | [] => []
  | h :: t => h ++ (t.map upperFirst).flatten

/-- protoc's JSON name: drop `_`, upper-case an ASCII lower-case letter directly after one. -/
def jsonNameAux : Bool → Str → Str
  | _, [] => []
  | up, c :: r =>
    if c = '_' then jsonNameAux true r
    else (if up then toUpperAscii c else c) :: jsonNameAux false r

def jsonName (s : Str) : Str := jsonNameAux false s

def nextIsLower : Str → Bool
  | c :: _ => isLowerAscii c
  | [] => false

/-- protogen's `strs.GoCamelCase` (Go field / message / method identifiers).
`prev` is the previous input character, `inRun` says we are inside the lower-case run that
follows a capitalised letter. -/
def goCamelAux : Option Char → Bool → Str → Str
  | _, _, [] => []
  | prev, inRun, c :: rest =>
    if inRun && isLowerAscii c then c :: goCamelAux (some c) true rest
    else if c = '.' && nextIsLower rest then goCamelAux (some c) false rest
    else if c = '.' then '_' :: goCamelAux (some c) false rest
    else if c = '_' && (prev == none || prev == some '.') then 'X' :: goCamelAux (some c) false rest
    else if c = '_' && nextIsLower rest then goCamelAux (some c) false rest
    else if isDigitAscii c then c :: goCamelAux (some c) false rest
    else toUpperAscii c :: goCamelAux (some c) true rest

def goCamelCase (s : Str) : Str := goCamelAux none false s

/-- `strings.TrimPrefix(h, "X-")`. -/
def trimXDash : Str → Str
  | 'X' :: '-' :: r => r
  | s => s

/-- `clientgen.headerNameToFuncName`. -/
def headerNameToFuncName (h : Str) : Str := (trimXDash h).filter (· ≠ '-')

/-- `tscommon.HeaderNameToPropertyName`. -/
def headerNameToPropertyName (h : Str) : Str :=
  match splitOnChar '-' (trimXDash h) with
  | [] => []
  | p :: ps => p.map toLowerAscii ++ (ps.map fun q =>
      match q with
      | [] => []
      | c :: r => toUpperAscii c :: r.map toLowerAscii).flatten

end Sebuf
