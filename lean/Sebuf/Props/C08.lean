import Sebuf.Lemmas.TsRoute
import Sebuf.TsHeaders
import Sebuf.Build
import Sebuf.Bind
import Sebuf.Lemmas.PropName
import Sebuf.Lemmas.Ident
import Sebuf.Gen.PropNames
/-!
# C08 — generated TypeScript clients and servers interoperate with the Go ones

Model: `Sebuf.TsRoute` (the URL the emitted TS client writes — string substitution of
`encodeURIComponent` values into the printed template, `URLSearchParams`; what `fetch` makes of
it — the WHATWG dot-segment removal; what the emitted TS server extracts — segment INDEX computed
by the generator from `strings.Split(fullPath, "/")`, `decodeURIComponent`, `searchParams.get`),
`Sebuf.TsHeaders` (the emitted TS header validator), next to the Go side of `Sebuf.Query` /
`Sebuf.Headers`. Tie: the `c08_case`, `ts_extract` and `ts_header_check` correspondence ops run
the real emitted modules under Node 22 and the really compiled Go server / client on the same
inputs.

Positive theorems hold for EVERY byte-string value (`/`, `%`, `+`, space, non-ASCII bytes,
empty): the value a caller passes is the value the other side's handler extracts, in all four
client/server pairings, and the index the TS server generator emits is the position of the
variable in the client's template, base path included. Where the emitted code does not meet the
statement, the full statement is kept as a `def … : Prop`, refuted by a kernel-checked witness
(`not_…`, `w_…`: the recorded findings), and the part that holds is proved as `…_partial`.
-/
namespace Sebuf.C08
open Sebuf Sebuf.TsRoute

/-! ## Path variables -/

/-- `decodeURIComponent ∘ encodeURIComponent = id` on all byte strings. -/
theorem ts_url_roundtrip (s : Bytes) (h : ∀ b ∈ s, b < 256) :
    decodeURIComponent (encodeURIComponent s) = some s :=
  decodeURIComponent_encodeURIComponent s h

/-- the client's successive `path.replace("{p}", encodeURIComponent(v))` on the printed template
is the template with every variable segment replaced by its encoded value (literal segments
without `{`, any values). -/
theorem ts_client_path_segmentwise (tpl : List Seg) (vals : Bytes → Bytes)
    (hl : LitsBraceFree tpl) (hv : ∀ n, Seg.var n ∈ tpl → ∀ b ∈ vals n, b < 256) :
    tsClientPath (tplString tpl) (varsOf tpl) vals = tsRenderPath tpl vals :=
  tsClientPath_eq_render tpl vals hl hv

/-- **index agreement, for every template (base path included)**: the index the TS server
generator computes for `{n}` from `strings.Split(fullPath, "/")` is `1 +` the position of the
variable in the template, and the segment of the client's path at that index is the encoded
value of `n`. -/
theorem ts_server_index_agrees (tpl : List Seg) (vals : Bytes → Bytes)
    (hl : LitsBraceFree tpl) (hs : SegsSlashFree tpl) (n : Bytes) (hn : Seg.var n ∈ tpl) :
    ∃ i, tsServerIndex (tplString tpl) n = some (i + 1) ∧
      indexOfSeg (brace n) (tpl.map segText) = some i ∧
      (splitSlash (tsRenderPath tpl vals)).getD (i + 1) [] = encodeURIComponent (vals n) := by
  obtain ⟨i, hi, hg⟩ := index_and_segment tpl vals hl n hn
  refine ⟨i, ?_, hi, ?_⟩
  · unfold tsServerIndex
    rw [splitSlash_tplString tpl hs]
    have hne : ([] : Bytes) ≠ brace n := by simp [brace]
    simp [indexOfSeg, hne, hi]
  · rw [splitSlash_tsRenderPath tpl vals hs.1]
    simpa using hg

/-- **TS client → TS server, path**: for every template and EVERY byte-string value (empty,
`/`, `%2F`, `+`, space, non-ASCII included) the TS server's `pathParams[n]` is the value the
caller passed, when the request path is the one the client wrote. -/
theorem ts_path_roundtrip (tpl : List Seg) (vals : Bytes → Bytes)
    (hl : LitsBraceFree tpl) (hs : SegsSlashFree tpl)
    (hv : ∀ n, Seg.var n ∈ tpl → ∀ b ∈ vals n, b < 256) (n : Bytes) (hn : Seg.var n ∈ tpl) :
    tsPathParam (tplString tpl) n (tsClientPath (tplString tpl) (varsOf tpl) vals) = some (vals n) := by
  obtain ⟨i, hidx, _, hseg⟩ := ts_server_index_agrees tpl vals hl hs n hn
  rw [ts_client_path_segmentwise tpl vals hl hv]
  unfold tsPathParam
  rw [hidx]
  simp only
  rw [hseg]
  exact decodeURIComponent_encodeURIComponent _ (hv n hn)

/-- the full statement also lets `fetch` normalise the URL first. -/
def PathDelivered : Prop :=
  ∀ (tpl : List Seg) (vals : Bytes → Bytes), LitsBraceFree tpl → SegsSlashFree tpl →
    (∀ n, Seg.var n ∈ tpl → vals n ≠ [] ∧ ∀ b ∈ vals n, b < 256) →
    ∀ n, Seg.var n ∈ tpl →
      tsPathParam (tplString tpl) n (urlNormPath (tsClientPath (tplString tpl) (varsOf tpl) vals)) = some (vals n)

/-- **partial**: when no segment the client writes is a dot segment (`.`, `..`, `%2e` forms),
`fetch` sends the path unchanged and the value is delivered. -/
theorem ts_path_roundtrip_fetch_partial (tpl : List Seg) (vals : Bytes → Bytes)
    (hl : LitsBraceFree tpl) (hs : SegsSlashFree tpl)
    (hv : ∀ n, Seg.var n ∈ tpl → ∀ b ∈ vals n, b < 256)
    (hd : ∀ s ∈ tpl, isDot (tsRenderSeg vals s) = false)
    (n : Bytes) (hn : Seg.var n ∈ tpl) :
    tsPathParam (tplString tpl) n (urlNormPath (tsClientPath (tplString tpl) (varsOf tpl) vals)) = some (vals n) := by
  have hne : tpl ≠ [] := fun e => by rw [e] at hn; cases hn
  have hnorm : urlNormPath (tsRenderPath tpl vals) = tsRenderPath tpl vals := by
    unfold tsRenderPath
    apply urlNormPath_flatten (tsRenderSeg vals) tpl hne
    · intro s hsm
      cases s with
      | lit t => exact hs.1 t hsm
      | var m => exact encodeURIComponent_no_slash _
    · exact hd
  have := ts_path_roundtrip tpl vals hl hs hv n hn
  rw [ts_client_path_segmentwise tpl vals hl hv] at this ⊢
  rw [hnorm]
  exact this

def itemsId : List Seg := [.lit (lit "items"), .var (lit "id")]

/-- **witness** (finding `path_value_dot_segment`): the path-bound value `.` is left alone by
`encodeURIComponent`, the URL parser drops the segment, and the TS server's handler receives the
EMPTY string; for `..` the request no longer matches the route at all. The Go server does not
match either path. -/
theorem w_dot_value_not_delivered :
    urlNormPath (tsClientPath (tplString itemsId) (varsOf itemsId) (fun _ => lit ".")) = lit "/items/" ∧
    tsPathParam (tplString itemsId) (lit "id") (lit "/items/") = some [] ∧
    urlNormPath (tsClientPath (tplString itemsId) (varsOf itemsId) (fun _ => lit "..")) = lit "/" ∧
    demoMatch (lit "/") (tplString itemsId) = false ∧
    matchPath itemsId (lit "/items/") = none ∧ matchPath itemsId (lit "/") = none := by decide

theorem not_pathDelivered : ¬ PathDelivered := by
  intro h
  have := h itemsId (fun _ => lit ".") (litsBraceFree_of_all _ (by decide)) (segsSlashFree_of_all _ (by decide))
    (by intro n _; exact ⟨by decide, by decide⟩) (lit "id") (by simp [itemsId])
  revert this
  decide

/-- **Go client → TS server, path**: the Go client writes `url.PathEscape`d values; the TS
server's index and `decodeURIComponent` give back every value. -/
theorem go_ts_path_roundtrip (tpl : List Seg) (vals : Bytes → Bytes)
    (hl : ∀ s, Seg.lit s ∈ tpl → LitOK s) (hb : LitsBraceFree tpl) (hs : SegsSlashFree tpl)
    (hv : ∀ n, Seg.var n ∈ tpl → ∀ b ∈ vals n, b < 256) (n : Bytes) (hn : Seg.var n ∈ tpl) :
    tsPathParam (tplString tpl) n (renderPath tpl vals) = some (vals n) := by
  have hne : tpl ≠ [] := fun e => by rw [e] at hn; cases hn
  obtain ⟨i, hi, hg⟩ := index_and_segment_go tpl vals hb n hn
  unfold tsPathParam tsServerIndex
  rw [splitSlash_tplString tpl hs, splitSlash_renderPath tpl vals hl hne]
  have hne' : ([] : Bytes) ≠ brace n := by simp [brace]
  simp only [indexOfSeg, hne', if_false, hi, Option.map_some]
  have : ([] :: tpl.map (renderSeg vals)).getD (i + 1) [] = pathEscape (vals n) := by simpa using hg
  rw [this]
  exact pathUnescape_pathEscape _ (hv n hn)

/-- **TS client → Go server, path**: Go's `ServeMux` matches the path the TS client writes and
binds every (non-empty) value. -/
theorem ts_go_path_roundtrip (tpl : List Seg) (vals : Bytes → Bytes)
    (hl : ∀ s, Seg.lit s ∈ tpl → LitOK s)
    (hv : ∀ n, Seg.var n ∈ tpl → vals n ≠ [] ∧ ∀ b ∈ vals n, b < 256) (hne : tpl ≠ []) :
    matchPath tpl (tsRenderPath tpl vals) = some (pathBindings tpl vals) := by
  cases tpl with
  | nil => exact absurd rfl hne
  | cons s rest =>
    unfold matchPath
    rw [splitSlash_tsRenderPath (s :: rest) vals (fun t ht => (hl t ht).1)]
    exact matchSegs_tsRender (s :: rest) vals hl hv

/-! ## Query parameters -/

/-- **TS client → TS server, query**: `url.searchParams` gives back the pairs
`URLSearchParams.toString()` wrote, for all byte strings (`+`, space, `&`, `=`, `%`, non-ASCII). -/
theorem ts_query_roundtrip (kvs : List (Bytes × Bytes))
    (hb : ∀ p ∈ kvs, (∀ b ∈ p.1, b < 256) ∧ (∀ b ∈ p.2, b < 256)) :
    formParse (formSerialize kvs) = kvs :=
  formParse_join formEncode formEncode_no_amp formEncode_no_eq kvs
    (fun p hp => ⟨formDecode_formEncode _ (hb p hp).1, formDecode_formEncode _ (hb p hp).2⟩)

theorem ts_query_roundtrip_get (kvs : List (Bytes × Bytes))
    (hb : ∀ p ∈ kvs, (∀ b ∈ p.1, b < 256) ∧ (∀ b ∈ p.2, b < 256)) (k : Bytes) :
    tsQueryGet k (formSerialize kvs) = queryGet k kvs := by
  unfold tsQueryGet
  rw [ts_query_roundtrip kvs hb]

/-- **Go client → TS server, query**: `url.Values.Encode()` (sorted, `QueryEscape`) read back by
`searchParams.get` on distinct keys. -/
theorem go_ts_query_roundtrip (kvs : List (Bytes × Bytes)) (hk : (kvs.map Prod.fst).Nodup)
    (hb : ∀ p ∈ kvs, (∀ b ∈ p.1, b < 256) ∧ (∀ b ∈ p.2, b < 256)) :
    ∀ p ∈ kvs, tsQueryGet p.1 (encodeValues kvs) = some p.2 := by
  intro p hp
  unfold tsQueryGet encodeValues encodeValuesUnsorted
  have hperm := sortPairs_perm kvs
  have e : (sortPairs kvs).map encodePair = (sortPairs kvs).map fun p => queryEscape p.1 ++ 61 :: queryEscape p.2 := rfl
  rw [e, formParse_join queryEscape (fun x => (queryEscape_no_amp_eq x).1) (fun x => (queryEscape_no_amp_eq x).2) (sortPairs kvs)
    (fun q hq => ⟨formDecode_queryEscape _ (hb q (hperm.mem_iff.1 hq)).1, formDecode_queryEscape _ (hb q (hperm.mem_iff.1 hq)).2⟩)]
  rw [← queryGet_perm _ _ hperm.symm hk]
  exact queryGet_of_mem kvs hk p hp

/-- **TS client → Go server, query**: Go's `url.ParseQuery` reads back what `URLSearchParams`
wrote. -/
theorem ts_go_query_roundtrip (kvs : List (Bytes × Bytes))
    (hb : ∀ p ∈ kvs, (∀ b ∈ p.1, b < 256) ∧ (∀ b ∈ p.2, b < 256)) :
    parseQuery (formSerialize kvs) = kvs :=
  parseQuery_join formEncode formEncode_no_amp formEncode_no_eq formEncode_no_semicolon kvs
    (fun p hp => ⟨queryUnescape_formEncode _ (hb p hp).1, queryUnescape_formEncode _ (hb p hp).2⟩)

/-! ## What the handler sees for a URL-bound field -/

/-- full statement: a query field reaches the TS handler as the value sent (absent = default). -/
def QueryFieldDelivered : Prop :=
  ∀ (k : QKind) (sent : Option Bytes), JsVal.sameProto (tsQueryField k sent) (specField k sent) = true

/-- **witness** (finding `ts_server_absent_64bit_query_is_empty_string`): both clients leave a
64-bit query parameter whose value is 0 out of the URL; the TS route body then builds the
property with `params.get(name) ?? ""`, the empty string, which is not a 64-bit integer. -/
theorem w_absent_int64_query :
    sendsQuery .int64 (some txt0) = false ∧ tsQueryGet (lit "cursor") [] = none ∧
    tsQueryField .int64 none = .str [] ∧ specField .int64 none = .str txt0 ∧
    JsVal.sameProto (tsQueryField .int64 none) (specField .int64 none) = false := by decide

theorem not_queryFieldDelivered : ¬ QueryFieldDelivered := fun h => by
  have := h .int64 none
  revert this; decide

theorem query_field_partial (k : QKind) (sent : Option Bytes) (h : k ≠ .int64 ∨ sent.isSome) :
    JsVal.sameProto (tsQueryField k sent) (specField k sent) = true := by
  cases k <;> cases sent <;> simp_all [tsQueryField, specField, JsVal.sameProto]

/-- full statement: a path field reaches the TS handler as the value sent. -/
def PathFieldDelivered : Prop :=
  ∀ (k : QKind) (v : Bytes), JsVal.sameProto (tsPathField k v) (specField k (some v)) = true

/-- **witness** (finding `ts_server_bool_path_param_is_string`): `body.flag = pathParams["flag"]`
assigns the STRING `"false"` (truthy in JavaScript) to a boolean field. -/
theorem w_bool_path_param :
    tsPathField .boolean (lit "false") = .str (lit "false") ∧
    specField .boolean (some (lit "false")) = .bool false ∧
    JsVal.sameProto (tsPathField .boolean (lit "false")) (specField .boolean (some (lit "false"))) = false := by decide

theorem not_pathFieldDelivered : ¬ PathFieldDelivered := fun h => by
  have := h .boolean (lit "false")
  revert this; decide

theorem path_field_partial (k : QKind) (v : Bytes) (h : k ≠ .boolean) :
    JsVal.sameProto (tsPathField k v) (specField k (some v)) = true := by
  cases k <;> simp_all [tsPathField, specField, JsVal.sameProto]

/-- **witness** (finding `required_query_zero_value`, TS client → Go server): the TS client
leaves a zero-valued query parameter out, so a `required` one is missing for the Go server. -/
theorem w_required_query_zero :
    tsClientQuery "GET" [{ name := lit "page", kind := .number, text := some txt0 }] = [] ∧
    queryGet (lit "page") (parseQuery (formSerialize [])) = none := by decide

/-- **witness** (finding `required_query_on_body_verb`): for POST/PUT/PATCH the TS client writes
no query string at all, whatever the value. -/
theorem w_required_query_body_verb :
    tsClientQuery "POST" [{ name := lit "page", kind := .number, text := some (lit "5") }] = [] ∧
    tsClientQuery "GET" [{ name := lit "page", kind := .number, text := some (lit "5") }] = [(lit "page", lit "5")] := by decide

/-! ## The modules load -/

def listReq : Message :=
  { fullName := ".p.ListReq".toList, name := "ListReq".toList,
    fields := [{ name := "item_id".toList, kind := .string }, { name := "page".toList, kind := .int32, query := some ("page".toList, false) }] }
def listSvc (verb : Nat) (path : String) : Service :=
  { name := "Shop".toList
    methods := [{ name := "ListParts".toList, input := ".p.ListReq".toList, output := ".p.ListReq".toList, hasConfig := true, path := path.toList, verbNum := verb }] }
def listRq (verb : Nat) (path : String) : Request :=
  { files := [{ name := "a.proto".toList, generate := true, messages := [listReq], services := [listSvc verb path] }] }

/-- **the route body declares every identifier once** (all sixteen shapes of a route: with /
without headers, path variables, query parameters, body verb), so the emitted `*_server.ts`
parses; the correspondence imports every emitted module on every run. -/
theorem route_consts_distinct : ∀ h p q b : Bool, (routeConsts h p q b).Nodup := by decide

/-- **regression witness** (finding `ts_server_module_does_not_load`, fixed by 41e5e05): before
the fix the canonical REST route `GET /items/{item_id}/parts?page=` — accepted by every plugin —
declared `const url` twice, a SyntaxError at import that took every RPC of the file with it;
the current template is predicted loadable for the same schema. -/
theorem w_ts_server_module_loads_regression :
    ¬ (routeConstsBeforeFix false true true false).Nodup ∧
    Build.tsServerDefectsBeforeFix (listRq 1 "/items/{item_id}/parts") = ["ts_server_duplicate_const_url"] ∧
    Build.tsServerDefects (listRq 1 "/items/{item_id}/parts") = [] ∧
    (routeConsts false true true false).Nodup := by decide

/-! ## Header option helpers -/

theorem filter_eq_singleton {α β : Type} [BEq β] [LawfulBEq β] (f : α → β) (l : List α) (hn : (l.map f).Nodup)
    (h : α) (hh : h ∈ l) : l.filter (fun x => f x == f h) = [h] := by
  induction l with
  | nil => cases hh
  | cons a t ih =>
    rw [List.map_cons, List.nodup_cons] at hn
    rcases List.mem_cons.1 hh with e | m
    · subst e
      have : t.filter (fun x => f x == f h) = [] := by
        rw [List.filter_eq_nil_iff]
        intro x hx hfx
        have hfx := eq_of_beq hfx
        exact hn.1 (hfx ▸ List.mem_map_of_mem (f := f) hx)
      simp [this]
    · have hne : f a ≠ f h := fun e => hn.1 (e ▸ List.mem_map_of_mem (f := f) m)
      have : (f a == f h) = false := by
        cases hb : (f a == f h) with
        | false => rfl
        | true => exact absurd (eq_of_beq hb) hne
      simp [this, ih hn.2 m]

/-- **helper names agree, partial**: when the TypeScript option properties of a route's declared
headers are pairwise distinct, the option derived from header `h` writes exactly `h` — the name
the servers validate — and nothing else; same for the Go client's typed options and their
function names. -/
theorem header_helper_names_agree_partial (declared : List Str) (h : Str) (hh : h ∈ declared) :
    ((declared.map headerNameToPropertyName).Nodup → tsOptionWrites declared (headerNameToPropertyName h) = [h]) ∧
    ((declared.map headerNameToFuncName).Nodup → goHelperWrites declared (headerNameToFuncName h) = [h]) :=
  ⟨fun hn => filter_eq_singleton headerNameToPropertyName declared hn h hh,
   fun hn => by unfold goHelperWrites; rw [filter_eq_singleton headerNameToFuncName declared hn h hh]; rfl⟩

/-- a Go typed option never writes two headers: when declared names share a function name the helper
belongs to the first declaration (`With…Header(name, value)` remains available for the others). -/
theorem go_helper_writes_at_most_one (declared : List Str) (fn : Str) : (goHelperWrites declared fn).length ≤ 1 := by
  unfold goHelperWrites; simp [List.length_take]; omega

example : goHelperWrites ["X-Tenant".toList, "Tenant".toList, "X-Tenant".toList] "Tenant".toList = ["X-Tenant".toList] := by decide

def HelperNamesAgree : Prop :=
  ∀ (declared : List Str), declared.Nodup → ∀ h ∈ declared, tsOptionWrites declared (headerNameToPropertyName h) = [h]

/-- **witness** (finding `ts_header_option_shared`): `X-API-Key` and `Api-Key` are different
headers with different Go option functions (`…APIKey` / `…ApiKey`: the Go client compiles), but
ONE TypeScript option property `apiKey`; setting it writes the value under both names, so the
header meant for one declaration overwrites the other. -/
theorem w_ts_option_shared :
    headerNameToPropertyName "X-API-Key".toList = "apiKey".toList ∧
    headerNameToPropertyName "Api-Key".toList = "apiKey".toList ∧
    headerNameToFuncName "X-API-Key".toList ≠ headerNameToFuncName "Api-Key".toList ∧
    tsOptionWrites ["X-API-Key".toList, "Api-Key".toList] "apiKey".toList = ["X-API-Key".toList, "Api-Key".toList] ∧
    tsCallHeaders ["X-API-Key".toList] ["Api-Key".toList] [] [] [("Api-Key".toList, "7".toList)] [("apiKey".toList, "u-u-i-d".toList)]
      = [("Content-Type".toList, "application/json".toList), ("Api-Key".toList, "u-u-i-d".toList), ("X-API-Key".toList, "u-u-i-d".toList)] := by
  decide

theorem not_helperNamesAgree : ¬ HelperNamesAgree := fun h => by
  have := h ["X-API-Key".toList, "Api-Key".toList] (by decide) "X-API-Key".toList (by decide)
  revert this; decide

/-! ## Header validation: the TS server next to the Go server -/

open Sebuf.Headers in
/-- one header sent with one value to both servers' validators. -/
def verdicts (svc meth : List HSpec) (name value : String) (lib : Lib) (js : TsHeaders.JsLib) : Bool × Bool :=
  let n := lower name.toList
  (Headers.dispatched svc meth (fun k => if k = n then some (value.toList, lib) else none),
   TsHeaders.dispatched svc meth (fun k => if k = n then some (value.toList, js) else none))

/-- both validators reject a request without a required header. -/
theorem ts_required_absent_rejected (svc meth : List Headers.HSpec) (req : TsHeaders.Hdrs) (h : Headers.HSpec)
    (hm : h ∈ svc ++ meth) (hr : h.required = true) (ha : req (Headers.lower h.name) = none) :
    TsHeaders.dispatched svc meth req = false := by
  unfold TsHeaders.dispatched TsHeaders.violations
  have : h.name ∈ (svc ++ meth).filterMap fun h =>
      match req (Headers.lower h.name) with
      | none => if h.required then some h.name else none
      | some (v, js) => if TsHeaders.valueErr js h v then some h.name else none := by
    rw [List.mem_filterMap]
    exact ⟨h, hm, by simp [ha, hr]⟩
  cases hl : ((svc ++ meth).filterMap fun h =>
      match req (Headers.lower h.name) with
      | none => if h.required then some h.name else none
      | some (v, js) => if TsHeaders.valueErr js h v then some h.name else none) with
  | nil => rw [hl] at this; cases this
  | cons a t => rfl

/-! Witnesses of the recorded `header_verdict_differs:*` findings: one declaration, one value,
two verdicts (Go server, TS server). The library verdicts (`strconv.ParseFloat`, `time.Parse`,
`Number()`) are written out as data. -/

/-- an OPTIONAL header with an invalid value: the Go server validates required headers only. -/
theorem w_hv_optional_header :
    verdicts [{ name := "X-Opt".toList, type := "integer" }] [] "X-Opt" "abc" {} {} = (true, false) := by decide

/-- a format on a non-string type: Go checks the type only, TS the type and the format. -/
theorem w_hv_format_on_non_string_type :
    verdicts [{ name := "X-N".toList, type := "integer", format := "uuid", required := true }] [] "X-N" "42" {} {} = (true, false) := by decide

/-- a method-level declaration of a service header: Go validates the method's declaration only,
TS validates both. -/
theorem w_hv_method_overrides_service :
    verdicts [{ name := "X-S".toList, type := "integer", required := true }] [{ name := "X-S".toList, type := "string", required := true }]
      "X-S" "abc" {} {} = (true, false) := by decide

/-- an empty value: missing for Go, present (and a valid string) for TS. -/
theorem w_hv_empty_value :
    verdicts [{ name := "X-S".toList, type := "string", required := true }] [] "X-S" "" {} {} = (false, true) := by decide

theorem w_hv_integer_syntax :
    verdicts [{ name := "X-I".toList, type := "integer", required := true }] [] "X-I" "+5" {} {} = (true, false) ∧
    verdicts [{ name := "X-I".toList, type := "integer", required := true }] [] "X-I" "99999999999999999999" {} {} = (false, true) := by decide

/-- `strconv.ParseFloat` accepts `inf` and `NaN` (`floatOK := true`), `Number("inf")` and
`Number("NaN")` are `NaN`; `Number("0x10")` is 16, `ParseFloat("0x10")` fails. -/
theorem w_hv_number_syntax :
    verdicts [{ name := "X-N".toList, type := "number", required := true }] [] "X-N" "inf" { floatOK := true } { numberOK := false } = (true, false) ∧
    verdicts [{ name := "X-N".toList, type := "number", required := true }] [] "X-N" "0x10" { floatOK := false } { numberOK := true } = (false, true) := by decide

theorem w_hv_boolean_syntax :
    verdicts [{ name := "X-B".toList, type := "boolean", required := true }] [] "X-B" "T" {} {} = (true, false) := by decide

/-- **format uuid: the two validators agree on EVERY value** (since c966581 the Go check also
demands a hex digit at every non-dash position): 36 characters, `-` at 8, 13, 18, 23, `[0-9a-fA-F]`
elsewhere — upper case accepted by both, braces / wrong length / non-hex rejected by both, the
version nibble checked by neither. -/
theorem uuid_validators_agree (v : Str) : TsHeaders.uuidRegex v = Headers.uuidShape v := by
  by_cases h : v.length = 36
  · iterate 36 (rcases v with _ | ⟨c, v⟩; (· simp at h))
    rcases v with _ | ⟨c, v⟩
    · simp only [TsHeaders.uuidRegex, Headers.uuidShape, Headers.uuidShapeBeforeFix, Headers.isDashPos]
      simp [List.range, List.range.loop, List.zipIdx]
      ac_rfl
    · simp at h
  · have : (v.length == 36) = false := by simpa using h
    simp [TsHeaders.uuidRegex, Headers.uuidShape, Headers.uuidShapeBeforeFix, this]

/-- **regression witness** (finding `header_verdict_differs:uuid_syntax`, fixed by c966581): the
former Go check (length and dashes only) accepted a non-hex value the TS server rejects; today
both servers answer 400, and both dispatch an upper-case uuid. -/
theorem w_hv_uuid_syntax_regression :
    Headers.uuidShapeBeforeFix "zzzzzzzz-zzzz-zzzz-zzzz-zzzzzzzzzzzz".toList = true ∧
    TsHeaders.uuidRegex "zzzzzzzz-zzzz-zzzz-zzzz-zzzzzzzzzzzz".toList = false ∧
    verdicts [{ name := "X-U".toList, type := "string", format := "uuid", required := true }] [] "X-U" "zzzzzzzz-zzzz-zzzz-zzzz-zzzzzzzzzzzz" {} {} = (false, false) ∧
    verdicts [{ name := "X-U".toList, type := "string", format := "uuid", required := true }] [] "X-U" "123E4567-E89B-42D3-A456-426614174000" {} {} = (true, true) ∧
    verdicts [{ name := "X-U".toList, type := "string", format := "uuid", required := true }] [] "X-U" "{123e4567-e89b-42d3-a456-426614174000}" {} {} = (false, false) := by decide

theorem w_hv_email_syntax :
    verdicts [{ name := "X-E".toList, type := "string", format := "email", required := true }] [] "X-E" "a@b" {} {} = (true, false) := by decide

/-- `time.Parse(RFC3339, "2020-13-01T00:00:00Z")` fails (`dateTimeOK := false`); the TS regular
expression only counts digits. -/
theorem w_hv_datetime_syntax :
    verdicts [{ name := "X-D".toList, type := "string", format := "date-time", required := true }] [] "X-D" "2020-13-01T00:00:00Z" { dateTimeOK := false } {} = (false, true) := by decide

theorem w_hv_date_syntax :
    verdicts [{ name := "X-D".toList, type := "string", format := "date", required := true }] [] "X-D" "2020-02-30" { dateOK := false } {} = (false, true) := by decide

theorem w_hv_time_syntax :
    verdicts [{ name := "X-T".toList, type := "string", format := "time", required := true }] [] "X-T" "25:00:00" { timeOK := false } {} = (false, true) := by decide

/-- an unset type is format-checked by both servers. -/
theorem unset_type_format_checked :
    verdicts [{ name := "X-U".toList, format := "uuid", required := true }] [] "X-U" "not-a-uuid" {} {} = (false, false) ∧
    verdicts [{ name := "X-U".toList, format := "uuid", required := true }] [] "X-U" "123e4567-e89b-42d3-a456-426614174000" {} {} = (true, true) := by decide

/-! ## Body verbs: URL-bound fields against the body -/

/-- the emitted Go middleware decodes the body FIRST and binds path and query parameters
afterwards (regenerated order, since 9fd0fc7), and the emitted TS route body assigns the path
parameters after `req.json()`: on both servers the URL's value of a PATH variable wins over
whatever the body says (or does not say). The recorded classes
`servers_differ:body_without_url_fields` / `servers_differ:body_conflicts_with_url` are fixed. -/
theorem go_url_steps_after_body : Bind.relevant Bind.currentOrder = [Bind.Step.body, Bind.Step.path, Bind.Step.query] := by decide

/-- **witness** (finding `servers_differ:query_parameter_on_body_verb`): for POST / PUT / PATCH the
Go server binds a query-annotated field from the URL when the parameter is there (overwriting
the body's value), the TS server never reads the query string of such a route: `?page=5` with a
body saying `page: 3` reaches the Go handler as 5 and the TS handler as 3; without `page` in the
body the TS handler sees no value at all. With the parameter absent from the URL both keep the
body's value, which is what the generated clients send. -/
theorem w_query_on_body_verb :
    goRouteQueryField .number (lit "page") (lit "page=5") (some (.numOf (lit "3"))) = some (.numOf (lit "5")) ∧
    tsRouteQueryField true .number (lit "page") (lit "page=5") (some (.numOf (lit "3"))) = some (.numOf (lit "3")) ∧
    tsRouteQueryField true .number (lit "page") (lit "page=5") none = none ∧
    goRouteQueryField .number (lit "page") [] (some (.numOf (lit "3"))) = tsRouteQueryField true .number (lit "page") [] (some (.numOf (lit "3"))) ∧
    tsRouteQueryField false .number (lit "page") (lit "page=5") none = some (.numOf (lit "5")) := by decide

/-! ## Non-vacuity -/

/-- `/api/v1/orgs/{org}/{user_id}/users` -/
def orgsTpl : List Seg := [.lit [97, 112, 105], .lit [118, 49], .lit [111, 114, 103, 115], .var [111, 114, 103],
  .var [117, 115, 101, 114, 95, 105, 100], .lit [117, 115, 101, 114, 115]]
/-- `org` ↦ the bytes of `a/b c+%é`, every other name ↦ `42`. -/
def orgsVals (n : Bytes) : Bytes := if n = [111, 114, 103] then [97, 47, 98, 32, 99, 43, 37, 195, 169] else [52, 50]

example : LitsBraceFree orgsTpl ∧ SegsSlashFree orgsTpl :=
  ⟨litsBraceFree_of_all _ (by decide), segsSlashFree_of_all _ (by decide)⟩
example : tplString orgsTpl = lit "/api/v1/orgs/{org}/{user_id}/users" := by decide
example : tsClientPath (tplString orgsTpl) (varsOf orgsTpl) orgsVals = lit "/api/v1/orgs/a%2Fb%20c%2B%25%C3%A9/42/users" := by decide
example : tsServerIndex (tplString orgsTpl) (lit "org") = some 4 ∧ tsServerIndex (tplString orgsTpl) (lit "user_id") = some 5 := by decide
example : tsPathParam (tplString orgsTpl) [111, 114, 103] (tsClientPath (tplString orgsTpl) (varsOf orgsTpl) orgsVals) = some [97, 47, 98, 32, 99, 43, 37, 195, 169] := by decide
example : (orgsTpl.map (tsRenderSeg orgsVals)).all (fun s => !isDot s) = true := by decide
example : formSerialize [(lit "q", lit "a b&c=d+e"), (lit "n", [195, 169])] = lit "q=a+b%26c%3Dd%2Be&n=%C3%A9" := by decide
example : formParse (lit "q=a+b%26c%3Dd%2Be&n=%C3%A9&q=second&flag") =
    [(lit "q", lit "a b&c=d+e"), (lit "n", [195, 169]), (lit "q", lit "second"), (lit "flag", [])] := by decide
example : tsQueryGet (lit "q") (lit "q=%zz%4") = some (lit "%zz%4") := by decide
example : demoMatch (lit "/api/v1/orgs/a%2Fb/42/users") (tplString orgsTpl) = true ∧ demoMatch (lit "/api/v1/orgs/a/b/42/users") (tplString orgsTpl) = false := by decide
example : (["X-Tenant".toList, "Authorization".toList].map headerNameToPropertyName).Nodup := by decide
example : tsOptionWrites ["X-Tenant".toList, "Authorization".toList] "tenant".toList = ["X-Tenant".toList] := by decide
example : JsVal.sameProto (tsQueryField .number none) (specField .number none) = true := query_field_partial .number none (Or.inl (by decide))
example : JsVal.sameProto (tsQueryField .int64 (some (lit "7"))) (specField .int64 (some (lit "7"))) = true := query_field_partial .int64 _ (Or.inr rfl)
example : JsVal.sameProto (tsPathField .number (lit "42")) (specField .number (some (lit "42"))) = true := path_field_partial .number _ (by decide)
example : TsHeaders.dateTimeRegex "2020-01-02T03:04:05.5+02:00".toList = true ∧ TsHeaders.dateTimeRegex "2020-01-02t03:04:05z".toList = false ∧
    TsHeaders.emailRegex "a.b+c@sub.example.org".toList = true ∧ TsHeaders.emailRegex "a@b".toList = false ∧
    TsHeaders.intRegex "-7".toList = true ∧ TsHeaders.intRegex "+5".toList = false ∧ TsHeaders.timeRegex "03:04:05.123".toList = true := by decide

/-! ## Property names: the request field a generated client / server reads is the declared one -/

/-- **the TS client reads a path variable from the property its own interface declares**: for every
request message whose fields have distinct proto names, the property substituted for the variable
bound to field `f` is `f`'s JSON name — explicit `json_name` included (holds since `/repo` 97b5191). -/
theorem client_path_prop_is_declared (fields : List Field) (f : Field) (hf : f ∈ fields)
    (hd : (fields.map Field.name).Nodup) : PropName.tsClientPathProp fields f.name = f.json := by
  unfold PropName.tsClientPathProp
  rw [PropName.find_name_of_distinct fields f hf hd]

/-- the TS server fills the same property from the path. -/
theorem server_path_prop_is_declared (fields : List Field) (f : Field) (hf : f ∈ fields)
    (hd : (fields.map Field.name).Nodup) : PropName.tsServerPathProp fields f.name = some f.json := by
  unfold PropName.tsServerPathProp
  rw [PropName.find_name_of_distinct fields f hf hd]; rfl

/-- so a value the client reads is the value the caller stored and the server's handler sees it
under the same name. -/
theorem client_server_path_prop_agree (fields : List Field) (f : Field) (hf : f ∈ fields)
    (hd : (fields.map Field.name).Nodup) :
    PropName.tsServerPathProp fields f.name = some (PropName.tsClientPathProp fields f.name) := by
  rw [client_path_prop_is_declared fields f hf hd, server_path_prop_is_declared fields f hf hd]

/-- regression witness (entry `ts_client_path_property_not_json_name`, fixed): before the repair
the client read `req.userId` for `string user_id = 1 [json_name = "uid"]`, a property the
interface does not declare. -/
theorem w_client_path_prop_before_fix :
    let f : Field := { name := "user_id".toList, kind := .string, jsonOverride := some "uid".toList }
    PropName.tsClientPathPropBeforeFix f.name ≠ f.json ∧ PropName.tsClientPathProp [f] f.name = f.json := by decide

/-- without an explicit `json_name` the old derivation agreed on plain snake_case names: why the
repository's goldens and tests never showed it. -/
theorem client_path_prop_before_fix_partial (f : Field) (hn : f.jsonOverride = none) (hs : simpleSnake f.name = true) :
    PropName.tsClientPathPropBeforeFix f.name = f.json := by
  unfold PropName.tsClientPathPropBeforeFix Field.json
  rw [hn]; exact snakeToLowerCamel_eq_jsonName f.name hs

/-- **regenerated tie**: every property name the REAL ts-client, ts-server and openapiv3 plugins
emit for the probe schema (interface members, `req.<prop>` in path and query building,
`body.<prop>` filled from path and query, component schema properties) is the JSON name of the
probe field — with and without an explicit `json_name`. -/
theorem emitted_property_names_are_json_names :
    ∀ u ∈ Gen.PropNames.uses, ∃ p ∈ Gen.PropNames.probe, p.1 = u.2.2.1 ∧ u.2.2.2.toList = (PropName.probeField p).json := by decide

/-- every role is observed for both plugins (the tie is not vacuous). -/
theorem emitted_property_names_cover_roles :
    ∀ a ∈ ["ts-client", "ts-server"], ∀ r ∈ ["interface:GetReq", "interface:PutReq", "path:GetIt", "path:PutIt", "query:GetIt"],
      ∃ u ∈ Gen.PropNames.uses, u.1 = a ∧ u.2.1 = r ∧ u.2.2.1 = "user_id" ∨ u.1 = a ∧ u.2.1 = r ∧ u.2.2.1 = "page_size" := by decide

end Sebuf.C08
