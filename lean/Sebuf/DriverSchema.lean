import Sebuf.Driver
import Sebuf.Schema
namespace Sebuf.Driver
open Lean (Json)

def getOptStr (j : Json) (k : String) : Option Str :=
  match j.getObjValAs? String k with
  | .ok s => some s.toList
  | .error _ => none

def fieldOf (j : Json) : Field :=
  { name := getStr j "name"
    kind := Kind.ofString (String.ofList (getStr j "kind"))
    card := Card.ofString (String.ofList (getStr j "card"))
    typeName := getStr j "type"
    mapKey := Kind.ofString (String.ofList (getStr j "map_key"))
    oneof := getOptStr j "oneof"
    query := match j.getObjVal? "query" with
      | .ok q => (match q with | Json.null => none | _ => some (getStr q "name", getBool q "required"))
      | .error _ => none
    unwrap := getBool j "unwrap"
    int64Enc := getNat j "int64"
    enumEnc := getNat j "enum_enc"
    nullable := getBool j "nullable"
    emptyBehavior := getNat j "empty"
    tsFormat := getNat j "ts"
    bytesEnc := getNat j "bytes"
    oneofValue := getOptStr j "oneof_value"
    flatten := getBool j "flatten"
    flattenPrefix := getStr j "prefix"
    jsonOverride := getOptStr j "json_name" }

def oneofOf (j : Json) : OneofDecl :=
  { name := getStr j "name", hasConfig := getBool j "has_config", discriminator := getStr j "disc", flatten := getBool j "flatten" }

def messageOf (j : Json) : Message :=
  { fullName := getStr j "full", name := getStr j "name", topLevel := getBool j "top",
    fields := (getArr j "fields").map fieldOf, oneofs := (getArr j "oneofs").map oneofOf }

def methodOf (j : Json) : Method :=
  { name := getStr j "name", input := getStr j "input", output := getStr j "output",
    hasConfig := getBool j "has_config", path := getStr j "path", verbNum := getNat j "verb_num",
    headers := getStrList j "headers" }

def serviceOf (j : Json) : Service :=
  { name := getStr j "name", base := getStr j "base", methods := (getArr j "methods").map methodOf,
    headers := getStrList j "headers" }

def enumValOf (v : Json) : Int × Str × Option Str :=
  ((match v.getObjValAs? Int "number" with | .ok n => n | .error _ => 0), getStr v "name", getOptStr v "custom")

def enumOf (e : Json) : EnumT :=
  { fullName := getStr e "full"
    hasCustom := getBool e "custom"
    values := (getArr e "values").map enumValOf }

def fileOf (j : Json) : File :=
  { name := getStr j "name", generate := getBool j "generate", goPkg := getStr j "go_pkg",
    messages := (getArr j "messages").map messageOf,
    enums := (getArr j "enums").map enumOf,
    services := (getArr j "services").map serviceOf }

def requestOf (j : Json) : Request := { files := (getArr j "files").map fileOf }

end Sebuf.Driver
