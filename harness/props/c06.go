package props

import (
	"encoding/json"
	"fmt"
	"math/big"
	"net/url"
	"sort"
	"strconv"
	"strings"
	"sync"

	"google.golang.org/protobuf/reflect/protoreflect"
	"google.golang.org/protobuf/types/dynamicpb"

	"verif/harness/drv"
	"verif/harness/gen"
	"verif/harness/ir"
	"verif/harness/scratch"
)

func init() { Registry["C06"] = C06 }

// stripAnnotations removes the documentation keywords the schema model leaves out, walking the
// schema by its applicator keywords (so that a PROPERTY named "description" is kept).
func stripAnnotations(v any) any {
	s, ok := v.(map[string]any)
	if !ok {
		return v
	}
	out := map[string]any{}
	for k, e := range s {
		switch k {
		case "description", "example", "examples":
			continue
		case "properties":
			pm, _ := e.(map[string]any)
			np := map[string]any{}
			for pk, pv := range pm {
				np[pk] = stripAnnotations(pv)
			}
			out[k] = np
		case "items", "additionalProperties", "not":
			out[k] = stripAnnotations(e)
		case "allOf", "oneOf", "anyOf":
			l, _ := e.([]any)
			nl := make([]any, len(l))
			for i, x := range l {
				nl[i] = stripAnnotations(x)
			}
			out[k] = nl
		default:
			out[k] = e
		}
	}
	return out
}

func hasNonFinite(v any) bool {
	switch x := v.(type) {
	case map[string]any:
		for _, e := range x {
			if hasNonFinite(e) {
				return true
			}
		}
	case []any:
		for _, e := range x {
			if hasNonFinite(e) {
				return true
			}
		}
	case string:
		return x == "NaN" || x == "Infinity" || x == "-Infinity"
	}
	return false
}

// C06: wire JSON bodies and parameters validate against the generated OpenAPI.
func C06(c *Ctx) error {
	res := c.Res
	res.Rule = "annotated message types x boundary-biased values (incl. the default and a fully populated value): the JSON the real compiled server encoder produces is validated with the Lean JSON-Schema validator against the component schema of the REAL emitted OpenAPI document of the same schema (valid, no undeclared property); runtime schemas: request bodies, path / query values the real Go client sends and the error bodies the real server writes (400 ValidationError, default Error, custom error types) against the operation's declared schemas; " +
		"a case is one (schema, type or rpc, value); non-trivial = populated value; distinct by (schema, type, value digest)"
	res.Assumptions = append(res.Assumptions, "JSON Schema validation is the Lean validator Sebuf.Schema.valid (format and pattern are annotations; a sample is cross-checked with python jsonschema Draft 2020-12)",
		"header values sent by the Go client's typed header options are covered under C08/C09, not here")
	r := gen.New(c.Seed)
	if err := c06Bodies(c, r); err != nil {
		return err
	}
	return c06Runtime(c, r)
}

type c06Doc struct {
	comps map[string]any
	doc   map[string]any
	err   string
}

// c06Document runs the OpenAPI plugin for the (single) service of a request.
func c06Document(req *ir.Request) map[string]*c06Doc {
	out := map[string]*c06Doc{}
	o, err := oaRun(req, "")
	if err != nil {
		return out
	}
	for _, s := range oaServices(req) {
		d := &c06Doc{}
		out[s.S.Name] = d
		if answerClass(o) != "files" {
			d.err = answerClass(o) + ": " + errText(o)
			continue
		}
		doc, err := parseYAMLDoc(o.Files[s.S.Name+".openapi.yaml"])
		if err != nil {
			d.err = err.Error()
			continue
		}
		d.doc = doc
		d.comps = oaComponents(doc)
	}
	return out
}

func shortOf(full string) string { return full[strings.LastIndex(full, ".")+1:] }

func c06Bodies(c *Ctx, r *gen.R) error {
	res := c.Res
	n := c.N(10, 80)
	per := c.N(10, 50)
	bt, items, err := buildBatch(n, func(i int) *ir.Request {
		if i == 0 {
			return gen.GenShapeZoo(i) // fixed shapes the random generators rarely draw
		}
		f := gen.GenAnnotFile(r.Fork(fmt.Sprint("C06-", i)), i, gen.AnnotOpts{Safe: true})
		return &ir.Request{Files: []*ir.File{f}, Generate: []string{f.Name}}
	}, scratch.AddOpts{GoHTTP: true}, false)
	if err != nil {
		return err
	}
	defer bt.Close()
	type kase struct {
		x       *rtItem
		full    string
		name    string
		val     *dynamicpb.Message
		encOp   map[string]any
		dop     map[string]any
		doc     *c06Doc
		special string // default | full | ""
	}
	var all []*kase
	docs := map[*rtItem]map[string]*c06Doc{}
	schemaBroken := map[string]bool{} // item id + "|" + message name: the emitted schema is not the modelled one
	for xi, x := range items {
		if !x.it.Built {
			res.Count("unbuildable")
			continue
		}
		docs[x] = c06Document(x.req)
		rr := r.Fork(fmt.Sprint("c06vals-", xi))
		model := x.req.ToModel()
		var svcDoc *c06Doc
		for _, d := range docs[x] {
			svcDoc = d
		}
		if svcDoc == nil || svcDoc.doc == nil {
			res.Count("no_document")
			continue
		}
		// schema correspondence, once per message
		var fulls []string
		for _, m := range x.file.Messages {
			fulls = append(fulls, "."+x.file.Package+"."+m.Name)
		}
		if so, err := drv.Run([]map[string]any{{"op": "oa_schema", "model": model, "messages": fulls}}); err == nil {
			for _, sv := range asList(so[0]["schemas"]) {
				sm, _ := sv.(map[string]any)
				full := fmt.Sprint(sm["full"])
				if mod, _ := sm["modelled"].(bool); !mod {
					res.Count("schema_unmodelled")
					continue
				}
				im, _ := x.req.FindMessage(full)
				if im != nil && hasRules(im) {
					res.Count("schema_with_rules_unmodelled")
					continue
				}
				realS, ok := svcDoc.comps[shortOf(full)]
				if !ok {
					continue
				}
				if d := firstDiff(normJSON(stripAnnotations(realS)), normJSON(sm["schema"]), ""); d != "" {
					res.Corr("component_schema", fmt.Sprintf("%s: the emitted component schema differs from the Lean schema model at %s", full, d), map[string]any{"schema": x.req, "type": full, "real": realS, "model": sm["schema"]})
					schemaBroken[x.it.ID+"|"+shortOf(full)] = true
				} else {
					res.CorrAgree()
				}
				// per-variant component schemas of flattened discriminated oneofs
				if vs, _ := sm["variants"].(map[string]any); len(vs) > 0 {
					for vn, vm := range vs {
						rv, ok := svcDoc.comps[vn]
						if !ok {
							res.Corr("variant_schema", fmt.Sprintf("%s: the document has no variant schema %s", full, vn), map[string]any{"schema": x.req, "type": full})
							continue
						}
						if d := firstDiff(normJSON(stripAnnotations(rv)), normJSON(vm), ""); d != "" {
							res.Corr("variant_schema", fmt.Sprintf("%s: variant schema %s differs from the Lean schema model at %s", full, vn, d), map[string]any{"schema": x.req, "type": full, "real": rv, "model": vm})
							schemaBroken[x.it.ID+"|"+shortOf(full)] = true
						} else {
							res.CorrAgree()
						}
					}
				}
			}
			// built-in error schemas
			bi, _ := so[0]["builtin"].(map[string]any)
			for name, ms := range bi {
				if _, user := x.req.FindMessage("." + x.file.Package + "." + name); user != nil {
					continue
				}
				if d := firstDiff(normJSON(stripAnnotations(svcDoc.comps[name])), normJSON(ms), ""); d != "" {
					res.Corr("builtin_schema", fmt.Sprintf("%s: differs from the Lean model at %s", name, d), map[string]any{"schema": x.req, "real": svcDoc.comps[name]})
				} else {
					res.CorrAgree()
				}
			}
		} else {
			res.Corr("driver", err.Error(), nil)
		}
		for _, m := range x.file.Messages {
			full := "." + x.file.Package + "." + m.Name
			md := x.msgDesc(full)
			if md == nil {
				continue
			}
			if _, in := svcDoc.comps[m.Name]; !in {
				res.Count("type_not_reachable_from_service") // completeness is C18's matter
				continue
			}
			for k := 0; k < per; k++ {
				sp, special := 2, ""
				if k == 0 {
					sp, special = 8, "default"
				}
				if k == 1 {
					sp, special = 0, "full"
				}
				if hasRules(m) && k != 1 {
					// a message with validation rules: only values that satisfy them travel (here: `required`,
					// met by every fully populated value)
					sp, special = 0, ""
				}
				vo := &gen.ValOpts{SparseP: sp, NonFinite: k%5 == 4}
				v := gen.RandomMessage(rr, md, vo, 0)
				if special == "default" {
					v = dynamicpb.NewMessage(md)
				}
				if k == 2 {
					// every proto3 `optional` scalar PRESENT with its zero value ("" / 0 / false): set, hence
					// `required` is met, and on the wire as the zero value
					fds := md.Fields()
					for fi := 0; fi < fds.Len(); fi++ {
						fd := fds.Get(fi)
						if fd.HasOptionalKeyword() && fd.Kind() != protoreflect.MessageKind && fd.Kind() != protoreflect.GroupKind {
							v.Set(fd, fd.Default())
							special = "optional_zero"
						}
					}
				}
				if hasRules(m) {
					satisfyRequired(m, v)
				}
				ks := &kase{x: x, full: full, name: m.Name, val: v, doc: svcDoc, special: special}
				ks.encOp = map[string]any{"op": "enc", "type": strings.TrimPrefix(full, "."), "val": jsonRaw(gen.PJ(v))}
				ks.dop = map[string]any{"op": "spec_enc", "rq": model, "type": full, "val": gen.ValJSON(v)}
				all = append(all, ks)
			}
		}
	}
	byItem := map[*rtItem][]*kase{}
	for _, k := range all {
		byItem[k.x] = append(byItem[k.x], k)
	}
	outs := map[*kase]map[string]any{}
	var mu sync.Mutex
	var runErr error
	var its []*rtItem
	for x := range byItem {
		its = append(its, x)
	}
	sort.Slice(its, func(a, b int) bool { return its[a].it.ID < its[b].it.ID })
	parallel(len(its), func(i int) {
		x := its[i]
		var ops []any
		for _, k := range byItem[x] {
			ops = append(ops, k.encOp)
		}
		o, err := runItem(x, ops)
		mu.Lock()
		defer mu.Unlock()
		if err != nil {
			runErr = err
			return
		}
		for j, k := range byItem[x] {
			outs[k] = o[j]
		}
	})
	if runErr != nil {
		return runErr
	}
	// Lean: Spec / Impl wire forms, then validation of the REAL wire JSON against the REAL schema
	var dops []map[string]any
	for _, k := range all {
		dops = append(dops, k.dop)
	}
	for _, k := range all {
		o := outs[k]
		inst := any(nil)
		if o != nil {
			inst = o["json"]
		}
		dops = append(dops, map[string]any{"op": "schema_valid", "components": k.doc.comps,
			"schema": map[string]any{"$ref": "#/components/schemas/" + k.name}, "instances": []any{inst}})
	}
	douts, err := drv.Run(dops)
	if err != nil {
		res.Corr("driver", "Lean driver failed: "+err.Error(), nil)
		return nil
	}
	// the CONTRACT form of the same values against the same real schema: where the server's JSON departs from
	// the documented mapping (recorded C05 findings) the real wire says nothing about the schema, but the
	// documented form must still validate
	specVerdict := map[int]map[string]any{}
	{
		var sops []map[string]any
		var idx []int
		for i, k := range all {
			d := douts[i]
			if mt, _ := d["modelled"].(bool); !mt || d["spec"] == nil {
				continue
			}
			sops = append(sops, map[string]any{"op": "schema_valid", "components": k.doc.comps,
				"schema": map[string]any{"$ref": "#/components/schemas/" + k.name}, "instances": []any{plainJSON(d["spec"])}})
			idx = append(idx, i)
		}
		if len(sops) > 0 {
			souts, err := drv.Run(sops)
			if err != nil {
				res.Corr("driver", "Lean driver failed: "+err.Error(), nil)
				return nil
			}
			for j, i := range idx {
				if vr := asList(souts[j]["results"]); len(vr) == 1 {
					specVerdict[i], _ = vr[0].(map[string]any)
				}
			}
		}
	}
	for i, k := range all {
		o := outs[k]
		populated := false
		k.val.Range(func(protoreflect.FieldDescriptor, protoreflect.Value) bool { populated = true; return false })
		res.Case(map[string]any{"schema": k.x.it.ID, "type": k.name, "val": hashStr(string(gen.PJ(k.val)))}, populated)
		feat := featureOf(k.name)
		res.Count("type:" + feat)
		if k.special != "" {
			res.Count("satisfiability:" + k.special)
		}
		replay := map[string]any{"schema": k.x.req, "type": k.full, "value": jsonRaw(gen.PJ(k.val)), "real": o, "component": k.doc.comps[k.name]}
		if fault, _ := o["fault"].(string); fault != "" {
			res.Violation("fault", k.name+": encoder "+fault, replay)
			continue
		}
		if e, ok := o["err"].(string); ok && e != "" {
			res.Count("encode_error") // C05's matter
			continue
		}
		d := douts[i]
		vr := asList(douts[len(all)+i]["results"])
		if len(vr) != 1 {
			res.Corr("driver", "schema_valid gave no verdict", replay)
			continue
		}
		verdict, _ := vr[0].(map[string]any)
		valid, _ := verdict["valid"].(bool)
		undeclared := asList(verdict["undeclared"])
		realJ := normJSON(o["json"])
		modelledT, _ := d["modelled"].(bool)
		wireCorr := !modelledT || firstDiff(realJ, normJSON(d["impl"]), "") == ""
		if valid && len(undeclared) == 0 {
			res.Count("valid")
			continue
		}
		// classify: does the server deviate from the documented mapping here (C05 face), or does the
		// schema reject the documented form?
		specDiff := firstDiff(realJ, normJSON(d["spec"]), "")
		// where the instance fails (Lean diagnostic): deepest member no applicable schema accepts, or the first undeclared member
		where := ""
		if fl := asList(verdict["failing"]); !valid && len(fl) > 0 {
			where = fmt.Sprint(fl[0])
		} else if len(undeclared) > 0 {
			where = fmt.Sprint(undeclared[0])
		}
		ctx := contextOf(k.x.req, k.full, "/"+where)
		var key, what string
		switch {
		case hasNonFinite(o["json"]) && !valid && isNonFiniteAt(o["json"], where):
			key = "non_finite_float"
			what = fmt.Sprintf("%s: a NaN / Infinity float is sent as a JSON string at %s, the schema says type number", k.name, where)
		case specDiff != "" && specVerdict[i] != nil && specVerdict[i]["valid"] == false && !hasNonFinite(d["spec"]):
			// the server departs from the mapping here, AND the documented form of the value is rejected too
			sw := ""
			if fl := asList(specVerdict[i]["failing"]); len(fl) > 0 {
				sw = fmt.Sprint(fl[0])
			}
			key = "schema_rejects_contract:" + contextOf(k.x.req, k.full, "/"+sw)
			what = fmt.Sprintf("%s: the documented JSON form of the value does not validate against the published schema at /%s", k.name, sw)
			replay["contract_form"] = d["spec"]
		case specDiff != "":
			key = "wire_not_contract:" + ctx
			what = fmt.Sprintf("%s: the server's JSON (which departs from the documented mapping, first at %s) does not validate against the published schema at /%s (valid=%v undeclared=%v)", k.name, specDiff, where, valid, undeclared)
		default:
			key = "schema_rejects_contract:" + ctx
			what = fmt.Sprintf("%s: the documented JSON form does not validate against the published schema at /%s (valid=%v undeclared=%v)", k.name, where, valid, undeclared)
		}
		if k.special != "" && !valid {
			what += " [" + k.special + " value: the component schema is not satisfied by it]"
		}
		// a listed class is accepted only when both the wire model and the schema model reproduce the real artefacts
		anySchemaBroken := false
		for k2 := range schemaBroken {
			if strings.HasPrefix(k2, k.x.it.ID+"|") {
				anySchemaBroken = true
			}
		}
		res.Divergence(key, what, wireCorr && !anySchemaBroken, replay)
	}
	res.Programs += len(items)
	return nil
}

// plainJSON turns the driver's tagged numbers ({"$int": text}, {"$float": text}) into JSON numbers.
func plainJSON(v any) any {
	switch x := v.(type) {
	case map[string]any:
		if len(x) == 1 {
			for _, k := range []string{"$int", "$float"} {
				if t, ok := x[k].(string); ok {
					return json.Number(t)
				}
			}
		}
		out := map[string]any{}
		for k, e := range x {
			out[k] = plainJSON(e)
		}
		return out
	case []any:
		out := make([]any, len(x))
		for i, e := range x {
			out[i] = plainJSON(e)
		}
		return out
	}
	return v
}

// satisfyRequired makes v meet the `required` rules of m: a required field WITHOUT presence (plain proto3
// scalar) must not hold its zero value — the generated values draw "" / 0 now and then.
func satisfyRequired(m *ir.Message, v *dynamicpb.Message) {
	for _, f := range m.Fields {
		if f.Rules == nil || !f.Rules.Required || f.Card != "" {
			continue
		}
		fd := v.Descriptor().Fields().ByName(protoreflect.Name(f.Name))
		if fd == nil || fd.HasPresence() || v.Has(fd) {
			continue
		}
		switch fd.Kind() {
		case protoreflect.StringKind:
			v.Set(fd, protoreflect.ValueOfString("x"))
		case protoreflect.BoolKind:
			v.Set(fd, protoreflect.ValueOfBool(true))
		case protoreflect.Int32Kind, protoreflect.Sint32Kind, protoreflect.Sfixed32Kind:
			v.Set(fd, protoreflect.ValueOfInt32(1))
		case protoreflect.Int64Kind, protoreflect.Sint64Kind, protoreflect.Sfixed64Kind:
			v.Set(fd, protoreflect.ValueOfInt64(1))
		}
	}
}

func hasRules(m *ir.Message) bool {
	for _, f := range m.Fields {
		if f.Rules != nil {
			return true
		}
	}
	return false
}

// oaOperation finds the operation object with the given operationId.
func oaOperation(doc map[string]any, id string) (template, verb string, op map[string]any) {
	paths, _ := doc["paths"].(map[string]any)
	for p, item := range paths {
		ops, _ := item.(map[string]any)
		for v, o := range ops {
			om, _ := o.(map[string]any)
			if om != nil && om["operationId"] == id {
				return p, v, om
			}
		}
	}
	return "", "", nil
}

func oaParam(op map[string]any, in, name string) map[string]any {
	for _, pv := range asList(op["parameters"]) {
		pm, _ := pv.(map[string]any)
		if pm["in"] == in && pm["name"] == name {
			return pm
		}
	}
	return nil
}

func contentSchema(holder any) any {
	h, _ := holder.(map[string]any)
	c, _ := h["content"].(map[string]any)
	mt, _ := c["application/json"].(map[string]any)
	return mt["schema"]
}

// coerceParam reads a URL value the way its declared schema type says (OpenAPI style=simple/form).
func coerceParam(schema any, text string) (any, bool) {
	s, _ := schema.(map[string]any)
	switch s["type"] {
	case "integer":
		if r, ok := new(big.Rat).SetString(text); ok && r.IsInt() && !strings.ContainsAny(text, "./eE") {
			return json.Number(r.Num().String()), true
		}
		return nil, false
	case "number":
		if _, err := strconv.ParseFloat(text, 64); err == nil && !strings.ContainsAny(text, "INin") {
			return json.Number(text), true
		}
		return nil, false
	case "boolean":
		if text == "true" || text == "false" {
			return text == "true", true
		}
		return nil, false
	}
	return text, true
}

func c06Runtime(c *Ctx, r *gen.R) error {
	res := c.Res
	// ---- error bodies: the fixed error schema of C10, JSON content type
	ne := c.N(1, 3)
	bt, items, err := buildBatch(ne, func(i int) *ir.Request { return gen.GenErrorFile(r.Fork(fmt.Sprint("c06err-", i)), i) }, scratch.AddOpts{GoHTTP: true}, false)
	if err != nil {
		return err
	}
	defer bt.Close()
	for _, x := range items {
		if !x.it.Built {
			res.Count("unbuildable")
			continue
		}
		docs := c06Document(x.req)
		d := docs["Errs"]
		if d == nil || d.doc == nil {
			res.Count("no_document")
			continue
		}
		pkg := x.file.Package
		nfMD := x.msgDesc("." + pkg + ".NotFoundError")
		nf := dynamicpb.NewMessage(nfMD)
		nf.Set(nfMD.Fields().ByName("resource"), protoreflect.ValueOfString("user/7"))
		nf.Set(nfMD.Fields().ByName("code"), protoreflect.ValueOfInt32(404))
		hdrs := [][2]string{{"Content-Type", "application/json"}, {"X-Req", "1"}}
		type ecase struct {
			name, rpc, method, url, body string
			hdrs                         [][2]string
			handler                      map[string]any
		}
		ok := map[string]any{"kind": "ok"}
		cases := []ecase{
			{"missing_header", "Post", "POST", "/e/p", `{"name":"n","qty":1}`, hdrs[:1], ok},
			{"malformed_body", "Post", "POST", "/e/p", `{"name": `, hdrs, ok},
			{"bad_path_value", "Get", "GET", "/e/g/abc?must=x", "", hdrs, ok},
			{"missing_required_query", "Get", "GET", "/e/g/5", "", hdrs, ok},
			{"rule_violation", "Post", "POST", "/e/p", `{"name":"","qty":-5}`, hdrs, ok},
			{"handler_plain_error", "Post", "POST", "/e/p", `{"name":"n","qty":1}`, hdrs, map[string]any{"kind": "err_plain", "msg": "boom"}},
			{"handler_empty_error", "Post", "POST", "/e/p", `{"name":"n","qty":1}`, hdrs, map[string]any{"kind": "err_plain", "msg": ""}},
			{"handler_sebuf_error", "Post", "POST", "/e/p", `{"name":"n","qty":1}`, hdrs, map[string]any{"kind": "err_sebuf", "msg": "denied"}},
			{"handler_validation_error", "Post", "POST", "/e/p", `{"name":"n","qty":1}`, hdrs, map[string]any{"kind": "err_validation", "violations": [][2]string{{"a.b", "bad"}, {"c", ""}}}},
			{"handler_empty_validation_error", "Post", "POST", "/e/p", `{"name":"n","qty":1}`, hdrs, map[string]any{"kind": "err_validation", "violations": [][2]string{}}},
			{"handler_custom_error", "Post", "POST", "/e/p", `{"name":"n","qty":1}`, hdrs, map[string]any{"kind": "err_custom", "err_type": pkg + ".NotFoundError", "err_val": jsonRaw(gen.PJ(nf))}},
		}
		var ops []any
		for _, ec := range cases {
			op := map[string]any{"op": "serve", "method": ec.method, "url": ec.url, "headers": ec.hdrs, "body": b64([]byte(ec.body)), "hook": "none", "handler": ec.handler, "err_type": pkg + ".NotFoundError"}
			if ec.method == "GET" {
				op["no_body"] = true
			}
			ops = append(ops, op)
		}
		outs, err := runItem(x, ops)
		if err != nil {
			return err
		}
		var dops []map[string]any
		type pend struct {
			ec     ecase
			o      map[string]any
			which  string
			schema any
		}
		var ps []pend
		for i, ec := range cases {
			o := outs[i]
			_, _, op := oaOperation(d.doc, ec.rpc)
			if op == nil {
				res.Violation("operation_missing", ec.rpc, map[string]any{"schema": x.req})
				continue
			}
			status := fmt.Sprint(o["status"])
			resps, _ := op["responses"].(map[string]any)
			which := status
			if _, okk := resps[status]; !okk {
				which = "default"
			}
			schema := contentSchema(resps[which])
			ps = append(ps, pend{ec, o, which, schema})
			dops = append(dops, map[string]any{"op": "schema_valid", "components": d.comps, "schema": schema, "instances": []any{o["body_json"]}})
		}
		douts, err := drv.Run(dops)
		if err != nil {
			res.Corr("driver", err.Error(), nil)
			continue
		}
		for i, p := range ps {
			res.Case(map[string]any{"schema": x.it.ID, "error_case": p.ec.name}, true)
			res.Count("error_body:" + p.ec.name + "->" + p.which)
			vr, _ := asList(douts[i]["results"])[0].(map[string]any)
			valid, _ := vr["valid"].(bool)
			und := asList(vr["undeclared"])
			replay := map[string]any{"schema": x.req, "case": p.ec.name, "real": p.o, "response": p.which, "response_schema": p.schema}
			if p.schema == nil {
				res.Violation("error_response_without_schema", p.ec.name, replay)
				continue
			}
			if p.o["body_json"] == nil {
				res.Violation("error_body_not_json", fmt.Sprintf("%s: status %v body is not JSON", p.ec.name, p.o["status"]), replay)
				continue
			}
			if valid && len(und) == 0 {
				res.CorrAgree()
				continue
			}
			// Impl: the Lean error-body model (OaSchema.errorBody / validationErrorBody) against the built-in schemas
			res.Divergence("error_body:"+p.ec.name, fmt.Sprintf("%s: status %v body %s does not validate against the %s response schema (valid=%v undeclared=%v)", p.ec.name, p.o["status"], canonJSON(p.o["body_json"]), p.which, valid, und),
				errorBodyImplAgrees(p.ec.name, valid, und), replay)
		}
	}
	// ---- request bodies and URL values the real Go client sends
	n := c.N(4, 30)
	per := c.N(6, 25)
	bt2, items2, err := buildBatch(n, func(i int) *ir.Request {
		return gen.GenRuntimeFile(r.Fork(fmt.Sprint("c06rt-", i)), i, gen.RuntimeOpts{ManyMethods: i%2 == 0, RenamedQuery: true, TrailingSlash: i%3 == 0, BytesRules: true, JSONNames: i%2 == 1})
	}, scratch.AddOpts{GoHTTP: true, GoClient: true}, false)
	if err != nil {
		return err
	}
	defer bt2.Close()
	for xi, x := range items2 {
		if !x.it.Built {
			res.Count("unbuildable")
			continue
		}
		docs := c06Document(x.req)
		var d *c06Doc
		for _, dd := range docs {
			d = dd
		}
		if d == nil || d.doc == nil {
			res.Count("no_document")
			continue
		}
		rr := r.Fork(fmt.Sprint("c06rtv-", xi))
		type pend struct {
			mi  *methodInfo
			op  map[string]any
			out map[string]any
		}
		var ps []*pend
		var ops []any
		for _, mi := range x.methods() {
			md := x.msgDesc(mi.m.Input)
			od := x.msgDesc(mi.m.Output)
			for k := 0; k < per; k++ {
				pb := map[string]bool{}
				for _, v := range mi.pathVars {
					pb[v] = true
				}
				reqMsg := gen.RandomMessage(rr, md, &gen.ValOpts{SparseP: 2, PathBound: pb, NonFinite: k%6 == 5}, 0)
				respMsg := gen.RandomMessage(rr, od, &gen.ValOpts{SparseP: 3}, 0)
				op := map[string]any{"op": "call", "rpc": mi.svc.Name + "." + mi.m.Name, "req_type": strings.TrimPrefix(mi.m.Input, "."),
					"req": jsonRaw(gen.PJ(reqMsg)), "handler": map[string]any{"kind": "ok", "resp": jsonRaw(gen.PJ(respMsg))}}
				ps = append(ps, &pend{mi: mi, op: op})
				ops = append(ops, op)
			}
		}
		outs, err := runItem(x, ops)
		if err != nil {
			return err
		}
		var dops []map[string]any
		type chk struct {
			p         *pend
			what      string
			schema    any
			inst      any
			skip      string
			nonFinite bool
		}
		var cs []*chk
		for i, p := range ps {
			p.out = outs[i]
			wire := asList(p.out["wire"])
			if len(wire) == 0 {
				res.Count("no_request_sent")
				continue
			}
			w, _ := wire[0].(map[string]any)
			tpl, _, op := oaOperation(d.doc, p.mi.m.Name)
			if op == nil {
				res.Violation("operation_missing", p.mi.m.Name, map[string]any{"schema": x.req})
				continue
			}
			// request body
			if bj, has := w["body_json"]; has && bj != nil {
				schema := contentSchema(op["requestBody"])
				if schema == nil {
					cs = append(cs, &chk{p: p, what: "request_body", skip: "the client sends a JSON body, the operation declares no requestBody"})
				} else {
					cs = append(cs, &chk{p: p, what: "request_body", schema: schema, inst: bj})
				}
			}
			// URL: path values by template position, query values by name
			target := fmt.Sprint(w["target"])
			rawPath, rawQuery, _ := strings.Cut(target, "?")
			tsegs := strings.Split(strings.Trim(tpl, "/"), "/")
			psegs := strings.Split(strings.Trim(rawPath, "/"), "/")
			if len(tsegs) == len(psegs) {
				for si, ts := range tsegs {
					if strings.HasPrefix(ts, "{") && strings.HasSuffix(ts, "}") {
						name := ts[1 : len(ts)-1]
						val, err := url.PathUnescape(psegs[si])
						if err != nil {
							continue
						}
						pm := oaParam(op, "path", name)
						if pm == nil {
							cs = append(cs, &chk{p: p, what: "path:" + name, skip: "path value sent for a variable the operation does not declare"})
							continue
						}
						inst, okc := coerceParam(pm["schema"], val)
						if !okc {
							cs = append(cs, &chk{p: p, what: "path:" + name, skip: fmt.Sprintf("value %q is not of the declared type %v", val, pm["schema"]), nonFinite: c06NonFiniteText(val)})
							continue
						}
						cs = append(cs, &chk{p: p, what: "path:" + name, schema: pm["schema"], inst: inst})
					}
				}
			} else {
				cs = append(cs, &chk{p: p, what: "path", skip: fmt.Sprintf("request path %s does not fit the template %s", rawPath, tpl)})
			}
			if q, err := url.ParseQuery(rawQuery); err == nil {
				for name, vals := range q {
					pm := oaParam(op, "query", name)
					if pm == nil {
						cs = append(cs, &chk{p: p, what: "query:" + name, skip: "query parameter sent that the operation does not declare"})
						continue
					}
					for _, val := range vals {
						inst, okc := coerceParam(pm["schema"], val)
						if !okc {
							cs = append(cs, &chk{p: p, what: "query:" + name, skip: fmt.Sprintf("value %q is not of the declared type %v", val, pm["schema"]), nonFinite: c06NonFiniteText(val)})
							continue
						}
						cs = append(cs, &chk{p: p, what: "query:" + name, schema: pm["schema"], inst: inst})
					}
				}
			}
		}
		for _, ck := range cs {
			if ck.skip == "" {
				dops = append(dops, map[string]any{"op": "schema_valid", "components": d.comps, "schema": ck.schema, "instances": []any{ck.inst}})
			}
		}
		douts, err := drv.Run(dops)
		if err != nil {
			res.Corr("driver", err.Error(), nil)
			continue
		}
		di := 0
		for _, ck := range cs {
			kind := strings.SplitN(ck.what, ":", 2)[0]
			res.Case(map[string]any{"schema": x.it.ID, "rpc": ck.p.mi.m.Name, "what": ck.what, "inst": hashStr(canonJSON(ck.inst))}, true)
			res.Count("sent:" + kind)
			replay := map[string]any{"schema": x.req, "call": ck.p.op, "wire": ck.p.out["wire"], "what": ck.what, "declared": ck.schema}
			if ck.skip != "" {
				if ck.nonFinite {
					res.Divergence("non_finite_float", fmt.Sprintf("%s %s: %s", ck.p.mi.m.Name, ck.what, ck.skip), true, replay)
					continue
				}
				res.Divergence("sent_"+kind+"_mismatch", fmt.Sprintf("%s %s: %s", ck.p.mi.m.Name, ck.what, ck.skip), false, replay)
				continue
			}
			vr, _ := asList(douts[di]["results"])[0].(map[string]any)
			di++
			valid, _ := vr["valid"].(bool)
			und := asList(vr["undeclared"])
			if valid && len(und) == 0 {
				res.CorrAgree()
				continue
			}
			key := "sent_" + kind + "_invalid"
			if hasNonFinite(ck.inst) {
				key = "non_finite_float"
			}
			res.Divergence(key, fmt.Sprintf("%s %s: %s does not validate against %s (valid=%v undeclared=%v)", ck.p.mi.m.Name, ck.what, canonJSON(ck.inst), canonJSON(ck.schema), valid, und), hasNonFinite(ck.inst), replay)
		}
	}
	res.Programs += len(items) + len(items2)
	return nil
}

// errorBodyImplAgrees: which error-body mismatches the Lean error-body model reproduces
// (Sebuf.C06 theorems): an empty violation list / an empty description are omitted by protojson
// while the built-in schemas require them; a custom error type has its own fields.
func errorBodyImplAgrees(name string, valid bool, und []any) bool {
	switch name {
	case "handler_empty_validation_error", "handler_validation_error":
		return !valid
	case "handler_custom_error":
		return valid && len(und) > 0
	}
	return false
}

// isNonFiniteAt: is the value at the slash path one of protojson's non-finite float strings?
func isNonFiniteAt(v any, path string) bool {
	if path != "" {
		for _, p := range strings.Split(path, "/") {
			switch x := v.(type) {
			case map[string]any:
				v = x[strings.NewReplacer("~1", "/", "~0", "~").Replace(p)] // RFC 6901 reference token
			case []any:
				i, err := strconv.Atoi(p)
				if err != nil || i < 0 || i >= len(x) {
					return false
				}
				v = x[i]
			default:
				return false
			}
		}
	}
	s, ok := v.(string)
	return ok && (s == "NaN" || s == "Infinity" || s == "-Infinity")
}

// c06NonFiniteText: how Go's client prints NaN / ±Inf float fields in URLs (fmt %v).
func c06NonFiniteText(s string) bool {
	switch s {
	case "NaN", "+Inf", "-Inf", "Inf":
		return true
	}
	return false
}
