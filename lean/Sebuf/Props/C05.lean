import Sebuf.Lemmas.Mapping
/-!
# C05 — server JSON follows the documented mapping wherever an annotated type occurs

`Spec` is `Mapping.enc` (the documented mapping, annotations honoured at every depth; `Mapping.pj`
is plain proto3 JSON). `Impl` is `WireEnc.wireEnc` (what the emitted Go encodes: the top-level
type's own `MarshalJSON`, children through protojson). The harness checks `Impl` against the REAL
emitted code for every generated schema and value (correspondence) and the real code against
`Spec` (oracle).

Proved:
* a schema without annotations is encoded by `Spec` exactly as proto3 JSON (`unannotated_is_proto3`);
* **the property, partial**: when only the top-level message carries annotations, the server's JSON
  IS the documented mapping (`server_follows_mapping_partial`);
* the full statement ("at any depth") is FALSE of `Impl` and of the real code: witnesses
  `depth_independence_fails_*` (known findings of C05, replayed on the real code by the harness).
-/
namespace Sebuf.C05
open Sebuf Sebuf.Mapping Sebuf.WireEnc

/-- every field without an annotation is encoded exactly as proto3 JSON does — for whole schemas
without annotations, at every depth, any fuel, any value. -/
theorem unannotated_is_proto3 (rq : Request) (h : rq.noAnn = true) (fuel : Nat) (m : Message)
    (hm : m ∈ rq.allMessages) (vs : List (Str × Val)) :
    enc rq fuel m vs = pj rq fuel m vs := enc_eq_pj_of_noAnn rq h fuel m hm vs

/-- a server whose schema carries no annotation sends plain proto3 JSON: `Impl = Spec = proto3`. -/
theorem unannotated_server_is_proto3 (rq : Request) (h : rq.noAnn = true) (fuel : Nat) (m : Message)
    (hm : m ∈ rq.allMessages) (hnd : (rq.allMessages.map (·.fullName)).Nodup) (vs : List (Str × Val)) :
    wireEnc rq fuel m vs = encMsg rq true true fuel m vs := by
  apply wireEnc_eq_spec_top_only
  refine ⟨fun x hx _ => Request.noAnn_messages h x hx, Request.noAnn_enums h, ?_, hnd, hm⟩
  intro f hf
  have := (Message.noAnn_iff m).mp (Request.noAnn_messages h m hm)
  exact ((Field.noAnn_iff f).mp (this.1 f hf)).2.2.1

/-- **C05, partial** — annotations only on the RPC's top-level message: the server's JSON is the
documented mapping (for the templates `WireEnc.modelled` covers, see the correspondence). -/
theorem server_follows_mapping_partial (rq : Request) (m : Message) (h : AnnotatedOnlyAtTop rq m)
    (fuel : Nat) (vs : List (Str × Val)) :
    wireEnc rq fuel m vs = encMsg rq true true fuel m vs := wireEnc_eq_spec_top_only rq m h fuel vs

/-- the hypothesis is satisfiable and the conclusion is not trivial: an `int64_encoding=NUMBER`
field on the top-level message goes out as a JSON number. -/
example : AnnotatedOnlyAtTop Witness.rqTop Witness.childMsg := Witness.top_only_child

/-- the full statement fails: the same annotated message nested in an unannotated parent is sent
with the 64-bit integer as a string (known finding `nested_int64_number_ignored`). -/
theorem depth_independence_fails_int64 (n : Nat) :
    wireEnc Witness.rqNested (n + 6) Witness.parentMsg Witness.vNested ≠
      enc Witness.rqNested (n + 6) Witness.parentMsg Witness.vNested := Witness.nested_int64_number_ignored n

/-- enum custom values never reach the wire (protojson does not consult the enum's `MarshalJSON`). -/
theorem depth_independence_fails_enum (n : Nat) :
    wireEnc Witness.rqEnum (n + 3) Witness.paintMsg Witness.vEnum ≠
      enc Witness.rqEnum (n + 3) Witness.paintMsg Witness.vEnum := Witness.enum_custom_value_never_on_wire n

end Sebuf.C05
