/-
Interleaving model of concurrent calls against a generated sebuf HTTP server, and of the
per-call option handling of the generated Go client. Definitions only; theorems are in
`Sebuf/Lemmas/Conc.lean`.

What is transcribed
-------------------
Server side. The only mutable state shared between calls of a generated `*_http_binding.pb.go`
is the lazily initialised validator:

    var ( validatorOnce sync.Once; validator protovalidate.Validator )
    func getValidator() Validator {
        validatorOnce.Do(func() { validator = protovalidate.New() }); return validator }

Everything else a call touches is request-local or a read-only table fixed at registration
(per-route header/param configuration is captured by value per route). A call is therefore a
program of three atomic steps executed in order,

  0. `getValidator`: if the cell is empty, fill it with `mk`; read the cell into the local `v`
     (`sync.Once` makes "test, fill, read" one atomic step for every observer);
  1. `compute`:      `out := f input v`          (touches no shared state);
  2. `respond`:      publish `out` as the call's result;

and a concurrent execution is an arbitrary interleaving (a schedule: a list of call indices) of
these steps.

The contrast model (`SharedBad`, `stepCallBad`, ...) adds one package-level variable `last`
that step 0 overwrites with the call's own input and that `compute` reads back; it is the shape
a generator would produce if it kept per-route configuration in a reassigned package variable.

Client side. A generated client method builds its headers on a fresh per-request map,

    headers := copy(c.defaultHeaders); for k, v := range perCall { headers[k] = v }

and never writes a field of the client struct. `rpc` is that method; `rpcBad` is the variant
which writes the merged map back into `c.defaultHeaders`.
-/

namespace Sebuf.Conc

/-! ## Server: shared `sync.Once` cell, calls, schedules -/

/-- State shared by all calls: the `sync.Once` cell (`none` = `Once` has not run yet). -/
structure Shared (Val : Type) where
  cell : Option Val
  deriving DecidableEq, Repr

/-- State local to one call. `pc` is the number of steps already executed (0..3). -/
structure CallSt (Input Output Val : Type) where
  input : Input
  pc : Nat
  v : Option Val
  out : Option Output
  result : Option Output
  deriving DecidableEq, Repr

/-- Global state: the shared cell plus one `CallSt` per call, indexed by position. -/
structure State (Input Output Val : Type) where
  shared : Shared Val
  calls : List (CallSt Input Output Val)
  deriving DecidableEq, Repr

variable {Input Output Val : Type}

/-- The next atomic step of one call against the shared state. -/
def stepOne (mk : Val) (f : Input → Val → Output) (sh : Shared Val)
    (c : CallSt Input Output Val) : Shared Val × CallSt Input Output Val :=
  match c.pc with
  | 0 =>
    -- getValidator: `Once.Do` fills an empty cell, then the cell is read.
    let val := match sh.cell with
      | none => mk
      | some v => v
    ({ cell := some val }, { c with pc := 1, v := some val })
  | 1 =>
    -- compute: request-local data and the validator read in step 0 only.
    (sh, { c with pc := 2, out := c.v.map (f c.input) })
  | 2 =>
    -- respond: publish.
    (sh, { c with pc := 3, result := c.out })
  | _ => (sh, c)

/-- Run the next step of call `i` (no-op when `i` is out of range or the call has finished). -/
def stepCall (mk : Val) (f : Input → Val → Output) (i : Nat)
    (s : State Input Output Val) : State Input Output Val :=
  match s.calls[i]? with
  | none => s
  | some c =>
    { shared := (stepOne mk f s.shared c).1
      calls := s.calls.set i (stepOne mk f s.shared c).2 }

/-- Execute a schedule: a list of call indices, any order, any repetition. -/
def run (mk : Val) (f : Input → Val → Output) (sched : List Nat)
    (s : State Input Output Val) : State Input Output Val :=
  sched.foldl (fun s i => stepCall mk f i s) s

/-- A call that has not started. -/
def initCall (x : Input) : CallSt Input Output Val :=
  { input := x, pc := 0, v := none, out := none, result := none }

/-- Initial state: empty cell, one fresh call per input. -/
def init (inputs : List Input) : State Input Output Val :=
  { shared := { cell := none }, calls := inputs.map initCall }

/-- Every call index below `n` is scheduled at least three times, so every call finishes. -/
def complete (sched : List Nat) (n : Nat) : Prop :=
  ∀ i, i < n → 3 ≤ sched.count i

instance (sched : List Nat) (n : Nat) : Decidable (complete sched n) := by
  unfold complete; exact inferInstance

/-- `completeN`: completeness for a given number of calls (the same predicate as `complete`). -/
abbrev completeN (sched : List Nat) (n : Nat) : Prop := complete sched n

/-- The result of issuing the call alone. -/
def alone (mk : Val) (f : Input → Val → Output) (x : Input) : Output := f x mk

/-- The published results, by call position. -/
def results (mk : Val) (f : Input → Val → Output) (sched : List Nat) (inputs : List Input) :
    List (Option Output) :=
  (run mk f sched (init inputs)).calls.map (·.result)

/-! ## Contrast model: `compute` also reads a shared variable other calls write -/

/-- Shared state of the contrast model: the `Once` cell and a package-level variable `last`. -/
structure SharedBad (Input Val : Type) where
  cell : Option Val
  last : Option Input
  deriving DecidableEq, Repr

structure StateBad (Input Output Val : Type) where
  shared : SharedBad Input Val
  calls : List (CallSt Input Output Val)
  deriving DecidableEq, Repr

/-- As `stepOne`, but step 0 also writes `last := input` and `compute` reads `last`. -/
def stepOneBad (mk : Val) (g : Input → Input → Val → Output) (sh : SharedBad Input Val)
    (c : CallSt Input Output Val) : SharedBad Input Val × CallSt Input Output Val :=
  match c.pc with
  | 0 =>
    let val := match sh.cell with
      | none => mk
      | some v => v
    ({ cell := some val, last := some c.input }, { c with pc := 1, v := some val })
  | 1 =>
    (sh, { c with pc := 2, out := match c.v, sh.last with
      | some v, some l => some (g c.input l v)
      | _, _ => none })
  | 2 => (sh, { c with pc := 3, result := c.out })
  | _ => (sh, c)

def stepCallBad (mk : Val) (g : Input → Input → Val → Output) (i : Nat)
    (s : StateBad Input Output Val) : StateBad Input Output Val :=
  match s.calls[i]? with
  | none => s
  | some c =>
    { shared := (stepOneBad mk g s.shared c).1
      calls := s.calls.set i (stepOneBad mk g s.shared c).2 }

def runBad (mk : Val) (g : Input → Input → Val → Output) (sched : List Nat)
    (s : StateBad Input Output Val) : StateBad Input Output Val :=
  sched.foldl (fun s i => stepCallBad mk g i s) s

def initBad (inputs : List Input) : StateBad Input Output Val :=
  { shared := { cell := none, last := none }, calls := inputs.map initCall }

def resultsBad (mk : Val) (g : Input → Input → Val → Output) (sched : List Nat)
    (inputs : List Input) : List (Option Output) :=
  (runBad mk g sched (initBad inputs)).calls.map (·.result)

/-! ## Client: per-call options -/

abbrev Headers := List (String × String)

/-- `headers[k] = v` on an insertion-ordered map. -/
def hset (k v : String) : Headers → Headers
  | [] => [(k, v)]
  | (k', v') :: rest => if k' = k then (k, v) :: rest else (k', v') :: hset k v rest

/-- `headers[k]`. -/
def hget (k : String) : Headers → Option String
  | [] => none
  | (k', v') :: rest => if k' = k then some v' else hget k rest

/-- The last binding of `k` in an option list (options are applied in order). -/
def lastBinding (k : String) : Headers → Option String
  | [] => none
  | (k', v') :: rest =>
    match lastBinding k rest with
    | some v => some v
    | none => if k' = k then some v' else none

/-- `headers := defaults; for k, v in perCall { headers[k] = v }`: defaults first, a later
binding of the same key wins. -/
def applyHeaders (defaults perCall : Headers) : Headers :=
  perCall.foldl (fun h kv => hset kv.1 kv.2 h) defaults

/-- The client struct: the only state that outlives one RPC. -/
structure Client where
  defaultHeaders : Headers
  deriving DecidableEq, Repr

/-- One generated RPC method: client state after the call, and the request's headers. The
client is only read. -/
def rpc (c : Client) (perCall : Headers) : Client × Headers :=
  (c, applyHeaders c.defaultHeaders perCall)

/-- Variant in which the RPC merges the per-call options into `c.defaultHeaders` itself. -/
def rpcBad (c : Client) (perCall : Headers) : Client × Headers :=
  ({ defaultHeaders := applyHeaders c.defaultHeaders perCall },
   applyHeaders c.defaultHeaders perCall)

/-- Issue the calls named by `order` one after the other on the same client; return the final
client and the log of `(call index, headers sent)`. -/
def issue (method : Client → Headers → Client × Headers) (opts : List Headers) :
    Client → List Nat → Client × List (Nat × Headers)
  | c, [] => (c, [])
  | c, j :: order =>
    let r := method c (opts.getD j [])
    let rest := issue method opts r.1 order
    (rest.1, (j, r.2) :: rest.2)

/-- Headers sent for (the first occurrence of) call `i` in a log. -/
def logLookup (i : Nat) : List (Nat × Headers) → Option Headers
  | [] => none
  | (j, h) :: rest => if j = i then some h else logLookup i rest

/-- Headers of call `i` when the calls are issued in the order `order`. -/
def requestHeadersOrd (method : Client → Headers → Client × Headers) (order : List Nat)
    (defaults : Headers) (opts : List Headers) (i : Nat) : Option Headers :=
  logLookup i (issue method opts { defaultHeaders := defaults } order).2

/-- Headers of call `i` when all calls `0 .. opts.length - 1` are issued, in index order, on
one client built with `defaults`. (`[]` if there is no call `i`.) -/
def requestHeaders (defaults : Headers) (opts : List Headers) (i : Nat) : Headers :=
  (requestHeadersOrd rpc (List.range opts.length) defaults opts i).getD []

/-- The same with the writing variant `rpcBad`. -/
def requestHeadersBad (defaults : Headers) (opts : List Headers) (i : Nat) : Headers :=
  (requestHeadersOrd rpcBad (List.range opts.length) defaults opts i).getD []

end Sebuf.Conc
