// Package protovalidate is an OFFLINE STAND-IN for buf.build/go/protovalidate, which is not
// in this sandbox's module cache. It has the API surface the code emitted by
// protoc-gen-go-http uses and evaluates the buf.validate rule subset of properties C10/C19
// (string len/pattern/in/const/well-known formats are limited to len/in/const/pattern;
// numeric gt/gte/lt/lte/in/const; repeated min/max/unique items; map min/max pairs;
// required), building field paths the way the real library documents them
// (FieldPath.elements with field_name, plus index / key subscripts). It is part of the
// trusted base of /verif (DESIGN.md §8 item 6).
package protovalidate

import (
	"fmt"
	"regexp"
	"sort"
	"strings"
	"unicode/utf8"

	validate "buf.build/gen/go/bufbuild/protovalidate/protocolbuffers/go/buf/validate"
	"google.golang.org/protobuf/proto"
	"google.golang.org/protobuf/reflect/protoreflect"
)

type ValidatorOption interface{}
type ValidationOption interface{}

type Validator interface {
	Validate(msg proto.Message, options ...ValidationOption) error
}

type Violation struct {
	Proto           *validate.Violation
	FieldValue      protoreflect.Value
	FieldDescriptor protoreflect.FieldDescriptor
	RuleValue       protoreflect.Value
	RuleDescriptor  protoreflect.FieldDescriptor
}

type ValidationError struct {
	Violations []*Violation
}

func (e *ValidationError) Error() string {
	var parts []string
	for _, v := range e.Violations {
		parts = append(parts, v.Proto.GetMessage())
	}
	return "validation error: " + strings.Join(parts, "; ")
}

type validator struct{}

func New(options ...ValidatorOption) (Validator, error) { return &validator{}, nil }

func Validate(msg proto.Message, options ...ValidationOption) error {
	return (&validator{}).Validate(msg)
}

func (v *validator) Validate(msg proto.Message, options ...ValidationOption) error {
	if msg == nil {
		return nil
	}
	var out []*Violation
	walk(msg.ProtoReflect(), nil, &out, 0)
	if len(out) == 0 {
		return nil
	}
	return &ValidationError{Violations: out}
}

func elem(fd protoreflect.FieldDescriptor) *validate.FieldPathElement {
	t := descriptorType(fd)
	return &validate.FieldPathElement{
		FieldNumber: proto.Int32(int32(fd.Number())),
		FieldName:   proto.String(string(fd.Name())),
		FieldType:   &t,
	}
}

func walk(m protoreflect.Message, path []*validate.FieldPathElement, out *[]*Violation, depth int) {
	if depth > 64 {
		return
	}
	fds := m.Descriptor().Fields()
	for i := 0; i < fds.Len(); i++ {
		fd := fds.Get(i)
		rules := fieldRules(fd)
		here := append(append([]*validate.FieldPathElement{}, path...), elem(fd))
		has := m.Has(fd)
		if rules != nil {
			if rules.GetRequired() && !has {
				add(out, here, "required", "value is required")
				continue
			}
			// proto3 implicit-presence fields are validated even when zero; fields with
			// presence (optional, message, oneof member) only when set.
			if has || !fd.HasPresence() {
				checkField(fd, m.Get(fd), rules, here, out)
			}
		}
		if !has {
			continue
		}
		switch {
		case fd.IsMap():
			if fd.MapValue().Kind() == protoreflect.MessageKind {
				var keys []protoreflect.MapKey
				m.Get(fd).Map().Range(func(k protoreflect.MapKey, _ protoreflect.Value) bool { keys = append(keys, k); return true })
				sort.Slice(keys, func(a, b int) bool { return keys[a].String() < keys[b].String() })
				for _, k := range keys {
					walk(m.Get(fd).Map().Get(k).Message(), here, out, depth+1)
				}
			}
		case fd.IsList():
			if fd.Kind() == protoreflect.MessageKind {
				l := m.Get(fd).List()
				for j := 0; j < l.Len(); j++ {
					walk(l.Get(j).Message(), here, out, depth+1)
				}
			}
		case fd.Kind() == protoreflect.MessageKind:
			walk(m.Get(fd).Message(), here, out, depth+1)
		}
	}
}

func fieldRules(fd protoreflect.FieldDescriptor) *validate.FieldRules {
	opts := fd.Options()
	if opts == nil || !proto.HasExtension(opts, validate.E_Field) {
		return nil
	}
	// The descriptor may come from a dynamically built file: round-trip unknown extension bytes.
	ext := proto.GetExtension(opts, validate.E_Field)
	fr, _ := ext.(*validate.FieldRules)
	return fr
}

func add(out *[]*Violation, path []*validate.FieldPathElement, rule, msg string) {
	*out = append(*out, &Violation{Proto: &validate.Violation{
		Field:   &validate.FieldPath{Elements: path},
		RuleId:  proto.String(rule),
		Message: proto.String(msg),
	}})
}

func checkField(fd protoreflect.FieldDescriptor, v protoreflect.Value, r *validate.FieldRules, path []*validate.FieldPathElement, out *[]*Violation) {
	switch {
	case fd.IsMap():
		mr := r.GetMap()
		if mr == nil {
			return
		}
		n := uint64(v.Map().Len())
		if mr.MinPairs != nil && n < mr.GetMinPairs() {
			add(out, path, "map.min_pairs", fmt.Sprintf("map must be at least %d entries", mr.GetMinPairs()))
		}
		if mr.MaxPairs != nil && n > mr.GetMaxPairs() {
			add(out, path, "map.max_pairs", fmt.Sprintf("map must be at most %d entries", mr.GetMaxPairs()))
		}
		if vr := mr.GetValues(); vr != nil {
			var keys []protoreflect.MapKey
			v.Map().Range(func(k protoreflect.MapKey, _ protoreflect.Value) bool { keys = append(keys, k); return true })
			sort.Slice(keys, func(a, b int) bool { return keys[a].String() < keys[b].String() })
			for _, k := range keys {
				checkScalar(fd.MapValue(), v.Map().Get(k), vr, path, out)
			}
		}
	case fd.IsList():
		rr := r.GetRepeated()
		if rr == nil {
			return
		}
		l := v.List()
		n := uint64(l.Len())
		if rr.MinItems != nil && n < rr.GetMinItems() {
			add(out, path, "repeated.min_items", fmt.Sprintf("value must contain at least %d item(s)", rr.GetMinItems()))
		}
		if rr.MaxItems != nil && n > rr.GetMaxItems() {
			add(out, path, "repeated.max_items", fmt.Sprintf("value must contain no more than %d item(s)", rr.GetMaxItems()))
		}
		if rr.GetUnique() {
			seen := map[string]bool{}
			for j := 0; j < l.Len(); j++ {
				k := fmt.Sprintf("%v", l.Get(j).Interface())
				if seen[k] {
					add(out, path, "repeated.unique", "repeated value must contain unique items")
					break
				}
				seen[k] = true
			}
		}
		if ir := rr.GetItems(); ir != nil {
			for j := 0; j < l.Len(); j++ {
				checkScalar(fd, l.Get(j), ir, path, out)
			}
		}
	default:
		checkScalar(fd, v, r, path, out)
	}
}

func checkScalar(fd protoreflect.FieldDescriptor, v protoreflect.Value, r *validate.FieldRules, path []*validate.FieldPathElement, out *[]*Violation) {
	switch fd.Kind() {
	case protoreflect.StringKind:
		sr := r.GetString()
		if sr == nil {
			return
		}
		s := v.String()
		n := uint64(utf8.RuneCountInString(s))
		if sr.Len != nil && n != sr.GetLen() {
			add(out, path, "string.len", fmt.Sprintf("value length must be %d characters", sr.GetLen()))
		}
		if sr.MinLen != nil && n < sr.GetMinLen() {
			add(out, path, "string.min_len", fmt.Sprintf("value length must be at least %d characters", sr.GetMinLen()))
		}
		if sr.MaxLen != nil && n > sr.GetMaxLen() {
			add(out, path, "string.max_len", fmt.Sprintf("value length must be at most %d characters", sr.GetMaxLen()))
		}
		if sr.Pattern != nil {
			if re, err := regexp.Compile(sr.GetPattern()); err == nil && !re.MatchString(s) {
				add(out, path, "string.pattern", fmt.Sprintf("value does not match regex pattern `%s`", sr.GetPattern()))
			}
		}
		if sr.Const != nil && s != sr.GetConst() {
			add(out, path, "string.const", fmt.Sprintf("value must equal `%s`", sr.GetConst()))
		}
		if len(sr.GetIn()) > 0 {
			ok := false
			for _, x := range sr.GetIn() {
				if x == s {
					ok = true
				}
			}
			if !ok {
				add(out, path, "string.in", "value must be in list")
			}
		}
	case protoreflect.BoolKind, protoreflect.BytesKind, protoreflect.EnumKind, protoreflect.MessageKind, protoreflect.GroupKind:
		return
	default:
		checkNumeric(fd, v, r, path, out)
	}
}

// num is an exact comparison domain for the numeric kinds: signed, unsigned or float.
type num struct {
	kind int // 0 int, 1 uint, 2 float
	i    int64
	u    uint64
	f    float64
}

func cmp(a, b num) int {
	switch a.kind {
	case 0:
		if a.i < b.i {
			return -1
		} else if a.i > b.i {
			return 1
		}
	case 1:
		if a.u < b.u {
			return -1
		} else if a.u > b.u {
			return 1
		}
	default:
		if a.f < b.f {
			return -1
		} else if a.f > b.f {
			return 1
		} else if a.f != b.f {
			return 2 // NaN
		}
	}
	return 0
}

func toNum(k protoreflect.Kind, v protoreflect.Value) num {
	switch k {
	case protoreflect.Int32Kind, protoreflect.Sint32Kind, protoreflect.Sfixed32Kind, protoreflect.Int64Kind, protoreflect.Sint64Kind, protoreflect.Sfixed64Kind:
		return num{kind: 0, i: v.Int()}
	case protoreflect.Uint32Kind, protoreflect.Fixed32Kind, protoreflect.Uint64Kind, protoreflect.Fixed64Kind:
		return num{kind: 1, u: v.Uint()}
	default:
		return num{kind: 2, f: v.Float()}
	}
}

func checkNumeric(fd protoreflect.FieldDescriptor, v protoreflect.Value, r *validate.FieldRules, path []*validate.FieldPathElement, out *[]*Violation) {
	name := protoreflect.Name(fd.Kind().String())
	rm := r.ProtoReflect()
	rfd := rm.Descriptor().Fields().ByName(name)
	if rfd == nil || !rm.Has(rfd) {
		return
	}
	nm := rm.Get(rfd).Message()
	x := toNum(fd.Kind(), v)
	get := func(n string) (num, bool) {
		f := nm.Descriptor().Fields().ByName(protoreflect.Name(n))
		if f == nil || !nm.Has(f) {
			return num{}, false
		}
		return toNum(fd.Kind(), nm.Get(f)), true
	}
	pre := string(name)
	if b, ok := get("gt"); ok && !(cmp(x, b) == 1) {
		add(out, path, pre+".gt", "value must be greater than bound")
	}
	if b, ok := get("gte"); ok && !(cmp(x, b) == 1 || cmp(x, b) == 0) {
		add(out, path, pre+".gte", "value must be greater than or equal to bound")
	}
	if b, ok := get("lt"); ok && !(cmp(x, b) == -1) {
		add(out, path, pre+".lt", "value must be less than bound")
	}
	if b, ok := get("lte"); ok && !(cmp(x, b) == -1 || cmp(x, b) == 0) {
		add(out, path, pre+".lte", "value must be less than or equal to bound")
	}
	if b, ok := get("const"); ok && cmp(x, b) != 0 {
		add(out, path, pre+".const", "value must equal const")
	}
	if f := nm.Descriptor().Fields().ByName("in"); f != nil && nm.Get(f).List().Len() > 0 {
		l := nm.Get(f).List()
		ok := false
		for j := 0; j < l.Len(); j++ {
			if cmp(x, toNum(fd.Kind(), l.Get(j))) == 0 {
				ok = true
			}
		}
		if !ok {
			add(out, path, pre+".in", "value must be in list")
		}
	}
}
