package main

import (
	"fmt"
	"go/ast"
	"go/parser"
	"go/token"
	"os"
	"strconv"
	"strings"
)

func init() { register("OaRules", extractOaRules) }

const oaValidationSrc = "internal/openapiv3/validation.go"

// extractOaRules reads internal/openapiv3/validation.go (property C19):
//   - the `switch field.Desc.Kind()` of extractValidationConstraints: kind -> apply function;
//   - the FieldRules getter each apply function reads;
//   - per apply function, which rule accessor guards which schema field, in source order;
//   - the keys and the N value of every composite literal stored in ExclusiveMinimum /
//     ExclusiveMaximum (a base.DynamicValue renders its B side only when N is 1);
//   - the keys of every &yaml.Node{...} literal (an untagged scalar is re-typed by the reader);
//   - the well-known format switch of applyStringConstraints;
//   - the conversions applied to the count rules (int64(uint64)).
func extractOaRules() (string, error) {
	_, f, err := parseFile(oaValidationSrc)
	if err != nil {
		return "", err
	}
	ev := findFunc(f, "extractValidationConstraints")
	if ev == nil {
		return "", fmt.Errorf("extractValidationConstraints not found")
	}
	sw := kindSwitch(ev)
	if sw == nil {
		return "", fmt.Errorf("no switch on field.Desc.Kind() in extractValidationConstraints")
	}
	var kindApply [][2]string
	applyFuncs := []string{}
	seenApply := map[string]bool{}
	for _, c := range sw.Body.List {
		cc := c.(*ast.CaseClause)
		callee := ""
		for _, st := range cc.Body {
			if es, ok := st.(*ast.ExprStmt); ok {
				if call, ok := es.X.(*ast.CallExpr); ok {
					callee = exprString(call.Fun)
				}
			}
		}
		for _, e := range cc.List {
			k, err := kindName(e)
			if err != nil {
				return "", err
			}
			kindApply = append(kindApply, [2]string{k, callee})
		}
		if callee != "" && !seenApply[callee] {
			seenApply[callee] = true
			applyFuncs = append(applyFuncs, callee)
		}
	}
	// the list / map branches
	var cardApply [][2]string
	ast.Inspect(ev.Body, func(n ast.Node) bool {
		is, ok := n.(*ast.IfStmt)
		if !ok {
			return true
		}
		cond := exprString(is.Cond)
		if cond == "field.Desc.IsList()" || cond == "field.Desc.IsMap()" {
			for _, st := range is.Body.List {
				if es, ok := st.(*ast.ExprStmt); ok {
					if call, ok := es.X.(*ast.CallExpr); ok {
						name := exprString(call.Fun)
						cardApply = append(cardApply, [2]string{strings.TrimSuffix(strings.TrimPrefix(cond, "field.Desc."), "()"), name})
						if !seenApply[name] {
							seenApply[name] = true
							applyFuncs = append(applyFuncs, name)
						}
					}
				}
			}
		}
		return true
	})
	if len(kindApply) == 0 || len(cardApply) != 2 {
		return "", fmt.Errorf("unexpected shape of extractValidationConstraints (%d kind rows, %d cardinality rows)", len(kindApply), len(cardApply))
	}
	var applyGetter [][2]string
	var assigns, exclusive, nodeLits, countConv, nodeCalls []string
	nodeHelpers := map[string]string{}
	var nodeHelperOrder []string
	var formatSwitch [][2]string
	for _, name := range applyFuncs {
		fd := findFunc(f, name)
		if fd == nil {
			return "", fmt.Errorf("%s not found", name)
		}
		getter := ""
		ast.Inspect(fd.Body, func(n ast.Node) bool {
			if getter != "" {
				return false
			}
			if as, ok := n.(*ast.AssignStmt); ok && as.Tok == token.DEFINE && len(as.Rhs) == 1 {
				if call, ok := as.Rhs[0].(*ast.CallExpr); ok {
					if sel, ok := call.Fun.(*ast.SelectorExpr); ok && exprString(sel.X) == "constraints" {
						getter = sel.Sel.Name
					}
				}
			}
			return true
		})
		if getter == "" {
			return "", fmt.Errorf("%s: no `x := constraints.GetY()`", name)
		}
		applyGetter = append(applyGetter, [2]string{name, getter})
		// guarded assignments `if c.HasX() / c.GetX() / len(c.GetX()) > 0 { ... schema.F = ... }`
		// an apply function may hand its rule group to a shared helper (applyIntegerRules[T]): the
		// helper's assignments are attributed to the apply function that reads the group
		var scan func(stmts []ast.Stmt, depth int)
		scan = func(stmts []ast.Stmt, depth int) {
			for _, st := range stmts {
				if es, ok := st.(*ast.ExprStmt); ok && depth == 0 {
					if call, ok := es.X.(*ast.CallExpr); ok {
						fun := call.Fun
						if ix, ok := fun.(*ast.IndexExpr); ok {
							fun = ix.X
						}
						if id, ok := fun.(*ast.Ident); ok {
							if helper := findFunc(f, id.Name); helper != nil {
								scan(helper.Body.List, depth+1)
							}
						}
					}
					continue
				}
				is, ok := st.(*ast.IfStmt)
				if !ok {
					if ss, ok := st.(*ast.SwitchStmt); ok && ss.Tag == nil {
						for _, c := range ss.Body.List {
							cc := c.(*ast.CaseClause)
							if len(cc.List) != 1 {
								continue
							}
							acc := accessorOf(cc.List[0])
							for _, b := range cc.Body {
								if as, ok := b.(*ast.AssignStmt); ok && len(as.Lhs) == 1 && exprString(as.Lhs[0]) == "schema.Format" {
									if bl, ok := as.Rhs[0].(*ast.BasicLit); ok {
										v, _ := strconv.Unquote(bl.Value)
										formatSwitch = append(formatSwitch, [2]string{acc, v})
									}
								}
							}
						}
					}
					continue
				}
				acc := accessorOf(is.Cond)
				if acc == "" {
					continue
				}
				ast.Inspect(is.Body, func(n ast.Node) bool {
					switch x := n.(type) {
					case *ast.AssignStmt:
						if len(x.Lhs) == 1 && strings.HasPrefix(exprString(x.Lhs[0]), "schema.") {
							field := strings.TrimPrefix(exprString(x.Lhs[0]), "schema.")
							assigns = append(assigns, leanTuple(name, acc, field))
							if field == "ExclusiveMinimum" || field == "ExclusiveMaximum" {
								exclusive = append(exclusive, fmt.Sprintf("(%s, %s, %s, %s)", leanStr(name), leanStr(field), leanStrList(litKeys(x.Rhs[0])), leanStr(litValue(x.Rhs[0], "N"))))
							}
						}
						// local := int64(x.GetY())
						if x.Tok == token.DEFINE && len(x.Rhs) == 1 {
							if call, ok := x.Rhs[0].(*ast.CallExpr); ok && len(call.Args) == 1 {
								if id, ok := call.Fun.(*ast.Ident); ok && (id.Name == "int64" || id.Name == "float64") {
									if strings.Contains(srcOf(call.Args[0]), ".Get") {
										countConv = append(countConv, leanTuple(name, acc, id.Name))
									}
								}
							}
						}
					case *ast.CompositeLit:
						if srcOf(x.Type) == "yaml.Node" {
							nodeLits = append(nodeLits, fmt.Sprintf("(%s, %s, %s)", leanStr(name), leanStr(acc), leanStrList(litKeys(x))))
						}
					case *ast.CallExpr:
						// a value built by a helper of the file that returns a yaml.Node literal (stringNode)
						if id, ok := x.Fun.(*ast.Ident); ok {
							// (the helper may live in any file of the package)
							if h := findFuncInDir("internal/openapiv3", id.Name); h != nil && h.Body != nil {
								var lit *ast.CompositeLit
								ast.Inspect(h.Body, func(m ast.Node) bool {
									if cl, ok := m.(*ast.CompositeLit); ok && lit == nil && srcOf(cl.Type) == "yaml.Node" {
										lit = cl
									}
									return lit == nil
								})
								if lit != nil {
									nodeCalls = append(nodeCalls, leanTuple(name, acc, id.Name))
									if _, seen := nodeHelpers[id.Name]; !seen {
										nodeHelperOrder = append(nodeHelperOrder, id.Name)
									}
									nodeHelpers[id.Name] = fmt.Sprintf("(%s, %s, %s)", leanStr(id.Name), leanStrList(litKeys(lit)), leanStr(litValue(lit, "Tag")))
								}
							}
						}
					}
					return true
				})
			}
		}
		scan(fd.Body.List, 0)
	}
	if len(formatSwitch) == 0 {
		return "", fmt.Errorf("well-known format switch not found in applyStringConstraints")
	}
	var b strings.Builder
	b.WriteString(header("OaRules", oaValidationSrc))
	fmt.Fprintf(&b, "/-- `switch field.Desc.Kind()` of extractValidationConstraints: kind ↦ apply function (\"\" = none). -/\ndef kindApply : List (String × String) := %s\n", leanPairs(kindApply))
	fmt.Fprintf(&b, "/-- the `IsList()` / `IsMap()` branches. -/\ndef cardApply : List (String × String) := %s\n", leanPairs(cardApply))
	fmt.Fprintf(&b, "/-- apply function ↦ the FieldRules getter it reads. -/\ndef applyGetter : List (String × String) := %s\n", leanPairs(applyGetter))
	fmt.Fprintf(&b, "/-- (apply function, guarding rule accessor, schema field assigned), in source order. -/\ndef assigns : List (String × String × String) := %s\n", leanList(assigns))
	fmt.Fprintf(&b, "/-- the composite literals stored in ExclusiveMinimum / ExclusiveMaximum: (apply function, schema field, keys of the literal, source text of its `N` value or \"\"). -/\ndef exclusiveLits : List (String × String × List String × String) := %s\n", leanList(exclusive))
	fmt.Fprintf(&b, "/-- keys of every `yaml.Node{...}` literal (apply function, guarding accessor, keys). -/\ndef nodeLits : List (String × String × List String) := %s\n", leanList(nodeLits))
	var helperRows []string
	for _, h := range nodeHelperOrder {
		helperRows = append(helperRows, nodeHelpers[h])
	}
	fmt.Fprintf(&b, "/-- values built by a node helper of the file instead of a literal: (apply function, guarding accessor, helper). -/\ndef nodeCalls : List (String × String × String) := %s\n", leanList(nodeCalls))
	fmt.Fprintf(&b, "/-- the `yaml.Node{...}` literal each such helper returns: (helper, keys, source text of its `Tag` value or \"\"). -/\ndef nodeHelpers : List (String × List String × String) := %s\n", leanList(helperRows))
	fmt.Fprintf(&b, "/-- numeric conversions applied to rule values before they are stored (apply function, accessor, conversion). -/\ndef conversions : List (String × String × String) := %s\n", leanList(countConv))
	fmt.Fprintf(&b, "/-- the well-known format switch of applyStringConstraints: accessor ↦ format, in source order. -/\ndef formatSwitch : List (String × String) := %s\n", leanPairs(formatSwitch))
	// what can keep a field's rules from being read at all: the calls made inside the conditions of the early returns
	// that precede the rule translation (and of the helper that fetches the rules, if one is used). Nil-ness tests
	// make no calls; a condition on the CONTENT of the rules (an `ignore` option, a kind, a name) does.
	var guardCalls []string
	for _, fn := range []string{"extractValidationConstraints", "checkIfFieldRequired"} {
		if fd := findFunc(f, fn); fd != nil {
			guardCalls = append(guardCalls, earlyReturnCalls(f, fd, 1)...)
		}
	}
	b.WriteString("/-- calls made in the conditions of early returns before the rules of a field are translated / its `required` flag is read (helpers followed one level). -/\n")
	fmt.Fprintf(&b, "def guardCalls : List String := %s\n", leanStrList(guardCalls))
	b.WriteString("end Sebuf.Gen.OaRules\n")
	return b.String(), nil
}

// accessorOf names the rule accessor a condition tests: `c.HasGte()` -> "HasGte",
// `c.GetUnique()` -> "GetUnique", `len(c.GetIn()) > 0` -> "GetIn".
func accessorOf(e ast.Expr) string {
	switch x := e.(type) {
	case *ast.CallExpr:
		if sel, ok := x.Fun.(*ast.SelectorExpr); ok {
			return sel.Sel.Name
		}
		if id, ok := x.Fun.(*ast.Ident); ok && id.Name == "len" && len(x.Args) == 1 {
			return accessorOf(x.Args[0])
		}
	case *ast.BinaryExpr:
		return accessorOf(x.X)
	case *ast.ParenExpr:
		return accessorOf(x.X)
	}
	return ""
}

// litValue returns the source text of the value a composite literal gives to key ("" if absent).
func litValue(e ast.Expr, key string) string {
	if u, ok := e.(*ast.UnaryExpr); ok {
		e = u.X
	}
	cl, ok := e.(*ast.CompositeLit)
	if !ok {
		return ""
	}
	for _, el := range cl.Elts {
		if kv, ok := el.(*ast.KeyValueExpr); ok && exprString(kv.Key) == key {
			return srcOf(kv.Value)
		}
	}
	return ""
}

// litKeys lists the field keys of a (possibly address-taken) composite literal.
func litKeys(e ast.Expr) []string {
	if u, ok := e.(*ast.UnaryExpr); ok {
		e = u.X
	}
	cl, ok := e.(*ast.CompositeLit)
	if !ok {
		return []string{"?"}
	}
	keys := []string{}
	for _, el := range cl.Elts {
		if kv, ok := el.(*ast.KeyValueExpr); ok {
			keys = append(keys, exprString(kv.Key))
		} else {
			keys = append(keys, "?")
		}
	}
	return keys
}

// findFuncInDir finds a top-level function by name in any non-test Go file of a package directory of the repository.
func findFuncInDir(dir, name string) *ast.FuncDecl {
	ents, err := os.ReadDir(repo(dir))
	if err != nil {
		return nil
	}
	for _, e := range ents {
		n := e.Name()
		if !strings.HasSuffix(n, ".go") || strings.HasSuffix(n, "_test.go") {
			continue
		}
		pf, err := parser.ParseFile(token.NewFileSet(), repo(dir+"/"+n), nil, 0)
		if err != nil {
			continue
		}
		if fd := findFunc(pf, name); fd != nil {
			return fd
		}
	}
	return nil
}

// earlyReturnCalls lists the calls that occur in the conditions of the top-level `if … { return … }` statements of fd
// that precede its first switch (or its end), following helpers of the same file that are called in plain assignments
// (`x := helper(field)`) `depth` levels down.
func earlyReturnCalls(f *ast.File, fd *ast.FuncDecl, depth int) []string {
	var out []string
	for _, st := range fd.Body.List {
		if _, ok := st.(*ast.SwitchStmt); ok {
			break
		}
		switch x := st.(type) {
		case *ast.IfStmt:
			returns := false
			for _, b := range x.Body.List {
				if _, ok := b.(*ast.ReturnStmt); ok {
					returns = true
				}
			}
			if !returns {
				continue
			}
			ast.Inspect(x.Cond, func(n ast.Node) bool {
				if c, ok := n.(*ast.CallExpr); ok {
					out = append(out, fd.Name.Name+": "+srcOf(c))
				}
				return true
			})
			if x.Init != nil {
				ast.Inspect(x.Init, func(n ast.Node) bool {
					if c, ok := n.(*ast.CallExpr); ok {
						if id, ok := c.Fun.(*ast.Ident); ok && depth > 0 {
							if h := findFunc(f, id.Name); h != nil && h.Body != nil {
								out = append(out, earlyReturnCalls(f, h, depth-1)...)
							}
						}
					}
					return true
				})
			}
		case *ast.AssignStmt:
			for _, r := range x.Rhs {
				if c, ok := r.(*ast.CallExpr); ok {
					if id, ok := c.Fun.(*ast.Ident); ok && depth > 0 {
						if h := findFunc(f, id.Name); h != nil && h.Body != nil {
							out = append(out, earlyReturnCalls(f, h, depth-1)...)
						}
					}
				}
			}
		}
	}
	return out
}
