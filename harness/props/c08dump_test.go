package props

import (
	"os"
	"path/filepath"
	"strings"
	"testing"
	"encoding/json"

	"verif/harness/gen"
	"verif/harness/plug"
)

func TestC08Dump(t *testing.T) {
	r := gen.New(1)
	req := gen.GenMultiServiceFile(r.Fork("x"), 0, gen.RuntimeOpts{Headers: true})
	b, _ := json.MarshalIndent(req, "", " ")
	os.WriteFile("/tmp/c08/schema.json", b, 0o644)
	for _, p := range []string{plug.TSClient, plug.TSServer, plug.GoClient} {
		pr, err := plug.Run(p, req, nil)
		if err != nil {
			t.Fatal(err)
		}
		if !pr.OK() {
			t.Log(p, "refused", errText(pr))
			continue
		}
		for name, content := range pr.Files {
			os.WriteFile(filepath.Join("/tmp/c08", strings.TrimPrefix(p, "protoc-gen-")+"_"+strings.ReplaceAll(name, "/", "_")), []byte(content), 0o644)
		}
	}
}
