package main

import (
	"encoding/json"
	"fmt"
	"os"
	"path/filepath"

	"verif/harness/ir"
	"verif/harness/plug"
)

func main() {
	if len(os.Args) < 2 {
		fmt.Fprintln(os.Stderr, "usage: sebufh <cmd> ...")
		os.Exit(2)
	}
	switch os.Args[1] {
	case "dump":
		cmdDump(os.Args[2:])
	default:
		if !dispatch(os.Args[1], os.Args[2:]) {
			fmt.Fprintln(os.Stderr, "unknown command", os.Args[1])
			os.Exit(2)
		}
	}
}

// dump <ir.json> <outdir>: run all plugins (+protoc-gen-go) and write their files.
func cmdDump(args []string) {
	b, err := os.ReadFile(args[0])
	if err != nil {
		panic(err)
	}
	var req ir.Request
	if err := json.Unmarshal(b, &req); err != nil {
		panic(err)
	}
	for _, p := range append([]string{plug.ProtocGo}, plug.All...) {
		r := req.Clone()
		if p == plug.ProtocGo || p == plug.GoHTTP || p == plug.GoClient {
			r.Parameter = "paths=source_relative"
		}
		res, err := plug.Run(p, r, nil)
		if err != nil {
			panic(err)
		}
		fmt.Printf("%s: %s files=%d", p, res.Outcome(), len(res.Files))
		if res.Error != nil {
			fmt.Printf(" error=%q", *res.Error)
		}
		if res.Crash != "" {
			fmt.Printf(" stderr=%q", res.Stderr)
		}
		fmt.Println()
		for n, c := range res.Files {
			path := filepath.Join(args[1], p, n)
			os.MkdirAll(filepath.Dir(path), 0o755)
			os.WriteFile(path, []byte(c), 0o644)
		}
	}
}
