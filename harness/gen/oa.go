package gen

import (
	"fmt"
	"regexp"
	"strings"

	"verif/harness/ir"
)

// YAMLHostile are strings an untagged YAML scalar re-types (YAML 1.1 / 1.2 differences included).
var YAMLHostile = []string{"yes", "no", "on", "off", "y", "n", "true", "false", "null", "~", "123", "-7", "0x1F", "0o17", "012", "1e3", "1.5", ".inf", ".nan", "1:30", "2001-01-01", "2024-01-15T10:30:00Z", "2001-12-14 21:59:43.10 -5", "2001-12-14t21:59:43.10-05:00", "1_000", "", " lead", "a: b", "#c", "[x]", "{y}", "*s", "&a", "!t", "|", ">", "'q", "\"dq", "%p", "@at", "`bt"}

// OAOpts steer GenOAFile.
type OAOpts struct {
	// Shapes enabled (all when nil): nested_same_name recursive multi_service imported builtin_names
	// base_var repeated_var hostile_values annotated headers
	Shapes map[string]bool
}

func (o OAOpts) on(s string, r *R, num, den int) bool {
	if o.Shapes != nil {
		return o.Shapes[s]
	}
	return r.P(num, den)
}

// GenOAFile builds a request whose documents stress OpenAPI well-formedness: same-named nested
// types, recursive types, several services per file, messages from an imported file, messages
// named like the built-in error schemas, path variables in odd places, annotation-driven schema
// shapes and YAML-hostile custom strings. Returned tags say which shapes were used.
func GenOAFile(r *R, idx int, o OAOpts) (*ir.Request, []string) {
	var tags []string
	tag := func(s string) { tags = append(tags, s) }
	pkg := Pick(r, []string{"oa.v1", "shop", "a.b.c"})
	var base *ir.File
	if o.on("annotated", r, 1, 2) {
		base = GenAnnotFile(r.Fork("annot"), idx, AnnotOpts{Pkg: pkg, FileName: fmt.Sprintf("oa%d/api.proto", idx), NoService: true})
		tag("annotated")
	} else {
		base = &ir.File{Name: fmt.Sprintf("oa%d/api.proto", idx), Package: pkg, GoPackage: "example.com/gen/oa;oapb"}
	}
	f := base
	P := "." + pkg + "."
	req := &ir.Request{Files: []*ir.File{f}, Generate: []string{f.Name}}

	leaf := &ir.Message{Name: "OaLeaf", Fields: []*ir.Field{{Name: "street", Number: 1, Kind: "string"}, {Name: "zip_code", Number: 2, Kind: "int32"}}}
	f.Messages = append(f.Messages, leaf)
	var pool []string // full names usable as field types
	pool = append(pool, P+"OaLeaf")

	if o.on("nested_same_name", r, 1, 3) {
		tag("nested_same_name")
		a := &ir.Message{Name: "OrderA", Fields: []*ir.Field{{Name: "item", Number: 1, Kind: "message", TypeName: P + "OrderA.Item"}, {Name: "note", Number: 2, Kind: "string"}},
			Nested: []*ir.Message{{Name: "Item", Fields: []*ir.Field{{Name: "sku", Number: 1, Kind: "string"}, {Name: "qty", Number: 2, Kind: "int32"}}}}}
		b := &ir.Message{Name: "OrderB", Fields: []*ir.Field{{Name: "items", Number: 1, Kind: "message", TypeName: P + "OrderB.Item", Card: "repeated"}},
			Nested: []*ir.Message{{Name: "Item", Fields: []*ir.Field{{Name: "title", Number: 1, Kind: "string"}, {Name: "price_cents", Number: 2, Kind: "int64"}}}}}
		if r.Bool() {
			// identical shapes: the collision is then unobservable
			b.Nested[0].Fields = []*ir.Field{{Name: "sku", Number: 1, Kind: "string"}, {Name: "qty", Number: 2, Kind: "int32"}}
			tag("nested_same_shape")
		}
		f.Messages = append(f.Messages, a, b)
		pool = append(pool, P+"OrderA", P+"OrderB")
	}
	if o.on("unused_nested", r, 1, 3) {
		// a reachable message DECLARES a nested type no field uses; that type's own fields reach a
		// message nothing else refers to: every referenced schema must still be a component
		tag("unused_nested")
		fee := &ir.Message{Name: "Fee", Fields: []*ir.Field{{Name: "cents", Number: 1, Kind: "int64"}, {Name: "currency", Number: 2, Kind: "string"}}}
		policy := &ir.Message{Name: "Policy", Fields: []*ir.Field{{Name: "name", Number: 1, Kind: "string"}},
			Nested: []*ir.Message{{Name: "Terms", Fields: []*ir.Field{{Name: "restocking_fee", Number: 1, Kind: "message", TypeName: P + "Fee"}, {Name: "days", Number: 2, Kind: "int32"}}}}}
		f.Messages = append(f.Messages, fee, policy)
		pool = append(pool, P+"Policy")
	}
	if o.on("recursive", r, 1, 3) {
		tag("recursive")
		node := &ir.Message{Name: "Node", Fields: []*ir.Field{{Name: "label", Number: 1, Kind: "string"}, {Name: "children", Number: 2, Kind: "message", TypeName: P + "Node", Card: "repeated"},
			{Name: "peer", Number: 3, Kind: "message", TypeName: P + "Peer"}}}
		peer := &ir.Message{Name: "Peer", Fields: []*ir.Field{{Name: "back", Number: 1, Kind: "message", TypeName: P + "Node"}, {Name: "by_name", Number: 2, Kind: "message", TypeName: P + "Node", Card: "map", MapKey: "string"}}}
		f.Messages = append(f.Messages, node, peer)
		pool = append(pool, P+"Node")
	}
	if o.on("builtin_names", r, 1, 5) {
		n := Pick(r, []string{"Error", "ValidationError", "FieldViolation"})
		tag("builtin_name:" + n)
		f.Messages = append(f.Messages, &ir.Message{Name: n, Fields: []*ir.Field{{Name: "code", Number: 1, Kind: "int32"}, {Name: "reason_text", Number: 2, Kind: "string"}}})
		pool = append(pool, P+n)
	}
	if o.on("imported", r, 1, 3) {
		tag("imported")
		ipkg := Pick(r, []string{pkg, "common.v1"})
		imp := &ir.File{Name: fmt.Sprintf("oa%d/common.proto", idx), Package: ipkg, GoPackage: "example.com/gen/common;commonpb"}
		name := "Money"
		if ipkg != pkg && r.Bool() {
			name = "OaLeaf" // same short name as a message of the main file, different package
			tag("imported_same_short_name")
		}
		imp.Messages = append(imp.Messages, &ir.Message{Name: name, Fields: []*ir.Field{{Name: "currency", Number: 1, Kind: "string"}, {Name: "units", Number: 2, Kind: "int64"}},
			Nested: []*ir.Message{{Name: "Part", Fields: []*ir.Field{{Name: "n", Number: 1, Kind: "int32"}}}}})
		req.Files = []*ir.File{imp, f}
		f.Deps = append(f.Deps, imp.Name)
		pool = append(pool, "."+ipkg+"."+name)
	}
	if o.on("hostile_values", r, 1, 3) {
		tag("hostile_values")
		e := &ir.Enum{Name: "Mode", Values: []ir.EnumValue{{Name: "MODE_UNSPECIFIED", Number: 0}, {Name: "MODE_A", Number: 1}, {Name: "MODE_B", Number: 2}}}
		// walk through the list by schema index: every value is used within len/3 hostile schemas
		e.Values[1].Custom = sp(YAMLHostile[(3*idx)%len(YAMLHostile)])
		e.Values[2].Custom = sp(YAMLHostile[(3*idx+1)%len(YAMLHostile)])
		if *e.Values[1].Custom == *e.Values[2].Custom {
			e.Values[2].Custom = sp("plain")
		}
		f.Enums = append(f.Enums, e)
		hv := &ir.Message{Name: "Hostile", Fields: []*ir.Field{{Name: "mode", Number: 1, Kind: "enum", TypeName: P + "Mode"},
			{Name: "as_text", Number: 2, Kind: "string", Oneof: "pick", Ann: ir.Ann{OneofValue: sp(YAMLHostile[(3*idx+2)%len(YAMLHostile)])}},
			{Name: "as_leaf", Number: 3, Kind: "message", TypeName: P + "OaLeaf", Oneof: "pick"}},
			Oneofs: []*ir.Oneof{{Name: "pick", Discriminator: sp("kind")}}}
		if hv.Fields[1].Ann.OneofValue != nil && *hv.Fields[1].Ann.OneofValue == "" {
			hv.Fields[1].Ann.OneofValue = nil
		}
		f.Messages = append(f.Messages, hv)
		pool = append(pool, P+"Hostile")
		// a FLATTENED discriminated oneof whose custom values are no component-key characters: every name the
		// document derives from such a value (variant component, $ref, discriminator mapping target) must agree
		odd := []string{"user:created", "order placed", "a/b", "c+d", "x@y", "été", "img", "user.joined-v1"}
		hf := &ir.Message{Name: "HostileFlat", Oneofs: []*ir.Oneof{{Name: "content", HasConfig: true, Discriminator: sp("type"), Flatten: true}},
			Fields: []*ir.Field{{Name: "id", Number: 1, Kind: "string"},
				{Name: "created", Number: 2, Kind: "message", TypeName: P + "OaLeaf", Oneof: "content", Ann: ir.Ann{OneofValue: sp(odd[idx%len(odd)])}},
				{Name: "placed", Number: 3, Kind: "message", TypeName: P + "HostilePart", Oneof: "content", Ann: ir.Ann{OneofValue: sp(odd[(idx+3)%len(odd)])}}}}
		f.Messages = append(f.Messages, &ir.Message{Name: "HostilePart", Fields: []*ir.Field{{Name: "qty", Number: 1, Kind: "int32"}}}, hf)
		pool = append(pool, P+"HostileFlat")
	}
	for _, m := range f.Messages {
		if m.Name != "OaLeaf" && len(pool) < 12 {
			found := false
			for _, p := range pool {
				if p == P+m.Name {
					found = true
				}
			}
			if !found {
				pool = append(pool, P+m.Name)
			}
		}
	}

	nsvc := 1
	if o.on("multi_service", r, 1, 2) {
		nsvc = 2 + r.Intn(2)
		tag("multi_service")
	}
	verbs := []string{"GET", "POST", "PUT", "DELETE", "PATCH"}
	reqNo := 0
	for s := 0; s < nsvc; s++ {
		svc := &ir.Service{Name: fmt.Sprintf("Svc%c", 'A'+s), BasePath: Pick(r, []string{"/api/v1", "", "/v2/", "svc"})}
		if o.on("base_var", r, 1, 10) {
			svc.BasePath = "/tenants/{tenant}"
			tag("base_var")
		}
		if o.on("headers", r, 1, 3) {
			svc.Headers = GenHeaders(r.Fork(fmt.Sprintf("sh%d", s)), 2)
		}
		nm := 1 + r.Intn(4)
		if s == 1 && o.on("empty_service", r, 1, 8) {
			// a placeholder service that declares no RPC yet: it still gets its document
			nm = 0
			tag("empty_service")
		}
		for i := 0; i < nm; i++ {
			reqNo++
			verb := Pick(r, verbs)
			in := &ir.Message{Name: fmt.Sprintf("OaReq%d", reqNo)}
			used := map[string]bool{}
			no := int32(1)
			path := fmt.Sprintf("/m%d", reqNo)
			nv := r.Intn(3)
			for v := 0; v < nv; v++ {
				fn := uniqueName(used, Pick(r, urlFieldNames))
				pf := &ir.Field{Name: fn, Number: no, Kind: Pick(r, PathScalarKinds)}
				if r.P(1, 4) {
					pf.Card = "optional" // a path variable is required whatever the field's presence
					tag("optional_path_field")
				}
				if r.P(1, 5) {
					pf.JSONName = "x" + ir.JSONName("_"+fn) // parameters are named after the variable, not the JSON name
				}
				in.Fields = append(in.Fields, pf)
				no++
				path += "/{" + fn + "}"
			}
			if strings.Contains(svc.BasePath, "{tenant}") && (verb == "POST" || verb == "PUT" || verb == "PATCH") && o.on("base_var_field", r, 1, 2) {
				// a request field spelled like the BASE-PATH variable and of a kind no path variable could bind (message,
				// repeated, enum-like): the variable is a path parameter of the operation all the same
				bf := &ir.Field{Name: "tenant", Number: no, Kind: "message", TypeName: P + "OaLeaf"}
				if reqNo%2 == 0 {
					bf = &ir.Field{Name: "tenant", Number: no, Kind: "string", Card: "repeated"}
				}
				used["tenant"] = true
				in.Fields = append(in.Fields, bf)
				no++
				tag("base_var_field")
			}
			if nv >= 2 && o.on("two_vars_in_segment", r, 1, 10) {
				// `/compare/{base}...{head}`: both are variables of the template
				path = fmt.Sprintf("/m%d/{%s}...{%s}", reqNo, in.Fields[0].Name, in.Fields[1].Name)
				for _, fl := range in.Fields[2:] {
					path += "/{" + fl.Name + "}"
				}
				tag("two_vars_in_segment")
			}
			if nv > 0 && o.on("repeated_var", r, 1, 10) {
				path += "/again/{" + in.Fields[0].Name + "}"
				tag("repeated_var")
			}
			if nv > 0 && o.on("query_named_like_path_var", r, 1, 8) {
				// a query parameter (of ANOTHER field) whose wire name is a variable of the operation's own path:
				// parameter names are unique per LOCATION only
				qf := &ir.Field{Name: uniqueName(used, "on_"+in.Fields[0].Name), Number: no, Kind: "bool", Ann: ir.Ann{Query: &ir.Query{Name: in.Fields[0].Name}}}
				in.Fields = append(in.Fields, qf)
				no++
				tag("query_named_like_path_var")
			}
			nq := r.Intn(3)
			for q := 0; q < nq; q++ {
				fn := uniqueName(used, Pick(r, urlFieldNames))
				qf := &ir.Field{Name: fn, Number: no, Kind: Pick(r, queryKinds), Ann: ir.Ann{Query: &ir.Query{Name: fn, Required: r.P(1, 4)}}}
				if r.P(1, 4) {
					qf.Card = "optional"
				}
				in.Fields = append(in.Fields, qf)
				no++
			}
			if verb == "POST" || verb == "PUT" || verb == "PATCH" {
				nb := 1 + r.Intn(3)
				for b := 0; b < nb; b++ {
					t := Pick(r, pool)
					card := Pick(r, []string{"", "", "repeated", "map"})
					fl := &ir.Field{Name: uniqueName(used, Pick(r, []string{"payload", "extra_info", "sub", "data2"})), Number: no, Kind: "message", TypeName: t, Card: card}
					if card == "map" {
						fl.MapKey = Pick(r, []string{"string", "int32"})
					}
					in.Fields = append(in.Fields, fl)
					no++
				}
				if r.P(1, 3) {
					in.Fields = append(in.Fields, &ir.Field{Name: "at", Number: no, Kind: "message", TypeName: tsType})
					no++
				}
			}
			f.Messages = append(f.Messages, in)
			m := &ir.Method{Name: fmt.Sprintf("Op%d", reqNo), Input: P + in.Name, Output: Pick(r, pool)}
			if !r.P(1, 8) {
				m.Config = &ir.HTTPConfig{Path: path, Method: verb}
			}
			if o.on("headers", r, 1, 4) {
				m.Headers = GenHeaders(r.Fork(fmt.Sprintf("mh%d", reqNo)), 2)
			}
			svc.Methods = append(svc.Methods, m)
		}
		if s == 0 && o.on("go_name_collision", r, 1, 10) && len(svc.Methods) > 0 {
			// RPC names that differ as proto names and coincide once camel-cased the Go way (`GetUser` / `get_user`,
			// `Get2fa` / `Get2Fa`): operation ids are the PROTO names, unique per service
			m0 := svc.Methods[0]
			for k, nm := range []string{"GetUser", "get_user", "Get2fa", "Get2Fa"} {
				svc.Methods = append(svc.Methods, &ir.Method{Name: nm, Input: m0.Input, Output: m0.Output,
					Config: &ir.HTTPConfig{Path: fmt.Sprintf("/collide%d", k), Method: "POST"}})
			}
			tag("go_name_collision")
		}
		f.Services = append(f.Services, svc)
	}
	return req, tags
}

// YAML11Retypes: plain scalars that YAML 1.1 types as bool / number while the YAML 1.2 core
// schema keeps them strings.
func YAML11Retypes(s string) bool {
	switch strings.ToLower(s) {
	case "y", "n", "yes", "no", "on", "off":
		return true
	}
	return reSexagesimal.MatchString(s)
}

var reSexagesimal = regexp.MustCompile(`^[-+]?[0-9][0-9_]*(:[0-5]?[0-9])+(\.[0-9_]*)?$`)
