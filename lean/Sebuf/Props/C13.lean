import Sebuf.Gen.Globals
import Sebuf.RegisterLoop
import Sebuf.Build
import Sebuf.Lemmas.Ident
import Sebuf.Lemmas.PropsC13
import Sebuf.Lemmas.PropName
import Sebuf.Lemmas.PropsC18
/-!
# C13 — everything the generators emit builds: Go compiles and vets, TypeScript loads

Partial by nature: the oracle is the Go compiler, `go vet` and Node's parser. The model is a
typing discipline for the templates (`Sebuf.Build`): it predicts, from the definitions alone,
which accepted schemas produce Go that does not build / vet and TypeScript that does not load.
The `build` correspondence compares that prediction with the real toolchains on every
generated schema and plugin subset. The theorems below are the discipline's own logic: when
no assumption of a template is violated the prediction is "builds", and each recorded finding
has a minimal accepted witness (`decide`).

`Sebuf.Lemmas.Ident` proves the identifier agreement `snakeToUpperCamel = goCamelCase` on plain
snake_case names, i.e. when `client_path_field_identifier` cannot arise.
-/
namespace Sebuf.C13
open Sebuf Sebuf.Build Sebuf.Impl

/-- the assumptions the codec templates make about a message. -/
def CodecShapeOK (m : Message) (withUnwrap : Bool) : Prop :=
  (∀ f ∈ m.fields, isInt64Num f = true → f.card ≠ .optional) ∧
  (∀ f ∈ m.fields, isTsFmt f = true → f.card ≠ .repeated) ∧
  (∀ f ∈ m.fields, isBytesEnc f = true → f.card ≠ .repeated) ∧
  (marshalFeatures m withUnwrap).length ≤ 1 ∧
  needsOneofMarshal m = false

/-- **access typing, partial**: when every assumption of the codec templates holds for a message,
the model predicts no codec defect for it. -/
theorem codec_shape_ok_no_defect (m : Message) (b : Bool) (h : CodecShapeOK m b) : codecDefects m b = [] := by
  obtain ⟨h1, h2, h3, h4, h5⟩ := h
  unfold codecDefects
  have a1 : m.fields.any (fun f => isInt64Num f && f.card == .optional) = false := by
    apply any_false_of; intro f hf
    cases hi : isInt64Num f with
    | false => simp
    | true => have := h1 f hf hi; simp [this]
  have a2 : m.fields.any (fun f => isTsFmt f && f.card == .repeated) = false := by
    apply any_false_of; intro f hf
    cases hi : isTsFmt f with
    | false => simp
    | true => have := h2 f hf hi; simp [this]
  have a3 : m.fields.any (fun f => isBytesEnc f && f.card == .repeated) = false := by
    apply any_false_of; intro f hf
    cases hi : isBytesEnc f with
    | false => simp
    | true => have := h3 f hf hi; simp [this]
  have a4 : ¬ (marshalFeatures m b).length ≥ 2 := by omega
  simp [a1, a2, a3, a4, h5]

/-- **one marshaler, partial**: at most one MarshalJSON-producing feature ⇒ no duplicate method. -/
theorem one_marshaler_partial (m : Message) (b : Bool) (h : (marshalFeatures m b).length ≤ 1) :
    "two_marshaljson_methods" ∉ codecDefects m b := by
  unfold codecDefects
  have a4 : ¬ (marshalFeatures m b).length ≥ 2 := by omega
  simp only [a4, if_false, List.append_nil, List.mem_append, not_or]
  refine ⟨⟨⟨?_, ?_⟩, ?_⟩, ?_⟩ <;> (split <;> simp)

/-! ### witnesses: accepted definitions the emitted code does not build for (recorded findings) -/

def mk1 (name : String) (fs : List Field) : Message := { fullName := (".p." ++ name).toList, name := name.toList, fields := fs }
def rq1 (m : Message) : Request := { files := [{ name := "a.proto".toList, generate := true, messages := [m] }] }

/-- witness for finding `optional_int64_number`: an `optional int64` field with NUMBER encoding is
accepted by go-http and the discipline predicts the defect for go-http's package. -/
theorem w_optional_int64_number :
    let m := mk1 "M" [{ name := "big".toList, kind := .int64, card := .optional, int64Enc := 2 }]
    runGoHttp (rq1 m) = none ∧ "optional_int64_number" ∈ goDefects (rq1 m) "go-http" := by decide

/-- witness for finding `repeated_timestamp_format`: a `repeated Timestamp` field with a format is
accepted and the discipline predicts the defect for go-client's package. -/
theorem w_repeated_timestamp_format :
    let m := mk1 "M" [{ name := "at".toList, kind := .message, typeName := ".google.protobuf.Timestamp".toList, card := .repeated, tsFormat := 2 }]
    runGoHttp (rq1 m) = none ∧ "repeated_timestamp_format" ∈ goDefects (rq1 m) "go-client" := by decide

/-- witness for finding `repeated_bytes_encoding`: a `repeated bytes` field with an encoding is
accepted and the discipline predicts the defect when both Go plugins emit into one package. -/
theorem w_repeated_bytes_encoding :
    let m := mk1 "M" [{ name := "blob".toList, kind := .bytes, card := .repeated, bytesEnc := 5 }]
    runGoHttp (rq1 m) = none ∧ "repeated_bytes_encoding" ∈ goDefects (rq1 m) "both" := by decide

/-- witness for finding `two_marshaljson_methods`: two MarshalJSON-producing features on one message
are accepted by both Go plugins and the discipline predicts the duplicate method. -/
theorem w_two_marshaljson :
    let m := mk1 "M" [{ name := "big".toList, kind := .int64, int64Enc := 2 }, { name := "maybe".toList, kind := .string, card := .optional, nullable := true }]
    runGoHttp (rq1 m) = none ∧ runGoClient (rq1 m) = none ∧ "two_marshaljson_methods" ∈ goDefects (rq1 m) "go-http" := by decide

def oneofMsg : Message :=
  { fullName := ".p.E".toList
    name := "E".toList
    fields := [{ name := "t".toList, kind := .message, typeName := ".p.T".toList, oneof := some "c".toList }]
    oneofs := [{ name := "c".toList, hasConfig := true, discriminator := "type".toList }] }
def oneofFile : File :=
  { name := "a.proto".toList
    generate := true
    messages := [oneofMsg, mk1 "T" [{ name := "body".toList, kind := .string }]] }
def oneofRq : Request := { files := [oneofFile] }

/-- witness for finding `oneof_errorf_vet`: an annotated oneof is accepted by go-http and the
discipline predicts the `go vet` diagnostic for go-http's package. -/
theorem w_oneof_errorf_vet :
    runGoHttp oneofRq = none ∧ "oneof_errorf_vet" ∈ goDefects oneofRq "go-http" := by decide

/-- witness for finding `unwrap_unused_import`: an `unwrap` on a repeated scalar field is accepted; the
discipline predicts the defect for go-http's package and none for go-client's. -/
theorem w_unwrap_unused_import :
    let m := mk1 "L" [{ name := "items".toList, kind := .string, card := .repeated, unwrap := true }]
    runGoHttp (rq1 m) = none ∧ "unwrap_unused_import" ∈ goDefects (rq1 m) "go-http" ∧ goDefects (rq1 m) "go-client" = [] := by decide

def getReq : Message := mk1 "Req" [{ name := "with2digits".toList, kind := .string }, { name := "page".toList, kind := .int32, query := some ("page".toList, false) }]
def getMeth : Method :=
  { name := "Get".toList
    input := ".p.Req".toList
    output := ".p.Req".toList
    hasConfig := true
    path := "/x/{with2digits}".toList
    verbNum := 1 }
def getSvc : Service := { name := "S".toList, methods := [getMeth] }
def getFile : File :=
  { name := "a.proto".toList
    generate := true
    messages := [getReq]
    services := [getSvc] }
def getRq : Request := { files := [getFile] }

/-- one accepted GET route: the Go client used to spell the path variable's field `With2digits`
(protoc-gen-go: `With2Digits`; entry `go:client_path_field_identifier`, fixed by /repo 9cb4f02 —
the accessor is now the field's own name); the TS server route of the same RPC parses the URL for
path AND query parameters — before the repair that declared `const url` twice (entry
`ts:ts_server_duplicate_const_url`, fixed), now no load defect is predicted. -/
theorem w_client_ident_and_ts_url :
    runGoHttp getRq = none ∧ runTsServer getRq = none ∧
    clientIdentDefectsBeforeFix getRq = ["client_path_field_identifier"] ∧ goDefects getRq "go-client" = [] ∧
    clientPathAccessor getReq "with2digits".toList = "req.With2Digits".toList ∧
    clientPathAccessorBeforeFix "with2digits".toList = "req.With2digits".toList ∧ goDefects getRq "go-http" = [] ∧
    tsServerTwoUrlUses getRq = ["Get".toList] ∧ tsServerDefectsBeforeFix getRq = ["ts_server_duplicate_const_url"] ∧
    tsServerDefects getRq = [] := by decide

def hdrMeth : Method :=
  { name := "Do".toList
    input := ".p.Req".toList
    output := ".p.Req".toList
    headers := ["X-Tenant".toList] }
def hdrSvc : Service :=
  { name := "S".toList
    methods := [hdrMeth]
    headers := ["X-Tenant".toList] }
def hdrFile : File :=
  { name := "a.proto".toList
    generate := true
    messages := [getReq]
    services := [hdrSvc] }
/-- the same header declared on the service and on a method (entry `go:header_helper_redeclared`,
fixed by /repo 50d5457): before, one helper per declaration — a duplicate function; now one per name. -/
theorem w_header_helper_redeclared :
    headerHelperDefectsBeforeFix { files := [hdrFile] } = ["header_helper_redeclared"] ∧
    goDefects { files := [hdrFile] } "go-client" = [] ∧ goDefects { files := [hdrFile] } "go-http" = [] ∧
    clientHelperNames hdrSvc = ["Tenant".toList] ∧ clientHelperNamesBeforeFix hdrSvc = ["Tenant".toList, "Tenant".toList] := by decide

/-- **helper functions are declared once**: for every service, whatever headers it and its methods
declare (repeated, or colliding after the `X-` prefix is dropped), the emitted helper function
names are pairwise distinct — no "redeclared in this block". -/
theorem client_helper_names_distinct (s : Service) : (clientHelperNames s).Nodup :=
  C18.uniqueFirst_nodup _

/-- and no declared header loses its helper name. -/
theorem client_helper_names_complete (s : Service) (h : Str)
    (hh : h ∈ s.headers ++ s.methods.flatMap (·.headers)) : headerNameToFuncName h ∈ clientHelperNames s :=
  (C18.mem_uniqueFirst _ _).2 (List.mem_map_of_mem hh)

/-- header names that differ only by the `X-` prefix collide as well. -/
theorem header_func_name_not_injective : headerNameToFuncName "X-Api-Key".toList = headerNameToFuncName "Api-Key".toList := by decide

/-- **identifier agreement**: the Go client reads a path variable through the name protoc-gen-go
gives the bound field, for EVERY field name (full, since /repo 9cb4f02), and through the getter
when the field is proto3 `optional` (the struct member is a pointer: `fmt.Sprint` of it printed an
address into the URL). -/
theorem client_accessor_is_field_name (input : Message) (f : Field) (hf : f ∈ input.fields)
    (hd : (input.fields.map Field.name).Nodup) :
    clientPathAccessor input f.name =
      (if f.card == .optional then "req.Get".toList ++ goCamelCase f.name ++ "()".toList else "req.".toList ++ goCamelCase f.name) := by
  unfold clientPathAccessor
  rw [PropName.find_name_of_distinct input.fields f hf hd]

/-- regression witness: an `optional` path-bound field is read through its getter. -/
theorem w_optional_path_field_getter :
    let m := mk1 "Req" [{ name := "edition".toList, kind := .string, card := .optional }]
    clientPathAccessor m "edition".toList = "req.GetEdition()".toList ∧
    clientPathAccessorBeforeFix "edition".toList = "req.Edition".toList := by decide

/-- before the repair the two spellings agreed on plain snake_case names (`^[a-z]+(_[a-z]+)*$`) only:
why the repository's goldens never showed `client_path_field_identifier`. -/
theorem ident_agree_partial (p : Str) (h : simpleSnake p = true) : snakeToUpperCamel p = goCamelCase p :=
  snakeToUpperCamel_eq_goCamelCase p h

/-- the TypeScript side agrees with protoc's JSON name on the same names. -/
theorem ts_ident_agree_partial (p : Str) (h : simpleSnake p = true) : snakeToLowerCamel p = jsonName p :=
  snakeToLowerCamel_eq_jsonName p h

def wrapMapMsg : Message := mk1 "Tags" [{ name := "entries".toList, kind := .string, card := .map, unwrap := true }]
def holderMsg : Message := mk1 "Holder" [{ name := "by_key".toList, kind := .message, typeName := ".p.Tags".toList, card := .map }]
def wrapMapRq : Request := { files := [{ name := "a.proto".toList, generate := true, messages := [holderMsg, wrapMapMsg] }] }

/-- witness for finding `map_value_unwrap_of_map_field`: a root-map unwrap message used as the VALUE of
a map is accepted by go-http, but the map-value template assumes the wrapper's unwrap field is a list
(`&Tags{Entries: items}` with `items []interface{}`): the emitted package does not compile; scalar
elements also leave the protojson import of the unwrap file unused. -/
theorem w_map_value_unwrap_of_map_field :
    runGoHttp wrapMapRq = none ∧ "map_value_unwrap_of_map_field" ∈ goDefects wrapMapRq "go-http" ∧
    "unwrap_unused_import" ∈ goDefects wrapMapRq "go-http" ∧ goDefects wrapMapRq "go-client" = [] := by decide

/-! ## The registration loop declares before it uses, for every list of methods

`Sebuf.RegisterLoop` models the loop that prints `Register<Service>Server`. The regenerated facts say where the
source stands: the declaration is printed under the test `i == 0`, and no iteration can leave the loop body before
reaching that test. -/

open RegisterLoop in
theorem emitFrom_succ_all_assign {α : Type} (i : Nat) (ms : List α) : (emitFrom (i + 1) ms).all (· == Stmt.assign) = true := by
  induction ms generalizing i with
  | nil => rfl
  | cons m r ih => simp [emitFrom, ih]

open RegisterLoop in
/-- **declared once, first** — for every service, whatever its methods are. -/
theorem register_declares_before_use {α : Type} (ms : List α) : wellFormed (emit ms) = true := by
  cases ms with
  | nil => rfl
  | cons m r => simp [emit, emitFrom, wellFormed, emitFrom_succ_all_assign]

open RegisterLoop in
/-- what a `continue` before the test does: when the first method is skipped and a later one is not, the first
statement printed is an assignment to a variable nobody declared (seed C13-r8-1: streaming rpcs skipped). -/
theorem register_skip_before_test_breaks :
    ∃ (skip : String → Bool) (ms : List String), wellFormed (emitSkip skip ms) = false ∧ wellFormed (emit ms) = true :=
  ⟨fun m => m == "Watch", ["Watch", "Peek"], by decide, by decide⟩

/-- **tie**: the source prints the declaration under `i == 0`, every iteration assigns before it uses, and nothing
lets an iteration leave before the test (regenerated from `internal/httpgen/generator.go`). -/
theorem register_loop_transcribed :
    Gen.Globals.registerLoopDeclareTest = "i == 0" ∧
    Gen.Globals.registerLoopControlBeforeDeclare = [] ∧
    Gen.Globals.generatorAssignsMethodHeadersPerIteration = true := by decide

end Sebuf.C13
