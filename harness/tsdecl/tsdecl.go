// Package tsdecl reads the TypeScript declarations the ts-client and ts-server plugins emit
// (`export interface X {…}`, `export type X = …;`) and the request / result types of the RPC
// signatures into the JSON form of the Lean type AST (Sebuf.Ts.Ty, see lean/Sebuf/DriverC07.lean).
//
// Only the emitted subset is accepted: properties with `?`, unions `|`, intersections `&`,
// `Record<string, T>`, `T[]`, string literals, parenthesised types, inline object types and the
// keywords string / number / boolean / null / unknown / any. Anything else is an error (the caller
// reports it as a broken correspondence; nothing is skipped silently).
package tsdecl

import (
	"encoding/json"
	"fmt"
	"regexp"
	"strings"
)

// Type is the JSON form of Sebuf.Ts.Ty.
type Type struct {
	K     string  `json:"k"`
	V     string  `json:"v,omitempty"`
	T     *Type   `json:"t,omitempty"`
	Props []Prop  `json:"props,omitempty"`
	Ts    []*Type `json:"ts,omitempty"`
	N     string  `json:"n,omitempty"`
}

// MarshalJSON prints exactly the members the Lean driver prints for each kind (an object type
// always carries "props", also when it has none).
func (t *Type) MarshalJSON() ([]byte, error) {
	type plain Type
	if t.K == "object" {
		props := t.Props
		if props == nil {
			props = []Prop{}
		}
		return json.Marshal(struct {
			K     string `json:"k"`
			Props []Prop `json:"props"`
		}{t.K, props})
	}
	if t.K == "lit" {
		return json.Marshal(struct {
			K string `json:"k"`
			V string `json:"v"`
		}{t.K, t.V})
	}
	return json.Marshal((*plain)(t))
}

type Prop struct {
	Name string `json:"name"`
	Opt  bool   `json:"opt"`
	T    *Type  `json:"t"`
}

type Decl struct {
	Name  string `json:"name"`
	Iface bool   `json:"iface"`
	T     *Type  `json:"t"`
}

// Method is one RPC signature: client `async name(req: Req, …): Promise<Res>` or handler
// `name(ctx: ServerContext, req: Req): Promise<Res>`.
type Method struct {
	Svc  string `json:"svc"`
	Name string `json:"name"`
	Req  *Type  `json:"req"`
	Res  *Type  `json:"res"`
}

type File struct {
	Decls   []Decl
	Methods []Method
	// Block is the text of the declaration block (header comment lines removed): what the two
	// plugins are expected to print identically.
	Block string
}

type token struct {
	kind string // id | str | p (punctuation) | eof
	text string
	pos  int
}

func lex(src string) ([]token, error) {
	var out []token
	i := 0
	for i < len(src) {
		c := src[i]
		switch {
		case c == ' ' || c == '\t' || c == '\n' || c == '\r':
			i++
		case c == '/' && i+1 < len(src) && src[i+1] == '/':
			for i < len(src) && src[i] != '\n' {
				i++
			}
		case c == '"':
			j := i + 1
			for j < len(src) && src[j] != '"' && src[j] != '\n' {
				j++
			}
			if j >= len(src) || src[j] != '"' {
				return nil, fmt.Errorf("unterminated string literal at offset %d", i)
			}
			out = append(out, token{"str", src[i+1 : j], i})
			i = j + 1
		case c == '_' || c == '$' || (c >= 'a' && c <= 'z') || (c >= 'A' && c <= 'Z'):
			j := i
			for j < len(src) && (src[j] == '_' || src[j] == '$' || (src[j] >= 'a' && src[j] <= 'z') || (src[j] >= 'A' && src[j] <= 'Z') || (src[j] >= '0' && src[j] <= '9')) {
				j++
			}
			out = append(out, token{"id", src[i:j], i})
			i = j
		case strings.ContainsRune("{}()[]<>,;:?|&=", rune(c)):
			out = append(out, token{"p", string(c), i})
			i++
		default:
			return nil, fmt.Errorf("unexpected character %q at offset %d (%s)", c, i, around(src, i))
		}
	}
	out = append(out, token{"eof", "", len(src)})
	return out, nil
}

func around(src string, i int) string {
	a, b := i-20, i+20
	if a < 0 {
		a = 0
	}
	if b > len(src) {
		b = len(src)
	}
	return strings.ReplaceAll(src[a:b], "\n", "\\n")
}

type parser struct {
	toks []token
	i    int
	src  string
}

func (p *parser) peek() token { return p.toks[p.i] }
func (p *parser) next() token  { t := p.toks[p.i]; p.i++; return t }
func (p *parser) isP(s string) bool {
	t := p.peek()
	return t.kind == "p" && t.text == s
}
func (p *parser) expectP(s string) error {
	t := p.next()
	if t.kind != "p" || t.text != s {
		return fmt.Errorf("expected %q, found %q at offset %d (%s)", s, t.text, t.pos, around(p.src, t.pos))
	}
	return nil
}
func (p *parser) expectID(s string) error {
	t := p.next()
	if t.kind != "id" || (s != "" && t.text != s) {
		return fmt.Errorf("expected identifier %q, found %q at offset %d (%s)", s, t.text, t.pos, around(p.src, t.pos))
	}
	return nil
}

func (p *parser) parseType() (*Type, error) {
	leading := false
	if p.isP("|") {
		p.next()
		leading = true
	}
	first, err := p.parseInter()
	if err != nil {
		return nil, err
	}
	members := []*Type{first}
	for p.isP("|") {
		p.next()
		m, err := p.parseInter()
		if err != nil {
			return nil, err
		}
		members = append(members, m)
	}
	if len(members) == 1 && !leading {
		return first, nil
	}
	return &Type{K: "union", Ts: members}, nil
}

func (p *parser) parseInter() (*Type, error) {
	first, err := p.parsePostfix()
	if err != nil {
		return nil, err
	}
	members := []*Type{first}
	for p.isP("&") {
		p.next()
		m, err := p.parsePostfix()
		if err != nil {
			return nil, err
		}
		members = append(members, m)
	}
	if len(members) == 1 {
		return first, nil
	}
	return &Type{K: "inter", Ts: members}, nil
}

func (p *parser) parsePostfix() (*Type, error) {
	t, err := p.parsePrimary()
	if err != nil {
		return nil, err
	}
	for p.isP("[") {
		p.next()
		if err := p.expectP("]"); err != nil {
			return nil, err
		}
		t = &Type{K: "array", T: t}
	}
	return t, nil
}

func (p *parser) parsePrimary() (*Type, error) {
	t := p.next()
	switch t.kind {
	case "str":
		return &Type{K: "lit", V: t.text}, nil
	case "id":
		switch t.text {
		case "string", "number", "boolean", "null":
			return &Type{K: t.text}, nil
		case "unknown", "any":
			return &Type{K: "unknown"}, nil
		case "Record":
			if err := p.expectP("<"); err != nil {
				return nil, err
			}
			if err := p.expectID("string"); err != nil {
				return nil, err
			}
			if err := p.expectP(","); err != nil {
				return nil, err
			}
			v, err := p.parseType()
			if err != nil {
				return nil, err
			}
			if err := p.expectP(">"); err != nil {
				return nil, err
			}
			return &Type{K: "record", T: v}, nil
		case "typeof", "keyof", "readonly", "Array", "Promise", "undefined", "never", "void", "object":
			return nil, fmt.Errorf("type form %q at offset %d is outside the emitted subset (%s)", t.text, t.pos, around(p.src, t.pos))
		}
		if p.isP("<") {
			return nil, fmt.Errorf("generic type %s<…> at offset %d is outside the emitted subset", t.text, t.pos)
		}
		return &Type{K: "ref", N: t.text}, nil
	case "p":
		switch t.text {
		case "(":
			in, err := p.parseType()
			if err != nil {
				return nil, err
			}
			if err := p.expectP(")"); err != nil {
				return nil, err
			}
			return in, nil
		case "{":
			props, err := p.parseProps()
			if err != nil {
				return nil, err
			}
			return &Type{K: "object", Props: props}, nil
		}
	}
	return nil, fmt.Errorf("unexpected %q at offset %d (%s)", t.text, t.pos, around(p.src, t.pos))
}

// parseProps reads `name?: T; name: T …}` up to and including the closing brace; the `;` after
// the last property is optional (interfaces print it, inline object types do not).
func (p *parser) parseProps() ([]Prop, error) {
	var props []Prop
	for {
		if p.isP("}") {
			p.next()
			return props, nil
		}
		n := p.next()
		if n.kind != "id" && n.kind != "str" {
			return nil, fmt.Errorf("expected a property name, found %q at offset %d (%s)", n.text, n.pos, around(p.src, n.pos))
		}
		pr := Prop{Name: n.text}
		if p.isP("?") {
			p.next()
			pr.Opt = true
		}
		if err := p.expectP(":"); err != nil {
			return nil, err
		}
		t, err := p.parseType()
		if err != nil {
			return nil, err
		}
		pr.T = t
		props = append(props, pr)
		if p.isP(";") {
			p.next()
			continue
		}
		if !p.isP("}") {
			t := p.peek()
			return nil, fmt.Errorf("expected ';' or '}' after property %s, found %q at offset %d (%s)", pr.Name, t.text, t.pos, around(p.src, t.pos))
		}
	}
}

// ParseTypeText parses one type expression.
func ParseTypeText(s string) (*Type, error) {
	toks, err := lex(s)
	if err != nil {
		return nil, err
	}
	p := &parser{toks: toks, src: s}
	t, err := p.parseType()
	if err != nil {
		return nil, err
	}
	if p.peek().kind != "eof" {
		return nil, fmt.Errorf("trailing input after type %q", s)
	}
	return t, nil
}

const blockEnd = "export class ValidationError extends Error {"

var clientSig = regexp.MustCompile(`^  async (\w+)\(req: (\w+), options\?: \w+CallOptions\): Promise<(.*)> \{$`)
var handlerSig = regexp.MustCompile(`^  (\w+)\(ctx: ServerContext, req: (\w+)\): Promise<(.*)>;$`)
var clientClass = regexp.MustCompile(`^export class (\w+)Client \{$`)
var handlerIface = regexp.MustCompile(`^export interface (\w+)Handler \{$`)

// Parse reads an emitted *_client.ts or *_server.ts.
func Parse(src string) (*File, error) {
	idx := strings.Index(src, blockEnd)
	if idx < 0 {
		return nil, fmt.Errorf("declaration block end (%q) not found", blockEnd)
	}
	block := src[:idx]
	var kept []string
	for _, l := range strings.Split(block, "\n") {
		if strings.HasPrefix(l, "//") {
			continue
		}
		kept = append(kept, l)
	}
	f := &File{Block: strings.TrimSpace(strings.Join(kept, "\n"))}
	toks, err := lex(block)
	if err != nil {
		return nil, err
	}
	p := &parser{toks: toks, src: block}
	for p.peek().kind != "eof" {
		if err := p.expectID("export"); err != nil {
			return nil, err
		}
		kw := p.next()
		name := p.next()
		if name.kind != "id" {
			return nil, fmt.Errorf("expected a declared name at offset %d (%s)", name.pos, around(block, name.pos))
		}
		switch kw.text {
		case "interface":
			if err := p.expectP("{"); err != nil {
				return nil, err
			}
			props, err := p.parseProps()
			if err != nil {
				return nil, fmt.Errorf("interface %s: %w", name.text, err)
			}
			f.Decls = append(f.Decls, Decl{Name: name.text, Iface: true, T: &Type{K: "object", Props: props}})
		case "type":
			if err := p.expectP("="); err != nil {
				return nil, err
			}
			t, err := p.parseType()
			if err != nil {
				return nil, fmt.Errorf("type %s: %w", name.text, err)
			}
			if err := p.expectP(";"); err != nil {
				return nil, fmt.Errorf("type %s: %w", name.text, err)
			}
			f.Decls = append(f.Decls, Decl{Name: name.text, Iface: false, T: t})
		default:
			return nil, fmt.Errorf("unexpected declaration keyword %q at offset %d (%s)", kw.text, kw.pos, around(block, kw.pos))
		}
	}
	svc := ""
	for _, l := range strings.Split(src[idx:], "\n") {
		if m := clientClass.FindStringSubmatch(l); m != nil {
			svc = m[1]
			continue
		}
		if m := handlerIface.FindStringSubmatch(l); m != nil {
			svc = m[1]
			continue
		}
		m := clientSig.FindStringSubmatch(l)
		if m == nil {
			m = handlerSig.FindStringSubmatch(l)
		}
		if m == nil {
			continue
		}
		res, err := ParseTypeText(m[3])
		if err != nil {
			return nil, fmt.Errorf("result type of %s: %w", m[1], err)
		}
		f.Methods = append(f.Methods, Method{Svc: svc, Name: m[1], Req: &Type{K: "ref", N: m[2]}, Res: res})
	}
	return f, nil
}
