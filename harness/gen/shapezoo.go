package gen

import (
	"fmt"

	"verif/harness/ir"
)

// GenShapeZoo is a FIXED schema of shapes the random generators draw rarely or never and that
// seeded regressions showed to matter: repeated / map-valued well-known and scalar kinds,
// discriminated oneofs (flattened and nested) next to proto3 optional fields and to members of a
// plain oneof, 64-bit query parameters with int64_encoding=NUMBER on bodiless verbs, renamed
// query parameters. Everything here is inside the region where the unchanged generators emit Go
// that compiles (single-word variant field names, query-only GET / DELETE routes).
func GenShapeZoo(idx int) *ir.Request {
	pkg := "zoo.v1"
	P := "." + pkg + "."
	f := &ir.File{Name: fmt.Sprintf("zoo%d/zoo.proto", idx), Package: pkg, GoPackage: "example.com/gen/zoo/v1;zoov1"}
	f.Enums = []*ir.Enum{{Name: "Color", Values: []ir.EnumValue{{Name: "COLOR_UNSPECIFIED", Number: 0}, {Name: "COLOR_RED", Number: 1}, {Name: "COLOR_BLUE", Number: 2}}}}
	leaf := &ir.Message{Name: "LeafZ", Fields: []*ir.Field{{Name: "street", Number: 1, Kind: "string"}, {Name: "zip_code", Number: 2, Kind: "int32"}}}
	stamps := &ir.Message{Name: "PlainStamps", Fields: []*ir.Field{
		{Name: "times", Number: 1, Kind: "message", TypeName: tsType, Card: "repeated"},
		{Name: "by_name", Number: 2, Kind: "message", TypeName: tsType, Card: "map", MapKey: "string"},
		{Name: "colors", Number: 3, Kind: "enum", TypeName: P + "Color", Card: "repeated"},
		{Name: "blobs", Number: 4, Kind: "bytes", Card: "repeated"},
		{Name: "flags", Number: 5, Kind: "bool", Card: "repeated"},
		{Name: "raw", Number: 6, Kind: "bytes", Card: "map", MapKey: "string"},
		{Name: "cmap", Number: 7, Kind: "enum", TypeName: P + "Color", Card: "map", MapKey: "int32"},
		{Name: "at", Number: 8, Kind: "message", TypeName: tsType},
		{Name: "bigs", Number: 9, Kind: "sfixed64", Card: "repeated"},
		{Name: "neg", Number: 10, Kind: "sfixed32"},
		{Name: "negs", Number: 11, Kind: "sfixed32", Card: "repeated"},
		{Name: "leaves", Number: 12, Kind: "message", TypeName: P + "LeafZ", Card: "map", MapKey: "uint64"},
	}}
	textV := &ir.Message{Name: "TextVariantZ", Fields: []*ir.Field{{Name: "body", Number: 1, Kind: "string"}, {Name: "lang", Number: 2, Kind: "string"}}}
	imageV := &ir.Message{Name: "ImageVariantZ", Fields: []*ir.Field{{Name: "url", Number: 1, Kind: "string"}, {Name: "width", Number: 2, Kind: "int32"}}}
	gone := &ir.Message{Name: "ImageVariantGone"} // a variant without fields
	mkEvent := func(name string, flat bool) *ir.Message {
		return &ir.Message{Name: name,
			Oneofs: []*ir.Oneof{{Name: "extra"}, {Name: "content", HasConfig: true, Discriminator: sp("type"), Flatten: flat}},
			Fields: []*ir.Field{
				{Name: "id", Number: 1, Kind: "string"},
				{Name: "note", Number: 2, Kind: "string", Card: "optional"},
				{Name: "tag", Number: 3, Kind: "string", Oneof: "extra"},
				{Name: "level", Number: 4, Kind: "int32", Oneof: "extra"},
				{Name: "count", Number: 5, Kind: "int32", Card: "optional"},
				{Name: "text", Number: 10, Kind: "message", TypeName: P + "TextVariantZ", Oneof: "content"},
				{Name: "image", Number: 11, Kind: "message", TypeName: P + "ImageVariantZ", Oneof: "content"},
				{Name: "gone", Number: 12, Kind: "message", TypeName: P + "ImageVariantGone", Oneof: "content"},
			}}
	}
	find := &ir.Message{Name: "Int64Find", Fields: []*ir.Field{
		{Name: "since_id", Number: 1, Kind: "int64", Ann: ir.Ann{Int64Enc: "NUMBER", Query: &ir.Query{Name: "since_id"}}},
		{Name: "max_total", Number: 2, Kind: "uint64", Ann: ir.Ann{Int64Enc: "NUMBER", Query: &ir.Query{Name: "max"}}},
		{Name: "plain_big", Number: 3, Kind: "int64", Ann: ir.Ann{Query: &ir.Query{Name: "plain_big"}}},
		{Name: "page_size", Number: 4, Kind: "int32", Ann: ir.Ann{Query: &ir.Query{Name: "per_page"}}},
		{Name: "only_new", Number: 5, Kind: "bool", Ann: ir.Ann{Query: &ir.Query{Name: "new", Required: false}}},
	}}
	del := &ir.Message{Name: "Int64Drop", Fields: []*ir.Field{
		{Name: "before_id", Number: 1, Kind: "sint64", Ann: ir.Ann{Int64Enc: "NUMBER", Query: &ir.Query{Name: "before"}}},
		{Name: "force", Number: 2, Kind: "bool", Ann: ir.Ann{Query: &ir.Query{Name: "force"}}},
		{Name: "reason", Number: 3, Kind: "string", Ann: ir.Ann{Query: &ir.Query{Name: "why"}}},
	}}
	// well-known and ordinary message fields under every empty_behavior
	emptyZ := &ir.Message{Name: "EmptyStampZ", Fields: []*ir.Field{
		{Name: "started_at", Number: 1, Kind: "message", TypeName: tsType, Ann: ir.Ann{EmptyBehavior: "NULL"}},
		{Name: "ended_at", Number: 2, Kind: "message", TypeName: tsType, Ann: ir.Ann{EmptyBehavior: "OMIT"}},
		{Name: "meta", Number: 3, Kind: "message", TypeName: P + "LeafZ", Ann: ir.Ann{EmptyBehavior: "NULL"}},
		{Name: "kept", Number: 4, Kind: "message", TypeName: P + "LeafZ", Ann: ir.Ann{EmptyBehavior: "PRESERVE"}},
		{Name: "label", Number: 5, Kind: "string"},
	}}
	// a flattened child whose fields are `optional`, nullable, and both (the declaration must
	// follow the nullable marker first: such a field is sent as an explicit null)
	tr := true
	nick := &ir.Message{Name: "NickLeafZ", Fields: []*ir.Field{
		{Name: "nick", Number: 1, Kind: "string", Card: "optional", Ann: ir.Ann{Nullable: &tr}},
		{Name: "city", Number: 2, Kind: "string"},
		{Name: "floor", Number: 3, Kind: "int32", Card: "optional"},
	}}
	flatNull := &ir.Message{Name: "FlatNullZ", Fields: []*ir.Field{
		// an example list with two ADJACENT equal entries: the list is published as declared, every time it is read
		{Name: "id", Number: 1, Kind: "string", Ann: ir.Ann{Examples: []string{"alice", "alice", "bob"}}},
		{Name: "home", Number: 2, Kind: "message", TypeName: P + "NickLeafZ", Ann: ir.Ann{Flatten: &tr}},
		{Name: "work", Number: 3, Kind: "message", TypeName: P + "NickLeafZ", Ann: ir.Ann{Flatten: &tr, FlattenPrefix: sp("work_")}},
	}}
	// explicit json_name on path-bound, query-bound and body fields: every generator must take the
	// property name from the descriptor's JSON name, not re-derive it from the proto name
	alias := &ir.Message{Name: "AliasGet", Fields: []*ir.Field{
		{Name: "user_id", Number: 1, Kind: "string", JSONName: "uid"},
		{Name: "page_size", Number: 2, Kind: "int32", JSONName: "ps", Ann: ir.Ann{Query: &ir.Query{Name: "page_size"}}},
	}}
	aliasPut := &ir.Message{Name: "AliasPut", Fields: []*ir.Field{
		{Name: "user_id", Number: 1, Kind: "string", JSONName: "uid"},
		{Name: "display_name", Number: 2, Kind: "string", JSONName: "label"},
		{Name: "big_total", Number: 3, Kind: "int64", JSONName: "total"},
	}}
	// map-value unwrap whose wrapper has MORE than its unwrap list: the map value still collapses to the
	// bare array on the wire (FindUnwrapField), whatever else the wrapper declares
	barZ := &ir.Message{Name: "BarZ", Fields: []*ir.Field{{Name: "px", Number: 1, Kind: "double"}, {Name: "venue", Number: 2, Kind: "string"}}}
	pageZ := &ir.Message{Name: "BarsPageZ", Fields: []*ir.Field{
		{Name: "bars", Number: 1, Kind: "message", TypeName: P + "BarZ", Card: "repeated", Ann: ir.Ann{Unwrap: true}},
		{Name: "next_token", Number: 2, Kind: "string"}}}
	quotesZ := &ir.Message{Name: "QuotesZ", Fields: []*ir.Field{
		{Name: "by_symbol", Number: 1, Kind: "message", TypeName: P + "BarsPageZ", Card: "map", MapKey: "string"},
		{Name: "label", Number: 2, Kind: "string"}}}
	// TWO discriminated oneofs in one message, the flattened one declared first, the nested one last
	// (and the reverse): whether the message needs the intersection form is a property of all of them
	mkTwo := func(name string, firstFlat bool) *ir.Message {
		return &ir.Message{Name: name,
			Oneofs: []*ir.Oneof{{Name: "content", HasConfig: true, Discriminator: sp("type"), Flatten: firstFlat}, {Name: "origin", HasConfig: true, Discriminator: sp("source"), Flatten: !firstFlat}},
			Fields: []*ir.Field{
				{Name: "id", Number: 1, Kind: "string"},
				{Name: "text", Number: 2, Kind: "message", TypeName: P + "TextVariantZ", Oneof: "content"},
				{Name: "image", Number: 3, Kind: "message", TypeName: P + "ImageVariantZ", Oneof: "content"},
				{Name: "leaf", Number: 4, Kind: "message", TypeName: P + "LeafZ", Oneof: "origin"},
				{Name: "bar", Number: 5, Kind: "message", TypeName: P + "BarZ", Oneof: "origin"},
			}}
	}
	// a flatten field that is ALSO required by its validation rules: the field itself never appears on
	// the wire (its members do, under the prefix), so no published `required` list may name it
	flatReq := &ir.Message{Name: "FlattenRequiredZ", Fields: []*ir.Field{
		{Name: "id", Number: 1, Kind: "string", Rules: &ir.Rules{Required: true}},
		{Name: "billing", Number: 2, Kind: "message", TypeName: P + "LeafZ", Ann: ir.Ann{Flatten: &tr, FlattenPrefix: sp("billing_")}, Rules: &ir.Rules{Required: true}},
		{Name: "depot", Number: 3, Kind: "message", TypeName: P + "LeafZ", Rules: &ir.Rules{Required: true}},
		// `required` on a proto3 optional scalar means "must be set": the empty string / zero is a legal set value
		{Name: "body", Number: 4, Kind: "string", Card: "optional", Rules: &ir.Rules{Required: true}},
		{Name: "rank", Number: 5, Kind: "int32", Card: "optional", Rules: &ir.Rules{Required: true}},
	}}
	// an enum that is ONLY ever a map value (no singular / repeated / optional field of it anywhere)
	f.Enums = append(f.Enums, &ir.Enum{Name: "SwatchZ", Values: []ir.EnumValue{{Name: "SWATCH_Z_UNSPECIFIED", Number: 0}, {Name: "SWATCH_Z_MATTE", Number: 1}, {Name: "SWATCH_Z_GLOSS", Number: 2}}})
	enumMap := &ir.Message{Name: "PlainEnumMapZ", Fields: []*ir.Field{
		{Name: "swatches", Number: 1, Kind: "enum", TypeName: P + "SwatchZ", Card: "map", MapKey: "string"},
		{Name: "title", Number: 2, Kind: "string"}}}
	// a flattened discriminated oneof whose LATER variants repeat a child name of an earlier one (`url` in image and
	// video) or are of the very same message type (image / poster): each union member declares all of its own children
	videoV := &ir.Message{Name: "VideoVariantZ", Fields: []*ir.Field{{Name: "url", Number: 1, Kind: "string"}, {Name: "duration", Number: 2, Kind: "int32"}}}
	shared := &ir.Message{Name: "OneofSharedChildZ",
		Oneofs: []*ir.Oneof{{Name: "media", HasConfig: true, Discriminator: sp("kind"), Flatten: true}},
		Fields: []*ir.Field{
			{Name: "id", Number: 1, Kind: "string"},
			{Name: "image", Number: 2, Kind: "message", TypeName: P + "ImageVariantZ", Oneof: "media"},
			{Name: "video", Number: 3, Kind: "message", TypeName: P + "VideoVariantZ", Oneof: "media"},
			{Name: "poster", Number: 4, Kind: "message", TypeName: P + "ImageVariantZ", Oneof: "media"},
		}}
	f.Messages = []*ir.Message{videoV, shared, enumMap, leaf, stamps, textV, imageV, gone, emptyZ, mkEvent("OneofFlatZ", true), mkEvent("OneofNestedZ", false), find, del, nick, flatNull, alias, aliasPut, barZ, pageZ, quotesZ,
		mkTwo("OneofTwoFlatFirstZ", true), mkTwo("OneofTwoNestedFirstZ", false), flatReq}
	f.Services = []*ir.Service{{Name: "Zoo", BasePath: "/zoo", Methods: []*ir.Method{
		{Name: "PutStamps", Input: P + "PlainStamps", Output: P + "PlainStamps", Config: &ir.HTTPConfig{Path: "/stamps", Method: "POST"}},
		{Name: "PutFlat", Input: P + "OneofFlatZ", Output: P + "OneofFlatZ", Config: &ir.HTTPConfig{Path: "/flat", Method: "POST"}},
		{Name: "PutNested", Input: P + "OneofNestedZ", Output: P + "OneofNestedZ", Config: &ir.HTTPConfig{Path: "/nested", Method: "PUT"}},
		{Name: "PutEmpty", Input: P + "EmptyStampZ", Output: P + "EmptyStampZ", Config: &ir.HTTPConfig{Path: "/empty", Method: "POST"}},
		{Name: "Find", Input: P + "Int64Find", Output: P + "LeafZ", Config: &ir.HTTPConfig{Path: "/find", Method: "GET"}},
		{Name: "Drop", Input: P + "Int64Drop", Output: P + "LeafZ", Config: &ir.HTTPConfig{Path: "/drop", Method: "DELETE"}},
		{Name: "PutFlatNull", Input: P + "FlatNullZ", Output: P + "FlatNullZ", Config: &ir.HTTPConfig{Path: "/flatnull", Method: "POST"}},
		{Name: "GetAlias", Input: P + "AliasGet", Output: P + "AliasPut", Config: &ir.HTTPConfig{Path: "/alias/{user_id}", Method: "GET"}},
		{Name: "PutAlias", Input: P + "AliasPut", Output: P + "AliasPut", Config: &ir.HTTPConfig{Path: "/alias/{user_id}", Method: "PUT"}},
		{Name: "PutQuotes", Input: P + "QuotesZ", Output: P + "QuotesZ", Config: &ir.HTTPConfig{Path: "/quotes", Method: "POST"}},
		{Name: "PutFlatRequired", Input: P + "FlattenRequiredZ", Output: P + "FlattenRequiredZ", Config: &ir.HTTPConfig{Path: "/flat-required", Method: "POST"}},
		// a NON-root unwrap wrapper (the unwrap list plus another field) returned by an RPC directly: its JSON is the plain object
		{Name: "PutBarsPage", Input: P + "BarsPageZ", Output: P + "BarsPageZ", Config: &ir.HTTPConfig{Path: "/bars-page", Method: "POST"}},
		{Name: "PutEnumMap", Input: P + "PlainEnumMapZ", Output: P + "PlainEnumMapZ", Config: &ir.HTTPConfig{Path: "/enum-map", Method: "POST"}},
		{Name: "PutShared", Input: P + "OneofSharedChildZ", Output: P + "OneofSharedChildZ", Config: &ir.HTTPConfig{Path: "/shared", Method: "POST"}},
		{Name: "PutTwoA", Input: P + "OneofTwoFlatFirstZ", Output: P + "OneofTwoFlatFirstZ", Config: &ir.HTTPConfig{Path: "/two-a", Method: "POST"}},
		{Name: "PutTwoB", Input: P + "OneofTwoNestedFirstZ", Output: P + "OneofTwoNestedFirstZ", Config: &ir.HTTPConfig{Path: "/two-b", Method: "POST"}},
	}}}
	return &ir.Request{Files: []*ir.File{f}, Generate: []string{f.Name}}
}

// GenNestedAnnot is a FIXED schema in which every codec feature sits on a message NESTED inside a
// parent that carries no annotation of its own (collectors that stop at un-annotated parents miss
// them), plus an enum with custom values declared inside a message. withService adds an RPC.
func GenNestedAnnot(idx int, withService bool) *ir.Request {
	pkg := "nest.v1"
	P := "." + pkg + "."
	f := &ir.File{Name: fmt.Sprintf("nest%d/types.proto", idx), Package: pkg, GoPackage: "example.com/gen/nest/v1;nestv1"}
	leaf := &ir.Message{Name: "LeafN", Fields: []*ir.Field{{Name: "street", Number: 1, Kind: "string"}, {Name: "zip", Number: 2, Kind: "int32"}}}
	tr := true
	report := &ir.Message{Name: "ParentReport", Fields: []*ir.Field{
		{Name: "title", Number: 1, Kind: "string"},
		{Name: "bucket", Number: 2, Kind: "message", TypeName: P + "ParentReport.Int64Bucket"},
		{Name: "maybe", Number: 3, Kind: "message", TypeName: P + "ParentReport.NullableMaybe"},
		{Name: "stamp", Number: 4, Kind: "message", TypeName: P + "ParentReport.TsStamp"},
		{Name: "blob", Number: 5, Kind: "message", TypeName: P + "ParentReport.BytesBlob"},
		{Name: "holder", Number: 6, Kind: "message", TypeName: P + "ParentReport.EmptyHolder"},
		{Name: "flat", Number: 7, Kind: "message", TypeName: P + "ParentReport.FlattenFlat"},
		{Name: "event", Number: 8, Kind: "message", TypeName: P + "ParentReport.OneofEvent"},
		{Name: "state", Number: 9, Kind: "enum", TypeName: P + "ParentReport.State"},
	},
		Enums: []*ir.Enum{{Name: "State", Values: []ir.EnumValue{{Name: "STATE_UNSPECIFIED", Number: 0}, {Name: "STATE_ON", Number: 1, Custom: sp("on-line")}, {Name: "STATE_OFF", Number: 2}}}},
		Nested: []*ir.Message{
			{Name: "Int64Bucket", Fields: []*ir.Field{{Name: "count", Number: 1, Kind: "int64", Ann: ir.Ann{Int64Enc: "NUMBER"}}, {Name: "sizes", Number: 2, Kind: "uint64", Card: "repeated", Ann: ir.Ann{Int64Enc: "NUMBER"}}}},
			{Name: "NullableMaybe", Fields: []*ir.Field{{Name: "note", Number: 1, Kind: "string", Card: "optional", Ann: ir.Ann{Nullable: &tr}}}},
			{Name: "TsStamp", Fields: []*ir.Field{{Name: "at", Number: 1, Kind: "message", TypeName: tsType, Ann: ir.Ann{TsFormat: "UNIX_MILLIS"}}}},
			{Name: "BytesBlob", Fields: []*ir.Field{{Name: "raw", Number: 1, Kind: "bytes", Ann: ir.Ann{BytesEnc: "HEX"}}}},
			{Name: "EmptyHolder", Fields: []*ir.Field{{Name: "meta", Number: 1, Kind: "message", TypeName: P + "LeafN", Ann: ir.Ann{EmptyBehavior: "NULL"}}}},
			{Name: "FlattenFlat", Fields: []*ir.Field{{Name: "name", Number: 1, Kind: "string"}, {Name: "home", Number: 2, Kind: "message", TypeName: P + "LeafN", Ann: ir.Ann{Flatten: &tr, FlattenPrefix: sp("home_")}}}},
			{Name: "OneofEvent", Oneofs: []*ir.Oneof{{Name: "content", HasConfig: true, Discriminator: sp("type"), Flatten: true}},
				Fields: []*ir.Field{{Name: "id", Number: 1, Kind: "string"}, {Name: "leaf", Number: 2, Kind: "message", TypeName: P + "LeafN", Oneof: "content"}}},
		}}
	f.Messages = []*ir.Message{leaf, report}
	// a second enum with the SAME SHORT NAME (State), nested in another message, with other custom values
	shipment := &ir.Message{Name: "ParentShipment", Fields: []*ir.Field{
		{Name: "state", Number: 1, Kind: "enum", TypeName: P + "ParentShipment.State"},
		{Name: "history", Number: 2, Kind: "enum", TypeName: P + "ParentShipment.State", Card: "repeated"}},
		Enums: []*ir.Enum{{Name: "State", Values: []ir.EnumValue{{Name: "STATE_UNKNOWN", Number: 0}, {Name: "STATE_MOVING", Number: 1, Custom: sp("in-transit")}, {Name: "STATE_DONE", Number: 2, Custom: sp("delivered")}}}}}
	f.Messages = append(f.Messages, shipment)
	if withService {
		f.Services = []*ir.Service{{Name: "Nest", BasePath: "/nest", Methods: []*ir.Method{{Name: "Put", Input: P + "ParentReport", Output: P + "ParentReport", Config: &ir.HTTPConfig{Path: "/put", Method: "POST"}}}}}
	}
	return &ir.Request{Files: []*ir.File{f}, Generate: []string{f.Name}}
}

// GenFeaturePairs is a FIXED schema in which every per-file helper decision (which packages a codec
// file imports, which helper functions it defines) depends on MORE THAN ONE annotated message: two
// messages with different bytes encodings (hex first, a base64 variant last; and the reverse, nested),
// two with different timestamp formats, signed and unsigned repeated NUMBER-encoded 64-bit fields.
func GenFeaturePairs(idx int) *ir.Request {
	pkg := "pairs.v1"
	P := "." + pkg + "."
	f := &ir.File{Name: fmt.Sprintf("pairs%d/types.proto", idx), Package: pkg, GoPackage: "example.com/gen/pairs/v1;pairsv1"}
	f.Messages = []*ir.Message{
		{Name: "HexFirst", Fields: []*ir.Field{{Name: "digest", Number: 1, Kind: "bytes", Ann: ir.Ann{BytesEnc: "HEX"}}}},
		{Name: "UrlLast", Fields: []*ir.Field{{Name: "token", Number: 1, Kind: "bytes", Ann: ir.Ann{BytesEnc: "BASE64URL"}}},
			Nested: []*ir.Message{{Name: "Raw", Fields: []*ir.Field{{Name: "blob", Number: 1, Kind: "bytes", Ann: ir.Ann{BytesEnc: "BASE64_RAW"}}}}}},
		{Name: "SecondsFirst", Fields: []*ir.Field{{Name: "at", Number: 1, Kind: "message", TypeName: tsType, Ann: ir.Ann{TsFormat: "UNIX_SECONDS"}}}},
		{Name: "DateLast", Fields: []*ir.Field{{Name: "on", Number: 1, Kind: "message", TypeName: tsType, Ann: ir.Ann{TsFormat: "DATE"}}}},
		{Name: "SignedList", Fields: []*ir.Field{{Name: "deltas", Number: 1, Kind: "sint64", Card: "repeated", Ann: ir.Ann{Int64Enc: "NUMBER"}}}},
		{Name: "UnsignedList", Fields: []*ir.Field{{Name: "sizes", Number: 1, Kind: "uint64", Card: "repeated", Ann: ir.Ann{Int64Enc: "NUMBER"}},
			{Name: "hashes", Number: 2, Kind: "fixed64", Card: "repeated", Ann: ir.Ann{Int64Enc: "NUMBER"}}}},
		{Name: "Req", Fields: []*ir.Field{{Name: "q", Number: 1, Kind: "string"}}},
	}
	f.Services = []*ir.Service{{Name: "Pairs", BasePath: "/pairs", Methods: []*ir.Method{
		{Name: "Hex", Input: P + "Req", Output: P + "HexFirst", Config: &ir.HTTPConfig{Path: "/hex", Method: "POST"}},
		{Name: "Url", Input: P + "Req", Output: P + "UrlLast", Config: &ir.HTTPConfig{Path: "/url", Method: "POST"}}}}}
	return &ir.Request{Files: []*ir.File{f}, Generate: []string{f.Name}}
}
