import Sebuf.Driver
import Sebuf.DriverOps
open Lean (Json)

partial def loop (h : IO.FS.Stream) (out : IO.FS.Stream) : IO Unit := do
  let line ← h.getLine
  if line.isEmpty then return ()
  let t := line.trimAscii.toString
  if t.isEmpty then loop h out else
  let res : Json :=
    match Json.parse t with
    | .error e => Json.mkObj [("driver_err", Json.str e)]
    | .ok j =>
      let op := match j.getObjValAs? String "op" with | .ok s => s | .error _ => ""
      let id := j.getObjValD "id"
      let r := Sebuf.DriverOps.dispatch op j
      Json.mkObj [("id", id), ("op", Json.str op), ("out", r)]
  out.putStrLn res.compress
  out.flush
  loop h out

def main : IO Unit := do
  loop (← IO.getStdin) (← IO.getStdout)
