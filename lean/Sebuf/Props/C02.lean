import Sebuf.Bind
import Sebuf.Lemmas.Dec
import Sebuf.Lemmas.PropsC02
/-!
# C02 — URL-carried fields reach the handler with the URL's value, for every verb

`Holds order` is the full statement for a middleware that runs its steps in `order`.
`generic` proves it for every order in which the body step precedes the URL binders — whatever
else the order contains. The emitted middleware's order is the regenerated fact
`Gen.Pipeline.order`: today `order_today` shows the body step comes LAST, `not_full` is the
proved negation (known finding C02 `body_resets_url_fields`), and `bodiless_partial` is what
still holds (no body decoded). After the obvious repair `order_today` flips and `Holds` follows
from `generic` by `decide`.

Conversion of URL text uses the regenerated `convertStringToFieldValue` table: `convert_in_range`
and `convert_out_of_range` tie each integer kind to its protobuf range.

`WF` (request well-formedness) and `UrlBound` are defined in `Sebuf.Lemmas.PropsC02`, next to the
association-list lemmas whose statements use them.
-/
namespace Sebuf.C02
open Sebuf Sebuf.Bind

variable {V : Type}

/-- **Full statement** for a middleware running `order`: a URL-bound field the body does not
mention reaches the handler with the URL's value, whether or not a body is present. -/
def Holds (V : Type) (order : List Step) : Prop :=
  ∀ (r : Req V) (f : Str) (u : V), WF r → UrlBound r f u →
    (∀ fs, r.body = some fs → f ∉ fs.map Prod.fst) → fget f (bindMsg order r) = some u

/-- **C02, generic**: for EVERY order in which the body step precedes both URL binders the full
statement holds (the hypothesis on the body is not even needed: the URL wins). -/
theorem generic (order : List Step)
    (h : relevant order = [.body, .path, .query] ∨ relevant order = [.body, .query, .path]) :
    Holds V order := by
  intro r f u hwf hb _
  rw [bind_relevant]
  rcases h with h | h <;> rw [h] <;> simp only [bindMsg, List.foldl_cons, List.foldl_nil, applyStep]
  · exact (url_value_after r f u hwf hb _).1
  · exact (url_value_after r f u hwf hb _).2

/-- the order the emitted middleware has NOW (regenerated from the emitted text): since the
repair `fix: go-http: bind the request body before path and query parameters` the body step
precedes both URL binders. -/
theorem order_today : relevant currentOrder = [.body, .path, .query] := by decide

/-- **C02, full**: with the regenerated order, a URL-bound field reaches the handler with the
URL's value for every verb and every body (`generic` applied to today's order). -/
theorem full : Holds V currentOrder := generic currentOrder (Or.inl order_today)

/-- what the regression looked like (the order before the repair; entry `body_resets_url_fields`,
fixed): POST /users/xyz with body `{"note": …}` — the body decode reset the message after the URL
binders had run. A return to that order makes `order_today` fail. -/
theorem body_last_does_not_hold : ¬ Holds Nat [.headers, .path, .query, .body, .validate] := by
  intro h
  have := h { bodyVerb := true, pathVals := [("user_id".toList, 7)], queryVals := [], body := some [("note".toList, 1)] }
    "user_id".toList 7 (by refine ⟨?_, ?_, ?_⟩ <;> simp) (Or.inl (by simp)) (by intro fs hfs; simp at hfs; subst hfs; decide)
  revert this; decide

/-- **C02, partial (today's order)**: when no body is decoded (bodiless verb, or absent / empty
body) the URL value reaches the handler. -/
theorem bodiless_partial (r : Req V) (f : Str) (u : V) (hwf : WF r) (hb : UrlBound r f u)
    (hno : r.bodyVerb = false ∨ r.body = none) : fget f (bindMsg currentOrder r) = some u := by
  rw [bind_relevant, order_today]
  simp only [bindMsg, List.foldl_cons, List.foldl_nil, applyStep]
  have := (url_value_after r f u hwf hb []).1
  rcases hno with hno | hno
  · simp [hno, this]
  · simp [hno, this]

/-- non-vacuity: a well-formed request with a URL-bound field. -/
example : WF ({ bodyVerb := false, pathVals := [("id".toList, 1)], queryVals := [("page".toList, 2)], body := none } : Req Nat) ∧
    UrlBound ({ bodyVerb := false, pathVals := [("id".toList, 1)], queryVals := [("page".toList, 2)], body := none } : Req Nat) "page".toList 2 := by
  refine ⟨⟨?_, ?_, ?_⟩, Or.inr ?_⟩ <;> simp

/-! ## URL text conversion over the regenerated table -/

/-- the regenerated `convertStringToFieldValue` table: every integer kind is parsed with the
parser and bit size of its protobuf range. -/
theorem table_int_kinds :
    lookupKind "int32" = some ("ParseInt", "32") ∧ lookupKind "sint32" = some ("ParseInt", "32") ∧
    lookupKind "sfixed32" = some ("ParseInt", "32") ∧ lookupKind "int64" = some ("ParseInt", "64") ∧
    lookupKind "sint64" = some ("ParseInt", "64") ∧ lookupKind "sfixed64" = some ("ParseInt", "64") ∧
    lookupKind "uint32" = some ("ParseUint", "32") ∧ lookupKind "fixed32" = some ("ParseUint", "32") ∧
    lookupKind "uint64" = some ("ParseUint", "64") ∧ lookupKind "fixed64" = some ("ParseUint", "64") := by decide

/-- kinds the table does not list make the emitted server answer 400 (`unsupported field type`). -/
theorem unlisted_kinds_rejected : Gen.Pipeline.convertDefaultIsError = true ∧
    lookupKind "bytes" = none ∧ lookupKind "enum" = none ∧ lookupKind "message" = none := by decide

def signedKinds : List String := ["int32", "sint32", "sfixed32", "int64", "sint64", "sfixed64"]

/-- **in range ⇒ exact**: the decimal text of any value in the kind's protobuf range converts back to it. -/
theorem convert_in_range_signed (kind : String) (hk : kind ∈ signedKinds) (lo hi v : Int)
    (hr : kindRange kind = some (lo, hi)) (h : lo ≤ v ∧ v ≤ hi) : convertInt kind (intToDec v) = some (some v) := by
  obtain ⟨h1, h2, h3, h4, h5, h6, _⟩ := table_int_kinds
  simp only [signedKinds, List.mem_cons, List.mem_nil_iff, or_false] at hk
  rcases hk with rfl | rfl | rfl | rfl | rfl | rfl <;>
    simp only [kindRange, Option.some.injEq, Prod.mk.injEq] at hr <;> obtain ⟨rfl, rfl⟩ := hr <;>
    simp only [convertInt, h1, h2, h3, h4, h5, h6, intParser, Option.map_some] <;>
    congr 1
  · exact parseInt_intToDec 32 (by decide) v (by simpa using h)
  · exact parseInt_intToDec 32 (by decide) v (by simpa using h)
  · exact parseInt_intToDec 32 (by decide) v (by simpa using h)
  · exact parseInt_intToDec 64 (by decide) v (by simpa using h)
  · exact parseInt_intToDec 64 (by decide) v (by simpa using h)
  · exact parseInt_intToDec 64 (by decide) v (by simpa using h)

/-- **out of range ⇒ 400**: the decimal text of a value outside the kind's range is a conversion
error (so the handler is not invoked with a truncated value). -/
theorem convert_out_of_range_signed (kind : String) (hk : kind ∈ signedKinds) (lo hi v : Int)
    (hr : kindRange kind = some (lo, hi)) (h : v < lo ∨ v > hi) : convertInt kind (intToDec v) = some none := by
  obtain ⟨h1, h2, h3, h4, h5, h6, _⟩ := table_int_kinds
  simp only [signedKinds, List.mem_cons, List.mem_nil_iff, or_false] at hk
  rcases hk with rfl | rfl | rfl | rfl | rfl | rfl <;>
    simp only [kindRange, Option.some.injEq, Prod.mk.injEq] at hr <;> obtain ⟨rfl, rfl⟩ := hr <;>
    simp only [convertInt, h1, h2, h3, h4, h5, h6, intParser, Option.map_some] <;>
    congr 1
  · exact parseInt_out_of_range 32 v (by rcases h with h | h; exact Or.inr (by simpa using h); exact Or.inl (by simpa using h))
  · exact parseInt_out_of_range 32 v (by rcases h with h | h; exact Or.inr (by simpa using h); exact Or.inl (by simpa using h))
  · exact parseInt_out_of_range 32 v (by rcases h with h | h; exact Or.inr (by simpa using h); exact Or.inl (by simpa using h))
  · exact parseInt_out_of_range 64 v (by rcases h with h | h; exact Or.inr (by simpa using h); exact Or.inl (by simpa using h))
  · exact parseInt_out_of_range 64 v (by rcases h with h | h; exact Or.inr (by simpa using h); exact Or.inl (by simpa using h))
  · exact parseInt_out_of_range 64 v (by rcases h with h | h; exact Or.inr (by simpa using h); exact Or.inl (by simpa using h))

/-- unsigned kinds: in-range values convert exactly. -/
theorem convert_in_range_unsigned (kind : String) (hk : kind ∈ ["uint32", "fixed32", "uint64", "fixed64"]) (n : Nat)
    (hi : Int) (hr : kindRange kind = some (0, hi)) (h : (n : Int) ≤ hi) :
    convertInt kind (natToDec n) = some (some (n : Int)) := by
  obtain ⟨_, _, _, _, _, _, h7, h8, h9, h10⟩ := table_int_kinds
  simp only [List.mem_cons, List.mem_nil_iff, or_false] at hk
  rcases hk with rfl | rfl | rfl | rfl <;>
    simp only [kindRange, Option.some.injEq, Prod.mk.injEq, true_and] at hr <;> subst hr <;>
    simp only [convertInt, h7, h8, h9, h10, intParser, Option.map_some]
  · rw [parseUint_natToDec 32 n (by omega)]; rfl
  · rw [parseUint_natToDec 32 n (by omega)]; rfl
  · rw [parseUint_natToDec 64 n (by omega)]; rfl
  · rw [parseUint_natToDec 64 n (by omega)]; rfl

/-- concrete boundary checks (these are tests, labelled as such). -/
example : convertInt "int32" "2147483648".toList = some none := by decide
example : convertInt "int32" "-2147483648".toList = some (some (-2147483648)) := by decide
example : convertInt "uint32" "-1".toList = some none := by decide
example : convertInt "int64" "abc".toList = some none := by decide
example : convertBool "yes".toList = some none := by decide

/-! ### occurrences of a query parameter -/

/-- tie: the emitted `bindQueryParams` takes the occurrences from `query[param.QueryName]`, ranges over
ALL of them for a `repeated` field handing each occurrence as one element to the converter, and
gives a singular field the first one; every integer conversion is written with base 10. -/
theorem query_binding_transcribed :
    Gen.Pipeline.queryValuesLookup = "query[param.QueryName]" ∧ Gen.Pipeline.queryListRange = "values" ∧
    Gen.Pipeline.queryListElemArg = "v" ∧ Gen.Pipeline.querySingularArg = "values[0]" ∧
    (∀ p ∈ Gen.Pipeline.convertBases, p.2 = "10") ∧ Gen.Pipeline.convertBases.length = 10 := by decide

/-- **a repeated field receives every occurrence, in order**: when each occurrence converts, the list
the handler sees is the list of the converted occurrences — as many elements as occurrences, nothing
split, nothing merged. -/
theorem mapM_some_iff {α β : Type} (conv : β → Option α) :
    ∀ (occ : List β) (vs : List α), occ.mapM conv = some vs ↔ occ.map conv = vs.map some
  | [], vs => by cases vs <;> simp
  | t :: ts, vs => by
    have ih := mapM_some_iff conv ts
    cases hc : conv t with
    | none => cases vs <;> simp [List.mapM_cons, hc]
    | some v =>
      cases hm : ts.mapM conv with
      | none =>
        cases vs with
        | nil => simp [List.mapM_cons, hc, hm]
        | cons w ws =>
          have hno : ¬ (ts.map conv = List.map some ws) := fun h => by
            have h2 := (ih ws).2 h
            rw [hm] at h2
            cases h2
          simp [List.mapM_cons, hc, hm, hno]
      | some l =>
        have hl : ts.map conv = List.map some l := (ih l).1 hm
        cases vs with
        | nil => simp [List.mapM_cons, hc, hm]
        | cons w ws =>
          simp only [List.mapM_cons, hc, hm, List.map_cons, List.cons.injEq, Option.some.injEq]
          constructor
          · intro h
            have h' : v :: l = w :: ws := by simpa using h
            obtain ⟨rfl, rfl⟩ := List.cons.inj h'
            exact ⟨rfl, hl⟩
          · rintro ⟨rfl, h⟩
            have hws : ts.mapM conv = some ws := (ih ws).2 h
            rw [hm] at hws
            cases hws
            simp

theorem list_binds_every_occurrence {α β : Type} (conv : β → Option α) (occ : List β) (vs : List α) :
    bindList conv occ = some vs ↔ occ.map conv = vs.map some := mapM_some_iff conv occ vs

theorem list_length_preserved {α β : Type} (conv : β → Option α) (occ : List β) (vs : List α)
    (h : bindList conv occ = some vs) : vs.length = occ.length := by
  have := congrArg List.length ((list_binds_every_occurrence conv occ vs).1 h)
  simpa using this.symm

/-- **one bad element fails the request**: if any occurrence does not convert, nothing is dispatched. -/
theorem list_bad_element_rejected {α β : Type} (conv : β → Option α) (occ : List β) (t : β) (ht : t ∈ occ)
    (hc : conv t = none) : bindList conv occ = none := by
  cases h : bindList conv occ with
  | none => rfl
  | some vs =>
    have hm := (list_binds_every_occurrence conv occ vs).1 h
    have : conv t ∈ occ.map conv := List.mem_map_of_mem ht
    rw [hm, hc] at this
    simp at this

/-- a comma is part of the element (no splitting), a leading zero is decimal, a prefix or a digit
separator is no number (tests of the leaves, labelled as such). -/
example : bindList (fun s : Str => some s) ["Doe, John".toList, "x".toList] = some ["Doe, John".toList, "x".toList] := by decide
example : bindList (fun s => (convertInt "int32" s).join) ["7".toList, "1,2".toList] = none := by decide
example : convertInt "uint64" "0010".toList = some (some 10) ∧ convertInt "uint64" "0x1F".toList = some none ∧
    convertInt "fixed64" "1_000".toList = some none ∧ convertInt "uint64" "08".toList = some (some 8) := by decide
example : bindSingular (fun s : Str => some s) ["first".toList, "second".toList] = some (some "first".toList) := by decide

/-- the branch of the emitted `bindQueryParams` for a parameter without occurrences, regenerated. -/
theorem query_absent_branch_transcribed :
    Gen.Pipeline.queryAbsentTest = "len(values) == 0" ∧ Gen.Pipeline.queryAbsentRequiredTest = "param.Required" ∧
    Gen.Pipeline.queryAbsentRequiredReturns = true ∧ Gen.Pipeline.queryAbsentOtherwise = "continue" := by decide

/-- **a missing required query parameter is refused**, for every conversion — and nothing about the bound field
(its kind, its `optional` keyword) enters the decision. -/
theorem missing_required_query_rejected {α β : Type} (conv : β → Option α) :
    bindQueryParam true conv ([] : List β) = .rejected := by
  have h1 : (Gen.Pipeline.queryAbsentTest == "len(values) == 0") = true := by decide
  have h2 : (Gen.Pipeline.queryAbsentRequiredTest == "param.Required") = true := by decide
  have h3 : Gen.Pipeline.queryAbsentRequiredReturns = true := by decide
  simp [bindQueryParam, h1, h2, h3]

/-- a missing parameter that is not required leaves the field alone. -/
theorem missing_optional_query_skipped {α β : Type} (conv : β → Option α) :
    bindQueryParam false conv ([] : List β) = .absent := by
  have h1 : (Gen.Pipeline.queryAbsentTest == "len(values) == 0") = true := by decide
  simp [bindQueryParam, h1]

/-- a parameter that occurs is bound to the conversion of its FIRST occurrence, or refused when that does not convert,
whether it is required or not. -/
theorem present_query_first_occurrence {α β : Type} (required : Bool) (conv : β → Option α) (t : β) (rest : List β) :
    bindQueryParam required conv (t :: rest) = (match conv t with | some v => .bound v | none => .rejected) := by
  simp only [bindQueryParam, List.isEmpty_cons, Bool.false_and, bindSingular]
  cases conv t <;> simp

end Sebuf.C02
