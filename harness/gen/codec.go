package gen

import (
	"fmt"
	"strings"

	"google.golang.org/protobuf/reflect/protoreflect"
	"google.golang.org/protobuf/types/dynamicpb"

	"verif/harness/ir"
)

// GenCodecFile builds a file around the three generated codec templates that encode through
// Go's encoding/json (flatten, discriminated oneof, map-value-unwrap container), with the child
// shapes those templates are sensitive to:
//
//   - FlattenTwo: two flatten fields of the SAME child type (different prefixes);
//   - FlattenRich: a flattened child holding every scalar kind, optional / repeated / map fields,
//     plain and annotated nested messages, enums with and without custom values, a Timestamp;
//   - FlattenOneofChild: a flattened child with a oneof; FlattenBoolMap: one with map<bool,_>;
//     FlattenCustom: one whose type has its own generated MarshalJSON; FlattenSame: a flatten field
//     without prefix named like one of its child's members;
//   - OneofFlat / OneofNest: a discriminated oneof (flattened / nested) whose variants are an
//     EMPTY message, one with single-word field names only, one with multi-word names and one
//     with its own generated MarshalJSON (plus a scalar member when nested);
//   - UnwrapCont: a container with map<string, Wrapper{repeated MESSAGE [unwrap]}> and
//     map<string, Wrapper{repeated SCALAR [unwrap]}> next to sibling fields of every shape;
//   - UnwrapRoot: the combined root-map + value-unwrap message over a scalar wrapper;
//   - TsAll / BytesAll / Int64All / NullableAll / EmptyAll: one message per per-field template
//     with every variant of its annotation (so that each is exercised in every tier).
//
// Every shape compiles with the current generators. Names start with the feature names the
// codec check groups by (Flatten…, Oneof…, Unwrap…).
func GenCodecFile(r *R, idx int) *ir.File {
	pkg := "codec.v1"
	f := &ir.File{Name: fmt.Sprintf("k%d/codec.proto", idx), Package: pkg,
		GoPackage: "example.com/gen/codec/v1;codecv1"}
	P := "." + pkg + "."
	msg := func(name string, fields ...*ir.Field) *ir.Message {
		m := &ir.Message{Name: name, Fields: fields}
		for i, fl := range m.Fields {
			if fl.Number == 0 {
				fl.Number = int32(i + 1)
			}
		}
		f.Messages = append(f.Messages, m)
		return m
	}
	fld := func(name, kind string) *ir.Field { return &ir.Field{Name: name, Kind: kind} }
	card := func(fl *ir.Field, c string) *ir.Field { fl.Card = c; return fl }
	mp := func(fl *ir.Field, key string) *ir.Field { fl.Card = "map"; fl.MapKey = key; return fl }
	mf := func(name, typ string) *ir.Field { return &ir.Field{Name: name, Kind: "message", TypeName: P + typ} }
	ef := func(name, typ string) *ir.Field { return &ir.Field{Name: name, Kind: "enum", TypeName: P + typ} }
	flat := func(fl *ir.Field, prefix string) *ir.Field {
		fl.Ann.Flatten = bp(true)
		if prefix != "" {
			fl.Ann.FlattenPrefix = sp(prefix)
		}
		return fl
	}
	oneofM := func(fl *ir.Field, o string) *ir.Field { fl.Oneof = o; return fl }

	f.Enums = append(f.Enums,
		&ir.Enum{Name: "Tint", Values: []ir.EnumValue{{Name: "TINT_UNSPECIFIED", Number: 0}, {Name: "TINT_RED", Number: 1}, {Name: "TINT_BLUE", Number: 2}}},
		&ir.Enum{Name: "Phase", Values: []ir.EnumValue{{Name: "PHASE_UNSPECIFIED", Number: 0}, {Name: "PHASE_ACTIVE", Number: 1, Custom: sp("active")}, {Name: "PHASE_GONE", Number: 2},
			// custom wire values that LOOK like numbers (and are not the value's own number): a string is looked up in the
			// table of custom values, it is never read as an enum number
			{Name: "PHASE_OK", Number: 3, Custom: sp("200")}, {Name: "PHASE_FIRST", Number: 4, Custom: sp("1")}}})

	// children
	msg("Spot", fld("street", "string"), fld("zip_code", "string"), fld("count", "int32"))
	addr := msg("Addr", fld("street", "string"), fld("city", "string"), fld("unit", "int32"))
	if r.Bool() {
		addr.Fields = append(addr.Fields, &ir.Field{Name: "zip_code", Number: 4, Kind: "string"})
	}
	msg("Int64Child", &ir.Field{Name: "big_val", Kind: "int64", Ann: ir.Ann{Int64Enc: "NUMBER"}}, fld("other_name", "string"), fld("cnt", "int32"))
	msg("Rich",
		fld("s_one", "string"), fld("count", "int32"), fld("big", "int64"), fld("big_u", "uint64"), fld("flag", "bool"),
		fld("ratio", "double"), fld("flt", "float"), fld("blob", "bytes"), ef("tint", "Tint"), ef("phase", "Phase"),
		card(fld("opt_s", "string"), "optional"), card(fld("opt_i", "int64"), "optional"), card(fld("opt_b", "bool"), "optional"),
		card(ef("opt_e", "Tint"), "optional"), card(fld("opt_f", "double"), "optional"), card(fld("opt_y", "bytes"), "optional"),
		card(fld("rep_s", "string"), "repeated"), card(fld("rep_i64", "int64"), "repeated"), card(ef("rep_e", "Phase"), "repeated"),
		card(fld("rep_b", "bytes"), "repeated"), card(fld("rep_f", "float"), "repeated"),
		mp(fld("map_si", "int64"), "string"), mp(fld("map_is", "string"), "int32"), mp(fld("map_u64", "string"), "uint64"),
		mf("kid", "Spot"), card(mf("kids", "Spot"), "repeated"), mp(mf("by_k", "Spot"), "string"),
		mf("bign", "Int64Child"), card(mf("bigns", "Int64Child"), "repeated"),
		&ir.Field{Name: "at_time", Kind: "message", TypeName: tsType},
		fld("s32", "sint32"), fld("f64", "fixed64"), fld("sf32", "sfixed32"), fld("u32", "uint32"), fld("sf64", "sfixed64"))
	richO := msg("RichO", fld("name", "string"),
		oneofM(fld("as_text", "string"), "my_choice"), oneofM(mf("as_spot", "Spot"), "my_choice"), oneofM(fld("as_num", "int64"), "my_choice"))
	richO.Oneofs = []*ir.Oneof{{Name: "my_choice"}}
	msg("BoolKeys", fld("label", "string"), mp(fld("flags", "string"), "bool"))

	// flatten parents
	msg("FlattenTwo", fld("title", "string"), flat(mf("billing", "Addr"), "billing_"), flat(mf("shipping", "Addr"), "shipping_"))
	richPrefix := Pick(r, []string{"", "h_", "home_"})
	msg("FlattenRich", fld("title", "string"), flat(mf("home", "Rich"), richPrefix))
	msg("FlattenOneofChild", fld("title", "string"), flat(mf("inner", "RichO"), Pick(r, []string{"", "in_"})))
	msg("FlattenBoolMap", fld("title", "string"), flat(mf("inner", "BoolKeys"), "b_"))
	msg("FlattenCustom", fld("title", "string"), flat(mf("num", "Int64Child"), Pick(r, []string{"", "n_"})))
	// a flatten field WITHOUT prefix whose child has a member named like the field itself
	// (`Addr street` / `string street`): the promoted member takes the place of the nested key
	msg("FlattenSame", fld("title", "string"), flat(mf("street", "Addr"), ""))

	// oneof variants
	msg("Gone")
	msg("Single", fld("body", "string"), fld("width", "int32"), fld("big", "int64"), card(fld("tags", "string"), "repeated"), fld("ratio", "double"), ef("tint", "Tint"))
	msg("Multi", fld("lang_code", "string"), fld("url", "string"), fld("max_size", "int64"))
	variants := func(m *ir.Message, nested bool) {
		no := int32(len(m.Fields) + 1)
		add := func(fl *ir.Field, val string) {
			fl.Number = no
			no++
			fl.Oneof = "content"
			if val != "" {
				fl.Ann.OneofValue = sp(val)
			}
			m.Fields = append(m.Fields, fl)
		}
		add(mf("gone", "Gone"), Pick(r, []string{"", "deleted"}))
		add(mf("single", "Single"), Pick(r, []string{"", "one"}))
		add(mf("multi_word", "Multi"), Pick(r, []string{"", "mw"}))
		add(mf("num", "Int64Child"), "")
		if nested {
			add(fld("code", "int32"), "")
		}
	}
	of := msg("OneofFlat", fld("ident", "string"))
	of.Oneofs = []*ir.Oneof{{Name: "content", HasConfig: true, Discriminator: sp(Pick(r, []string{"type", "kind", "eventType"})), Flatten: true}}
	variants(of, false)
	on := msg("OneofNest", fld("ident", "string"))
	on.Oneofs = []*ir.Oneof{{Name: "content", HasConfig: true, Discriminator: sp(Pick(r, []string{"type", "kind"})), Flatten: false}}
	variants(on, true)

	// TWO discriminated oneofs in one message (one flattened, one nested; both orders): each is rewritten on its own,
	// whatever the state of the other — in particular when one of them is unset and the other is set
	msg("ViaDoor", fld("porch", "string"), fld("floor", "int32"))
	msg("ViaRelay", fld("hub", "string"), fld("hops", "int32"))
	pair := func(name string, firstFlat bool) {
		m := msg(name, fld("ident", "string"))
		m.Oneofs = []*ir.Oneof{{Name: "content", HasConfig: true, Discriminator: sp("type"), Flatten: firstFlat}}
		variants(m, !firstFlat)
		m.Oneofs = append(m.Oneofs, &ir.Oneof{Name: "origin", HasConfig: true, Discriminator: sp("via"), Flatten: !firstFlat})
		no := int32(len(m.Fields) + 1)
		for _, v := range [][2]string{{"door", "ViaDoor"}, {"relay", "ViaRelay"}} {
			fl := mf(v[0], v[1])
			fl.Number, fl.Oneof = no, "origin"
			no++
			m.Fields = append(m.Fields, fl)
		}
	}
	pair("OneofPairA", true)
	pair("OneofPairB", false)

	// unwrap wrappers, container, combined root
	msg("BarList", &ir.Field{Name: "bars", Kind: "message", TypeName: P + "Spot", Card: "repeated", Ann: ir.Ann{Unwrap: true}})
	scalarKind := Pick(r, []string{"int64", "string", "int32", "double", "uint32", "bool"})
	msg("NumList", &ir.Field{Name: "nums", Kind: scalarKind, Card: "repeated", Ann: ir.Ann{Unwrap: true}})
	rootKind := Pick(r, []string{"int64", "string", "int32", "sint64"})
	msg("RootList", &ir.Field{Name: "vals", Kind: rootKind, Card: "repeated", Ann: ir.Ann{Unwrap: true}})
	msg("UnwrapCont",
		mp(mf("by_symbol", "BarList"), "string"), mp(mf("by_n", "NumList"), "string"),
		fld("note_x", "string"), fld("big_i", "int64"), ef("tint", "Tint"), ef("phase", "Phase"), fld("raw_b", "bytes"), fld("dbl", "double"),
		card(fld("rep_i64", "int64"), "repeated"), card(ef("rep_e", "Phase"), "repeated"), card(fld("rep_b", "bytes"), "repeated"),
		mp(fld("map_si", "int64"), "string"), mp(fld("map_is", "string"), "int32"), mp(mf("by_k", "Rich"), "string"),
		mf("kid", "Rich"), card(mf("kids", "Int64Child"), "repeated"), fld("flag", "bool"), mp(mf("map_bn", "Int64Child"), "string"),
		fld("u32", "uint32"), fld("flt", "float"))
	msg("UnwrapRoot", &ir.Field{Name: "entries", Kind: "message", TypeName: P + "RootList", Card: "map", MapKey: "string", Ann: ir.Ann{Unwrap: true}})

	// one message per per-field ("surgery") template with every variant of its annotation, so that
	// each of them is exercised in every tier
	ann := func(fl *ir.Field, a ir.Ann) *ir.Field { fl.Ann = a; return fl }
	msg("TsAll",
		ann(&ir.Field{Name: "t_rfc3339", Kind: "message", TypeName: tsType}, ir.Ann{TsFormat: "RFC3339"}),
		ann(&ir.Field{Name: "t_unix_seconds", Kind: "message", TypeName: tsType}, ir.Ann{TsFormat: "UNIX_SECONDS"}),
		ann(&ir.Field{Name: "t_unix_millis", Kind: "message", TypeName: tsType}, ir.Ann{TsFormat: "UNIX_MILLIS"}),
		ann(&ir.Field{Name: "t_date", Kind: "message", TypeName: tsType}, ir.Ann{TsFormat: "DATE"}),
		fld("note", "string"))
	msg("BytesAll",
		ann(fld("b_base64", "bytes"), ir.Ann{BytesEnc: "BASE64"}), ann(fld("b_base64_raw", "bytes"), ir.Ann{BytesEnc: "BASE64_RAW"}),
		ann(fld("b_base64url", "bytes"), ir.Ann{BytesEnc: "BASE64URL"}), ann(fld("b_base64url_raw", "bytes"), ir.Ann{BytesEnc: "BASE64URL_RAW"}),
		ann(fld("b_hex", "bytes"), ir.Ann{BytesEnc: "HEX"}), fld("plain_b", "bytes"),
		// proto3 `optional` bytes (they sit in a synthetic oneof) keep their encoding like any other
		ann(card(fld("b_opt_hex", "bytes"), "optional"), ir.Ann{BytesEnc: "HEX"}), ann(card(fld("b_opt_url", "bytes"), "optional"), ir.Ann{BytesEnc: "BASE64URL_RAW"}))
	msg("Int64All",
		ann(fld("big_s", "int64"), ir.Ann{Int64Enc: "NUMBER"}), ann(fld("big_u", "uint64"), ir.Ann{Int64Enc: "NUMBER"}),
		ann(card(fld("bigs", "sint64"), "repeated"), ir.Ann{Int64Enc: "NUMBER"}), ann(fld("as_str", "fixed64"), ir.Ann{Int64Enc: "STRING"}), fld("plain_i", "int64"))
	msg("NullableAll",
		ann(card(fld("maybe_s", "string"), "optional"), ir.Ann{Nullable: bp(true)}), ann(card(fld("maybe_i", "int64"), "optional"), ir.Ann{Nullable: bp(true)}),
		ann(card(fld("maybe_b", "bool"), "optional"), ir.Ann{Nullable: bp(true)}), fld("plain_s", "string"),
		// bytes: unset (nil) and present-but-empty ([]byte{}) are different values of an optional field
		ann(card(fld("maybe_y", "bytes"), "optional"), ir.Ann{Nullable: bp(true)}))
	// a nullable parent whose CHILD carries NUMBER-encoded 64-bit integers (their documented form is a bare JSON
	// number, beyond 2^53 too) next to plain 64-bit members: the parent's decoder hands the document on untouched
	msg("NullableWithBig",
		ann(card(fld("maybe_s", "string"), "optional"), ir.Ann{Nullable: bp(true)}), mf("bign", "Int64Child"), card(mf("bigns", "Int64Child"), "repeated"),
		fld("plain_u", "uint64"), card(fld("plain_is", "int64"), "repeated"))
	msg("EmptyAll",
		ann(mf("meta_preserve", "Spot"), ir.Ann{EmptyBehavior: "PRESERVE"}), ann(mf("meta_null", "Spot"), ir.Ann{EmptyBehavior: "NULL"}),
		ann(mf("meta_omit", "Spot"), ir.Ann{EmptyBehavior: "OMIT"}), fld("plain_s", "string"))

	svc := &ir.Service{Name: "CodecService", BasePath: "/api"}
	tops := []string{"FlattenTwo", "FlattenRich", "OneofFlat", "OneofNest", "OneofPairA", "OneofPairB", "UnwrapCont", "UnwrapRoot", "TsAll", "BytesAll", "Int64All", "NullableAll", "EmptyAll"}
	for i, t := range tops {
		svc.Methods = append(svc.Methods, &ir.Method{Name: fmt.Sprintf("Call%d", i), Input: P + t, Output: P + tops[(i+1)%len(tops)],
			Config: &ir.HTTPConfig{Path: fmt.Sprintf("/call%d", i), Method: "POST"}})
	}
	f.Services = append(f.Services, svc)
	return f
}

// distinctScalar is the n-th of a family of pairwise distinct, non-default values of fd's kind.
func distinctScalar(fd protoreflect.FieldDescriptor, n int) protoreflect.Value {
	switch fd.Kind() {
	case protoreflect.StringKind:
		return protoreflect.ValueOfString(fmt.Sprintf("v%d", n))
	case protoreflect.BoolKind:
		return protoreflect.ValueOfBool(n%2 == 1)
	case protoreflect.Int32Kind, protoreflect.Sint32Kind, protoreflect.Sfixed32Kind:
		return protoreflect.ValueOfInt32(int32(n + 1))
	case protoreflect.Int64Kind, protoreflect.Sint64Kind, protoreflect.Sfixed64Kind:
		return protoreflect.ValueOfInt64(int64(n + 1))
	case protoreflect.Uint32Kind, protoreflect.Fixed32Kind:
		return protoreflect.ValueOfUint32(uint32(n + 1))
	case protoreflect.Uint64Kind, protoreflect.Fixed64Kind:
		return protoreflect.ValueOfUint64(uint64(n + 1))
	case protoreflect.FloatKind:
		return protoreflect.ValueOfFloat32(float32(n) + 0.5)
	case protoreflect.DoubleKind:
		return protoreflect.ValueOfFloat64(float64(n) + 0.25)
	case protoreflect.BytesKind:
		return protoreflect.ValueOfBytes([]byte{byte(n + 1)})
	case protoreflect.EnumKind:
		vs := fd.Enum().Values()
		return protoreflect.ValueOfEnum(vs.Get((n % (vs.Len() - 1)) + 1).Number())
	}
	return protoreflect.Value{}
}

// fillFirst sets the first k scalar fields of m (all when k < 0) to distinct non-default values.
func fillFirst(m protoreflect.Message, k int, base int) {
	fds := m.Descriptor().Fields()
	set := 0
	for i := 0; i < fds.Len() && (k < 0 || set < k); i++ {
		fd := fds.Get(i)
		if fd.IsList() || fd.IsMap() || fd.Kind() == protoreflect.MessageKind || fd.ContainingOneof() != nil {
			continue
		}
		m.Set(fd, distinctScalar(fd, base+i))
		set++
	}
}

// CodecValues builds the directed values of a message type: the value shapes the codec templates
// are sensitive to and a sparse random draw rarely hits.
//   - every message-typed member of a real oneof set to the EMPTY message, and set with only its
//     first scalar field populated;
//   - every map<string, Wrapper> whose wrapper has a repeated unwrap field: three entries holding
//     lists of EQUAL length (two) and pairwise different content;
//   - every pair of singular fields of the same message type: the first fully populated, the later
//     ones with only their first scalar field set.
func CodecValues(md protoreflect.MessageDescriptor) []*dynamicpb.Message {
	var out []*dynamicpb.Message
	fds := md.Fields()
	// oneof members
	for i := 0; i < fds.Len(); i++ {
		fd := fds.Get(i)
		oo := fd.ContainingOneof()
		if oo == nil || oo.IsSynthetic() || fd.Kind() != protoreflect.MessageKind || fd.IsList() || fd.IsMap() {
			continue
		}
		for _, k := range []int{0, 1} {
			m := dynamicpb.NewMessage(md)
			fillFirst(m.ProtoReflect(), 1, 7)
			child := dynamicpb.NewMessage(fd.Message())
			fillFirst(child.ProtoReflect(), k, 3)
			m.Set(fd, protoreflect.ValueOfMessage(child))
			out = append(out, m)
		}
	}
	// unwrap maps
	for i := 0; i < fds.Len(); i++ {
		fd := fds.Get(i)
		if !fd.IsMap() || fd.MapKey().Kind() != protoreflect.StringKind || fd.MapValue().Kind() != protoreflect.MessageKind {
			continue
		}
		w := fd.MapValue().Message()
		if w.Fields().Len() != 1 || !w.Fields().Get(0).IsList() {
			continue
		}
		lf := w.Fields().Get(0)
		m := dynamicpb.NewMessage(md)
		mpv := m.Mutable(fd).Map()
		for e, key := range []string{"alice", "bob", "carol"} {
			wm := dynamicpb.NewMessage(w)
			l := wm.Mutable(lf).List()
			for j := 0; j < 2; j++ {
				if lf.Kind() == protoreflect.MessageKind {
					c := dynamicpb.NewMessage(lf.Message())
					fillFirst(c.ProtoReflect(), 1, e*2+j)
					l.Append(protoreflect.ValueOfMessage(c))
				} else {
					l.Append(distinctScalar(lf, e*2+j))
				}
			}
			mpv.Set(protoreflect.ValueOfString(key).MapKey(), protoreflect.ValueOfMessage(wm))
		}
		out = append(out, m)
	}
	// same-typed singular message fields
	byType := map[protoreflect.FullName][]protoreflect.FieldDescriptor{}
	var order []protoreflect.FullName
	for i := 0; i < fds.Len(); i++ {
		fd := fds.Get(i)
		if fd.Kind() != protoreflect.MessageKind || fd.IsList() || fd.IsMap() || fd.ContainingOneof() != nil {
			continue
		}
		n := fd.Message().FullName()
		if strings.HasPrefix(string(n), "google.protobuf.") {
			continue
		}
		if _, ok := byType[n]; !ok {
			order = append(order, n)
		}
		byType[n] = append(byType[n], fd)
	}
	for _, n := range order {
		group := byType[n]
		if len(group) < 2 {
			continue
		}
		m := dynamicpb.NewMessage(md)
		for gi, fd := range group {
			c := dynamicpb.NewMessage(fd.Message())
			if gi == 0 {
				fillFirst(c.ProtoReflect(), -1, 1)
			} else {
				fillFirst(c.ProtoReflect(), 1, 40+gi)
			}
			m.Set(fd, protoreflect.ValueOfMessage(c))
		}
		out = append(out, m)
	}
	return out
}
